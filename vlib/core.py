"""Shared infrastructure of the zstd model-based verification machinery.

build cache (objects compiled from /repo's *current working tree*), TLC runner,
trace validation, evidence writer, known-findings handling.
"""
import hashlib, json, os, re, shutil, subprocess, sys, time, glob, random

ROOT = os.path.dirname(os.path.dirname(os.path.abspath(__file__)))
REPO = os.environ.get("VERIF_REPO", "/repo")
BUILD = os.path.join(ROOT, "build")
OUT = os.path.join(ROOT, "out")
SPEC = os.path.join(ROOT, "spec")
HARNESS = os.path.join(ROOT, "harness")
EVID = os.path.join(ROOT, "evidence")
NCPU = os.cpu_count() or 8
GUARD = "ZSTD_VERIF_TRACE"

TLA_JAR = "/opt/veriftools/tla/tla2tools.jar"
TLA_CP = TLA_JAR + ":/opt/veriftools/tla/CommunityModules-deps.jar"


class InfraError(Exception):
    """Tooling failure (build error, TLC parse error, timeout): exit 2, never a VIOLATION."""


def log(*a):
    print(*a, file=sys.stderr, flush=True)


def sh(cmd, timeout=None, env=None, cwd=None, check=False, input=None):
    e = dict(os.environ)
    if env:
        e.update(env)
    try:
        p = subprocess.run(cmd, shell=isinstance(cmd, str), stdout=subprocess.PIPE,
                           stderr=subprocess.STDOUT, timeout=timeout, env=e, cwd=cwd,
                           input=input)
    except subprocess.TimeoutExpired as ex:
        out = ex.stdout.decode("utf-8", "replace") if ex.stdout else ""
        return 124, out
    out = p.stdout.decode("utf-8", "replace")
    if check and p.returncode != 0:
        raise InfraError("command failed (%d): %s\n%s" % (p.returncode, cmd, out[-4000:]))
    return p.returncode, out


# ------------------------------------------------------------------ build cache

LIB_DIRS = ["common", "compress", "decompress", "dictBuilder", "legacy", "deprecated"]

SAN = "-fsanitize=address,undefined -fno-sanitize-recover=all -fno-omit-frame-pointer"
VARIANTS = {
    # name: (compiler, cflags)
    "san": ("clang", "-O1 -g " + SAN + " -DDEBUGLEVEL=1 -DZSTD_MULTITHREAD -DZSTD_LEGACY_SUPPORT=5 -D" + GUARD),
    "sanq": ("clang", "-O1 -g " + SAN + " -DZSTD_MULTITHREAD -DZSTD_LEGACY_SUPPORT=5 -D" + GUARD),
    "opt": ("gcc", "-O2 -g -DZSTD_MULTITHREAD -DZSTD_LEGACY_SUPPORT=5 -D" + GUARD),
    "optnohook": ("gcc", "-O2 -DZSTD_MULTITHREAD -DZSTD_LEGACY_SUPPORT=5"),
    "tsan": ("clang", "-O1 -g -fsanitize=thread -DZSTD_MULTITHREAD -DZSTD_LEGACY_SUPPORT=0 -D" + GUARD),
    "ocf": ("gcc", "-O2 -g -DZSTD_MULTITHREAD -DZSTD_LEGACY_SUPPORT=0 -DZSTD_WINDOW_OVERFLOW_CORRECT_FREQUENTLY=1 -D" + GUARD),
    "ocfsan": ("clang", "-O1 -g " + SAN + " -DDEBUGLEVEL=1 -DZSTD_MULTITHREAD -DZSTD_LEGACY_SUPPORT=0 -DZSTD_WINDOW_OVERFLOW_CORRECT_FREQUENTLY=1 -D" + GUARD),
    # MemorySanitizer: reads of uninitialised memory (behaviour that depends on what the heap held before)
    "msan": ("clang", "-O1 -g -fsanitize=memory -fsanitize-memory-track-origins=2 -fno-omit-frame-pointer -DZSTD_MULTITHREAD -DZSTD_LEGACY_SUPPORT=5 -DZSTD_DISABLE_ASM -D" + GUARD),
    # decode-path variants (C04)
    "v_x1": ("clang", "-O1 -g " + SAN + " -DHUF_FORCE_DECOMPRESS_X1 -DZSTD_LEGACY_SUPPORT=0"),
    "v_x2": ("clang", "-O1 -g " + SAN + " -DHUF_FORCE_DECOMPRESS_X2 -DZSTD_LEGACY_SUPPORT=0"),
    "v_short": ("clang", "-O1 -g " + SAN + " -DZSTD_FORCE_DECOMPRESS_SEQUENCES_SHORT -DZSTD_LEGACY_SUPPORT=0"),
    "v_long": ("clang", "-O1 -g " + SAN + " -DZSTD_FORCE_DECOMPRESS_SEQUENCES_LONG -DZSTD_LEGACY_SUPPORT=0"),
    "v_noasm": ("clang", "-O1 -g " + SAN + " -DZSTD_DISABLE_ASM -DZSTD_LEGACY_SUPPORT=0"),
    "v_nobmi": ("gcc", "-O2 -DDYNAMIC_BMI2=0 -DZSTD_LEGACY_SUPPORT=0"),
    "v_noinline": ("gcc", "-O1 -DZSTD_NO_INLINE -DZSTD_LEGACY_SUPPORT=0"),
}


def _tree_hash(paths):
    h = hashlib.sha256()
    for p in sorted(paths):
        h.update(p.encode())
        with open(p, "rb") as f:
            h.update(f.read())
    return h.hexdigest()[:16]


def lib_sources(dirs=LIB_DIRS):
    srcs, hdrs = [], []
    for d in dirs:
        for f in sorted(os.listdir(os.path.join(REPO, "lib", d))):
            p = os.path.join(REPO, "lib", d, f)
            if f.endswith(".c") or f.endswith(".S"):
                srcs.append(p)
            elif f.endswith(".h"):
                hdrs.append(p)
    for f in ["zstd.h", "zdict.h", "zstd_errors.h"]:
        hdrs.append(os.path.join(REPO, "lib", f))
    return srcs, hdrs


def lib_includes():
    return " ".join("-I%s" % os.path.join(REPO, "lib", d) for d in ["", "common", "compress", "decompress", "dictBuilder", "legacy", "deprecated"])


def _parallel_compile(jobs, tag):
    """jobs: list of (cmd, out). Runs up to NCPU at once."""
    procs = []
    pending = list(jobs)
    failed = []
    while pending or procs:
        while pending and len(procs) < NCPU:
            cmd, out = pending.pop()
            procs.append((subprocess.Popen(cmd, shell=True, stdout=subprocess.PIPE, stderr=subprocess.STDOUT), cmd))
        still = []
        for p, cmd in procs:
            if p.poll() is None:
                still.append((p, cmd))
            elif p.returncode != 0:
                failed.append((cmd, p.stdout.read().decode("utf-8", "replace")))
        procs = still
        if procs:
            time.sleep(0.02)
    if failed:
        raise InfraError("build(%s) failed:\n%s\n%s" % (tag, failed[0][0], failed[0][1][-3000:]))


def build_lib(variant, exclude=()):
    """Compile the library from REPO's working tree for `variant`; returns (archive, cflags)."""
    cc, flags = VARIANTS[variant]
    srcs, hdrs = lib_sources()
    srcs = [s for s in srcs if os.path.basename(s) not in exclude]
    key = _tree_hash(srcs + hdrs) + hashlib.sha256((cc + flags + "|".join(exclude)).encode()).hexdigest()[:8]
    d = os.path.join(BUILD, "lib-%s-%s" % (variant, key))
    ar = os.path.join(d, "libzstd.a")
    cflags = "%s %s" % (flags, lib_includes())
    if os.path.exists(ar):
        return ar, cc, cflags
    # drop stale builds of the same variant
    for old in glob.glob(os.path.join(BUILD, "lib-%s-*" % variant)):
        shutil.rmtree(old, ignore_errors=True)
    tmp = d + ".tmp%d" % os.getpid()
    os.makedirs(tmp, exist_ok=True)
    jobs = []
    objs = []
    for s in srcs:
        o = os.path.join(tmp, os.path.basename(s).rsplit(".", 1)[0] + ".o")
        objs.append(o)
        jobs.append(("%s %s -w -c %s -o %s" % (cc, cflags, s, o), o))
    t0 = time.time()
    _parallel_compile(jobs, variant)
    sh("ar rcs %s %s" % (os.path.join(tmp, "libzstd.a"), " ".join(objs)), check=True)
    try:
        os.rename(tmp, d)
    except OSError:
        shutil.rmtree(tmp, ignore_errors=True)
    log("[build] lib variant %s in %.1fs" % (variant, time.time() - t0))
    return ar, cc, cflags


def build_exe(name, sources, variant, extra_cflags="", extra_ldflags="", link_lib=True, extra_deps=(), exclude=()):
    """Build a harness executable from harness/<sources> against the `variant` library."""
    ar, cc, cflags = build_lib(variant, exclude=exclude) if link_lib else (None,) + VARIANTS[variant][0:1] + (VARIANTS[variant][1] + " " + lib_includes(),)
    srcpaths = [s if os.path.isabs(s) else os.path.join(HARNESS, s) for s in sources]
    deps = srcpaths + glob.glob(os.path.join(HARNESS, "*.h")) + list(extra_deps)
    if not link_lib:
        s, h = lib_sources()
        deps += s + h
    key = _tree_hash(deps) + hashlib.sha256((str(ar) + cflags + extra_cflags + extra_ldflags).encode()).hexdigest()[:8]
    exe = os.path.join(BUILD, "exe", "%s-%s-%s" % (name, variant, key))
    if os.path.exists(exe):
        return exe
    os.makedirs(os.path.dirname(exe), exist_ok=True)
    for old in glob.glob(os.path.join(BUILD, "exe", "%s-%s-*" % (name, variant))):
        try:
            os.remove(old)
        except OSError:
            pass
    tmp = exe + ".tmp%d" % os.getpid()
    cmd = "%s %s %s -w -I%s %s %s %s -lpthread -o %s" % (cc, cflags, extra_cflags, HARNESS, " ".join(srcpaths), ar or "", extra_ldflags, tmp)
    t0 = time.time()
    rc, out = sh(cmd)
    if rc != 0:
        raise InfraError("build exe %s failed:\n%s\n%s" % (name, cmd, out[-4000:]))
    os.rename(tmp, exe)
    log("[build] exe %s (%s) in %.1fs" % (name, variant, time.time() - t0))
    return exe


# ------------------------------------------------------------------ TLC

_tlc_seq = [0]


def _metadir(tag):
    _tlc_seq[0] += 1
    d = os.path.join(OUT, "tlc", "%s-%d-%d" % (tag, os.getpid(), _tlc_seq[0]))
    shutil.rmtree(d, ignore_errors=True)
    os.makedirs(d, exist_ok=True)
    return d


class TlcResult:
    def __init__(self, rc, out, wall):
        self.rc, self.out, self.wall = rc, out, wall
        self.generated = self.distinct = 0
        m = re.findall(r"(\d+) states generated, (\d+) distinct states found", out)
        if m:
            self.generated, self.distinct = int(m[-1][0]), int(m[-1][1])
        m = re.search(r"The depth of the complete state graph search is (\d+)", out)
        self.depth = int(m.group(1)) if m else 0
        self.ok = (rc == 0) and ("Model checking completed. No error has been found" in out or "Finished in" in out)
        self.invariant_violated = None
        m = re.search(r"Invariant (\S+) is violated", out)
        if m:
            self.invariant_violated = m.group(1)
        if "Temporal properties were violated" in out:
            self.invariant_violated = self.invariant_violated or "temporal"
        m = re.search(r"Action property (\S+) is violated", out)
        if m:
            self.invariant_violated = m.group(1)
        if "Deadlock reached" in out:
            self.invariant_violated = self.invariant_violated or "deadlock"
        if re.search(r"Postcondition \S+ .* is false|The postcondition .* evaluated to FALSE|Evaluating assumption .* failed|Assumption .* is false", out):
            self.invariant_violated = self.invariant_violated or "postcondition"
        self.parse_error = ("Parsing or semantic analysis failed" in out) or ("TLC threw an unexpected exception" in out and not self.invariant_violated)
        self.violated = self.invariant_violated is not None

    def coverage(self):
        """per-action taken:generated from -coverage output"""
        cov = {}
        for m in re.finditer(r"<(\w+) line \d+, col \d+ to line \d+, col \d+ of module (\w+)>: (\d+):(\d+)", self.out):
            cov[m.group(1)] = (int(m.group(3)), int(m.group(4)))
        return cov


def run_tlc(module, cfg=None, workers=None, timeout=600, env=None, extra="", tag=None, simulate=None, depth=None,
            deadlock=True, jvm="", coverage=False, cwd=None, seed=None):
    """Runs TLC on spec/<module>.tla with spec/<cfg>. Raises InfraError on tooling failure."""
    cwd = cwd or SPEC
    cfg = cfg or (module + ".cfg")
    md = _metadir(tag or module)
    w = workers or NCPU
    args = ["java", "-XX:+UseParallelGC"] + (jvm.split() if jvm else ["-Xmx8g"]) + ["-cp", TLA_CP + ":" + SPEC, "tlc2.TLC",
            "-workers", str(w), "-metadir", md, "-config", cfg, "-noGenerateSpecTE"]
    if not deadlock:
        args.append("-deadlock")
    if simulate:
        args += ["-simulate", "num=%d" % simulate]
        if depth:
            args += ["-depth", str(depth)]
        if seed is not None:
            args += ["-seed", str(seed)]
    if coverage:
        args += ["-coverage", "1"]
    if extra:
        args += extra.split()
    args.append(module + ".tla")
    t0 = time.time()
    rc, out = sh(args, timeout=timeout, env=env, cwd=cwd)
    shutil.rmtree(md, ignore_errors=True)
    r = TlcResult(rc, out, time.time() - t0)
    if rc == 124:
        raise InfraError("TLC timeout (%ss) on %s/%s\n%s" % (timeout, module, cfg, out[-2000:]))
    if r.parse_error or (rc != 0 and not r.violated):
        raise InfraError("TLC failed rc=%d on %s/%s:\n%s" % (rc, module, cfg, out[-6000:]))
    return r


def validate_trace(module, cfg, tracefile, timeout=900, env=None, tag=None, dfs=False, extra_env=None):
    """Trace validation: TLC run with TRACE=<file>; accepted iff no violation of TraceAccepted postcondition.
    Returns (accepted, TlcResult). Model failure (parse) raises InfraError."""
    e = {"TRACE": tracefile}
    if extra_env:
        e.update(extra_env)
    jvm = "-Xmx8g -Xss64m"
    if dfs:
        jvm += " -Dtlc2.tool.queue.IStateQueue=StateDeque"
    r = run_tlc(module, cfg, workers=1, timeout=timeout, env=e, tag=tag or ("tv-" + module), jvm=jvm)
    return (not r.violated), r


def trace_diag(r):
    """Extracts diagnostic lines a trace spec printed (TRACE-REJECT ...) from a TLC run."""
    return [l for l in r.out.splitlines() if "TRACE-" in l or "is violated" in l or "evaluated to FALSE" in l][:20]


# ------------------------------------------------------------------ evidence / findings / reporting

def load_findings():
    p = os.path.join(ROOT, "known_findings.json")
    if not os.path.exists(p):
        return {"known": [], "fixed": []}
    with open(p) as f:
        return json.load(f)


class Check:
    """One run of one property check: collects stats, violations, writes evidence, decides exit code."""

    def __init__(self, pid, tier, level):
        self.pid, self.tier, self.level = pid, tier, level
        self.seed = int(os.environ.get("VERIF_SEED", "1") or "1")
        self.rng = random.Random(self.seed)
        self.t0 = time.time()
        self.cov = {"states": 0, "transitions": 0, "traces_validated_against_impl": 0, "samples": [],
                    "evaluations": 0, "distinct_nontrivial": 0, "models": [], "warnings": [], "known_findings_seen": []}
        self.assumptions = []
        self.violations = []
        self.known = [k for k in load_findings().get("known", []) if k.get("property") == pid]
        self._distinct = set()
        self.outdir = os.path.join(OUT, pid)
        os.makedirs(self.outdir, exist_ok=True)
        os.makedirs(os.path.join(self.outdir, "replay"), exist_ok=True)

    # --- accounting
    def model(self, name, r, constants=None):
        self.cov["states"] += r.distinct
        self.cov["transitions"] += r.generated
        self.cov["models"].append({"module": name, "distinct_states": r.distinct, "states_generated": r.generated,
                                   "depth": r.depth, "wall_s": round(r.wall, 1), "constants": constants or {}})

    def case(self, key=None, nontrivial=True):
        self.cov["evaluations"] += 1
        if nontrivial and key is not None:
            self._distinct.add(key)

    def sample(self, s, limit=6):
        if len(self.cov["samples"]) < limit:
            self.cov["samples"].append(s)

    def warn(self, w):
        log("[warn] " + w)
        if len(self.cov["warnings"]) < 50:
            self.cov["warnings"].append(w)

    def traces(self, n=1):
        self.cov["traces_validated_against_impl"] += n

    # --- reporting
    def replay_path(self, name, obj):
        p = os.path.join(self.outdir, "replay", name)
        with open(p, "w") as f:
            if isinstance(obj, (dict, list)):
                json.dump(obj, f, indent=1)
            else:
                f.write(obj)
        return p

    def violation(self, what, replay, ident=None):
        """ident: stable identity string matched against known findings."""
        for k in self.known:
            if ident is not None and k.get("ident") == ident:
                line = "KNOWN-FINDING: property=%s %s" % (self.pid, k.get("what", what))
                if ident not in self.cov["known_findings_seen"]:
                    print(line, flush=True)
                    self.cov["known_findings_seen"].append(ident)
                return False
        if ident is not None and any(v.get("ident") == ident for v in self.violations):
            return True      # same identity already reported in this run
        self.violations.append({"what": what, "replay": replay, "ident": ident})
        print("VIOLATION property=%s replay=%s" % (self.pid, replay), flush=True)
        log("   -> " + what)
        return True

    def finish(self, rule, explanation=None, exhaustive=None):
        self.cov["distinct_nontrivial"] = len(self._distinct)
        self.cov["rule"] = rule
        if explanation:
            self.cov["explanation"] = explanation
        if exhaustive is not None:
            self.cov["exhaustive"] = exhaustive
        ev = {"property_id": self.pid, "tier": self.tier, "seed": self.seed, "level": self.level,
              "coverage": self.cov, "assumptions": self.assumptions, "wall_s": round(time.time() - self.t0, 1),
              "violations": len(self.violations)}
        if self.violations:
            ev["violation_details"] = self.violations[:20]
        os.makedirs(EVID, exist_ok=True)
        with open(os.path.join(EVID, self.pid + ".json"), "w") as f:
            json.dump(ev, f, indent=1)
        log("[%s] %s tier: %d violations, %.1fs, states=%d traces=%d evals=%d distinct=%d" % (
            self.pid, self.tier, len(self.violations), ev["wall_s"], self.cov["states"],
            self.cov["traces_validated_against_impl"], self.cov["evaluations"], self.cov["distinct_nontrivial"]))
        return 1 if self.violations else 0


def write_ndjson(path, events):
    with open(path, "w") as f:
        for e in events:
            f.write(json.dumps(e, separators=(",", ":")) + "\n")


def read_ndjson(path):
    out = []
    with open(path) as f:
        for l in f:
            l = l.strip()
            if l:
                out.append(json.loads(l))
    return out
