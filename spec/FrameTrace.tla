----------------------------- MODULE FrameTrace -----------------------------
(***************************************************************************)
(* Format conformance and truthfulness of emitted frames (properties C05,   *)
(* C01, C08) as a monitor over the events of the independent reference      *)
(* decoder (harness/refdec.c = vendored doc/educational_decoder) run on     *)
(* what the library's compression entry points produced (harness/fmtdrv.c). *)
(* The format rules are those of doc/zstd_compression_format.md (RFC 8878): *)
(*   Window_Size, Block_Maximum_Size = min(Window_Size, 128 KiB), block     *)
(*   types, repeat-offset semantics and the window rule for every sequence, *)
(*   Frame_Content_Size, Content_Checksum = low 32 bits of XXH64(content),  *)
(*   Dictionary_ID - plus the interoperability rules the compressor keeps.  *)
(***************************************************************************)
EXTENDS Integers, Sequences, FiniteSets, TLC, Json, IOUtils

VARIABLES l, cs, hdr, nblocks, firstRLE, pos, libOK

vars == <<l, cs, hdr, nblocks, firstRLE, pos, libOK>>
Tr == ndJsonDeserialize(IOEnv.TRACE)
Ev == Tr[l]
Is(e) == l <= Len(Tr) /\ Ev.e = e /\ l' = l + 1

BlockMax == 131072
Min(a, b) == IF a < b THEN a ELSE b
Pow2(n) == IF n >= 31 THEN 2147483647 ELSE 2 ^ n
NoCase == [no |-> -1]
NoHdr == [window |-> 0]

FInit == l = 1 /\ TLCSet(1, 0) /\ cs = NoCase /\ hdr = NoHdr /\ nblocks = 0 /\ firstRLE = FALSE /\ pos = 0 /\ libOK = FALSE

\* parameter value of the case (0 when not given); simple entry points ignore the advanced parameters
Advanced == cs.api \in {"compress2", "stream", "streamflush"}
Param(id) == IF Advanced \/ (cs.api = "advanced" /\ id \in {"200", "201", "101"}) THEN cs.p[id] ELSE (IF id \in {"200", "202"} THEN 1 ELSE 0)
SizeKnown == cs.api # "streamflush" \/ cs.srcSize = 0

\* C06: a destination of ZSTD_compressBound(srcSize) bytes always suffices
Case == /\ Is("case")
        /\ Ev.ok
        /\ (Ev.api # "streamflush") => Ev.csize <= Ev.bound     \* (the bound is for single-pass compression; every flush adds a block header)
        /\ cs' = Ev /\ hdr' = NoHdr /\ nblocks' = 0 /\ firstRLE' = FALSE /\ pos' = 0 /\ libOK' = FALSE

\* C01: the library's own decoder returns exactly the original bytes
LibDec == /\ Is("libdec") /\ Ev.ok /\ Ev.match /\ libOK' = TRUE
          /\ UNCHANGED <<cs, hdr, nblocks, firstRLE, pos>>

\* the header tells the truth
RFrame == /\ Is("rFrame") /\ Ev.n = 0
          /\ (Param("200") = 1 /\ SizeKnown) => Ev.fcs = cs.srcSize
          /\ (Param("200") = 0) => Ev.fcs = -1
          /\ Ev.fcs # -1 => Ev.fcs = cs.srcSize
          /\ Ev.checksum = (IF Param("201") # 0 THEN 1 ELSE 0)        \* (any non-zero value of the frame parameter asks for a checksum)
          /\ Ev.dictID = (IF cs.usedDict = 1 /\ Param("202") = 1 THEN cs.dictID ELSE 0)
          /\ (Ev.single = 1) => Ev.window = cs.srcSize
          /\ (Ev.single = 0 /\ Param("101") # 0) => Ev.window <= Pow2(Param("101"))
          /\ Ev.window >= 0
          /\ hdr' = Ev /\ nblocks' = 0 /\ pos' = 0 /\ firstRLE' = FALSE
          /\ UNCHANGED <<cs, libOK>>

MaxBlockParam == IF Advanced /\ cs.p["1015"] # 0 THEN cs.p["1015"] ELSE BlockMax

RBlock == /\ Is("rBlock")
          /\ Ev.k = nblocks /\ Ev.pos = pos
          /\ Ev.type \in {0, 1, 2}
          \* no block regenerates more than the declared block-size limit (format) nor more than the requested maximum
          /\ Ev.regen <= BlockMax
          /\ (hdr.single = 0) => Ev.regen <= Min(BlockMax, IF hdr.window > 0 THEN hdr.window ELSE BlockMax)
          /\ Ev.regen <= MaxBlockParam
          \* interoperability rules kept by the compressor
          /\ (Ev.type = 2) => Ev.csize < Ev.regen             \* no compressed block as large as its content
          /\ (Ev.type = 2) => Ev.csize >= 2
          /\ (nblocks = 0 /\ Ev.type = 1) => Ev.last = 1      \* an RLE first block is the only block
          /\ nblocks' = nblocks + 1 /\ pos' = pos + Ev.regen
          /\ firstRLE' = (nblocks = 0 /\ Ev.type = 1)
          /\ UNCHANGED <<cs, hdr, libOK>>

\* the window rule, sequence by sequence (logged for the small cases; the reference decoder enforces it on all)
RSeq == /\ Is("rSeq")
        /\ Ev.off >= 1 /\ Ev.ml >= 3
        /\ IF Ev.pos > hdr.window THEN Ev.off <= hdr.window ELSE Ev.off <= Ev.pos + hdr.dictLen
        /\ UNCHANGED <<cs, hdr, nblocks, firstRLE, pos, libOK>>

RFrameEnd == /\ Is("rFrameEnd")
             /\ Ev.checksumOK /\ Ev.fcsOK /\ Ev.size = cs.srcSize /\ Ev.blocks = nblocks /\ pos = cs.srcSize
             /\ UNCHANGED <<cs, hdr, nblocks, firstRLE, pos, libOK>>

\* the independent decoder accepts the frame and regenerates the input (and the library's decoder was consulted too)
RefDec == /\ Is("refdec") /\ Ev.ok /\ Ev.match /\ libOK
          /\ UNCHANGED <<cs, hdr, nblocks, firstRLE, pos, libOK>>

End == Is("end") /\ UNCHANGED <<cs, hdr, nblocks, firstRLE, pos, libOK>>

FNext == Case \/ LibDec \/ RFrame \/ RBlock \/ RSeq \/ RFrameEnd \/ RefDec \/ End

Track == IF l > TLCGet(1) THEN TLCSet(1, l) ELSE TRUE
TraceAccepted == IF TLCGet(1) = Len(Tr) + 1 THEN TRUE
                 ELSE /\ PrintT(<<"TRACE-REJECT matched", TLCGet(1) - 1, "of", Len(Tr), "next line", IF TLCGet(1) <= Len(Tr) THEN Tr[TLCGet(1)] ELSE <<>> >>)
                      /\ FALSE
=============================================================================
