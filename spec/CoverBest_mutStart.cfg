SPECIFICATION Spec
CONSTANTS
  Ctxs = 2
  JobsPer = 2
  Workers = 2
  Size <- SizeSmall
  StartInJob = TRUE
  DestroyWaits = TRUE
INVARIANTS NoUseAfterDestroy
CHECK_DEADLOCK FALSE
