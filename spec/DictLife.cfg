SPECIFICATION Spec
CONSTANTS
  Dicts = {0, 7, 9}
  MaxOps = 5
INVARIANTS NoSilentWrongID IDTruthful
