SPECIFICATION Spec
CONSTANTS
  Geoms = {"g1", "g2"}
  MaxIdx = 12
  MaxHist = 3
  KeepLow = FALSE
  StickyPrice = FALSE
INVARIANTS NoStaleReach
CHECK_DEADLOCK FALSE
