INIT CInit
NEXT CNext
CONSTRAINT Track
POSTCONDITION TraceAccepted
CHECK_DEADLOCK FALSE
