SPECIFICATION Spec
CONSTANTS
  NW = 2
  Slots = 4
  Sec = 2
  Pre = 1
  Win = 2
  Total = 14
  CheckInUse = TRUE
INVARIANTS TypeOK NoOverlap InsideBuffer SerialInOrder OutInOrder Ring PrefixSize
CHECK_DEADLOCK TRUE
