INIT TInit
NEXT TNext
CONSTANTS
  Dicts = {}
  MaxOps = 0
CONSTRAINT Track
POSTCONDITION TraceAccepted
CHECK_DEADLOCK FALSE
