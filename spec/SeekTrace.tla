------------------------------ MODULE SeekTrace ------------------------------
(***************************************************************************)
(* Trace validation for property C20 (harness/seekdrv.c).  Contract: the    *)
(* archive is a sequence of frames + a seek table that agrees with an       *)
(* independent walk, a regular decoder regenerates the content, every read  *)
(* through every access mode returns exactly the requested bytes, and reads *)
(* of a corrupted archive are errors or (checksum on) still the right       *)
(* bytes.  With CheckCursor the reader's cursor (curFrame, decompressed     *)
(* offset) is also compared with the read loop of Seekable.tla run on the   *)
(* archive's real frame sizes (tight layer).                                *)
(***************************************************************************)
EXTENDS Seekable, Json, IOUtils

CONSTANT CheckCursor
VARIABLES l, size, chk, corrupted
tvars == <<l, size, chk, corrupted>>
Tr == ndJsonDeserialize(IOEnv.TRACE)
Ev == Tr[l]
Is(e) == l <= Len(Tr) /\ Ev.e = e /\ l' = l + 1
Keep == UNCHANGED <<phase, written, cur, nreads, lastOK>>

TInit == /\ l = 1 /\ TLCSet(1, 0) /\ size = 0 /\ chk = 0 /\ corrupted = FALSE
         /\ phase = "read" /\ written = 0 /\ cur = 0 /\ frames = <<>> /\ curFrame = 0 /\ dOff = 0 /\ nreads = 0 /\ lastOK = TRUE

Arch == /\ Is("arch") /\ Ev.ok
        /\ size' = Ev.size /\ chk' = Ev.checksum /\ corrupted' = FALSE /\ frames' = <<>> /\ curFrame' = 0 /\ dOff' = 0 /\ Keep

\* the seek table tells the truth about the frames that precede it
Table == /\ Is("table")
         /\ Ev.walkOK /\ Ev.tableOK /\ Ev.consistent /\ Ev.accessorsOK
         /\ Ev.entries = Ev.frames /\ Ev.sumD = size /\ Ev.sumC = Ev.tableStart
         /\ frames' = Ev.sizes /\ curFrame' = 0 /\ dOff' = 0
         /\ UNCHANGED <<size, chk, corrupted>> /\ Keep

Regular == /\ Is("regular") /\ Ev.ok /\ Ev.match /\ UNCHANGED <<size, chk, corrupted, frames, curFrame, dOff>> /\ Keep
Frames == /\ Is("frames") /\ Ev.ok /\ UNCHANGED <<size, chk, corrupted, frames, curFrame, dOff>> /\ Keep

InitR == /\ Is("init") /\ Ev.ok /\ curFrame' = 0 /\ dOff' = 0 /\ UNCHANGED <<size, chk, corrupted, frames>> /\ Keep

\* reads inside the content: exactly the requested bytes, nothing written beyond the caller's buffer
ReadR == /\ Is("read") /\ Ev.off + Ev.len <= size
         /\ Ev.ok /\ Ev.ret = Ev.len /\ Ev.match /\ Ev.guard
         /\ IF CheckCursor /\ Ev.len > 0 /\ frames # <<>> /\ Len(frames) <= 120      \* (the tight layer is evaluated on archives of up to 120 frames)
            THEN LET r == DecodeI(Ev.off, Ev.len, FrameOf(Ev.off), curFrame, dOff) IN
                 /\ r[1] = Ev.off + Ev.len
                 /\ Ev.curFrame + 1 = r[2] /\ Ev.dOff = r[3]
                 /\ curFrame' = r[2] /\ dOff' = r[3]
            ELSE curFrame' = Ev.curFrame + 1 /\ dOff' = Ev.dOff
         /\ UNCHANGED <<size, chk, corrupted, frames>> /\ Keep

\* corrupted archives: safe, and never wrong data reported as success when checksums are on
Corrupt == /\ Is("corrupt") /\ corrupted' = TRUE /\ UNCHANGED <<size, chk, frames, curFrame, dOff>> /\ Keep
CInit == /\ Is("cinit") /\ UNCHANGED <<size, chk, corrupted, frames, curFrame, dOff>> /\ Keep
CRead == /\ Is("cread") /\ Ev.guard
         \* checksums are per frame: only a read made of complete frames is guaranteed to detect damage
         \* (a damaged but self-consistent seek table describes another content: undetectable, only memory safety is required there)
         /\ (Ev.ok /\ chk = 1 /\ Ev.whole /\ ~Ev.tableDamaged) => Ev.match
         /\ Ev.ok => Ev.ret <= Ev.len
         /\ UNCHANGED <<size, chk, corrupted, frames, curFrame, dOff>> /\ Keep
End == Is("end") /\ UNCHANGED <<size, chk, corrupted, frames, curFrame, dOff>> /\ Keep

TNext == Arch \/ Table \/ Regular \/ Frames \/ InitR \/ ReadR \/ Corrupt \/ CInit \/ CRead \/ End
Track == IF l > TLCGet(1) THEN TLCSet(1, l) ELSE TRUE
TraceAccepted == IF TLCGet(1) = Len(Tr) + 1 THEN TRUE
                 ELSE /\ PrintT(<<"TRACE-REJECT matched", TLCGet(1) - 1, "of", Len(Tr), "next line", IF TLCGet(1) <= Len(Tr) THEN [x \in DOMAIN Tr[TLCGet(1)] \ {"sizes"} |-> Tr[TLCGet(1)][x]] ELSE <<>> >>)
                      /\ FALSE
=============================================================================
