INIT Init
NEXT Next
CONSTANTS
  Configs <- MCConfigs
  Skels <- MCSkels
INVARIANTS TypeOK AtMostOnce TryAddHonest JoinJobsPost FreePost ExactlyOnceAtEnd QueueBound BusyBound
