INIT TInit
NEXT TNext
CONSTANTS
  RingSize = 1
  MaxDist = 1
  CycleLog = 1
  MaxBlock = 1
  IdxMax = 1
  HashRead = 8
  OverlapAlways = TRUE
CONSTRAINT Track
INVARIANT Stats
POSTCONDITION TraceAccepted
CHECK_DEADLOCK FALSE
