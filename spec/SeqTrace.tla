------------------------------ MODULE SeqTrace ------------------------------
(***************************************************************************)
(* Trace validation for property C17: every recorded call of                *)
(* ZSTD_compressSequences / ZSTD_compress2-with-producer (harness/seqdrv.c) *)
(* is judged by the rules of SeqApi.tla: with validation enabled the call   *)
(* succeeds exactly when the list is structurally valid, and an accepted    *)
(* call yields a frame that the library and the independent reference       *)
(* decoder both decode to the source.                                       *)
(***************************************************************************)
EXTENDS SeqApi, Json, IOUtils

VARIABLES l, pending    \* pending: the last case succeeded and its two decodes are still to be seen
vars == <<l, pending>>
Tr == ndJsonDeserialize(IOEnv.TRACE)
Ev == Tr[l]
Is(e) == l <= Len(Tr) /\ Ev.e = e /\ l' = l + 1

TInit == l = 1 /\ TLCSet(1, 0) /\ pending = 0

SpecVerdict(e) == IF e.delim = 1 THEN VerdictDelim(e.list, e.win, e.dict, e.minMatch, FALSE, e.srcSize, e.blockSize)
                  ELSE VerdictNoDelim(e.list, e.win, e.dict, e.minMatch, FALSE)

SeqCase == /\ Is("seqcase") /\ pending = 0
           /\ (Ev.validate = 1) => (Ev.ok <=> SpecVerdict(Ev))       \* refused exactly when a structural rule is broken
           /\ (Ev.validate = 0 /\ SpecVerdict(Ev)) => Ev.ok          \* valid parses are always accepted
           /\ pending' = IF Ev.ok /\ SpecVerdict(Ev) THEN 2 ELSE IF Ev.ok THEN -2 ELSE 0

\* the library's own extracted sequences are a valid parse: accepted and round-tripping
\* (ZSTD_generateSequences is documented as "not guaranteed to succeed"; when it does, its output must be accepted)
GenCase == /\ Is("gencase") /\ pending = 0 /\ (Ev.nseq >= 0 => Ev.ok) /\ pending' = IF Ev.ok THEN 2 ELSE 0

\* external producer: its failure fails the call, unless fallback to the internal parser is enabled
ProdCase == /\ Is("prodcase") /\ pending = 0
            /\ Ev.ok <=> (Ev.fails = 0 \/ Ev.fallback = 1)
            /\ pending' = IF Ev.ok THEN 2 ELSE 0

\* decodes of an accepted valid parse must succeed and match; decodes of an (out-of-scope) accepted list only need to return
LibDec == /\ Is("libdec") /\ pending \in {2, -2} /\ (pending = 2 => (Ev.ok /\ Ev.match)) /\ pending' = IF pending = 2 THEN 1 ELSE -1
RefDec == /\ Is("refdec") /\ pending \in {1, -1} /\ (pending = 1 => (Ev.ok /\ Ev.match)) /\ pending' = 0
Ref == /\ l <= Len(Tr) /\ Ev.e \in {"rFrame", "rBlock", "rFrameEnd", "rSeq", "dseqskip"} /\ l' = l + 1 /\ UNCHANGED pending
End == Is("end") /\ pending = 0 /\ UNCHANGED pending

TNext == SeqCase \/ GenCase \/ ProdCase \/ LibDec \/ RefDec \/ Ref \/ End
Track == IF l > TLCGet(1) THEN TLCSet(1, l) ELSE TRUE
TraceAccepted == IF TLCGet(1) = Len(Tr) + 1 THEN TRUE
                 ELSE /\ PrintT(<<"TRACE-REJECT matched", TLCGet(1) - 1, "of", Len(Tr), "next line", IF TLCGet(1) <= Len(Tr) THEN Tr[TLCGet(1)] ELSE <<>> >>)
                      /\ FALSE
=============================================================================
