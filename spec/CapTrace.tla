------------------------------ MODULE CapTrace ------------------------------
(***************************************************************************)
(* Trace validation for property C06 (harness/capdrv.c).  Every buffer the *)
(* driver hands to the library ends at an inaccessible page, so a write or *)
(* read beyond a declared size stops the driver (reported by the check);   *)
(* what reaches this specification are the sweeps that ran to completion:  *)
(*  csweep  one compression entry point, one input, every capacity of a    *)
(*          boundary set (0..24, around every block boundary of the        *)
(*          unconstrained output, around the final size, around the bound) *)
(*  dsweep  one decompression entry point on a valid frame under a set of  *)
(*          capacities, then on damaged copies under arbitrary capacities  *)
(*  inspect frame inspectors against what the decoder really does          *)
(***************************************************************************)
EXTENDS Naturals, Sequences, TLC, Json, IOUtils

VARIABLE l
Tr == ndJsonDeserialize(IOEnv.TRACE)
Ev == Tr[l]
Is(e) == l <= Len(Tr) /\ Ev.e = e /\ l' = l + 1
TInit == l = 1 /\ TLCSet(1, 0)

\* ZSTD_COMPRESSBOUND, as in Capacity.tla
Bound(n) == n + (n \div 256) + (IF n < 131072 THEN (131072 - n) \div 2048 ELSE 0)

\* (ZSTD_generateSequences may decline an input, e.g. one byte: then there is nothing to sweep)
CSweepSkipped == Is("csweep") /\ ~Ev.refok /\ Ev.err = "generateSequences"
CSweep == /\ Is("csweep")
          /\ Ev.refok                                   \* with room to spare every entry point succeeds
          /\ Ev.okOverCap = 0 /\ Ev.posOver = 0         \* a success never reports more than the capacity / pos <= size
          /\ Ev.canary = 0                              \* nothing written in front of the buffer
          /\ Ev.okWrong = 0                             \* a success is a frame that decodes to the input: never corruption
          /\ Ev.errAtBound = 0                          \* compressBound bytes suffice for single-pass entry points; streaming works with any capacity >= 1
          /\ Ev.otherErr = 0                            \* too little room is reported as such
          /\ (Ev.api \in {"compress2", "compressCCtx", "usingDict", "sequences", "mt"} => Ev.bound = Bound(Ev.n))
          /\ Ev.final <= Ev.bound + 64
DSweep == /\ Is("dsweep")
          /\ Ev.refok
          /\ Ev.okOverCap = 0 /\ Ev.posOver = 0 /\ Ev.canary = 0
          /\ Ev.okWrong = 0 /\ Ev.okBelow = 0           \* with too little room: an error, never a short or wrong result reported as success
          /\ Ev.errAtFinal = 0                          \* the regenerated size is enough room
          /\ Ev.dmgOver = 0                             \* damaged input: error or n <= capacity
Inspect == /\ Is("inspect")
           /\ Ev.findOk                                  \* findFrameCompressedSize = the frame's size ...
           /\ Ev.consumedOk /\ Ev.shortFail              \* ... = what the decoder consumes; one byte less is not a frame
           /\ Ev.fcsOk                                   \* a content-size field, when present, is the regenerated size
           /\ Ev.boundOk                                 \* decompressBound >= regenerated size
           /\ (Ev.anyUnknown => ~Ev.fdsKnown) /\ ((~Ev.anyUnknown) => (Ev.fdsKnown /\ Ev.fdsOk))     \* findDecompressedSize
           /\ (~Ev.marginErr) /\ Ev.inplaceOk            \* in-place decoding with the advertised margin succeeds
Other == /\ l <= Len(Tr) /\ Ev.e \in {"op", "end"} /\ l' = l + 1
TNext == CSweepSkipped \/ CSweep \/ DSweep \/ Inspect \/ Other
Track == IF l > TLCGet(1) THEN TLCSet(1, l) ELSE TRUE
TraceAccepted == IF TLCGet(1) = Len(Tr) + 1 THEN TRUE
                 ELSE /\ PrintT(<<"TRACE-REJECT matched", TLCGet(1) - 1, "of", Len(Tr), "next line", IF TLCGet(1) <= Len(Tr) THEN Tr[TLCGet(1)] ELSE <<>> >>)
                      /\ FALSE
=============================================================================
