SPECIFICATION FairSpec
CONSTANTS
  N = 4
  B = 2
  H = 1
  E = 1
  InSizes = {1, 3}
  OutSizes = {1, 4}
  DInSizes = {1, 4}
  DOutSizes = {1, 3}
INVARIANTS TypeOK DoneExact
PROPERTY Finishes
