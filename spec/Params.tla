------------------------------- MODULE Params -------------------------------
(***************************************************************************)
(* The parameter interface of ZSTD_CCtx / ZSTD_CCtx_params / ZSTD_DCtx      *)
(* (property C16): bounds, accepted range, read-back, stickiness, reset and *)
(* stage rules.                                                             *)
(*                                                                         *)
(* The bounds table below is typed in from the documentation constants of   *)
(* lib/zstd.h (ZSTD_*_MIN / ZSTD_*_MAX, enum ranges), NOT read from         *)
(* ZSTD_cParam_getBounds(): a wrong bound in the code must not propagate    *)
(* into the oracle.  64-bit build assumed (WINDOWLOG_MAX 31, CHAINLOG 30).  *)
(*                                                                         *)
(* Two layers:                                                              *)
(*  - Contract: what the property demands of every set/get/reset/frame      *)
(*    event (used to monitor recorded traces in ParamsTrace.tla; the only   *)
(*    layer whose violation raises an alarm);                               *)
(*  - Design: the deterministic behaviour the code is believed to have      *)
(*    (one "shape" per parameter).  TLC checks Design => Contract for       *)
(*    every history of the bounded model below and generates histories      *)
(*    that are replayed on the real code.                                   *)
(***************************************************************************)
EXTENDS Integers, Sequences, FiniteSets, TLC

IntMax == 2147483647
IntMin == -2147483647 - 1

(* name, id (value of the enum in zstd.h), lo, hi, zero = 0 is a documented  *)
(* "use default" sentinel outside [lo,hi], shape, def = default read-back,   *)
(* upd = may be updated mid-frame (zstd.h: level, hashLog, chainLog,         *)
(* searchLog, minMatch, targetLength, strategy).                             *)
P(n, i, lo, hi, z, sh, d, u) == [name |-> n, id |-> i, lo |-> lo, hi |-> hi, zero |-> z, shape |-> sh, def |-> d, upd |-> u]

CTable == <<
  P("compressionLevel", 100, -131072, 22, FALSE, "level", 3, TRUE),
  P("windowLog", 101, 10, 31, TRUE, "strict0", 0, FALSE),
  P("hashLog", 102, 6, 30, TRUE, "strict0", 0, TRUE),
  P("chainLog", 103, 6, 30, TRUE, "strict0", 0, TRUE),
  P("searchLog", 104, 1, 30, TRUE, "strict0", 0, TRUE),
  P("minMatch", 105, 3, 7, TRUE, "strict0", 0, TRUE),
  P("targetLength", 106, 0, 131072, FALSE, "strict", 0, TRUE),
  P("strategy", 107, 1, 9, TRUE, "strict0", 0, TRUE),
  P("targetCBlockSize", 130, 1340, 131072, TRUE, "floor0", 0, FALSE),
  P("enableLongDistanceMatching", 160, 0, 2, FALSE, "strict", 0, FALSE),
  P("ldmHashLog", 161, 6, 30, TRUE, "strict0", 0, FALSE),
  P("ldmMinMatch", 162, 4, 4096, TRUE, "strict0", 0, FALSE),
  P("ldmBucketSizeLog", 163, 1, 8, TRUE, "strict0", 0, FALSE),
  P("ldmHashRateLog", 164, 0, 25, FALSE, "strict", 0, FALSE),
  P("contentSizeFlag", 200, 0, 1, FALSE, "bool", 1, FALSE),
  P("checksumFlag", 201, 0, 1, FALSE, "bool", 0, FALSE),
  P("dictIDFlag", 202, 0, 1, FALSE, "bool", 1, FALSE),
  P("nbWorkers", 400, 0, 256, FALSE, "clamp", 0, FALSE),
  P("jobSize", 401, 0, 1073741824, FALSE, "jobsize", 0, FALSE),
  P("overlapLog", 402, 0, 9, FALSE, "clamp", 0, FALSE),
  P("rsyncable", 500, 0, 1, FALSE, "clamp", 0, FALSE),
  P("format", 10, 0, 1, FALSE, "strict", 0, FALSE),
  P("forceMaxWindow", 1000, 0, 1, FALSE, "bool", 0, FALSE),
  P("forceAttachDict", 1001, 0, 3, FALSE, "strict", 0, FALSE),
  P("literalCompressionMode", 1002, 0, 2, FALSE, "strict", 0, FALSE),
  P("srcSizeHint", 1004, 0, IntMax, FALSE, "strict", 0, FALSE),
  P("enableDedicatedDictSearch", 1005, 0, 1, FALSE, "bool", 0, FALSE),
  P("stableInBuffer", 1006, 0, 1, FALSE, "strict", 0, FALSE),
  P("stableOutBuffer", 1007, 0, 1, FALSE, "strict", 0, FALSE),
  P("blockDelimiters", 1008, 0, 1, FALSE, "strict", 0, FALSE),
  P("validateSequences", 1009, 0, 1, FALSE, "strict", 0, FALSE),
  P("useBlockSplitter", 1010, 0, 2, FALSE, "strict", 0, FALSE),
  P("useRowMatchFinder", 1011, 0, 2, FALSE, "strict", 0, FALSE),
  P("deterministicRefPrefix", 1012, 0, 1, FALSE, "strict", 0, FALSE),
  P("prefetchCDictTables", 1013, 0, 2, FALSE, "strict", 0, FALSE),
  P("enableSeqProducerFallback", 1014, 0, 1, FALSE, "strict", 0, FALSE),
  P("maxBlockSize", 1015, 1024, 131072, TRUE, "strict0", 0, FALSE),
  P("searchForExternalRepcodes", 1016, 0, 2, FALSE, "strict", 0, FALSE)
>>

DTable == <<
  P("windowLogMax", 100, 10, 31, TRUE, "wlogmax", 27, FALSE),
  P("format", 1000, 0, 1, FALSE, "strict", 0, FALSE),
  P("stableOutBuffer", 1001, 0, 1, FALSE, "strict", 0, FALSE),
  P("forceIgnoreChecksum", 1002, 0, 1, FALSE, "strict", 0, FALSE),
  P("refMultipleDDicts", 1003, 0, 1, FALSE, "strict", 0, FALSE),
  P("disableHuffmanAssembly", 1004, 0, 1, FALSE, "strict", 0, FALSE),
  P("maxBlockSize", 1005, 1024, 131072, TRUE, "strict0", 0, FALSE)
>>

CNames == {CTable[i].name : i \in 1..Len(CTable)}
DNames == {DTable[i].name : i \in 1..Len(DTable)}
CRow(n) == CHOOSE r \in {CTable[i] : i \in 1..Len(CTable)} : r.name = n
DRow(n) == CHOOSE r \in {DTable[i] : i \in 1..Len(DTable)} : r.name = n
CDefaults == [n \in CNames |-> CRow(n).def]
DDefaults == [n \in DNames |-> DRow(n).def]

InB(r, v) == v >= r.lo /\ v <= r.hi
Clamp(r, v) == IF v < r.lo THEN r.lo ELSE IF v > r.hi THEN r.hi ELSE v

JobSizeMin == 524288

(* The documented normalisation of an in-range (or sentinel) value. *)
Norm(r, v) ==
    CASE r.shape = "level" -> (IF v = 0 THEN 3 ELSE v)
      [] r.shape = "bool" -> (IF v = 0 THEN 0 ELSE 1)
      [] r.shape = "jobsize" -> (IF v # 0 /\ v < JobSizeMin THEN JobSizeMin ELSE v)
      [] r.shape = "wlogmax" -> (IF v = 0 THEN 27 ELSE v)
      [] OTHER -> v

-----------------------------------------------------------------------------
(* CONTRACT.  A set call with value v, observed result ok and observed      *)
(* read-back nv of that parameter:                                          *)
(*   - v inside the advertised bounds (or the documented 0 sentinel) must   *)
(*     be accepted and read back as v or its documented normalised form;    *)
(*   - v outside is either rejected, or clamped to the nearest bound /      *)
(*     normalised as documented; whatever happens the stored value is       *)
(*     inside the bounds (or the sentinel).                                 *)
Acceptable(r, v) == InB(r, v) \/ (r.zero /\ v = 0)
Stored(r, nv) == InB(r, nv) \/ (r.zero /\ nv = 0)

SetOK(r, v, ok, old, nv) ==
    /\ Acceptable(r, v) => (ok /\ nv = Norm(r, v))
    /\ ~ok => nv = old                                   \* a rejected call changes nothing
    /\ (ok /\ ~Acceptable(r, v)) => nv \in {Clamp(r, v), Norm(r, Clamp(r, v)), Norm(r, v)}
    /\ Stored(r, nv)

-----------------------------------------------------------------------------
(* DESIGN: deterministic result of a set call per shape (what the code is   *)
(* believed to do).  Returns <<ok, newValue>>.                              *)
DesignSet(r, v, old) ==
    CASE r.shape = "strict"  -> IF InB(r, v) THEN <<TRUE, v>> ELSE <<FALSE, old>>
      [] r.shape = "strict0" -> IF v = 0 \/ InB(r, v) THEN <<TRUE, v>> ELSE <<FALSE, old>>
      [] r.shape = "wlogmax" -> IF v = 0 \/ InB(r, v) THEN <<TRUE, Norm(r, v)>> ELSE <<FALSE, old>>
      [] r.shape = "floor0"  -> IF v = 0 THEN <<TRUE, 0>>
                                ELSE IF Clamp(r, IF v < r.lo THEN r.lo ELSE v) = (IF v < r.lo THEN r.lo ELSE v)
                                     THEN <<TRUE, IF v < r.lo THEN r.lo ELSE v>> ELSE <<FALSE, old>>
      [] r.shape = "bool"    -> <<TRUE, Norm(r, v)>>
      [] r.shape = "clamp"   -> <<TRUE, Clamp(r, v)>>
      [] r.shape = "level"   -> <<TRUE, Norm(r, Clamp(r, v))>>
      [] r.shape = "jobsize" -> <<TRUE, Clamp(r, Norm(r, v))>>

(* boundary value grid of a parameter *)
Grid(r) == {r.lo - 1, r.lo, r.lo + 1, 0, r.def, r.hi - 1, r.hi, (IF r.hi = IntMax THEN r.hi ELSE r.hi + 1), IntMin, IntMax}
=============================================================================
