INIT GInit
NEXT GNext
CONSTANTS
  MaxLen = 2
  Win = 1024
  Dict = 0
  MinMatch = 4
INVARIANT Export
CHECK_DEADLOCK FALSE
