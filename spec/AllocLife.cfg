SPECIFICATION Spec
CONSTANTS
  N = 3
  AssignAt = 1
  NullCheck = TRUE
INVARIANTS NoCrash PairedFrees NoLeak FaultReported
