----------------------------- MODULE StreamTrace -----------------------------
(***************************************************************************)
(* Contract of the streaming API (properties C02, C09, C10) as a monitor    *)
(* over recorded call histories (harness/streamdrv.c): one ndjson line per  *)
(* public call with offered sizes, pos deltas and return value, plus        *)
(* observation events (independent decode of the emitted prefix, independent*)
(* frame walk, cuts, checksum flips).  The abstract state is byte counts.   *)
(* The predicates are those of Stream.tla (CCallOK, DCallOK, ...), which    *)
(* TLC checks on the abstract design for every segmentation.                *)
(***************************************************************************)
EXTENDS Integers, Sequences, FiniteSets, TLC, Json, IOUtils

VARIABLES l,
          cIn,        \* source bytes consumed by the compressor (all frames of this stream)
          cEm,        \* compressed bytes handed to the caller
          frameIn,    \* source offset at which the current frame started
          ending,     \* ZSTD_e_end issued and not yet completed
          pledged,    \* pledged size of the current frame, -1 if none
          flushed,    \* the last call completed a flush/end with nothing offered left
          ended,      \* the last call completed a frame
          cErr,       \* the compressor reported an error (context needs a reset)
          frames, srcEnds,   \* layout of the compressed stream (independent walk) and decoded size at each compressor frame end
          dIn, dOut, dErr

vars == <<l, cIn, cEm, frameIn, ending, pledged, flushed, ended, cErr, frames, srcEnds, dIn, dOut, dErr>>
Tr == ndJsonDeserialize(IOEnv.TRACE)
Ev == Tr[l]
Is(e) == l <= Len(Tr) /\ Ev.e = e /\ l' = l + 1

SInit == /\ l = 1 /\ TLCSet(1, 0)
         /\ cIn = 0 /\ cEm = 0 /\ frameIn = 0 /\ ending = FALSE /\ pledged = -1 /\ flushed = FALSE /\ ended = FALSE /\ cErr = FALSE
         /\ frames = <<>> /\ srcEnds = <<>> /\ dIn = 0 /\ dOut = 0 /\ dErr = FALSE

CNew == /\ Is("cnew")
        /\ cIn' = 0 /\ cEm' = 0 /\ frameIn' = 0 /\ ending' = FALSE /\ pledged' = -1 /\ flushed' = FALSE /\ ended' = FALSE /\ cErr' = FALSE
        /\ frames' = <<>> /\ srcEnds' = <<>> /\ dIn' = 0 /\ dOut' = 0 /\ dErr' = FALSE

MtKinds == {"mtInit", "mtRange", "mtWrap", "mtJobCreate", "mtJobPost", "mtJobEmptyLast", "mtSerial", "mtSerialSkipped", "mtSerialForce",
            "mtJobChunk", "mtJobEnd", "mtFlush", "mtJobDone"}     \* events of ZstdMTTrace.tla, not judged here
Info == /\ l <= Len(Tr) /\ Ev.e \in {"cparam", "dparam", "src", "api", "move", "end"} \cup MtKinds /\ l' = l + 1
        /\ UNCHANGED <<cIn, cEm, frameIn, ending, pledged, flushed, ended, cErr, frames, srcEnds, dIn, dOut, dErr>>

\* ZSTD_CCtx_reset(session_only) in the middle of a frame: the frame is abandoned, the context is as after a completed frame
CReset == /\ Is("creset") /\ Ev.ok
          /\ cIn' = Ev.srcPos /\ cEm' = Ev.emitted /\ frameIn' = Ev.srcPos
          /\ ending' = FALSE /\ pledged' = -1 /\ flushed' = FALSE /\ ended' = (Ev.emitted > 0) /\ cErr' = FALSE
          /\ UNCHANGED <<frames, srcEnds, dIn, dOut, dErr>>

Pledge == /\ Is("pledge") /\ Ev.ok /\ pledged' = Ev.n
          /\ UNCHANGED <<cIn, cEm, frameIn, ending, flushed, ended, cErr, frames, srcEnds, dIn, dOut, dErr>>

Skip == /\ Is("skip") /\ cEm' = Ev.emitted
        /\ UNCHANGED <<cIn, frameIn, ending, pledged, flushed, ended, cErr, frames, srcEnds, dIn, dOut, dErr>>

-----------------------------------------------------------------------------
\* Contract of one compression call that did not fail.
CCallOK(e) ==
    /\ e.inDelta <= e.inAvail /\ e.outDelta <= e.outAvail
    /\ e.srcPos = cIn + e.inDelta /\ e.emitted = cEm + e.outDelta
    \* progress (C10a): consumable input and writable output => something moves, or the directive completes
    /\ (e.inAvail > 0 /\ e.outAvail > 0) => (e.inDelta > 0 \/ e.outDelta > 0)     \* (stable-input mode may take back input it pretended to consume: inDelta < 0)
    /\ (e.inAvail = 0 /\ e.outAvail > 0 /\ e.dir # 0) => (e.outDelta > 0 \/ e.ret = 0)
    \* a flush / end directive reports completion only when every offered byte was taken
    /\ (e.dir # 0 /\ e.ret = 0 /\ e.fn \in {"compressStream2", "flushStream", "endStream", "ZBUFF_compressFlush", "ZBUFF_compressEnd"}) => e.inDelta = e.inAvail
    \* pledged size: a frame completes only if exactly the pledged number of bytes was supplied (C09)
    /\ (e.dir = 2 /\ e.ret = 0 /\ pledged >= 0) => (cIn + e.inDelta - frameIn = pledged)

\* When may a compression call fail at all?  Only for a broken pledge.
CErrOK(e) == pledged >= 0 /\ ( (cIn + e.inAvail - frameIn > pledged) \/ (e.dir = 2 /\ cIn + e.inAvail - frameIn # pledged) )

CCall == /\ Is("ccall") /\ ~cErr
         /\ IF Ev.ret >= 0
            THEN /\ CCallOK(Ev)
                 /\ cIn' = Ev.srcPos /\ cEm' = Ev.emitted
                 /\ ending' = (Ev.dir = 2 /\ ~(Ev.ret = 0 /\ Ev.inDelta = Ev.inAvail))
                 /\ flushed' = (Ev.dir # 0 /\ Ev.ret = 0 /\ Ev.inDelta = Ev.inAvail)
                 /\ ended' = (Ev.dir = 2 /\ Ev.ret = 0 /\ Ev.inDelta = Ev.inAvail)
                 /\ frameIn' = IF Ev.dir = 2 /\ Ev.ret = 0 /\ Ev.inDelta = Ev.inAvail THEN Ev.srcPos ELSE frameIn
                 /\ pledged' = IF Ev.dir = 2 /\ Ev.ret = 0 /\ Ev.inDelta = Ev.inAvail THEN -1 ELSE pledged
                 /\ cErr' = FALSE
            ELSE /\ CErrOK(Ev)
                 /\ Ev.outDelta <= Ev.outAvail
                 /\ cErr' = TRUE /\ cIn' = Ev.srcPos /\ cEm' = Ev.emitted
                 /\ UNCHANGED <<ending, flushed, ended, frameIn, pledged>>
         /\ UNCHANGED <<frames, srcEnds, dIn, dOut, dErr>>

\* after an error only bookkeeping lines follow until the next cnew
CCallAfterErr == /\ Is("ccall") /\ cErr /\ Ev.ret < 0
                 /\ UNCHANGED <<cIn, cEm, frameIn, ending, pledged, flushed, ended, cErr, frames, srcEnds, dIn, dOut, dErr>>

\* C10b / C02: once a flush (or end) reported completion, the bytes output so far regenerate exactly the bytes consumed so far
Prefix == /\ Is("prefix")
          /\ Ev.emitted = cEm /\ Ev.consumedSrc = cIn
          /\ ~Ev.err /\ Ev.match
          /\ flushed => (Ev.regen = cIn /\ Ev.allIn)
          /\ ~flushed => Ev.regen <= cIn
          /\ ended => Ev.atFrameEnd
          /\ UNCHANGED <<cIn, cEm, frameIn, ending, pledged, flushed, ended, cErr, frames, srcEnds, dIn, dOut, dErr>>

\* C05-lite / C02: what was emitted is a sequence of complete frames when the last call completed a frame
Layout == /\ Is("layout") /\ Ev.size = cEm
          /\ (ended \/ cEm = 0) => (Ev.walk = 0 /\ Ev.complete)
          \* C05: a Frame_Content_Size field, when present, tells the truth
          /\ (Ev.walk = 0 /\ Ev.complete) =>
                \A i \in 1..Len(Ev.frames) :
                    LET k == Cardinality({j \in 1..i : Ev.frames[j].skippable = 0}) IN
                    (Ev.frames[i].skippable = 0 /\ Ev.frames[i].fcs # -1 /\ k <= Len(Ev.srcEnds)) =>
                        Ev.frames[i].fcs = Ev.srcEnds[k] - (IF k = 1 THEN 0 ELSE Ev.srcEnds[k - 1])
          /\ frames' = Ev.frames /\ srcEnds' = Ev.srcEnds
          /\ UNCHANGED <<cIn, cEm, frameIn, ending, pledged, flushed, ended, cErr, dIn, dOut, dErr>>

-----------------------------------------------------------------------------
FrameEnds == {frames[i].end : i \in 1..Len(frames)}
\* decoded bytes expected once the stream has been consumed up to offset p (a frame end): skippable frames decode to nothing
NDone(p) == Cardinality({i \in 1..Len(frames) : frames[i].end <= p /\ frames[i].skippable = 0})
DecodedAt(p) == IF NDone(p) = 0 THEN 0 ELSE srcEnds[NDone(p)]
\* an upper bound on what may have been regenerated having consumed p bytes: everything of the frames begun
NBegun(p) == Cardinality({i \in 1..Len(frames) : frames[i].start < p /\ frames[i].skippable = 0})
MaxDecodedAt(p) == IF NBegun(p) = 0 THEN 0 ELSE srcEnds[NBegun(p)]

DNew == /\ Is("dnew") /\ dIn' = 0 /\ dOut' = 0 /\ dErr' = FALSE
        /\ UNCHANGED <<cIn, cEm, frameIn, ending, pledged, flushed, ended, cErr, frames, srcEnds>>

\* Contract of one decompression call on a valid stream (the stream was produced by the compressor and walked)
DCallOK(e) ==
    /\ e.ret >= 0                                       \* a valid stream never yields an error
    /\ e.inDelta <= e.inAvail /\ e.outDelta <= e.outAvail /\ e.match
    /\ e.dIn = dIn + e.inDelta /\ e.dOut = dOut + e.outDelta
    /\ e.dOut <= MaxDecodedAt(e.dIn)                    \* nothing is regenerated from bytes not yet read
    \* completion is reported exactly when the last byte of a frame is consumed and its output flushed
    /\ (e.ret = 0) => (e.dIn \in FrameEnds /\ e.dOut = DecodedAt(e.dIn))
    /\ (e.inDelta + e.outDelta > 0 /\ e.dIn \in FrameEnds /\ e.dOut = DecodedAt(e.dIn)) => e.ret = 0
    \* progress
    /\ (e.inAvail > 0 /\ e.outAvail > 0) => (e.inDelta + e.outDelta > 0 \/ e.ret = 0)

DCall == /\ Is("dcall") /\ Len(frames) > 0
         /\ DCallOK(Ev)
         /\ dIn' = Ev.dIn /\ dOut' = Ev.dOut /\ dErr' = FALSE
         /\ UNCHANGED <<cIn, cEm, frameIn, ending, pledged, flushed, ended, cErr, frames, srcEnds>>

\* C10c: a decoder fed exactly what it asks for never asks beyond the frame and consumes exactly the frame
DHint == /\ Is("dhint") /\ Len(frames) > 0
         /\ Ev.lastRet = 0 /\ ~Ev.askedBeyond
         /\ \E i \in 1..Len(frames) : frames[i].start = Ev.from /\ frames[i].end = Ev.from + Ev.consumed
         /\ dIn' = Ev.from + Ev.consumed /\ dOut' = Ev.dOut /\ dErr' = FALSE
         /\ Ev.dOut = DecodedAt(Ev.from + Ev.consumed)
         /\ UNCHANGED <<cIn, cEm, frameIn, ending, pledged, flushed, ended, cErr, frames, srcEnds>>

OneShot == /\ Is("oneshot")
           /\ Ev.complete => (Ev.ok /\ Ev.match)
           /\ ~Ev.complete => ~Ev.ok                     \* an incomplete stream is never accepted by single-call decoding
           /\ UNCHANGED <<cIn, cEm, frameIn, ending, pledged, flushed, ended, cErr, frames, srcEnds, dIn, dOut, dErr>>

\* C09: a non-empty proper prefix of a frame is never reported as completely decoded
Cut == /\ Is("cut")
       /\ ~Ev.oneshotOK /\ ~Ev.streamZero
       /\ UNCHANGED <<cIn, cEm, frameIn, ending, pledged, flushed, ended, cErr, frames, srcEnds, dIn, dOut, dErr>>

\* C09: damage confined to the stored checksum is detected
FlipSum == /\ Is("flipsum")
           /\ ~Ev.oneshotOK /\ ~Ev.streamDone
           /\ UNCHANGED <<cIn, cEm, frameIn, ending, pledged, flushed, ended, cErr, frames, srcEnds, dIn, dOut, dErr>>

\* C09: a content-size field that announces another size than the frame regenerates is reported by every decoder
FcsLie == /\ Is("fcslie")
          /\ ~Ev.oneshotOK /\ ~Ev.streamDone /\ ~Ev.chunkDone
          /\ UNCHANGED <<cIn, cEm, frameIn, ending, pledged, flushed, ended, cErr, frames, srcEnds, dIn, dOut, dErr>>

\* C09: trailing bytes that are not a frame make single-call decoding fail
Trail == /\ Is("trail") /\ (Ev.n > 0 => ~Ev.oneshotOK)
         /\ UNCHANGED <<cIn, cEm, frameIn, ending, pledged, flushed, ended, cErr, frames, srcEnds, dIn, dOut, dErr>>
\* C10: the recommended buffer sizes hold one full block (input) / one full compressed block + header + epilogue (output)
Sizes == /\ Is("sizes") /\ Ev.cin >= Ev.blockMax /\ Ev.cout >= Ev.bound /\ Ev.dout >= Ev.blockMax /\ Ev.din >= Ev.blockMax + 3
         /\ UNCHANGED <<cIn, cEm, frameIn, ending, pledged, flushed, ended, cErr, frames, srcEnds, dIn, dOut, dErr>>

SNext == FcsLie \/ CReset \/ Trail \/ Sizes \/ CNew \/ Info \/ Pledge \/ Skip \/ CCall \/ CCallAfterErr \/ Prefix \/ Layout \/ DNew \/ DCall \/ DHint \/ OneShot \/ Cut \/ FlipSum

Track == IF l > TLCGet(1) THEN TLCSet(1, l) ELSE TRUE
TraceAccepted == IF TLCGet(1) = Len(Tr) + 1 THEN TRUE
                 ELSE /\ PrintT(<<"TRACE-REJECT matched", TLCGet(1) - 1, "of", Len(Tr), "next line", IF TLCGet(1) <= Len(Tr) THEN Tr[TLCGet(1)] ELSE <<>> >>)
                      /\ FALSE
=============================================================================
