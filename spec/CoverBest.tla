------------------------------ MODULE CoverBest ------------------------------
(***************************************************************************)
(* Property C18 (race-freedom of the dictionary optimisers).               *)
(*                                                                         *)
(* Model of the job accounting of ZDICT_optimizeTrainFromBuffer_cover /    *)
(* _fastCover (lib/dictBuilder/cover.c, fastcover.c): for each value of d  *)
(* the submitter builds a context on its stack, registers one job per k    *)
(* (COVER_best_start: liveJobs++) and hands it to the pool, waits until    *)
(* liveJobs = 0 (COVER_best_wait), destroys the context and goes on to the *)
(* next d.  Workers take jobs, read the context, and report under the      *)
(* mutex (COVER_best_finish: liveJobs--, keep the candidate if it is       *)
(* strictly smaller, wake the waiter at 0).                                *)
(* TLC explores every interleaving: no job ever runs on a destroyed        *)
(* context, and the kept candidate is a smallest one.  The mutation        *)
(* StartInJob (the job registers itself when it begins instead of being    *)
(* registered by the submitter) must be rejected.                          *)
(* Error exit: when the submitter cannot allocate the data of the next job *)
(* it leaves through COVER_best_destroy (which waits for the jobs already  *)
(* handed out), COVER_ctx_destroy and POOL_free.  DestroyWaits = FALSE is  *)
(* the mutation in which the destroy no longer waits; it must be rejected. *)
(***************************************************************************)
EXTENDS Naturals, FiniteSets, TLC

CONSTANTS Ctxs,          \* number of contexts (values of d)
          JobsPer,       \* jobs per context (values of k)
          Workers,       \* worker threads
          Size,          \* Size[c][j]: compressed size the job (c, j) measures
          StartInJob,    \* FALSE: the design; TRUE: mutation
          DestroyWaits   \* TRUE: the design; FALSE: mutation (error exit destroys without waiting)

Jobs == {<<c, j>> : c \in 1..Ctxs, j \in 1..JobsPer}
\* size tables for the configurations (ties included: two jobs may measure the same size)
SizeSmall == <<<<5, 3>>, <<3, 4>>>>
SizeBig == <<<<5, 3, 3>>, <<3, 4, 6>>>>

VARIABLES cur,        \* context the submitter is working on (Ctxs + 1 = finished)
          sub,        \* jobs of `cur' submitted so far
          phase,      \* submitter: "submit" | "wait"
          alive,      \* set of contexts that exist
          queue,      \* jobs handed to the pool, not yet begun
          running,    \* jobs being executed
          done,       \* jobs reported
          liveJobs,
          best,       \* <<size, job>> kept, or <<0, <<0, 0>> >> when nothing kept yet
          uaf,        \* a job touched a destroyed context
          aborted     \* the submitter left through the error exit
vars == <<cur, sub, phase, alive, queue, running, done, liveJobs, best, uaf, aborted>>

Init == /\ cur = 1 /\ sub = 0 /\ phase = "submit" /\ alive = {1} /\ queue = {} /\ running = {} /\ done = {}
        /\ liveJobs = 0 /\ best = <<0, <<0, 0>> >> /\ uaf = FALSE /\ aborted = FALSE

\* COVER_best_start + POOL_add
Submit == /\ phase = "submit" /\ cur <= Ctxs /\ sub < JobsPer
          /\ sub' = sub + 1 /\ queue' = queue \cup {<<cur, sub + 1>>}
          /\ liveJobs' = IF StartInJob THEN liveJobs ELSE liveJobs + 1
          /\ UNCHANGED <<cur, phase, alive, running, done, best, uaf, aborted>>
AllSubmitted == /\ phase = "submit" /\ cur <= Ctxs /\ sub = JobsPer /\ phase' = "wait"
                /\ UNCHANGED <<cur, sub, alive, queue, running, done, liveJobs, best, uaf, aborted>>
\* COVER_best_wait returns when liveJobs = 0; then COVER_ctx_destroy and the next context
WaitDone == /\ phase = "wait" /\ liveJobs = 0
            /\ alive' = (alive \ {cur}) \cup (IF cur < Ctxs THEN {cur + 1} ELSE {})
            /\ cur' = cur + 1 /\ sub' = 0 /\ phase' = "submit"
            /\ UNCHANGED <<queue, running, done, liveJobs, best, uaf, aborted>>
\* malloc of the next job's data fails: error exit.  COVER_best_destroy (waits in the design), COVER_ctx_destroy; POOL_free then joins
\* the workers, which finish what they had begun - on a context that is gone if nobody waited
AllocFail == /\ phase = "submit" /\ cur <= Ctxs /\ sub < JobsPer /\ phase' = "abort"
             /\ UNCHANGED <<cur, sub, alive, queue, running, done, liveJobs, best, uaf, aborted>>
AbortDone == /\ phase = "abort" /\ (DestroyWaits => liveJobs = 0)
             /\ alive' = {} /\ cur' = Ctxs + 1 /\ phase' = "gone" /\ aborted' = TRUE
             /\ UNCHANGED <<sub, queue, running, done, liveJobs, best, uaf>>
\* a worker takes a job: it reads the context from here on
Begin(jb) == /\ jb \in queue /\ Cardinality(running) < Workers
             /\ queue' = queue \ {jb} /\ running' = running \cup {jb}
             /\ liveJobs' = IF StartInJob THEN liveJobs + 1 ELSE liveJobs
             /\ uaf' = (uaf \/ jb[1] \notin alive)
             /\ UNCHANGED <<cur, sub, phase, alive, done, best, aborted>>
\* the job works on its context (any number of steps), then reports
Work(jb) == /\ jb \in running /\ uaf' = (uaf \/ jb[1] \notin alive)
            /\ UNCHANGED <<cur, sub, phase, alive, queue, running, done, liveJobs, best, aborted>>
Finish(jb) == /\ jb \in running
              /\ running' = running \ {jb} /\ done' = done \cup {jb}
              /\ liveJobs' = liveJobs - 1
              /\ best' = IF best[1] = 0 \/ Size[jb[1]][jb[2]] < best[1] THEN <<Size[jb[1]][jb[2]], jb>> ELSE best
              /\ uaf' = (uaf \/ jb[1] \notin alive)
              /\ UNCHANGED <<cur, sub, phase, alive, queue, aborted>>

Next == Submit \/ AllSubmitted \/ WaitDone \/ AllocFail \/ AbortDone \/ (\E jb \in Jobs : Begin(jb) \/ Work(jb) \/ Finish(jb))
Spec == Init /\ [][Next]_vars
\* progress: with a fair pool (a queued job is eventually begun, a running job eventually reports) and a submitter that keeps going,
\* the optimiser finishes - in particular COVER_best_wait is always woken
Progress == Submit \/ AllSubmitted \/ WaitDone \/ AbortDone \/ (\E jb \in Jobs : Begin(jb) \/ Finish(jb))
FairSpec == Spec /\ WF_vars(Progress)
Terminates == <>(cur = Ctxs + 1)

NoUseAfterDestroy == ~uaf
CounterExact == StartInJob \/ liveJobs = Cardinality({jb \in queue \cup running : TRUE})
\* when the submitter has passed the last wait, every job has reported and a smallest candidate was kept
Finished == cur = Ctxs + 1
BestIsMin == (Finished /\ ~aborted) => /\ done = Jobs
                         /\ \A jb \in Jobs : best[1] <= Size[jb[1]][jb[2]]
LiveNonNeg == liveJobs >= 0
=============================================================================
