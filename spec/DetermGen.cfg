SPECIFICATION Spec
CONSTANTS
  Geoms = {"g1", "g2"}
  MaxIdx = 1000
  MaxHist = 3
  KeepLow = TRUE
  StickyPrice = FALSE
INVARIANTS ExportHist
CHECK_DEADLOCK FALSE
