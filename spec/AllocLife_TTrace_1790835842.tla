---- MODULE AllocLife_TTrace_1790835842 ----
EXTENDS AllocLife, Sequences, TLCExt, Toolbox, Naturals, TLC

_expression ==
    LET AllocLife_TEExpression == INSTANCE AllocLife_TEExpression
    IN AllocLife_TEExpression!expression
----

_trace ==
    LET AllocLife_TETrace == INSTANCE AllocLife_TETrace
    IN AllocLife_TETrace!trace
----

_inv ==
    ~(
        TLCGet("level") = Len(_TETrace)
        /\
        result = ("crash")
        /\
        pc = ("done")
        /\
        failAt = (1)
        /\
        crashed = (TRUE)
        /\
        header = (FALSE)
        /\
        step = (0)
        /\
        leaked = (FALSE)
        /\
        cmemSet = (FALSE)
        /\
        live = ({})
        /\
        foreign = (FALSE)
    )
----

_init ==
    /\ result = _TETrace[1].result
    /\ live = _TETrace[1].live
    /\ failAt = _TETrace[1].failAt
    /\ foreign = _TETrace[1].foreign
    /\ crashed = _TETrace[1].crashed
    /\ header = _TETrace[1].header
    /\ cmemSet = _TETrace[1].cmemSet
    /\ step = _TETrace[1].step
    /\ pc = _TETrace[1].pc
    /\ leaked = _TETrace[1].leaked
----

_next ==
    /\ \E i,j \in DOMAIN _TETrace:
        /\ \/ /\ j = i + 1
              /\ i = TLCGet("level")
        /\ result  = _TETrace[i].result
        /\ result' = _TETrace[j].result
        /\ live  = _TETrace[i].live
        /\ live' = _TETrace[j].live
        /\ failAt  = _TETrace[i].failAt
        /\ failAt' = _TETrace[j].failAt
        /\ foreign  = _TETrace[i].foreign
        /\ foreign' = _TETrace[j].foreign
        /\ crashed  = _TETrace[i].crashed
        /\ crashed' = _TETrace[j].crashed
        /\ header  = _TETrace[i].header
        /\ header' = _TETrace[j].header
        /\ cmemSet  = _TETrace[i].cmemSet
        /\ cmemSet' = _TETrace[j].cmemSet
        /\ step  = _TETrace[i].step
        /\ step' = _TETrace[j].step
        /\ pc  = _TETrace[i].pc
        /\ pc' = _TETrace[j].pc
        /\ leaked  = _TETrace[i].leaked
        /\ leaked' = _TETrace[j].leaked

\* Uncomment the ASSUME below to write the states of the error trace
\* to the given file in Json format. Note that you can pass any tuple
\* to `JsonSerialize`. For example, a sub-sequence of _TETrace.
    \* ASSUME
    \*     LET J == INSTANCE Json
    \*         IN J!JsonSerialize("AllocLife_TTrace_1790835842.json", _TETrace)

=============================================================================

 Note that you can extract this module `AllocLife_TEExpression`
  to a dedicated file to reuse `expression` (the module in the 
  dedicated `AllocLife_TEExpression.tla` file takes precedence 
  over the module `AllocLife_TEExpression` below).

---- MODULE AllocLife_TEExpression ----
EXTENDS AllocLife, Sequences, TLCExt, Toolbox, Naturals, TLC

expression == 
    [
        \* To hide variables of the `AllocLife` spec from the error trace,
        \* remove the variables below.  The trace will be written in the order
        \* of the fields of this record.
        result |-> result
        ,live |-> live
        ,failAt |-> failAt
        ,foreign |-> foreign
        ,crashed |-> crashed
        ,header |-> header
        ,cmemSet |-> cmemSet
        ,step |-> step
        ,pc |-> pc
        ,leaked |-> leaked
        
        \* Put additional constant-, state-, and action-level expressions here:
        \* ,_stateNumber |-> _TEPosition
        \* ,_resultUnchanged |-> result = result'
        
        \* Format the `result` variable as Json value.
        \* ,_resultJson |->
        \*     LET J == INSTANCE Json
        \*     IN J!ToJson(result)
        
        \* Lastly, you may build expressions over arbitrary sets of states by
        \* leveraging the _TETrace operator.  For example, this is how to
        \* count the number of times a spec variable changed up to the current
        \* state in the trace.
        \* ,_resultModCount |->
        \*     LET F[s \in DOMAIN _TETrace] ==
        \*         IF s = 1 THEN 0
        \*         ELSE IF _TETrace[s].result # _TETrace[s-1].result
        \*             THEN 1 + F[s-1] ELSE F[s-1]
        \*     IN F[_TEPosition - 1]
    ]

=============================================================================



Parsing and semantic processing can take forever if the trace below is long.
 In this case, it is advised to uncomment the module below to deserialize the
 trace from a generated binary file.

\*
\*---- MODULE AllocLife_TETrace ----
\*EXTENDS AllocLife, IOUtils, TLC
\*
\*trace == IODeserialize("AllocLife_TTrace_1790835842.bin", TRUE)
\*
\*=============================================================================
\*

---- MODULE AllocLife_TETrace ----
EXTENDS AllocLife, TLC

trace == 
    <<
    ([result |-> "none",pc |-> "ctor",failAt |-> 1,crashed |-> FALSE,header |-> FALSE,step |-> 0,leaked |-> FALSE,cmemSet |-> FALSE,live |-> {},foreign |-> FALSE]),
    ([result |-> "crash",pc |-> "done",failAt |-> 1,crashed |-> TRUE,header |-> FALSE,step |-> 0,leaked |-> FALSE,cmemSet |-> FALSE,live |-> {},foreign |-> FALSE])
    >>
----


=============================================================================

---- CONFIG AllocLife_TTrace_1790835842 ----
CONSTANTS
    N = 3
    AssignAt = 1
    NullCheck = FALSE

INVARIANT
    _inv

CHECK_DEADLOCK
    \* CHECK_DEADLOCK off because of PROPERTY or INVARIANT above.
    FALSE

INIT
    _init

NEXT
    _next

CONSTANT
    _TETrace <- _trace

ALIAS
    _expression
=============================================================================
\* Generated on Thu Oct 01 06:24:03 UTC 2026