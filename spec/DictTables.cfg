SPECIFICATION Spec
CONSTANTS
  DictContent = 8192
  BlockSize = 131072
  NBlocks = 5
  DowngradeAfter = {"comp", "raw", "rle", "tiny"}
INVARIANT NeverAnUncoveredSymbol
