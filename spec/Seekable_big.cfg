SPECIFICATION Spec
CONSTANTS
  N = 7
  MaxFrame = 3
  MaxReads = 3
INVARIANTS ReadExact TableConsistent CursorOK
CHECK_DEADLOCK FALSE
