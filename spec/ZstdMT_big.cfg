SPECIFICATION Spec
CONSTANTS
  NW = 3
  Slots = 4
  Sec = 2
  Pre = 2
  Win = 3
  Total = 22
  CheckInUse = TRUE
INVARIANTS TypeOK NoOverlap InsideBuffer SerialInOrder OutInOrder Ring PrefixSize
CHECK_DEADLOCK TRUE
