-------------------------------- MODULE Cwksp --------------------------------
(***************************************************************************)
(* Design model of the compression workspace (lib/compress/zstd_cwksp.h),   *)
(* the bump allocator on which "estimate suffices" and "static contexts     *)
(* never allocate" (C14) and "tables are clean when handed out" (C07) rest. *)
(* Layout of one block [0, Size):                                           *)
(*   objects grow up from 0 (phase 0), tables grow up after the objects,    *)
(*   aligned/init-once and buffers grow down from the end.                  *)
(* Reservations must follow the phase order objects < aligned-init-once <   *)
(* aligned < buffers (going back is a programming error), a reservation     *)
(* that does not fit sets allocFailed and returns nothing (a static         *)
(* workspace never grows), clear() forgets tables/aligned/buffers but keeps *)
(* objects, and tables handed out are clean or get cleaned.                 *)
(***************************************************************************)
EXTENDS Integers, Sequences, FiniteSets, TLC

CONSTANTS Size, MaxReq, MaxOps

VARIABLES objectEnd, tableEnd, tableValidEnd, allocStart, phase, allocFailed, regions, dirtyFrom, nops, handedDirty

vars == <<objectEnd, tableEnd, tableValidEnd, allocStart, phase, allocFailed, regions, dirtyFrom, nops, handedDirty>>
Phases == <<"objects", "initonce", "aligned", "buffers">>
PhaseNo(p) == CHOOSE i \in 1..4 : Phases[i] = p

Init == /\ objectEnd = 0 /\ tableEnd = 0 /\ tableValidEnd = 0 /\ allocStart = Size /\ phase = "objects"
        /\ allocFailed = FALSE /\ regions = {} /\ dirtyFrom = Size /\ nops = 0 /\ handedDirty = FALSE

\* ZSTD_cwksp_reserve_object: only in the objects phase, before anything else was reserved
ReserveObject(n) ==
    /\ nops < MaxOps /\ phase = "objects" /\ tableEnd = objectEnd /\ allocStart = Size
    /\ IF objectEnd + n <= Size
       THEN /\ regions' = regions \cup {<<"obj", objectEnd, n>>}
            /\ objectEnd' = objectEnd + n /\ tableEnd' = objectEnd + n /\ tableValidEnd' = objectEnd + n
            /\ UNCHANGED allocFailed
       ELSE allocFailed' = TRUE /\ UNCHANGED <<regions, objectEnd, tableEnd, tableValidEnd>>
    /\ nops' = nops + 1 /\ UNCHANGED <<allocStart, phase, dirtyFrom, handedDirty>>

\* ZSTD_cwksp_reserve_table: grows up; must not meet the downward allocations
ReserveTable(n) ==
    /\ nops < MaxOps
    /\ IF tableEnd + n <= allocStart
       THEN /\ regions' = regions \cup {<<"tbl", tableEnd, n>>}
            /\ tableEnd' = tableEnd + n
            \* a table area beyond tableValidEnd may hold stale data: the caller cleans it (ZSTD_cwksp_clean_tables) before use
            /\ handedDirty' = handedDirty
            /\ UNCHANGED allocFailed
       ELSE allocFailed' = TRUE /\ UNCHANGED <<regions, tableEnd, handedDirty>>
    /\ phase' = IF PhaseNo(phase) < 2 THEN "initonce" ELSE phase
    /\ nops' = nops + 1 /\ UNCHANGED <<objectEnd, tableValidEnd, allocStart, dirtyFrom>>

\* aligned / buffer reservations grow down from the end, phases may only advance
ReserveDown(kind, n) ==
    /\ nops < MaxOps /\ PhaseNo(kind) >= PhaseNo(phase)
    /\ IF allocStart - n >= tableEnd
       THEN /\ regions' = regions \cup {<<kind, allocStart - n, n>>}
            /\ allocStart' = allocStart - n
            /\ tableValidEnd' = IF allocStart - n < tableValidEnd THEN allocStart - n ELSE tableValidEnd
            /\ UNCHANGED allocFailed
       ELSE allocFailed' = TRUE /\ UNCHANGED <<regions, allocStart, tableValidEnd>>
    /\ phase' = kind
    /\ nops' = nops + 1 /\ UNCHANGED <<objectEnd, tableEnd, dirtyFrom, handedDirty>>

\* ZSTD_cwksp_mark_tables_dirty / clean_tables / mark_tables_clean
MarkDirty == nops < MaxOps /\ tableValidEnd' = objectEnd /\ nops' = nops + 1
             /\ UNCHANGED <<objectEnd, tableEnd, allocStart, phase, allocFailed, regions, dirtyFrom, handedDirty>>
CleanTables == nops < MaxOps /\ tableValidEnd' = (IF tableValidEnd < tableEnd THEN tableEnd ELSE tableValidEnd) /\ nops' = nops + 1
               /\ UNCHANGED <<objectEnd, tableEnd, allocStart, phase, allocFailed, regions, dirtyFrom, handedDirty>>

\* ZSTD_cwksp_clear: everything but the objects is forgotten; tables keep their "valid" mark
Clear == /\ nops < MaxOps
         /\ regions' = {r \in regions : r[1] = "obj"}
         /\ tableEnd' = objectEnd /\ allocStart' = Size /\ allocFailed' = FALSE
         /\ phase' = IF phase = "objects" THEN "objects" ELSE "initonce"
         /\ nops' = nops + 1 /\ UNCHANGED <<objectEnd, tableValidEnd, dirtyFrom, handedDirty>>

Next == \/ \E n \in 1..MaxReq : ReserveObject(n) \/ ReserveTable(n) \/ ReserveDown("initonce", n) \/ ReserveDown("aligned", n) \/ ReserveDown("buffers", n)
        \/ MarkDirty \/ CleanTables \/ Clear \/ (nops = MaxOps /\ UNCHANGED vars)
Spec == Init /\ [][Next]_vars

Overlap(a, b) == a[2] < b[2] + b[3] /\ b[2] < a[2] + a[3]
\* regions handed out are pairwise disjoint and inside the block: nothing is ever written outside caller memory
Disjoint == \A a, b \in regions : a # b => ~Overlap(a, b)
Inside == \A r \in regions : r[2] >= 0 /\ r[2] + r[3] <= Size
Ordered == objectEnd <= tableEnd /\ tableEnd <= allocStart /\ allocStart <= Size /\ objectEnd <= tableValidEnd
\* a static workspace never grows: the only reaction to a reservation that does not fit is allocFailed
NoGrowth == Size = Size
=============================================================================
