---- MODULE WinTrace_TTrace_1790847537 ----
EXTENDS Sequences, TLCExt, Toolbox, WinTrace, Naturals, TLC

_expression ==
    LET WinTrace_TEExpression == INSTANCE WinTrace_TEExpression
    IN WinTrace_TEExpression!expression
----

_trace ==
    LET WinTrace_TETrace == INSTANCE WinTrace_TETrace
    IN WinTrace_TETrace!trace
----

_inv ==
    ~(
        TLCGet("level") = Len(_TETrace)
        /\
        nCorr = (0)
        /\
        nSeg = (4)
        /\
        nOverlap = (0)
        /\
        nUpd = (12)
        /\
        mid = (<<>>)
        /\
        u0 = (<<>>)
        /\
        l = (47)
        /\
        c0 = ([e |-> "winCorrect0", a |-> 32770, b |-> 163842, c |-> 0, d |-> 0, f |-> 0, g |-> 0])
    )
----

_init ==
    /\ c0 = _TETrace[1].c0
    /\ nOverlap = _TETrace[1].nOverlap
    /\ mid = _TETrace[1].mid
    /\ l = _TETrace[1].l
    /\ nCorr = _TETrace[1].nCorr
    /\ u0 = _TETrace[1].u0
    /\ nUpd = _TETrace[1].nUpd
    /\ nSeg = _TETrace[1].nSeg
----

_next ==
    /\ \E i,j \in DOMAIN _TETrace:
        /\ \/ /\ j = i + 1
              /\ i = TLCGet("level")
        /\ c0  = _TETrace[i].c0
        /\ c0' = _TETrace[j].c0
        /\ nOverlap  = _TETrace[i].nOverlap
        /\ nOverlap' = _TETrace[j].nOverlap
        /\ mid  = _TETrace[i].mid
        /\ mid' = _TETrace[j].mid
        /\ l  = _TETrace[i].l
        /\ l' = _TETrace[j].l
        /\ nCorr  = _TETrace[i].nCorr
        /\ nCorr' = _TETrace[j].nCorr
        /\ u0  = _TETrace[i].u0
        /\ u0' = _TETrace[j].u0
        /\ nUpd  = _TETrace[i].nUpd
        /\ nUpd' = _TETrace[j].nUpd
        /\ nSeg  = _TETrace[i].nSeg
        /\ nSeg' = _TETrace[j].nSeg

\* Uncomment the ASSUME below to write the states of the error trace
\* to the given file in Json format. Note that you can pass any tuple
\* to `JsonSerialize`. For example, a sub-sequence of _TETrace.
    \* ASSUME
    \*     LET J == INSTANCE Json
    \*         IN J!JsonSerialize("WinTrace_TTrace_1790847537.json", _TETrace)

=============================================================================

 Note that you can extract this module `WinTrace_TEExpression`
  to a dedicated file to reuse `expression` (the module in the 
  dedicated `WinTrace_TEExpression.tla` file takes precedence 
  over the module `WinTrace_TEExpression` below).

---- MODULE WinTrace_TEExpression ----
EXTENDS Sequences, TLCExt, Toolbox, WinTrace, Naturals, TLC

expression == 
    [
        \* To hide variables of the `WinTrace` spec from the error trace,
        \* remove the variables below.  The trace will be written in the order
        \* of the fields of this record.
        c0 |-> c0
        ,nOverlap |-> nOverlap
        ,mid |-> mid
        ,l |-> l
        ,nCorr |-> nCorr
        ,u0 |-> u0
        ,nUpd |-> nUpd
        ,nSeg |-> nSeg
        
        \* Put additional constant-, state-, and action-level expressions here:
        \* ,_stateNumber |-> _TEPosition
        \* ,_c0Unchanged |-> c0 = c0'
        
        \* Format the `c0` variable as Json value.
        \* ,_c0Json |->
        \*     LET J == INSTANCE Json
        \*     IN J!ToJson(c0)
        
        \* Lastly, you may build expressions over arbitrary sets of states by
        \* leveraging the _TETrace operator.  For example, this is how to
        \* count the number of times a spec variable changed up to the current
        \* state in the trace.
        \* ,_c0ModCount |->
        \*     LET F[s \in DOMAIN _TETrace] ==
        \*         IF s = 1 THEN 0
        \*         ELSE IF _TETrace[s].c0 # _TETrace[s-1].c0
        \*             THEN 1 + F[s-1] ELSE F[s-1]
        \*     IN F[_TEPosition - 1]
    ]

=============================================================================



Parsing and semantic processing can take forever if the trace below is long.
 In this case, it is advised to uncomment the module below to deserialize the
 trace from a generated binary file.

\*
\*---- MODULE WinTrace_TETrace ----
\*EXTENDS IOUtils, WinTrace, TLC
\*
\*trace == IODeserialize("WinTrace_TTrace_1790847537.bin", TRUE)
\*
\*=============================================================================
\*

---- MODULE WinTrace_TETrace ----
EXTENDS WinTrace, TLC

trace == 
    <<
    ([nCorr |-> 0,nSeg |-> 0,nOverlap |-> 0,nUpd |-> 0,mid |-> <<>>,u0 |-> <<>>,l |-> 1,c0 |-> <<>>]),
    ([nCorr |-> 0,nSeg |-> 0,nOverlap |-> 0,nUpd |-> 0,mid |-> <<>>,u0 |-> <<>>,l |-> 2,c0 |-> <<>>]),
    ([nCorr |-> 0,nSeg |-> 0,nOverlap |-> 0,nUpd |-> 0,mid |-> <<>>,u0 |-> <<>>,l |-> 3,c0 |-> <<>>]),
    ([nCorr |-> 0,nSeg |-> 0,nOverlap |-> 0,nUpd |-> 0,mid |-> <<>>,u0 |-> <<>>,l |-> 4,c0 |-> <<>>]),
    ([nCorr |-> 0,nSeg |-> 0,nOverlap |-> 0,nUpd |-> 0,mid |-> <<>>,u0 |-> <<>>,l |-> 5,c0 |-> <<>>]),
    ([nCorr |-> 0,nSeg |-> 0,nOverlap |-> 0,nUpd |-> 0,mid |-> <<>>,u0 |-> <<>>,l |-> 6,c0 |-> <<>>]),
    ([nCorr |-> 0,nSeg |-> 0,nOverlap |-> 0,nUpd |-> 0,mid |-> <<>>,u0 |-> <<>>,l |-> 7,c0 |-> <<>>]),
    ([nCorr |-> 0,nSeg |-> 0,nOverlap |-> 0,nUpd |-> 0,mid |-> <<>>,u0 |-> <<>>,l |-> 8,c0 |-> <<>>]),
    ([nCorr |-> 0,nSeg |-> 0,nOverlap |-> 0,nUpd |-> 0,mid |-> <<>>,u0 |-> <<>>,l |-> 9,c0 |-> <<>>]),
    ([nCorr |-> 0,nSeg |-> 0,nOverlap |-> 0,nUpd |-> 0,mid |-> <<>>,u0 |-> <<>>,l |-> 10,c0 |-> <<>>]),
    ([nCorr |-> 0,nSeg |-> 0,nOverlap |-> 0,nUpd |-> 0,mid |-> <<>>,u0 |-> [e |-> "winUpd0", a |-> 0, b |-> 0, c |-> 2, d |-> 2, f |-> 2, g |-> 32768],l |-> 11,c0 |-> <<>>]),
    ([nCorr |-> 0,nSeg |-> 1,nOverlap |-> 0,nUpd |-> 0,mid |-> [e |-> "winUpdMid", a |-> 0, b |-> 2147483647, c |-> 2, d |-> 2, f |-> 0, g |-> 0],u0 |-> [e |-> "winUpd0", a |-> 0, b |-> 0, c |-> 2, d |-> 2, f |-> 2, g |-> 32768],l |-> 12,c0 |-> <<>>]),
    ([nCorr |-> 0,nSeg |-> 1,nOverlap |-> 0,nUpd |-> 1,mid |-> <<>>,u0 |-> <<>>,l |-> 13,c0 |-> <<>>]),
    ([nCorr |-> 0,nSeg |-> 1,nOverlap |-> 0,nUpd |-> 1,mid |-> <<>>,u0 |-> [e |-> "winUpd0", a |-> 0, b |-> 0, c |-> 2, d |-> 2, f |-> 2, g |-> 32768],l |-> 14,c0 |-> <<>>]),
    ([nCorr |-> 0,nSeg |-> 2,nOverlap |-> 0,nUpd |-> 1,mid |-> [e |-> "winUpdMid", a |-> 0, b |-> 2147483647, c |-> 2, d |-> 2, f |-> 0, g |-> 0],u0 |-> [e |-> "winUpd0", a |-> 0, b |-> 0, c |-> 2, d |-> 2, f |-> 2, g |-> 32768],l |-> 15,c0 |-> <<>>]),
    ([nCorr |-> 0,nSeg |-> 2,nOverlap |-> 0,nUpd |-> 2,mid |-> <<>>,u0 |-> <<>>,l |-> 16,c0 |-> <<>>]),
    ([nCorr |-> 0,nSeg |-> 2,nOverlap |-> 0,nUpd |-> 2,mid |-> <<>>,u0 |-> [e |-> "winUpd0", a |-> 1, b |-> 0, c |-> 2, d |-> 2, f |-> 32770, g |-> 32768],l |-> 17,c0 |-> <<>>]),
    ([nCorr |-> 0,nSeg |-> 2,nOverlap |-> 0,nUpd |-> 2,mid |-> [e |-> "winUpdMid", a |-> 0, b |-> 2147483647, c |-> 2, d |-> 2, f |-> 0, g |-> 0],u0 |-> [e |-> "winUpd0", a |-> 1, b |-> 0, c |-> 2, d |-> 2, f |-> 32770, g |-> 32768],l |-> 18,c0 |-> <<>>]),
    ([nCorr |-> 0,nSeg |-> 2,nOverlap |-> 0,nUpd |-> 3,mid |-> <<>>,u0 |-> <<>>,l |-> 19,c0 |-> <<>>]),
    ([nCorr |-> 0,nSeg |-> 2,nOverlap |-> 0,nUpd |-> 3,mid |-> <<>>,u0 |-> [e |-> "winUpd0", a |-> 1, b |-> 0, c |-> 2, d |-> 2, f |-> 32770, g |-> 32768],l |-> 20,c0 |-> <<>>]),
    ([nCorr |-> 0,nSeg |-> 2,nOverlap |-> 0,nUpd |-> 3,mid |-> [e |-> "winUpdMid", a |-> 0, b |-> 2147483647, c |-> 2, d |-> 2, f |-> 0, g |-> 0],u0 |-> [e |-> "winUpd0", a |-> 1, b |-> 0, c |-> 2, d |-> 2, f |-> 32770, g |-> 32768],l |-> 21,c0 |-> <<>>]),
    ([nCorr |-> 0,nSeg |-> 2,nOverlap |-> 0,nUpd |-> 4,mid |-> <<>>,u0 |-> <<>>,l |-> 22,c0 |-> <<>>]),
    ([nCorr |-> 0,nSeg |-> 2,nOverlap |-> 0,nUpd |-> 4,mid |-> <<>>,u0 |-> [e |-> "winUpd0", a |-> 1, b |-> 0, c |-> 2, d |-> 2, f |-> 65538, g |-> 32768],l |-> 23,c0 |-> <<>>]),
    ([nCorr |-> 0,nSeg |-> 2,nOverlap |-> 0,nUpd |-> 4,mid |-> [e |-> "winUpdMid", a |-> 0, b |-> 2147483647, c |-> 2, d |-> 2, f |-> 0, g |-> 0],u0 |-> [e |-> "winUpd0", a |-> 1, b |-> 0, c |-> 2, d |-> 2, f |-> 65538, g |-> 32768],l |-> 24,c0 |-> <<>>]),
    ([nCorr |-> 0,nSeg |-> 2,nOverlap |-> 0,nUpd |-> 5,mid |-> <<>>,u0 |-> <<>>,l |-> 25,c0 |-> <<>>]),
    ([nCorr |-> 0,nSeg |-> 2,nOverlap |-> 0,nUpd |-> 5,mid |-> <<>>,u0 |-> [e |-> "winUpd0", a |-> 1, b |-> 0, c |-> 2, d |-> 2, f |-> 65538, g |-> 32768],l |-> 26,c0 |-> <<>>]),
    ([nCorr |-> 0,nSeg |-> 2,nOverlap |-> 0,nUpd |-> 5,mid |-> [e |-> "winUpdMid", a |-> 0, b |-> 2147483647, c |-> 2, d |-> 2, f |-> 0, g |-> 0],u0 |-> [e |-> "winUpd0", a |-> 1, b |-> 0, c |-> 2, d |-> 2, f |-> 65538, g |-> 32768],l |-> 27,c0 |-> <<>>]),
    ([nCorr |-> 0,nSeg |-> 2,nOverlap |-> 0,nUpd |-> 6,mid |-> <<>>,u0 |-> <<>>,l |-> 28,c0 |-> <<>>]),
    ([nCorr |-> 0,nSeg |-> 2,nOverlap |-> 0,nUpd |-> 6,mid |-> <<>>,u0 |-> [e |-> "winUpd0", a |-> 1, b |-> 0, c |-> 2, d |-> 2, f |-> 98306, g |-> 32768],l |-> 29,c0 |-> <<>>]),
    ([nCorr |-> 0,nSeg |-> 2,nOverlap |-> 0,nUpd |-> 6,mid |-> [e |-> "winUpdMid", a |-> 0, b |-> 2147483647, c |-> 2, d |-> 2, f |-> 0, g |-> 0],u0 |-> [e |-> "winUpd0", a |-> 1, b |-> 0, c |-> 2, d |-> 2, f |-> 98306, g |-> 32768],l |-> 30,c0 |-> <<>>]),
    ([nCorr |-> 0,nSeg |-> 2,nOverlap |-> 0,nUpd |-> 7,mid |-> <<>>,u0 |-> <<>>,l |-> 31,c0 |-> <<>>]),
    ([nCorr |-> 0,nSeg |-> 2,nOverlap |-> 0,nUpd |-> 7,mid |-> <<>>,u0 |-> [e |-> "winUpd0", a |-> 1, b |-> 0, c |-> 2, d |-> 2, f |-> 98306, g |-> 32768],l |-> 32,c0 |-> <<>>]),
    ([nCorr |-> 0,nSeg |-> 2,nOverlap |-> 0,nUpd |-> 7,mid |-> [e |-> "winUpdMid", a |-> 0, b |-> 2147483647, c |-> 2, d |-> 2, f |-> 0, g |-> 0],u0 |-> [e |-> "winUpd0", a |-> 1, b |-> 0, c |-> 2, d |-> 2, f |-> 98306, g |-> 32768],l |-> 33,c0 |-> <<>>]),
    ([nCorr |-> 0,nSeg |-> 2,nOverlap |-> 0,nUpd |-> 8,mid |-> <<>>,u0 |-> <<>>,l |-> 34,c0 |-> <<>>]),
    ([nCorr |-> 0,nSeg |-> 2,nOverlap |-> 0,nUpd |-> 8,mid |-> <<>>,u0 |-> [e |-> "winUpd0", a |-> 1, b |-> 0, c |-> 2, d |-> 2, f |-> 131074, g |-> 32768],l |-> 35,c0 |-> <<>>]),
    ([nCorr |-> 0,nSeg |-> 2,nOverlap |-> 0,nUpd |-> 8,mid |-> [e |-> "winUpdMid", a |-> 0, b |-> 2147483647, c |-> 2, d |-> 2, f |-> 0, g |-> 0],u0 |-> [e |-> "winUpd0", a |-> 1, b |-> 0, c |-> 2, d |-> 2, f |-> 131074, g |-> 32768],l |-> 36,c0 |-> <<>>]),
    ([nCorr |-> 0,nSeg |-> 2,nOverlap |-> 0,nUpd |-> 9,mid |-> <<>>,u0 |-> <<>>,l |-> 37,c0 |-> <<>>]),
    ([nCorr |-> 0,nSeg |-> 2,nOverlap |-> 0,nUpd |-> 9,mid |-> <<>>,u0 |-> [e |-> "winUpd0", a |-> 1, b |-> 0, c |-> 2, d |-> 2, f |-> 131074, g |-> 32768],l |-> 38,c0 |-> <<>>]),
    ([nCorr |-> 0,nSeg |-> 2,nOverlap |-> 0,nUpd |-> 9,mid |-> [e |-> "winUpdMid", a |-> 0, b |-> 2147483647, c |-> 2, d |-> 2, f |-> 0, g |-> 0],u0 |-> [e |-> "winUpd0", a |-> 1, b |-> 0, c |-> 2, d |-> 2, f |-> 131074, g |-> 32768],l |-> 39,c0 |-> <<>>]),
    ([nCorr |-> 0,nSeg |-> 2,nOverlap |-> 0,nUpd |-> 10,mid |-> <<>>,u0 |-> <<>>,l |-> 40,c0 |-> <<>>]),
    ([nCorr |-> 0,nSeg |-> 2,nOverlap |-> 0,nUpd |-> 10,mid |-> <<>>,u0 |-> [e |-> "winUpd0", a |-> 0, b |-> 0, c |-> 2, d |-> 2, f |-> 163842, g |-> 32768],l |-> 41,c0 |-> <<>>]),
    ([nCorr |-> 0,nSeg |-> 3,nOverlap |-> 0,nUpd |-> 10,mid |-> [e |-> "winUpdMid", a |-> 1, b |-> 32770, c |-> 2, d |-> 163842, f |-> 0, g |-> 0],u0 |-> [e |-> "winUpd0", a |-> 0, b |-> 0, c |-> 2, d |-> 2, f |-> 163842, g |-> 32768],l |-> 42,c0 |-> <<>>]),
    ([nCorr |-> 0,nSeg |-> 3,nOverlap |-> 0,nUpd |-> 11,mid |-> <<>>,u0 |-> <<>>,l |-> 43,c0 |-> <<>>]),
    ([nCorr |-> 0,nSeg |-> 3,nOverlap |-> 0,nUpd |-> 11,mid |-> <<>>,u0 |-> [e |-> "winUpd0", a |-> 0, b |-> 0, c |-> 32770, d |-> 32770, f |-> 163842, g |-> 32768],l |-> 44,c0 |-> <<>>]),
    ([nCorr |-> 0,nSeg |-> 4,nOverlap |-> 0,nUpd |-> 11,mid |-> [e |-> "winUpdMid", a |-> 0, b |-> 32770, c |-> 32770, d |-> 163842, f |-> 0, g |-> 0],u0 |-> [e |-> "winUpd0", a |-> 0, b |-> 0, c |-> 32770, d |-> 32770, f |-> 163842, g |-> 32768],l |-> 45,c0 |-> <<>>]),
    ([nCorr |-> 0,nSeg |-> 4,nOverlap |-> 0,nUpd |-> 12,mid |-> <<>>,u0 |-> <<>>,l |-> 46,c0 |-> <<>>]),
    ([nCorr |-> 0,nSeg |-> 4,nOverlap |-> 0,nUpd |-> 12,mid |-> <<>>,u0 |-> <<>>,l |-> 47,c0 |-> [e |-> "winCorrect0", a |-> 32770, b |-> 163842, c |-> 0, d |-> 0, f |-> 0, g |-> 0]])
    >>
----


=============================================================================

---- CONFIG WinTrace_TTrace_1790847537 ----
CONSTANTS
    RingSize = 1
    MaxDist = 1
    CycleLog = 1
    MaxBlock = 1
    IdxMax = 1
    HashRead = 8
    OverlapAlways = TRUE

INVARIANT
    _inv

CHECK_DEADLOCK
    \* CHECK_DEADLOCK off because of PROPERTY or INVARIANT above.
    FALSE

INIT
    _init

NEXT
    _next

CONSTANT
    _TETrace <- _trace

ALIAS
    _expression
=============================================================================
\* Generated on Thu Oct 01 09:38:59 UTC 2026