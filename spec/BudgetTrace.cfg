INIT BInit
NEXT BNext
CONSTRAINT Track
POSTCONDITION TraceAccepted
CHECK_DEADLOCK FALSE
