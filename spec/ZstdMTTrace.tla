---------------------------- MODULE ZstdMTTrace ----------------------------
(***************************************************************************)
(* Trace validation for ZstdMT.tla: events emitted by the guarded hooks of  *)
(* lib/compress/zstdmt_compress.c (one per critical section, logged in the  *)
(* order in which they happen) are replayed through the abstract state of   *)
(* the job ring / round buffer / serial section and the invariants of       *)
(* ZstdMT.tla (NoOverlap, InsideBuffer, SerialInOrder, OutInOrder, Ring)    *)
(* are evaluated on real byte offsets after every event.                    *)
(* fields: a,b,c,d,f,g = the six integer arguments of each hook ("e" is    *)
(* the event name).  mtJobCreate: id, srcOff, srcSize, prefixOff,           *)
(* prefixSize, endFrame.  mtRange: pos, size, prefixOff, prefixSize, cap.   *)
(***************************************************************************)
EXTENDS Integers, Sequences, FiniteSets, TLC, Json, IOUtils

VARIABLES l, cap, sec, pre, mask,
          jobs,        \* id -> [src, srcN, pre, preN, ended, empty]   (function with a growing domain)
          nextID, doneID, serialNext, serialBytes, flushedOf, errSeen,
          curRange     \* <<start, size>> of the section being filled, <<-1,0>> if none

vars == <<l, cap, sec, pre, mask, jobs, nextID, doneID, serialNext, serialBytes, flushedOf, errSeen, curRange>>
Tr == ndJsonDeserialize(IOEnv.TRACE)
Ev == Tr[l]
Is(e) == l <= Len(Tr) /\ Ev.e = e /\ l' = l + 1

MInit == /\ l = 1 /\ TLCSet(1, 0) /\ cap = 0 /\ sec = 0 /\ pre = 0 /\ mask = 0
         /\ jobs = <<>> /\ nextID = 0 /\ doneID = 0 /\ serialNext = 0 /\ serialBytes = 0 /\ flushedOf = 0 /\ errSeen = FALSE
         /\ curRange = <<-1, 0>>

Overlap(s1, n1, s2, n2) == n1 > 0 /\ n2 > 0 /\ s1 < s2 + n2 /\ s2 < s1 + n1
Job(i) == jobs[i + 1]
PreOff(e) == IF e.f > 0 /\ e.d >= 0 THEN e.d ELSE 0      \* (hook argument d = prefix offset, f = prefix size)
RECURSIVE SumSrcUpTo(_)
SumSrcUpTo(n) == IF n = 0 THEN 0 ELSE jobs[n].srcN + SumSrcUpTo(n - 1)
SumSrc == SumSrcUpTo(Len(jobs))
Created == 0..(Len(jobs) - 1)
Unfinished == {i \in Created : ~Job(i).ended}
FreeOf(s, n) == \A i \in Unfinished : /\ ~Overlap(s, n, Job(i).src, Job(i).srcN)
                                      /\ ~Overlap(s, n, Job(i).pre, Job(i).preN)

\* new frame / (re)initialisation of the MT context
MtInit == /\ Is("mtInit")
          /\ cap' = Ev.a /\ sec' = Ev.b /\ pre' = Ev.c /\ mask' = Ev.f
          /\ jobs' = <<>> /\ nextID' = 0 /\ doneID' = 0 /\ serialNext' = 0 /\ serialBytes' = 0 /\ flushedOf' = 0 /\ errSeen' = FALSE
          /\ curRange' = <<-1, 0>>

\* a section of the round buffer is handed to the caller: inside the buffer, and read by no unfinished job
MtRange == /\ Is("mtRange")
           /\ Ev.a >= 0 /\ Ev.a + Ev.b <= cap                     \* InsideBuffer
           /\ FreeOf(Ev.a, Ev.b)                                   \* NoOverlap
           /\ (Ev.c >= 0 => ~Overlap(Ev.a, Ev.b, Ev.c, Ev.d))      \* nor does it cover the prefix of the next job
           /\ curRange' = <<Ev.a, Ev.b>>
           /\ UNCHANGED <<cap, sec, pre, mask, jobs, nextID, doneID, serialNext, serialBytes, flushedOf, errSeen>>

\* wrap-around: the prefix is copied to the start of the buffer; the destination must be free
MtWrap == /\ Is("mtWrap")
          /\ FreeOf(0, Ev.a)
          /\ UNCHANGED <<cap, sec, pre, mask, jobs, nextID, doneID, serialNext, serialBytes, flushedOf, errSeen, curRange>>

MtJobCreate == /\ Is("mtJobCreate")
               /\ Ev.a = nextID /\ Ev.a = Len(jobs)
               /\ nextID <= doneID + mask                            \* Ring: the job table is not full
               /\ Ev.f <= pre                                        \* PrefixSize
               /\ (Ev.c > 0 => (Ev.b >= 0 /\ Ev.b + Ev.c <= cap))    \* InsideBuffer
               /\ (Ev.c > 0 /\ curRange[1] >= 0) => (Ev.b = curRange[1] /\ Ev.c <= curRange[2])   \* the job reads the section just filled
               /\ jobs' = Append(jobs, [src |-> Ev.b, srcN |-> Ev.c, pre |-> PreOff(Ev), preN |-> Ev.f, ended |-> FALSE, empty |-> FALSE, last |-> (Ev.g = 1)])
               /\ curRange' = <<-1, 0>>
               /\ UNCHANGED <<cap, sec, pre, mask, nextID, doneID, serialNext, serialBytes, flushedOf, errSeen>>

MtJobPost == /\ Is("mtJobPost") /\ Ev.a = nextID /\ Ev.a < Len(jobs)
             /\ nextID' = IF Ev.b = 1 THEN nextID + 1 ELSE nextID
             /\ UNCHANGED <<cap, sec, pre, mask, jobs, doneID, serialNext, serialBytes, flushedOf, errSeen, curRange>>

\* an empty last job is completed by the caller itself
MtJobEmptyLast == /\ Is("mtJobEmptyLast") /\ Ev.a = nextID /\ Ev.a = Len(jobs) - 1
                  /\ jobs' = [jobs EXCEPT ![Ev.a + 1].ended = TRUE, ![Ev.a + 1].empty = TRUE]
                  /\ nextID' = nextID + 1
                  /\ UNCHANGED <<cap, sec, pre, mask, doneID, serialNext, serialBytes, flushedOf, errSeen, curRange>>

\* the serial section (LDM, checksum) is entered in job order, once per job, with that job's source size
MtSerial == /\ Is("mtSerial")
            /\ Ev.a = serialNext /\ Ev.a \in Created /\ Ev.b = Job(Ev.a).srcN     \* SerialInOrder
            /\ serialNext' = serialNext + 1 /\ serialBytes' = serialBytes + Ev.b
            /\ UNCHANGED <<cap, sec, pre, mask, jobs, nextID, doneID, flushedOf, errSeen, curRange>>

\* skipping the serial step is legitimate only after a job reported an error
MtSerialSkipped == /\ Is("mtSerialSkipped") /\ errSeen /\ serialNext' = serialNext + 1
                   /\ UNCHANGED <<cap, sec, pre, mask, jobs, nextID, doneID, serialBytes, flushedOf, errSeen, curRange>>
MtSerialForce == /\ Is("mtSerialForce") /\ Ev.b = 1 /\ errSeen' = TRUE /\ serialNext' = Ev.a + 1
                 /\ UNCHANGED <<cap, sec, pre, mask, jobs, nextID, doneID, serialBytes, flushedOf, curRange>>

MtJobChunk == /\ Is("mtJobChunk") /\ Ev.a \in Created /\ ~Job(Ev.a).ended /\ Ev.b <= Job(Ev.a).srcN
              /\ (serialNext > Ev.a \/ errSeen)                       \* SerialBeforeEnd: compression starts after the serial step
              /\ UNCHANGED <<cap, sec, pre, mask, jobs, nextID, doneID, serialNext, serialBytes, flushedOf, errSeen, curRange>>

MtJobEnd == /\ Is("mtJobEnd") /\ Ev.a \in Created /\ ~Job(Ev.a).ended /\ Ev.c = Job(Ev.a).srcN
            /\ (serialNext > Ev.a \/ errSeen \/ Ev.b = -1)
            /\ jobs' = [jobs EXCEPT ![Ev.a + 1].ended = TRUE]
            /\ errSeen' = (errSeen \/ Ev.b = -1)
            /\ UNCHANGED <<cap, sec, pre, mask, nextID, doneID, serialNext, serialBytes, flushedOf, curRange>>

\* output is flushed in job order, never beyond what the job produced
MtFlush == /\ Is("mtFlush") /\ Ev.a = doneID /\ Ev.a \in Created              \* OutInOrder
           /\ Ev.c <= Ev.d /\ Ev.c = flushedOf + Ev.b
           /\ (Ev.f = 1) => Job(Ev.a).ended
           /\ flushedOf' = Ev.c
           /\ UNCHANGED <<cap, sec, pre, mask, jobs, nextID, doneID, serialNext, serialBytes, errSeen, curRange>>

MtJobDone == /\ Is("mtJobDone") /\ Ev.a = doneID /\ Job(Ev.a).ended /\ Ev.b = Job(Ev.a).srcN /\ flushedOf = Ev.c
             /\ doneID' = doneID + 1 /\ flushedOf' = 0
             /\ doneID + 1 <= nextID                                           \* Ring
             /\ UNCHANGED <<cap, sec, pre, mask, jobs, nextID, serialNext, serialBytes, errSeen, curRange>>

\* end of a frame as seen by the caller: everything created was flushed, the checksum covered every byte once
FrameEnd == /\ Is("ccall") /\ Ev.dir = 2 /\ Ev.ret = 0 /\ Len(jobs) > 0
            /\ doneID = nextID /\ (~errSeen => serialBytes = SumSrc)
            /\ UNCHANGED <<cap, sec, pre, mask, jobs, nextID, doneID, serialNext, serialBytes, flushedOf, errSeen, curRange>>

Other == /\ l <= Len(Tr) /\ l' = l + 1
         /\ ~(Ev.e \in {"mtInit", "mtRange", "mtWrap", "mtJobCreate", "mtJobPost", "mtJobEmptyLast", "mtSerial", "mtSerialSkipped", "mtSerialForce",
                        "mtJobChunk", "mtJobEnd", "mtFlush", "mtJobDone"})
         /\ ~(Ev.e = "ccall" /\ Ev.dir = 2 /\ Ev.ret = 0 /\ Len(jobs) > 0)
         /\ ~(Ev.e \in {"deadlock", "stuck", "bad_unlock", "step_limit"})        \* scheduler verdicts are never skipped
         /\ UNCHANGED <<cap, sec, pre, mask, jobs, nextID, doneID, serialNext, serialBytes, flushedOf, errSeen, curRange>>

MNext == MtInit \/ MtRange \/ MtWrap \/ MtJobCreate \/ MtJobPost \/ MtJobEmptyLast \/ MtSerial \/ MtSerialSkipped \/ MtSerialForce
         \/ MtJobChunk \/ MtJobEnd \/ MtFlush \/ MtJobDone \/ FrameEnd \/ Other

Track == IF l > TLCGet(1) THEN TLCSet(1, l) ELSE TRUE
TraceAccepted == IF TLCGet(1) = Len(Tr) + 1 THEN TRUE
                 ELSE /\ PrintT(<<"TRACE-REJECT matched", TLCGet(1) - 1, "of", Len(Tr), "next line", IF TLCGet(1) <= Len(Tr) THEN Tr[TLCGet(1)] ELSE <<>> >>)
                      /\ FALSE
=============================================================================
