SPECIFICATION Spec
CONSTANTS
  Ctxs = 2
  JobsPer = 3
  Workers = 3
  Size <- SizeBig
  StartInJob = FALSE
  DestroyWaits = TRUE
INVARIANTS NoUseAfterDestroy CounterExact BestIsMin
CHECK_DEADLOCK FALSE
