SPECIFICATION Spec
CONSTANTS
  N = 5
  MaxFrame = 2
  MaxReads = 2
INVARIANTS ReadExact TableConsistent CursorOK
CHECK_DEADLOCK FALSE
