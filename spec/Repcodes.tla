------------------------------ MODULE Repcodes ------------------------------
(***************************************************************************)
(* Repeat-offset histories of encoder and decoder stay in lock step         *)
(* (properties C01, C05, C17).                                              *)
(*  Enc : transcription of ZSTD_finalizeOffBase + ZSTD_updateRep            *)
(*        (lib/compress/zstd_compress.c, zstd_compress_internal.h)          *)
(*  Dec : the offset resolution of doc/zstd_compression_format.md           *)
(*        ("Repeat offsets"), i.e. what every conformant decoder does.      *)
(* TLC checks, for every history of up to MaxLen sequences over small       *)
(* offsets and every initial history, that Dec(Enc(raw)) = raw and that     *)
(* both histories remain equal - including sequences with litLength = 0,    *)
(* where the meaning of the three codes shifts.                             *)
(***************************************************************************)
EXTENDS Integers, Sequences, TLC

CONSTANTS MaxOff, MaxLen

VARIABLES erep, drep, n, ok

vars == <<erep, drep, n, ok>>
Offs == 1..MaxOff

\* encoder: raw offset + history + (litLength = 0) -> offset value written (1..3 = repeat codes, raw+3 otherwise)
EncCode(raw, r, ll0) ==
    IF ~ll0 /\ raw = r[1] THEN 1
    ELSE IF raw = r[2] THEN (IF ll0 THEN 1 ELSE 2)
    ELSE IF raw = r[3] THEN (IF ll0 THEN 2 ELSE 3)
    ELSE IF ll0 /\ raw = r[1] - 1 THEN 3
    ELSE raw + 3

\* ZSTD_updateRep
EncUpdate(r, code, ll0) ==
    IF code > 3 THEN <<code - 3, r[1], r[2]>>
    ELSE LET rc == code - 1 + (IF ll0 THEN 1 ELSE 0) IN
         IF rc = 0 THEN r
         ELSE LET cur == IF rc = 3 THEN r[1] - 1 ELSE r[rc + 1] IN
              <<cur, r[1], IF rc >= 2 THEN r[2] ELSE r[3]>>

\* decoder (format document): returns <<offset, new history>>
Dec(code, r, ll0) ==
    IF code > 3 THEN <<code - 3, <<code - 3, r[1], r[2]>> >>
    ELSE LET idx == code - 1 + (IF ll0 THEN 1 ELSE 0) IN
         IF idx = 0 THEN <<r[1], r>>
         ELSE LET off == IF idx < 3 THEN r[idx + 1] ELSE r[1] - 1 IN
              <<off, <<off, r[1], IF idx > 1 THEN r[2] ELSE r[3]>> >>

Init == /\ \E a, b, c \in Offs : erep = <<a, b, c>> /\ drep = <<a, b, c>>
        /\ n = 0 /\ ok = TRUE

Step == /\ n < MaxLen
        /\ \E raw \in Offs, ll0 \in BOOLEAN :
              LET code == EncCode(raw, erep, ll0)
                  d == Dec(code, drep, ll0) IN
              /\ ok' = (ok /\ d[1] = raw /\ d[1] >= 1)
              /\ erep' = EncUpdate(erep, code, ll0)
              /\ drep' = d[2]
        /\ n' = n + 1

\* a raw or RLE block carries no sequences: neither side touches its history
RawBlock == n < MaxLen /\ n' = n + 1 /\ UNCHANGED <<erep, drep, ok>>

Next == Step \/ RawBlock \/ (n = MaxLen /\ UNCHANGED vars)
Spec == Init /\ [][Next]_vars

RoundTrip == ok
LockStep == erep = drep
Positive == \A i \in 1..3 : erep[i] >= 1 \/ erep[i] = 0   \* (a history entry may become 0 only through rep[0]-1 with rep[0]=1, which the encoder never selects)
=============================================================================
