------------------------------ MODULE CliTrace ------------------------------
(***************************************************************************)
(* Monitor for property C19 over the system-call trace of a real zstd CLI   *)
(* run (strace -f, projected on the user's files by checks/c19.py).  The    *)
(* state is the abstract file system of Cli.tla per (source, destination)   *)
(* pair; the predicates are evaluated after every system call, i.e. at      *)
(* every point at which the process could be killed: data that sits in a    *)
(* stdio buffer is not credited, only bytes that appeared in write calls.   *)
(***************************************************************************)
EXTENDS Integers, Sequences, FiniteSets, TLC, Json, IOUtils

VARIABLES l, sc,        \* current scenario record
          srcExists,    \* [pair -> BOOLEAN]
          dstState,     \* [pair -> "none" | "old" | "partial" | "closed"]
          dstBytes,     \* bytes written to the destination of each pair so far
          dstTouchedAfterRm,
          exited, rc

vars == <<l, sc, srcExists, dstState, dstBytes, dstTouchedAfterRm, exited, rc>>
Tr == ndJsonDeserialize(IOEnv.TRACE)
Ev == Tr[l]
Is(e) == l <= Len(Tr) /\ Ev.e = e /\ l' = l + 1
Pairs == 1..2

NoSc == [op |-> "none", rm |-> FALSE, force |-> FALSE, out |-> "file", ok |-> <<TRUE, TRUE>>, dstPre |-> <<FALSE, FALSE>>, n |-> 0, full |-> FALSE]

CInit == /\ l = 1 /\ TLCSet(1, 0) /\ sc = NoSc
         /\ srcExists = [p \in Pairs |-> FALSE] /\ dstState = [p \in Pairs |-> "none"] /\ dstBytes = [p \in Pairs |-> 0]
         /\ dstTouchedAfterRm = FALSE /\ exited = FALSE /\ rc = -1

\* a new run: op, flags, which inputs the library accepts, which destinations pre-exist
Scenario == /\ Is("scenario")
            /\ sc' = [op |-> Ev.op, rm |-> Ev.rm, force |-> Ev.force, out |-> Ev.out, ok |-> Ev.ok, dstPre |-> Ev.dstPre, n |-> Ev.n, full |-> Ev.full]
            /\ srcExists' = [p \in Pairs |-> p <= Ev.n]
            /\ dstState' = [p \in Pairs |-> IF Ev.dstPre[p] THEN "old" ELSE "none"]
            /\ dstBytes' = [p \in Pairs |-> 0]
            /\ dstTouchedAfterRm' = FALSE /\ exited' = FALSE /\ rc' = -1

P == Ev.pair

\* open(destination, O_WRONLY|O_CREAT|O_TRUNC): never on a pre-existing file without -f
OpenDst == /\ Is("open") /\ Ev.role = "dst" /\ Ev.wr
           /\ (dstState[P] = "old" => sc.force)                         \* NoClobber
           /\ srcExists[P]                                              \* never write the output of a source that is gone
           /\ dstState' = [dstState EXCEPT ![P] = "partial"]
           /\ dstBytes' = [dstBytes EXCEPT ![P] = 0]
           /\ UNCHANGED <<sc, srcExists, dstTouchedAfterRm, exited, rc>>

OpenOther == /\ Is("open") /\ ~(Ev.role = "dst" /\ Ev.wr)
             /\ UNCHANGED <<sc, srcExists, dstState, dstBytes, dstTouchedAfterRm, exited, rc>>

WriteDst == /\ Is("write") /\ Ev.role = "dst"
            /\ dstState[P] = "partial"
            /\ srcExists[P]                     \* the source must still be there while its output is being written
            /\ dstBytes' = [dstBytes EXCEPT ![P] = @ + Ev.n]
            /\ UNCHANGED <<sc, srcExists, dstState, dstTouchedAfterRm, exited, rc>>

SeekDst == /\ Is("seek") /\ Ev.role = "dst" /\ dstState[P] = "partial" /\ srcExists[P]
           /\ UNCHANGED <<sc, srcExists, dstState, dstBytes, dstTouchedAfterRm, exited, rc>>

CloseDst == /\ Is("close") /\ Ev.role = "dst"
            /\ dstState' = [dstState EXCEPT ![P] = IF @ = "partial" THEN "closed" ELSE @]
            /\ UNCHANGED <<sc, srcExists, dstBytes, dstTouchedAfterRm, exited, rc>>

CloseOther == /\ Is("close") /\ Ev.role # "dst"
              /\ UNCHANGED <<sc, srcExists, dstState, dstBytes, dstTouchedAfterRm, exited, rc>>

\* unlink(destination): with -f before re-creating it, or removal of the artefact of a failed operation
UnlinkDst == /\ Is("unlink") /\ Ev.role = "dst"
             /\ (dstState[P] = "old" => sc.force)                       \* NoClobber
             /\ srcExists[P]                                            \* DataSafe: never drop the output once the source is gone
             /\ dstState' = [dstState EXCEPT ![P] = "none"]
             /\ UNCHANGED <<sc, srcExists, dstBytes, dstTouchedAfterRm, exited, rc>>

\* unlink(source): only with --rm, only when the output stands for the input, only after a complete output was written AND closed
UnlinkSrc == /\ Is("unlink") /\ Ev.role = "src"
             /\ sc.rm /\ sc.out = "file" /\ sc.op # "test"
             /\ sc.ok[P]                                                \* the operation on this file succeeded
             /\ dstState[P] = "closed"      \* (an empty content legitimately produces an empty destination: completeness is judged by the final observation)
             /\ srcExists' = [srcExists EXCEPT ![P] = FALSE]
             /\ UNCHANGED <<sc, dstState, dstBytes, dstTouchedAfterRm, exited, rc>>

Exit == /\ Is("exit")
        /\ rc' = Ev.rc /\ exited' = TRUE
        \* exit status 0 iff the library accepts every input (and nothing was refused)
        /\ LET refused == \E p \in 1..sc.n : sc.out = "file" /\ sc.dstPre[p] /\ ~sc.force
               allok == \A p \in 1..sc.n : sc.ok[p] IN
           \* (sc.full: standard output is a full device - the data cannot have been written, whatever the moment the error surfaces)
           (Ev.rc = 0) <=> (allok /\ ~refused /\ ~sc.full)
        \* a failed operation leaves no output file behind
        /\ \A p \in 1..sc.n : (~sc.ok[p] /\ sc.out = "file") => dstState[p] \in {"none"} \/ (dstState[p] = "old" /\ ~sc.force)
        /\ UNCHANGED <<sc, srcExists, dstState, dstBytes, dstTouchedAfterRm>>

\* observation of the directory after the run (made by the harness with the library-level oracle harness/zfile.c)
Final == /\ Is("final")
         /\ LET p == Ev.pair IN
            /\ Ev.srcExists = srcExists[p]
            /\ (~srcExists[p]) => (Ev.dstExists /\ Ev.dstMatches)        \* DataSafe at the end
            /\ (sc.ok[p] /\ sc.out = "file" /\ sc.op # "test" /\ ~(sc.dstPre[p] /\ ~sc.force)) => (Ev.dstExists /\ Ev.dstMatches)
            /\ (sc.dstPre[p] /\ ~sc.force /\ sc.out = "file") => Ev.dstUntouched
            /\ (sc.out # "file") => (Ev.srcExists)
         /\ UNCHANGED <<sc, srcExists, dstState, dstBytes, dstTouchedAfterRm, exited, rc>>

\* real kill at the k-th system call: whatever the instant, the data is recoverable
Killed == /\ Is("killed")
          /\ (Ev.srcIntact \/ Ev.dstComplete)
          /\ (Ev.dstPre /\ ~Ev.force) => Ev.dstUntouched
          /\ UNCHANGED <<sc, srcExists, dstState, dstBytes, dstTouchedAfterRm, exited, rc>>

\* sparse and non-sparse writing produce the same bytes
SparseEq == /\ Is("sparse") /\ Ev.equal /\ Ev.rcSparse = Ev.rcPlain
            /\ UNCHANGED <<sc, srcExists, dstState, dstBytes, dstTouchedAfterRm, exited, rc>>

End == Is("end") /\ UNCHANGED <<sc, srcExists, dstState, dstBytes, dstTouchedAfterRm, exited, rc>>

CNext == Scenario \/ OpenDst \/ OpenOther \/ WriteDst \/ SeekDst \/ CloseDst \/ CloseOther \/ UnlinkDst \/ UnlinkSrc \/ Exit \/ Final \/ Killed \/ SparseEq \/ End

Track == IF l > TLCGet(1) THEN TLCSet(1, l) ELSE TRUE
TraceAccepted == IF TLCGet(1) = Len(Tr) + 1 THEN TRUE
                 ELSE /\ PrintT(<<"TRACE-REJECT matched", TLCGet(1) - 1, "of", Len(Tr), "next line", IF TLCGet(1) <= Len(Tr) THEN Tr[TLCGet(1)] ELSE <<>> >>)
                      /\ FALSE
=============================================================================
