---------------------------- MODULE ParamsExport ----------------------------
(* Writes the parameter table of Params.tla as JSON so that the conformance  *)
(* driver enumerates its grid from the specification (single source).        *)
EXTENDS Params, Json, IOUtils
VARIABLE x
XInit == x = 0
XNext == UNCHANGED x
ASSUME JsonSerialize(IOEnv.OUT, [c |-> CTable, d |-> DTable, grids |-> [n \in CNames |-> Grid(CRow(n))], dgrids |-> [n \in DNames |-> Grid(DRow(n))]])
=============================================================================
