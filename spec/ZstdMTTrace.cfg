INIT MInit
NEXT MNext
CONSTRAINT Track
POSTCONDITION TraceAccepted
CHECK_DEADLOCK FALSE
