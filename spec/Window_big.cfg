SPECIFICATION Spec
CONSTANTS
  RingSize = 12
  MaxDist = 8
  CycleLog = 2
  MaxBlock = 4
  IdxMax = 40
  HashRead = 2
  OverlapAlways = TRUE
INVARIANTS ReachableFresh LimitsOrdered IndexBounded CorrectionSound WindowKept
CONSTRAINT Wears
CHECK_DEADLOCK FALSE
