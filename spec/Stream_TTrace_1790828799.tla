---- MODULE Stream_TTrace_1790828799 ----
EXTENDS Sequences, TLCExt, Toolbox, Naturals, TLC, Stream

_expression ==
    LET Stream_TEExpression == INSTANCE Stream_TEExpression
    IN Stream_TEExpression!expression
----

_trace ==
    LET Stream_TETrace == INSTANCE Stream_TETrace
    IN Stream_TETrace!trace
----

_prop ==
    ~<>[](
        dCall = ([dir |-> "none", inLeft |-> 0, outLeft |-> 0, in0 |-> 0, out0 |-> 0])
        /\
        dOut = (1)
        /\
        cEndIssued = (TRUE)
        /\
        dDone = (TRUE)
        /\
        dIn = (4)
        /\
        dPend = (0)
        /\
        cDeliv = (4)
        /\
        cIn = (1)
        /\
        cStage = ("load")
        /\
        cLast = ([dir |-> "end", inAvail |-> 1, outAvail |-> 4, inDelta |-> 1, outDelta |-> 4, ret |-> 0])
        /\
        dHost = (FALSE)
        /\
        cCall = ([dir |-> "none", inLeft |-> 0, outLeft |-> 0, in0 |-> 0, out0 |-> 0])
        /\
        cDone = (TRUE)
        /\
        secs = (<<[size |-> 4, regen |-> 1, last |-> TRUE]>>)
        /\
        cEnded = (TRUE)
        /\
        cBuf = (0)
        /\
        dLast = ([dir |-> "dec", inAvail |-> 4, outAvail |-> 3, inDelta |-> 4, outDelta |-> 1, ret |-> 0])
    )
----

_init ==
    /\ dCall = _TETrace[1].dCall
    /\ dIn = _TETrace[1].dIn
    /\ dDone = _TETrace[1].dDone
    /\ dOut = _TETrace[1].dOut
    /\ cLast = _TETrace[1].cLast
    /\ dPend = _TETrace[1].dPend
    /\ cEnded = _TETrace[1].cEnded
    /\ cEndIssued = _TETrace[1].cEndIssued
    /\ cDeliv = _TETrace[1].cDeliv
    /\ cIn = _TETrace[1].cIn
    /\ dHost = _TETrace[1].dHost
    /\ dLast = _TETrace[1].dLast
    /\ cStage = _TETrace[1].cStage
    /\ cCall = _TETrace[1].cCall
    /\ secs = _TETrace[1].secs
    /\ cDone = _TETrace[1].cDone
    /\ cBuf = _TETrace[1].cBuf
----

_next ==
    /\ \E i,j \in DOMAIN _TETrace:
        /\ \/ /\ j = i + 1
              /\ i = TLCGet("level")
        /\ dCall  = _TETrace[i].dCall
        /\ dCall' = _TETrace[j].dCall
        /\ dIn  = _TETrace[i].dIn
        /\ dIn' = _TETrace[j].dIn
        /\ dDone  = _TETrace[i].dDone
        /\ dDone' = _TETrace[j].dDone
        /\ dOut  = _TETrace[i].dOut
        /\ dOut' = _TETrace[j].dOut
        /\ cLast  = _TETrace[i].cLast
        /\ cLast' = _TETrace[j].cLast
        /\ dPend  = _TETrace[i].dPend
        /\ dPend' = _TETrace[j].dPend
        /\ cEnded  = _TETrace[i].cEnded
        /\ cEnded' = _TETrace[j].cEnded
        /\ cEndIssued  = _TETrace[i].cEndIssued
        /\ cEndIssued' = _TETrace[j].cEndIssued
        /\ cDeliv  = _TETrace[i].cDeliv
        /\ cDeliv' = _TETrace[j].cDeliv
        /\ cIn  = _TETrace[i].cIn
        /\ cIn' = _TETrace[j].cIn
        /\ dHost  = _TETrace[i].dHost
        /\ dHost' = _TETrace[j].dHost
        /\ dLast  = _TETrace[i].dLast
        /\ dLast' = _TETrace[j].dLast
        /\ cStage  = _TETrace[i].cStage
        /\ cStage' = _TETrace[j].cStage
        /\ cCall  = _TETrace[i].cCall
        /\ cCall' = _TETrace[j].cCall
        /\ secs  = _TETrace[i].secs
        /\ secs' = _TETrace[j].secs
        /\ cDone  = _TETrace[i].cDone
        /\ cDone' = _TETrace[j].cDone
        /\ cBuf  = _TETrace[i].cBuf
        /\ cBuf' = _TETrace[j].cBuf

\* Uncomment the ASSUME below to write the states of the error trace
\* to the given file in Json format. Note that you can pass any tuple
\* to `JsonSerialize`. For example, a sub-sequence of _TETrace.
    \* ASSUME
    \*     LET J == INSTANCE Json
    \*         IN J!JsonSerialize("Stream_TTrace_1790828799.json", _TETrace)

=============================================================================

 Note that you can extract this module `Stream_TEExpression`
  to a dedicated file to reuse `expression` (the module in the 
  dedicated `Stream_TEExpression.tla` file takes precedence 
  over the module `Stream_TEExpression` below).

---- MODULE Stream_TEExpression ----
EXTENDS Sequences, TLCExt, Toolbox, Naturals, TLC, Stream

expression == 
    [
        \* To hide variables of the `Stream` spec from the error trace,
        \* remove the variables below.  The trace will be written in the order
        \* of the fields of this record.
        dCall |-> dCall
        ,dIn |-> dIn
        ,dDone |-> dDone
        ,dOut |-> dOut
        ,cLast |-> cLast
        ,dPend |-> dPend
        ,cEnded |-> cEnded
        ,cEndIssued |-> cEndIssued
        ,cDeliv |-> cDeliv
        ,cIn |-> cIn
        ,dHost |-> dHost
        ,dLast |-> dLast
        ,cStage |-> cStage
        ,cCall |-> cCall
        ,secs |-> secs
        ,cDone |-> cDone
        ,cBuf |-> cBuf
        
        \* Put additional constant-, state-, and action-level expressions here:
        \* ,_stateNumber |-> _TEPosition
        \* ,_dCallUnchanged |-> dCall = dCall'
        
        \* Format the `dCall` variable as Json value.
        \* ,_dCallJson |->
        \*     LET J == INSTANCE Json
        \*     IN J!ToJson(dCall)
        
        \* Lastly, you may build expressions over arbitrary sets of states by
        \* leveraging the _TETrace operator.  For example, this is how to
        \* count the number of times a spec variable changed up to the current
        \* state in the trace.
        \* ,_dCallModCount |->
        \*     LET F[s \in DOMAIN _TETrace] ==
        \*         IF s = 1 THEN 0
        \*         ELSE IF _TETrace[s].dCall # _TETrace[s-1].dCall
        \*             THEN 1 + F[s-1] ELSE F[s-1]
        \*     IN F[_TEPosition - 1]
    ]

=============================================================================



Parsing and semantic processing can take forever if the trace below is long.
 In this case, it is advised to uncomment the module below to deserialize the
 trace from a generated binary file.

\*
\*---- MODULE Stream_TETrace ----
\*EXTENDS IOUtils, TLC, Stream
\*
\*trace == IODeserialize("Stream_TTrace_1790828799.bin", TRUE)
\*
\*=============================================================================
\*

---- MODULE Stream_TETrace ----
EXTENDS TLC, Stream

trace == 
    <<
    ([dCall |-> [dir |-> "none", inLeft |-> 0, outLeft |-> 0, in0 |-> 0, out0 |-> 0],dOut |-> 0,cEndIssued |-> FALSE,dDone |-> FALSE,dIn |-> 0,dPend |-> 0,cDeliv |-> 0,cIn |-> 0,cStage |-> "load",cLast |-> [dir |-> "none", inAvail |-> 0, outAvail |-> 0, inDelta |-> 0, outDelta |-> 0, ret |-> 0],dHost |-> FALSE,cCall |-> [dir |-> "none", inLeft |-> 0, outLeft |-> 0, in0 |-> 0, out0 |-> 0],cDone |-> FALSE,secs |-> <<>>,cEnded |-> FALSE,cBuf |-> 0,dLast |-> [dir |-> "none", inAvail |-> 0, outAvail |-> 0, inDelta |-> 0, outDelta |-> 0, ret |-> 0]]),
    ([dCall |-> [dir |-> "none", inLeft |-> 0, outLeft |-> 0, in0 |-> 0, out0 |-> 0],dOut |-> 0,cEndIssued |-> TRUE,dDone |-> FALSE,dIn |-> 0,dPend |-> 0,cDeliv |-> 0,cIn |-> 0,cStage |-> "load",cLast |-> [dir |-> "none", inAvail |-> 0, outAvail |-> 0, inDelta |-> 0, outDelta |-> 0, ret |-> 0],dHost |-> FALSE,cCall |-> [dir |-> "end", inLeft |-> 1, outLeft |-> 4, in0 |-> 1, out0 |-> 4],cDone |-> FALSE,secs |-> <<>>,cEnded |-> FALSE,cBuf |-> 0,dLast |-> [dir |-> "none", inAvail |-> 0, outAvail |-> 0, inDelta |-> 0, outDelta |-> 0, ret |-> 0]]),
    ([dCall |-> [dir |-> "none", inLeft |-> 0, outLeft |-> 0, in0 |-> 0, out0 |-> 0],dOut |-> 0,cEndIssued |-> TRUE,dDone |-> FALSE,dIn |-> 0,dPend |-> 0,cDeliv |-> 0,cIn |-> 1,cStage |-> "load",cLast |-> [dir |-> "none", inAvail |-> 0, outAvail |-> 0, inDelta |-> 0, outDelta |-> 0, ret |-> 0],dHost |-> FALSE,cCall |-> [dir |-> "end", inLeft |-> 0, outLeft |-> 4, in0 |-> 1, out0 |-> 4],cDone |-> FALSE,secs |-> <<>>,cEnded |-> FALSE,cBuf |-> 1,dLast |-> [dir |-> "none", inAvail |-> 0, outAvail |-> 0, inDelta |-> 0, outDelta |-> 0, ret |-> 0]]),
    ([dCall |-> [dir |-> "none", inLeft |-> 0, outLeft |-> 0, in0 |-> 0, out0 |-> 0],dOut |-> 0,cEndIssued |-> TRUE,dDone |-> FALSE,dIn |-> 0,dPend |-> 0,cDeliv |-> 0,cIn |-> 1,cStage |-> "flush",cLast |-> [dir |-> "none", inAvail |-> 0, outAvail |-> 0, inDelta |-> 0, outDelta |-> 0, ret |-> 0],dHost |-> FALSE,cCall |-> [dir |-> "end", inLeft |-> 0, outLeft |-> 4, in0 |-> 1, out0 |-> 4],cDone |-> FALSE,secs |-> <<[size |-> 4, regen |-> 1, last |-> TRUE]>>,cEnded |-> TRUE,cBuf |-> 0,dLast |-> [dir |-> "none", inAvail |-> 0, outAvail |-> 0, inDelta |-> 0, outDelta |-> 0, ret |-> 0]]),
    ([dCall |-> [dir |-> "none", inLeft |-> 0, outLeft |-> 0, in0 |-> 0, out0 |-> 0],dOut |-> 0,cEndIssued |-> TRUE,dDone |-> FALSE,dIn |-> 0,dPend |-> 0,cDeliv |-> 4,cIn |-> 1,cStage |-> "flush",cLast |-> [dir |-> "none", inAvail |-> 0, outAvail |-> 0, inDelta |-> 0, outDelta |-> 0, ret |-> 0],dHost |-> FALSE,cCall |-> [dir |-> "end", inLeft |-> 0, outLeft |-> 0, in0 |-> 1, out0 |-> 4],cDone |-> FALSE,secs |-> <<[size |-> 4, regen |-> 1, last |-> TRUE]>>,cEnded |-> TRUE,cBuf |-> 0,dLast |-> [dir |-> "none", inAvail |-> 0, outAvail |-> 0, inDelta |-> 0, outDelta |-> 0, ret |-> 0]]),
    ([dCall |-> [dir |-> "none", inLeft |-> 0, outLeft |-> 0, in0 |-> 0, out0 |-> 0],dOut |-> 0,cEndIssued |-> TRUE,dDone |-> FALSE,dIn |-> 0,dPend |-> 0,cDeliv |-> 4,cIn |-> 1,cStage |-> "load",cLast |-> [dir |-> "none", inAvail |-> 0, outAvail |-> 0, inDelta |-> 0, outDelta |-> 0, ret |-> 0],dHost |-> FALSE,cCall |-> [dir |-> "end", inLeft |-> 0, outLeft |-> 0, in0 |-> 1, out0 |-> 4],cDone |-> FALSE,secs |-> <<[size |-> 4, regen |-> 1, last |-> TRUE]>>,cEnded |-> TRUE,cBuf |-> 0,dLast |-> [dir |-> "none", inAvail |-> 0, outAvail |-> 0, inDelta |-> 0, outDelta |-> 0, ret |-> 0]]),
    ([dCall |-> [dir |-> "none", inLeft |-> 0, outLeft |-> 0, in0 |-> 0, out0 |-> 0],dOut |-> 0,cEndIssued |-> TRUE,dDone |-> FALSE,dIn |-> 0,dPend |-> 0,cDeliv |-> 4,cIn |-> 1,cStage |-> "load",cLast |-> [dir |-> "end", inAvail |-> 1, outAvail |-> 4, inDelta |-> 1, outDelta |-> 4, ret |-> 0],dHost |-> FALSE,cCall |-> [dir |-> "none", inLeft |-> 0, outLeft |-> 0, in0 |-> 0, out0 |-> 0],cDone |-> TRUE,secs |-> <<[size |-> 4, regen |-> 1, last |-> TRUE]>>,cEnded |-> TRUE,cBuf |-> 0,dLast |-> [dir |-> "none", inAvail |-> 0, outAvail |-> 0, inDelta |-> 0, outDelta |-> 0, ret |-> 0]]),
    ([dCall |-> [dir |-> "dec", inLeft |-> 4, outLeft |-> 3, in0 |-> 4, out0 |-> 3],dOut |-> 0,cEndIssued |-> TRUE,dDone |-> FALSE,dIn |-> 0,dPend |-> 0,cDeliv |-> 4,cIn |-> 1,cStage |-> "load",cLast |-> [dir |-> "end", inAvail |-> 1, outAvail |-> 4, inDelta |-> 1, outDelta |-> 4, ret |-> 0],dHost |-> FALSE,cCall |-> [dir |-> "none", inLeft |-> 0, outLeft |-> 0, in0 |-> 0, out0 |-> 0],cDone |-> TRUE,secs |-> <<[size |-> 4, regen |-> 1, last |-> TRUE]>>,cEnded |-> TRUE,cBuf |-> 0,dLast |-> [dir |-> "none", inAvail |-> 0, outAvail |-> 0, inDelta |-> 0, outDelta |-> 0, ret |-> 0]]),
    ([dCall |-> [dir |-> "dec", inLeft |-> 0, outLeft |-> 3, in0 |-> 4, out0 |-> 3],dOut |-> 0,cEndIssued |-> TRUE,dDone |-> FALSE,dIn |-> 4,dPend |-> 1,cDeliv |-> 4,cIn |-> 1,cStage |-> "load",cLast |-> [dir |-> "end", inAvail |-> 1, outAvail |-> 4, inDelta |-> 1, outDelta |-> 4, ret |-> 0],dHost |-> FALSE,cCall |-> [dir |-> "none", inLeft |-> 0, outLeft |-> 0, in0 |-> 0, out0 |-> 0],cDone |-> TRUE,secs |-> <<[size |-> 4, regen |-> 1, last |-> TRUE]>>,cEnded |-> TRUE,cBuf |-> 0,dLast |-> [dir |-> "none", inAvail |-> 0, outAvail |-> 0, inDelta |-> 0, outDelta |-> 0, ret |-> 0]]),
    ([dCall |-> [dir |-> "dec", inLeft |-> 0, outLeft |-> 2, in0 |-> 4, out0 |-> 3],dOut |-> 1,cEndIssued |-> TRUE,dDone |-> FALSE,dIn |-> 4,dPend |-> 0,cDeliv |-> 4,cIn |-> 1,cStage |-> "load",cLast |-> [dir |-> "end", inAvail |-> 1, outAvail |-> 4, inDelta |-> 1, outDelta |-> 4, ret |-> 0],dHost |-> FALSE,cCall |-> [dir |-> "none", inLeft |-> 0, outLeft |-> 0, in0 |-> 0, out0 |-> 0],cDone |-> TRUE,secs |-> <<[size |-> 4, regen |-> 1, last |-> TRUE]>>,cEnded |-> TRUE,cBuf |-> 0,dLast |-> [dir |-> "none", inAvail |-> 0, outAvail |-> 0, inDelta |-> 0, outDelta |-> 0, ret |-> 0]]),
    ([dCall |-> [dir |-> "none", inLeft |-> 0, outLeft |-> 0, in0 |-> 0, out0 |-> 0],dOut |-> 1,cEndIssued |-> TRUE,dDone |-> TRUE,dIn |-> 4,dPend |-> 0,cDeliv |-> 4,cIn |-> 1,cStage |-> "load",cLast |-> [dir |-> "end", inAvail |-> 1, outAvail |-> 4, inDelta |-> 1, outDelta |-> 4, ret |-> 0],dHost |-> FALSE,cCall |-> [dir |-> "none", inLeft |-> 0, outLeft |-> 0, in0 |-> 0, out0 |-> 0],cDone |-> TRUE,secs |-> <<[size |-> 4, regen |-> 1, last |-> TRUE]>>,cEnded |-> TRUE,cBuf |-> 0,dLast |-> [dir |-> "dec", inAvail |-> 4, outAvail |-> 3, inDelta |-> 4, outDelta |-> 1, ret |-> 0]])
    >>
----


=============================================================================

---- CONFIG Stream_TTrace_1790828799 ----
CONSTANTS
    N = 4
    B = 2
    H = 1
    E = 1
    InSizes = { 1 , 3 }
    OutSizes = { 1 , 4 }
    DInSizes = { 1 , 4 }
    DOutSizes = { 1 , 3 }

PROPERTY
    _prop

CHECK_DEADLOCK
    \* CHECK_DEADLOCK off because of PROPERTY or INVARIANT above.
    FALSE

INIT
    _init

NEXT
    _next

CONSTANT
    _TETrace <- _trace

ALIAS
    _expression
=============================================================================
\* Generated on Thu Oct 01 04:26:44 UTC 2026