------------------------------ MODULE AllocLife ------------------------------
(***************************************************************************)
(* Allocation life cycle of a library object built from several             *)
(* sub-allocations (property C13): ZSTDMT_createCCtx_advanced_internal,     *)
(* ZSTDMT_createBufferPool / CCtxPool, POOL_create_advanced,                *)
(* ZSTD_createCDict_advanced, workspace (re)allocation ...                  *)
(* The constructor allocates a header then N parts through the caller's     *)
(* allocator, checks each result and unwinds through the object's free      *)
(* function, which uses the allocator recorded IN the object.  Any single   *)
(* allocation may fail.  AssignAt is the step at which the constructor      *)
(* records the caller's allocator in the header (1 = immediately);          *)
(* NullCheck says whether a zero-filling allocation checks for NULL before  *)
(* the memset.  TLC shows that the contract holds iff AssignAt = 1 and      *)
(* NullCheck = TRUE - the two patterns the conformance run looks for.       *)
(***************************************************************************)
EXTENDS Integers, Sequences, FiniteSets, TLC

CONSTANTS N,          \* number of parts
          AssignAt,   \* constructor step after which header.cMem is set (1..N+1)
          NullCheck   \* calloc helper checks for NULL before memset

VARIABLES pc, step, live, header, cmemSet, failAt, result, crashed, foreign, leaked

vars == <<pc, step, live, header, cmemSet, failAt, result, crashed, foreign, leaked>>

Init == /\ pc = "ctor" /\ step = 0 /\ live = {} /\ header = FALSE /\ cmemSet = FALSE
        /\ failAt \in 0..(N + 1)          \* 0 = no fault; k = the k-th allocation fails
        /\ result = "none" /\ crashed = FALSE /\ foreign = FALSE /\ leaked = FALSE

\* one allocation of the constructor (step 1 = header, 2..N+1 = parts); all of them are zero-filled
AllocStep ==
    /\ pc = "ctor" /\ step <= N
    /\ LET k == step + 1 fails == (failAt = k) IN
       IF fails
       THEN /\ crashed' = ~NullCheck                       \* memset(NULL, 0, n)
            /\ pc' = IF ~NullCheck THEN "done" ELSE IF k = 1 THEN "done" ELSE "unwind"
            /\ result' = IF ~NullCheck THEN "crash" ELSE "null"
            /\ UNCHANGED <<step, live, header, cmemSet>>
       ELSE /\ live' = live \cup {k}
            /\ header' = (header \/ k = 1)
            /\ cmemSet' = (cmemSet \/ k >= AssignAt)
            /\ step' = k
            /\ pc' = IF k = N + 1 THEN "built" ELSE "ctor"
            /\ result' = IF k = N + 1 THEN "object" ELSE result
            /\ UNCHANGED crashed
    /\ UNCHANGED <<failAt, foreign, leaked>>

\* unwind after a failed part: the object's free function releases parts and header with header.cMem
Unwind ==
    /\ pc = "unwind"
    /\ foreign' = ~cmemSet                 \* header.cMem still zero => default free() used on the caller's memory
    /\ live' = {}
    /\ pc' = "done"
    /\ UNCHANGED <<step, header, cmemSet, failAt, result, crashed, leaked>>

\* normal destruction
Free == /\ pc = "built" /\ live' = {} /\ pc' = "done" /\ UNCHANGED <<step, header, cmemSet, failAt, result, crashed, foreign, leaked>>

Next == AllocStep \/ Unwind \/ Free \/ (pc = "done" /\ UNCHANGED vars)
Spec == Init /\ [][Next]_vars

\* the contract of C13 on this pattern
NoCrash == ~crashed
PairedFrees == ~foreign
NoLeak == pc = "done" => live = {}
FaultReported == (pc = "done" /\ failAt # 0) => result \in {"null", "crash"}
=============================================================================
