------------------------------ MODULE DecBounds ------------------------------
(***************************************************************************)
(* Property C03: decoding untrusted bytes is memory-safe and terminates.    *)
(*                                                                         *)
(* Adversarial model of one compressed block going through the sequence    *)
(* executor (ZSTD_decodeLiteralsBlock + ZSTD_execSequence / last literals  *)
(* in lib/decompress/zstd_decompress_block.c): every number comes from the *)
(* attacker - the claimed literals size, each literal length, match        *)
(* length and offset - and the decoder's only defence is the guards it     *)
(* evaluates before it copies.  TLC explores every choice:                 *)
(*   op never passes the output capacity, the literal cursor never passes  *)
(*   the literals, a match never starts before the history (output so far  *)
(*   + dictionary), and the block ends (finite number of sequences).       *)
(* Three mutation configs drop one guard each and must be rejected.        *)
(* A streaming caller (Stream.tla, DProgress) adds: a call with input and  *)
(* room available makes progress or returns an error.                      *)
(***************************************************************************)
EXTENDS Naturals, TLC

CONSTANTS Cap,          \* output capacity of the block
          In,           \* input bytes available for raw literals
          Dict,         \* bytes of history before the output (dictionary / earlier blocks)
          MaxV,         \* attacker-chosen values range over 0..MaxV
          MaxSeq,       \* sequences announced
          CheckLit, CheckRoom, CheckOffset      \* TRUE: the design; FALSE: mutations

VARIABLES stage, op, litSize, litPos, nseq, err
vars == <<stage, op, litSize, litPos, nseq, err>>
V == 0..MaxV

Init == stage = "lits" /\ op = 0 /\ litSize = 0 /\ litPos = 0 /\ nseq = 0 /\ err = FALSE
Fail == stage' = "done" /\ err' = TRUE /\ UNCHANGED <<op, litSize, litPos, nseq>>

\* literals section: the claimed size must fit the input (raw literals) - else corruption_detected
Literals(claim, n) == /\ stage = "lits"
                      /\ IF claim > In THEN Fail
                         ELSE stage' = "seqs" /\ litSize' = claim /\ nseq' = n /\ UNCHANGED <<op, litPos, err>>
\* one sequence: guards of ZSTD_execSequence(End)
Seq(ll, ml, off) == /\ stage = "seqs" /\ nseq > 0
                    /\ IF \/ (CheckLit /\ ll > litSize - litPos)                 \* literal length beyond the literals left
                          \/ (CheckRoom /\ ll + ml > Cap - op)                   \* sequence beyond the output capacity
                          \/ (CheckOffset /\ (off = 0 \/ off > op + ll + Dict))  \* offset beyond the history
                       THEN Fail
                       ELSE /\ op' = op + ll + ml /\ litPos' = litPos + ll /\ nseq' = nseq - 1
                            /\ UNCHANGED <<stage, litSize, err>>
LastLiterals == /\ stage = "seqs" /\ nseq = 0
                /\ IF litSize - litPos > Cap - op THEN Fail
                   ELSE op' = op + (litSize - litPos) /\ litPos' = litSize /\ stage' = "done" /\ UNCHANGED <<litSize, nseq, err>>

Next == \/ \E c \in V, n \in 0..MaxSeq : Literals(c, n)
        \/ \E ll \in V, ml \in V, off \in V : Seq(ll, ml, off)
        \/ LastLiterals
Spec == Init /\ [][Next]_vars /\ WF_vars(Next)

\* ghost: where the last copy read from / wrote to is implied by the cursors
OutputInBounds == op <= Cap
LiteralsInBounds == litPos <= litSize /\ litSize <= In
\* the match of the step just taken started inside the history: checked on the transition
MatchInHistory == [][\A ll \in V, ml \in V, off \in V : (Seq(ll, ml, off) /\ ~err') => (off >= 1 /\ off <= op + ll + Dict)]_vars
Terminates == <>(stage = "done")
=============================================================================
