------------------------------ MODULE WinTrace ------------------------------
(***************************************************************************)
(* Trace validation for property C15: the window events logged by the      *)
(* guarded hooks of lib/compress/zstd_compress_internal.h (ZSTD_window_     *)
(* update: winUpd0 / winUpdMid / winUpd1; ZSTD_window_correctOverflow:      *)
(* winCorrect0 / winCorrect) must be steps of Window.tla: the limits after  *)
(* each call are the ones the model's functions give for the logged        *)
(* inputs. Events of other kinds (the driver's call log) are validated by  *)
(* StreamTrace.tla and skipped here.                                       *)
(***************************************************************************)
EXTENDS WindowF, Sequences, Json, IOUtils

VARIABLES l, u0, mid, c0, nUpd, nCorr, nOverlap, nSeg
tv == <<l, u0, mid, c0, nUpd, nCorr, nOverlap, nSeg>>
Tr == ndJsonDeserialize(IOEnv.TRACE)
Ev == Tr[l]
Is(e) == l <= Len(Tr) /\ Ev.e = e /\ l' = l + 1
None == <<>>
WinEvents == {"winUpd0", "winUpdMid", "winUpd1", "winCorrect0", "winCorrect", "winBig", "wear"}
IsPow2(x) == \E k \in 0..30 : x = 2 ^ k

TInit == l = 1 /\ TLCSet(1, 0) /\ u0 = None /\ mid = None /\ c0 = None /\ nUpd = 0 /\ nCorr = 0 /\ nOverlap = 0 /\ nSeg = 0

\* winUpd0: a = (src = nextSrc), b = forceNonContiguous, c = lowLimit, d = dictLimit, f = nextSrc - base, g = srcSize
Upd0 == /\ Is("winUpd0") /\ u0' = Ev /\ mid' = None /\ UNCHANGED <<c0, nUpd, nCorr, nOverlap, nSeg>>
\* winUpdMid: after the segment decision: a = overlap test, b = (ip + srcSize) - dictBase, c = lowLimit, d = dictLimit
UpdMid == /\ Is("winUpdMid") /\ u0 # None
          /\ LET nonContig == (u0.a = 0) \/ (u0.b # 0)
                 lim == SegmentLimits(u0.c, u0.d, u0.f, nonContig) IN
             /\ Ev.c = lim[1] /\ Ev.d = lim[2]
             /\ nSeg' = nSeg + (IF nonContig THEN 1 ELSE 0)
          /\ mid' = Ev /\ UNCHANGED <<u0, c0, nUpd, nCorr, nOverlap>>
\* winUpd1: a = contiguous (returned), b = lowLimit, c = dictLimit
Upd1 == /\ Is("winUpd1") /\ u0 # None /\ mid # None
        /\ Ev.a = (IF (u0.a = 0) \/ (u0.b # 0) THEN 0 ELSE 1)
        /\ Ev.b = OverlapLimit(mid.c, mid.d, mid.a # 0, mid.b)          \* overwritten extDict bytes are retired, on every block
        /\ Ev.c = mid.d
        /\ Ev.b <= Ev.c
        /\ nOverlap' = nOverlap + (IF mid.a # 0 /\ u0.a # 0 /\ u0.b = 0 THEN 1 ELSE 0)     \* overlap on a contiguous block
        /\ u0' = None /\ mid' = None /\ nUpd' = nUpd + 1 /\ UNCHANGED <<c0, nCorr, nSeg>>
\* winCorrect0: a = lowLimit, b = dictLimit (before);  winCorrect: a = cycleLog, b = maxDist, c = curr, d = correction, f = lowLimit, g = dictLimit
Corr0 == /\ Is("winCorrect0") /\ c0' = Ev /\ UNCHANGED <<u0, mid, nUpd, nCorr, nOverlap, nSeg>>
Corr == /\ Is("winCorrect") /\ c0 # None
        /\ IsPow2(Ev.b)
        /\ LET r == CorrectF(Ev.c, Ev.a, Ev.b) IN
           /\ Ev.d = r[1] /\ r[1] > 0
           /\ r[2] % (2 ^ Ev.a) = Ev.c % (2 ^ Ev.a)            \* low cycle bits preserved
           /\ r[2] >= Ev.b + Start                              \* the whole window stays addressable
           /\ Ev.f = LimitAfter(c0.a, r[1]) /\ Ev.g = LimitAfter(c0.b, r[1])
           /\ Ev.f <= r[2] /\ Ev.g <= r[2]
        /\ c0' = None /\ nCorr' = nCorr + 1 /\ UNCHANGED <<u0, mid, nUpd, nOverlap, nSeg>>
\* a value beyond 2^31 cannot be evaluated by TLC: the event is skipped (the drivers keep indices small with the frequent-correction build)
Big == /\ Is("winBig") /\ u0' = None /\ mid' = None /\ c0' = None /\ UNCHANGED <<nUpd, nCorr, nOverlap, nSeg>>
\* harness/weardrv.c: one stream of more than 4 GiB through one compression and one decompression context round-trips
Wear == /\ Is("wear") /\ Ev.ok /\ Ev.bytes_hi >= 4 /\ UNCHANGED <<u0, mid, c0, nUpd, nCorr, nOverlap, nSeg>>
Other == /\ l <= Len(Tr) /\ Ev.e \notin WinEvents /\ l' = l + 1 /\ UNCHANGED <<u0, mid, c0, nUpd, nCorr, nOverlap, nSeg>>
TNext == Wear \/ Upd0 \/ UpdMid \/ Upd1 \/ Corr0 \/ Corr \/ Big \/ Other
Track == IF l > TLCGet(1) THEN TLCSet(1, l) ELSE TRUE
TraceAccepted == IF TLCGet(1) = Len(Tr) + 1 THEN TRUE
                 ELSE /\ PrintT(<<"TRACE-REJECT matched", TLCGet(1) - 1, "of", Len(Tr), "next line", IF TLCGet(1) <= Len(Tr) THEN Tr[TLCGet(1)] ELSE <<>> >>)
                      /\ FALSE
\* coverage counters printed at the end of an accepted trace
Stats == (l = Len(Tr) + 1) => PrintT(<<"WIN-STATS", nUpd, nCorr, nOverlap, nSeg>>)
=============================================================================
