SPECIFICATION Spec
CONSTANTS
  MaxOff = 5
  MaxLen = 5
  SimUsesStored = TRUE
INVARIANTS RoundTrip
