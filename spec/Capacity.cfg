SPECIFICATION Spec
CONSTANTS
  MaxN = 300000
  BlockSizes = {1024, 1340, 2048, 4096, 32768, 131072}
  MaxCap = 40
  EpilogueChargesBlock = TRUE
INVARIANTS NeverBeyond SuccessWithin RoomInStep
CHECK_DEADLOCK FALSE
