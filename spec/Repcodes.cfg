SPECIFICATION Spec
CONSTANTS
  MaxOff = 6
  MaxLen = 4
INVARIANTS RoundTrip LockStep
