------------------------------ MODULE DecTrace ------------------------------
(***************************************************************************)
(* Trace validation for property C04 (harness/decdrv.c).                    *)
(* Frames are assembled from descriptors (harness/fasm.h), covering format *)
(* features the bundled compressor never emits, or come from the           *)
(* compressor under unusual parameters.  The independent reference decoder *)
(* R (refdec.c) says whether a frame is valid and what it contains.        *)
(*  frame   for a frame accepted by R, every decoding path of the library  *)
(*          (one-shot exact / roomy, streaming whole / byte-wise / random  *)
(*          segments / small outputs / following the size hints, stable    *)
(*          output buffer, buffer-less, in-place, reused context) succeeds *)
(*          and returns exactly R's content;                               *)
(*  dblk    the block decoder variant chosen by the library (guarded hook  *)
(*          dBlock) is consistent with the selection rules;                *)
(*  rFrame / rBlock / rSeq / rFrameEnd  (logged for small frames) R itself *)
(*          is cross-checked against the format model: block positions     *)
(*          add up, block size limit, window rule, and the repeat-offset   *)
(*          resolution of Repcodes.tla (Dec) sequence by sequence.         *)
(***************************************************************************)
EXTENDS Integers, Sequences, TLC, Json, IOUtils

VARIABLES l, rep, win, pos, nblk, dlen
Tr == ndJsonDeserialize(IOEnv.TRACE)
Ev == Tr[l]
Is(e) == l <= Len(Tr) /\ Ev.e = e /\ l' = l + 1
RC == INSTANCE Repcodes WITH MaxOff <- 1, MaxLen <- 1, erep <- <<1, 4, 8>>, drep <- <<1, 4, 8>>, n <- 0, ok <- TRUE

TInit == l = 1 /\ TLCSet(1, 0) /\ rep = <<1, 4, 8>> /\ win = 0 /\ pos = 0 /\ nblk = 0 /\ dlen = 0
Keep == UNCHANGED <<rep, win, pos, nblk, dlen>>

Frame == /\ Is("frame") /\ Keep
         /\ Ev.accepted => (Ev.bad = 0 /\ Ev.npaths >= 8)          \* C04: every path, exactly R's content
DBlk == /\ Is("dblk") /\ Keep
        /\ (Ev.loc = 2) => Ev.litBig = 1                             \* split literal buffer (ZSTD_split) only for literals beyond the extra buffer
        /\ (Ev.prefetch = 1) => ((Ev.histBig = 1 /\ Ev.nseqBig = 1) \/ Ev.dict = 1)   \* prefetching decoder: > 16 MiB of history and > 8 sequences, or a (cold) dictionary
        /\ Ev.longOff = 0                                            \* 64-bit build: no long-offset mode
RFrame == /\ Is("rFrame") /\ rep' = <<1, 4, 8>> /\ win' = Ev.window /\ pos' = 0 /\ nblk' = 0 /\ dlen' = Ev.dictLen
RBlock == /\ Is("rBlock") /\ Ev.k = nblk /\ Ev.pos = pos
          /\ Ev.regen <= 131072 /\ Ev.regen <= win
          /\ nblk' = nblk + 1 /\ pos' = pos + Ev.regen /\ UNCHANGED <<rep, win, dlen>>
\* rSeq: pos = output position of the match, ov = offset_value, off = offset R used
RSeq == /\ Is("rSeq")
        /\ LET d == RC!Dec(Ev.ov, rep, Ev.ll = 0) IN
           /\ Ev.off = d[1] /\ rep' = d[2]                            \* R resolves repeat offsets as the format model does
        /\ Ev.off >= 1 /\ Ev.ml >= 3
        /\ IF Ev.pos > win THEN Ev.off <= win ELSE Ev.off <= Ev.pos + dlen   \* window rule (a raw-content dictionary extends the history of the first window)
        /\ UNCHANGED <<win, pos, nblk, dlen>>
RFrameEnd == /\ Is("rFrameEnd") /\ Ev.fcsOK /\ Ev.size = pos /\ Ev.blocks = nblk /\ Keep
Mut == /\ Is("mut") /\ Keep
       /\ Ev.over = 0            \* error or size <= capacity; pos <= size
       /\ Ev.stall = 0           \* a streaming decoder fed damaged bytes reports an error or makes progress
       /\ Ev.wrongOk = 0         \* the undamaged frame, flush against an inaccessible page, still decodes to R's content
Other == /\ l <= Len(Tr) /\ Ev.e \in {"end", "mop"} /\ l' = l + 1 /\ Keep
TNext == Frame \/ DBlk \/ RFrame \/ RBlock \/ RSeq \/ RFrameEnd \/ Mut \/ Other
Track == IF l > TLCGet(1) THEN TLCSet(1, l) ELSE TRUE
TraceAccepted == IF TLCGet(1) = Len(Tr) + 1 THEN TRUE
                 ELSE /\ PrintT(<<"TRACE-REJECT matched", TLCGet(1) - 1, "of", Len(Tr), "next line", IF TLCGet(1) <= Len(Tr) THEN Tr[TLCGet(1)] ELSE <<>> >>)
                      /\ FALSE
=============================================================================
