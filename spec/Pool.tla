------------------------------- MODULE Pool -------------------------------
(***************************************************************************)
(* Specification of lib/common/pool.c (POOL_thread, POOL_add, POOL_tryAdd,  *)
(* POOL_joinJobs, POOL_resize, POOL_free) at the grain of one step per      *)
(* pthread operation - the same grain at which harness/vsched.c serialises  *)
(* and logs the real code, so that recorded executions are behaviours of    *)
(* this module (PoolTrace.tla) and behaviours of this module are schedules  *)
(* that can be forced on the real code.                                     *)
(*                                                                         *)
(* Thread 0 is the client ("main"); threads 1..MaxT are pool workers, which *)
(* also act as clients while they execute a job whose body posts work.      *)
(*                                                                         *)
(* A thread is always either at a pending synchronisation operation         *)
(* (Head(todo[t])) or at an application-level event (call/ret/jobStart/     *)
(* jobEnd).  All shared data is changed at the moment the queue mutex is    *)
(* acquired (Lock / Relock): between acquisition and the next wait/unlock   *)
(* no other thread can observe the pool, so this is the linearisation point *)
(* of each critical section.                                                *)
(*                                                                         *)
(* Skel (the "synchronisation skeleton") says which wake-up primitive the   *)
(* code uses at each site; it is *inferred from recorded traces* by         *)
(* PoolTrace.tla, so a change of signal/broadcast/nothing at one site       *)
(* changes the model that TLC then checks exhaustively.                     *)
(***************************************************************************)
EXTENDS Integers, Sequences, FiniteSets, TLC

CONSTANTS Configs,   \* set of [nt, qs, maxT, prog, body] client configurations
          Skels      \* set of candidate skeleton records

Main == 0
None == -1
NoApi == [op |-> "none", j |-> None]

VARIABLES cfg, skel,
          mu,                 \* owner of the queue mutex, None if free
          wPush, wPop,        \* wait sets of the two condition variables
          woken,              \* threads signalled, not yet re-acquired the mutex
          todo,               \* [thread -> Seq(pending sync operations)]
          api, apiDone, res,  \* API call in progress per thread, whether it reached its return, its result
          rest,               \* remaining client operations (main program / job body)
          wk, cur,            \* worker state {"none","idle","run","body","done","exited"}, current job
          queue, busy, limit, cap, shutdown,
          spawned,            \* number of worker threads created so far
          accepted, started, finished, tryRes,
          joinOK, freeOK,     \* ghost: postconditions evaluated at the linearisation points
          lastT, lastE, lastW \* ghost: thread / event / woken thread of the last step (for schedule extraction)

vars == <<cfg, skel, mu, wPush, wPop, woken, todo, api, apiDone, res, rest, wk, cur, queue, busy, limit, cap,
          shutdown, spawned, accepted, started, finished, tryRes, joinOK, freeOK, lastT, lastE, lastW>>

Threads == 0..cfg.maxT
JobIds == 0..7

Op(k, c, x) == [k |-> k, c |-> c, x |-> x]
LockOp == Op("lock", "", None)
UnlockOp == Op("unlock", "", None)
WaitOp(c) == Op("wait", c, None)
CreateOp == Op("create", "", None)
JoinOp(x) == Op("join", "", x)

\* the wake-up primitive used at a site, as a (possibly empty) sequence of operations
Sig(kind, c) == IF kind = "signal" THEN <<Op("signal", c, None)>>
                ELSE IF kind = "broadcast" THEN <<Op("broadcast", c, None)>> ELSE <<>>

RECURSIVE Rep(_, _)
Rep(x, n) == IF n <= 0 THEN <<>> ELSE <<x>> \o Rep(x, n - 1)
RECURSIVE Joins(_, _)
Joins(i, n) == IF i > n THEN <<>> ELSE <<JoinOp(i)>> \o Joins(i + 1, n)

\* pool.c:isQueueFull
Full == IF cfg.qs > 0 THEN Len(queue) = cfg.qs ELSE (busy = limit \/ queue # <<>>)

InitWith(c, s) ==
    /\ cfg = c /\ skel = s
    /\ mu = None /\ wPush = {} /\ wPop = {} /\ woken = {}
    /\ todo = [t \in 0..c.maxT |-> <<>>]
    /\ api = [t \in 0..c.maxT |-> NoApi]
    /\ apiDone = [t \in 0..c.maxT |-> FALSE]
    /\ res = [t \in 0..c.maxT |-> 0]
    /\ rest = [t \in 0..c.maxT |-> IF t = Main THEN <<[op |-> "create", j |-> c.nt]>> \o c.prog ELSE <<>>]
    /\ wk = [t \in 0..c.maxT |-> "none"]
    /\ cur = [t \in 0..c.maxT |-> None]
    /\ queue = <<>> /\ busy = 0 /\ limit = c.nt /\ cap = 0 /\ shutdown = FALSE /\ spawned = 0
    /\ accepted = {} /\ started = [j \in JobIds |-> 0] /\ finished = [j \in JobIds |-> 0]
    /\ tryRes = [j \in JobIds |-> None]
    /\ joinOK = TRUE /\ freeOK = TRUE
    /\ lastT = None /\ lastE = "init" /\ lastW = None

(* Environment assumption (the Client sub-specification): a job may post with the  *)
(* *blocking* POOL_add only if some other worker can make room, i.e. the pool keeps *)
(* at least two usable threads and only one job blocks that way; otherwise the job  *)
(* waits for a capacity that only it could free - a deadlock of the client's own    *)
(* making, not of the pool.  Non-blocking posts (POOL_tryAdd) are always legal.     *)
BlockingPosters(c) == {j \in 1..Len(c.body) : \E i \in 1..Len(c.body[j]) : c.body[j][i].op = "add"}
LegalConfig(c) == BlockingPosters(c) # {} =>
                     /\ c.nt >= 2
                     /\ Cardinality(BlockingPosters(c)) = 1
                     /\ \A i \in 1..Len(c.prog) : c.prog[i].op = "resize" => c.prog[i].j >= 2

Init == \E c \in Configs, s \in Skels : LegalConfig(c) /\ InitWith(c, s)

Ghost(t, e, w) == lastT' = t /\ lastE' = e /\ lastW' = w

-----------------------------------------------------------------------------
(* Decisions taken when thread t acquires the queue mutex.                  *)

\* POOL_thread: top of the loop (or re-evaluation after a wake-up)
WorkerTop(t) ==
    IF queue = <<>> \/ busy >= limit
    THEN IF shutdown
         THEN /\ todo' = [todo EXCEPT ![t] = <<UnlockOp, Op("exit", "", None)>>]
              /\ wk' = [wk EXCEPT ![t] = "exiting"]
              /\ UNCHANGED <<queue, busy, cur>>
         ELSE /\ todo' = [todo EXCEPT ![t] = <<WaitOp("pop")>>]
              /\ UNCHANGED <<wk, queue, busy, cur>>
    ELSE /\ cur' = [cur EXCEPT ![t] = Head(queue)]
         /\ queue' = Tail(queue)
         /\ busy' = busy + 1
         /\ wk' = [wk EXCEPT ![t] = "run"]
         /\ todo' = [todo EXCEPT ![t] = Sig(skel.afterPop, "push") \o <<UnlockOp>>]

\* POOL_thread: after the job returned
WorkerDone(t) ==
    /\ busy' = busy - 1
    /\ wk' = [wk EXCEPT ![t] = "idle"]
    /\ todo' = [todo EXCEPT ![t] = Sig(skel.afterDone, "push") \o <<UnlockOp, LockOp>>]
    /\ UNCHANGED <<queue, cur>>

DecideWorker(t) ==
    /\ IF wk[t] = "done" THEN WorkerDone(t) ELSE WorkerTop(t)
    /\ UNCHANGED <<api, apiDone, res, limit, cap, shutdown, accepted, tryRes, joinOK, freeOK>>

\* POOL_add_internal
Push(t, j) ==
    IF shutdown
    THEN /\ UNCHANGED <<queue, accepted>>
         /\ todo' = [todo EXCEPT ![t] = <<UnlockOp>>]
    ELSE /\ queue' = Append(queue, j)
         /\ accepted' = accepted \cup {j}
         /\ todo' = [todo EXCEPT ![t] = Sig(skel.onAdd, "pop") \o <<UnlockOp>>]

DecideApi(t) ==
    LET a == api[t] IN
    /\ UNCHANGED <<wk, cur, busy, api>>
    /\ CASE a.op = "add" ->
              IF Full /\ ~shutdown
              THEN /\ todo' = [todo EXCEPT ![t] = <<WaitOp("push")>>]
                   /\ UNCHANGED <<queue, accepted, apiDone, res, limit, cap, shutdown, tryRes, joinOK, freeOK>>
              ELSE /\ Push(t, a.j)
                   /\ apiDone' = [apiDone EXCEPT ![t] = TRUE]
                   /\ res' = [res EXCEPT ![t] = 0]
                   /\ UNCHANGED <<limit, cap, shutdown, tryRes, joinOK, freeOK>>
         [] a.op = "tryAdd" ->
              IF Full
              THEN /\ todo' = [todo EXCEPT ![t] = <<UnlockOp>>]
                   /\ apiDone' = [apiDone EXCEPT ![t] = TRUE]
                   /\ res' = [res EXCEPT ![t] = 0]
                   /\ tryRes' = [tryRes EXCEPT ![a.j] = 0]
                   /\ UNCHANGED <<queue, accepted, limit, cap, shutdown, joinOK, freeOK>>
              ELSE /\ Push(t, a.j)
                   /\ apiDone' = [apiDone EXCEPT ![t] = TRUE]
                   /\ res' = [res EXCEPT ![t] = 1]
                   /\ tryRes' = [tryRes EXCEPT ![a.j] = IF shutdown THEN 2 ELSE 1]
                   /\ UNCHANGED <<limit, cap, shutdown, joinOK, freeOK>>
         [] a.op = "joinJobs" ->
              IF queue # <<>> \/ busy > 0
              THEN /\ todo' = [todo EXCEPT ![t] = <<WaitOp("push")>>]
                   /\ UNCHANGED <<queue, accepted, apiDone, res, limit, cap, shutdown, tryRes, joinOK, freeOK>>
              ELSE /\ todo' = [todo EXCEPT ![t] = <<UnlockOp>>]
                   /\ apiDone' = [apiDone EXCEPT ![t] = TRUE]
                   /\ res' = [res EXCEPT ![t] = 0]
                   \* postcondition of POOL_joinJobs, evaluated at its linearisation point
                   /\ joinOK' = (joinOK /\ \A j \in accepted : finished[j] = 1)
                   /\ UNCHANGED <<queue, accepted, limit, cap, shutdown, tryRes, freeOK>>
         [] a.op = "resize" ->
              /\ apiDone' = [apiDone EXCEPT ![t] = TRUE]
              /\ IF a.j <= cap
                 THEN /\ limit' = (IF a.j = 0 THEN limit ELSE a.j)
                      /\ res' = [res EXCEPT ![t] = IF a.j = 0 THEN 1 ELSE 0]
                      /\ cap' = cap
                      /\ todo' = [todo EXCEPT ![t] = Sig(skel.onResize, "pop") \o <<UnlockOp>>]
                 ELSE /\ limit' = a.j /\ cap' = a.j
                      /\ res' = [res EXCEPT ![t] = 0]
                      /\ todo' = [todo EXCEPT ![t] = Rep(CreateOp, a.j - cap) \o Sig(skel.onResize, "pop") \o <<UnlockOp>>]
              /\ UNCHANGED <<queue, accepted, shutdown, tryRes, joinOK, freeOK>>
         [] a.op = "free" ->
              /\ shutdown' = TRUE
              /\ todo' = [todo EXCEPT ![t] = <<UnlockOp>> \o Sig(skel.onShutPush, "push") \o Sig(skel.onShutPop, "pop")
                                              \o Joins(1, cap)]
              /\ apiDone' = [apiDone EXCEPT ![t] = TRUE]
              /\ res' = [res EXCEPT ![t] = 0]
              /\ UNCHANGED <<queue, accepted, limit, cap, tryRes, joinOK, freeOK>>

Decide(t) == IF api[t] # NoApi THEN DecideApi(t) ELSE DecideWorker(t)

-----------------------------------------------------------------------------
(* One action per logged event kind.                                        *)

HasTodo(t, k) == todo[t] # <<>> /\ Head(todo[t]).k = k

Lock(t) ==
    /\ HasTodo(t, "lock") /\ mu = None
    /\ mu' = t
    /\ Decide(t)
    /\ Ghost(t, "lock", None)
    /\ UNCHANGED <<cfg, skel, wPush, wPop, woken, rest, spawned, started, finished>>

Relock(t) ==
    /\ t \in woken /\ mu = None
    /\ mu' = t
    /\ woken' = woken \ {t}
    /\ Decide(t)
    /\ Ghost(t, "relock", None)
    /\ UNCHANGED <<cfg, skel, wPush, wPop, rest, spawned, started, finished>>

Unlock(t) ==
    /\ HasTodo(t, "unlock") /\ mu = t
    /\ mu' = None
    /\ todo' = [todo EXCEPT ![t] = Tail(@)]
    /\ Ghost(t, "unlock", None)
    /\ UNCHANGED <<cfg, skel, wPush, wPop, woken, api, apiDone, res, rest, wk, cur, queue, busy, limit, cap, shutdown,
                   spawned, accepted, started, finished, tryRes, joinOK, freeOK>>

Wait(t) ==
    /\ HasTodo(t, "wait") /\ mu = t
    /\ mu' = None
    /\ IF Head(todo[t]).c = "push" THEN wPush' = wPush \cup {t} /\ wPop' = wPop
                                   ELSE wPop' = wPop \cup {t} /\ wPush' = wPush
    /\ todo' = [todo EXCEPT ![t] = <<>>]
    /\ Ghost(t, "wait", None)
    /\ UNCHANGED <<cfg, skel, woken, api, apiDone, res, rest, wk, cur, queue, busy, limit, cap, shutdown,
                   spawned, accepted, started, finished, tryRes, joinOK, freeOK>>

\* cond_signal: POSIX lets the implementation wake any one waiter; w = None when nobody waits
Signal(t, w) ==
    /\ HasTodo(t, "signal")
    /\ LET c == Head(todo[t]).c
           ws == IF c = "push" THEN wPush ELSE wPop IN
       /\ IF ws = {} THEN w = None ELSE w \in ws
       /\ IF c = "push" THEN wPush' = wPush \ {w} /\ wPop' = wPop
                        ELSE wPop' = wPop \ {w} /\ wPush' = wPush
       /\ woken' = IF w = None THEN woken ELSE woken \cup {w}
    /\ todo' = [todo EXCEPT ![t] = Tail(@)]
    /\ Ghost(t, "signal", w)
    /\ UNCHANGED <<cfg, skel, mu, api, apiDone, res, rest, wk, cur, queue, busy, limit, cap, shutdown,
                   spawned, accepted, started, finished, tryRes, joinOK, freeOK>>

Broadcast(t) ==
    /\ HasTodo(t, "broadcast")
    /\ LET c == Head(todo[t]).c IN
       IF c = "push" THEN woken' = woken \cup wPush /\ wPush' = {} /\ wPop' = wPop
                     ELSE woken' = woken \cup wPop /\ wPop' = {} /\ wPush' = wPush
    /\ todo' = [todo EXCEPT ![t] = Tail(@)]
    /\ Ghost(t, "broadcast", None)
    /\ UNCHANGED <<cfg, skel, mu, api, apiDone, res, rest, wk, cur, queue, busy, limit, cap, shutdown,
                   spawned, accepted, started, finished, tryRes, joinOK, freeOK>>

Create(t) ==
    /\ HasTodo(t, "create")
    /\ spawned < cfg.maxT
    /\ spawned' = spawned + 1
    /\ LET c == spawned + 1 IN
       /\ todo' = [todo EXCEPT ![t] = Tail(@), ![c] = <<Op("start", "", None)>>]
       /\ wk' = [wk EXCEPT ![c] = "idle"]
       /\ Ghost(t, "create", c)
    /\ cap' = IF api[t].op = "create" THEN spawned + 1 ELSE cap   \* POOL_create sets threadCapacity as it goes
    /\ UNCHANGED <<cfg, skel, mu, wPush, wPop, woken, api, apiDone, res, rest, cur, queue, busy, limit, shutdown,
                   accepted, started, finished, tryRes, joinOK, freeOK>>

Start(t) ==
    /\ HasTodo(t, "start")
    /\ todo' = [todo EXCEPT ![t] = <<LockOp>>]
    /\ Ghost(t, "start", None)
    /\ UNCHANGED <<cfg, skel, mu, wPush, wPop, woken, api, apiDone, res, rest, wk, cur, queue, busy, limit, cap, shutdown,
                   spawned, accepted, started, finished, tryRes, joinOK, freeOK>>

Exit(t) ==
    /\ HasTodo(t, "exit")
    /\ todo' = [todo EXCEPT ![t] = <<>>]
    /\ wk' = [wk EXCEPT ![t] = "exited"]
    /\ Ghost(t, "exit", None)
    /\ UNCHANGED <<cfg, skel, mu, wPush, wPop, woken, api, apiDone, res, rest, cur, queue, busy, limit, cap, shutdown,
                   spawned, accepted, started, finished, tryRes, joinOK, freeOK>>

Join(t) ==
    /\ HasTodo(t, "join")
    /\ wk[Head(todo[t]).x] = "exited"
    /\ todo' = [todo EXCEPT ![t] = Tail(@)]
    /\ Ghost(t, "join", Head(todo[t]).x)
    \* POOL_free postcondition once the last worker is joined: nothing accepted was left behind
    /\ freeOK' = IF Len(todo[t]) = 1
                 THEN (freeOK /\ queue = <<>> /\ \A j \in accepted : finished[j] = 1)
                 ELSE freeOK
    /\ UNCHANGED <<cfg, skel, mu, wPush, wPop, woken, api, apiDone, res, rest, wk, cur, queue, busy, limit, cap, shutdown,
                   spawned, accepted, started, finished, tryRes, joinOK>>

\* application-level events
CanRunClient(t) == todo[t] = <<>> /\ api[t] = NoApi /\ (t = Main \/ wk[t] = "body")

Call(t) ==
    /\ CanRunClient(t) /\ rest[t] # <<>>
    /\ LET o == Head(rest[t]) IN
       /\ api' = [api EXCEPT ![t] = o]
       /\ todo' = [todo EXCEPT ![t] = IF o.op = "create" THEN Rep(CreateOp, o.j) ELSE <<LockOp>>]
       /\ apiDone' = [apiDone EXCEPT ![t] = (o.op = "create")]
    /\ rest' = [rest EXCEPT ![t] = Tail(@)]
    /\ Ghost(t, "call", None)
    /\ UNCHANGED <<cfg, skel, mu, wPush, wPop, woken, res, wk, cur, queue, busy, limit, cap, shutdown,
                   spawned, accepted, started, finished, tryRes, joinOK, freeOK>>

Ret(t) ==
    /\ todo[t] = <<>> /\ api[t] # NoApi /\ apiDone[t] /\ t \notin woken /\ t \notin (wPush \cup wPop)
    /\ api' = [api EXCEPT ![t] = NoApi]
    /\ apiDone' = [apiDone EXCEPT ![t] = FALSE]
    /\ Ghost(t, "ret", None)
    /\ UNCHANGED <<cfg, skel, mu, wPush, wPop, woken, todo, res, rest, wk, cur, queue, busy, limit, cap, shutdown,
                   spawned, accepted, started, finished, tryRes, joinOK, freeOK>>

JobStart(t) ==
    /\ todo[t] = <<>> /\ wk[t] = "run" /\ api[t] = NoApi
    /\ wk' = [wk EXCEPT ![t] = "body"]
    /\ rest' = [rest EXCEPT ![t] = cfg.body[cur[t] + 1]]   \* body is a sequence indexed by job id + 1
    /\ started' = [started EXCEPT ![cur[t]] = @ + 1]
    /\ Ghost(t, "jobStart", None)
    /\ UNCHANGED <<cfg, skel, mu, wPush, wPop, woken, todo, api, apiDone, res, cur, queue, busy, limit, cap, shutdown,
                   spawned, accepted, finished, tryRes, joinOK, freeOK>>

JobEnd(t) ==
    /\ todo[t] = <<>> /\ wk[t] = "body" /\ api[t] = NoApi /\ rest[t] = <<>>
    /\ wk' = [wk EXCEPT ![t] = "done"]
    /\ finished' = [finished EXCEPT ![cur[t]] = @ + 1]
    /\ todo' = [todo EXCEPT ![t] = <<LockOp>>]
    /\ Ghost(t, "jobEnd", None)
    /\ UNCHANGED <<cfg, skel, mu, wPush, wPop, woken, api, apiDone, res, rest, cur, queue, busy, limit, cap, shutdown,
                   spawned, accepted, started, tryRes, joinOK, freeOK>>

MainFinished == rest[Main] = <<>> /\ api[Main] = NoApi /\ todo[Main] = <<>>
AllQuiet == MainFinished /\ \A t \in 1..cfg.maxT : wk[t] \in {"none", "exited"}

Terminated == AllQuiet /\ UNCHANGED vars

Step(t) == \/ Lock(t) \/ Relock(t) \/ Unlock(t) \/ Wait(t) \/ Broadcast(t) \/ Create(t) \/ Start(t)
           \/ Exit(t) \/ Join(t) \/ Call(t) \/ Ret(t) \/ JobStart(t) \/ JobEnd(t)
           \/ \E w \in Threads \cup {None} : Signal(t, w)

Next == (\E t \in Threads : Step(t)) \/ Terminated

Spec == Init /\ [][Next]_vars

-----------------------------------------------------------------------------
(* Properties (C12).                                                        *)

TypeOK == /\ mu \in Threads \cup {None}
          /\ busy \in 0..cfg.maxT
          /\ wPush \subseteq Threads /\ wPop \subseteq Threads /\ woken \subseteq Threads

\* every accepted job is executed at most once at every instant, never an unaccepted one
AtMostOnce == \A j \in JobIds : started[j] <= 1 /\ finished[j] <= started[j]
                                 /\ (started[j] > 0 => j \in accepted)

\* a refused non-blocking post is never executed; an accepting one is accepted
TryAddHonest == \A j \in JobIds : /\ (tryRes[j] = 0 => (j \notin accepted /\ started[j] = 0))
                                  /\ (tryRes[j] = 1 => j \in accepted)

\* waiting for completion returns only after all accepted jobs have finished
JoinJobsPost == joinOK

\* destroying the pool joins every worker with nothing accepted left unexecuted
FreePost == freeOK

\* when everything has terminated each accepted job ran exactly once (needs the program to end with free)
ExactlyOnceAtEnd == AllQuiet /\ shutdown => \A j \in accepted : started[j] = 1 /\ finished[j] = 1

\* the queue never holds more than its capacity (hand-off mode: one pending job)
QueueBound == Len(queue) <= (IF cfg.qs > 0 THEN cfg.qs ELSE 1)

BusyBound == busy <= cap

\* deadlock freedom is TLC's deadlock check: the only state without a successor other than stuttering is AllQuiet.
=============================================================================
