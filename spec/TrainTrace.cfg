INIT TInit
NEXT TNext
CONSTRAINT Track
POSTCONDITION TraceAccepted
CHECK_DEADLOCK FALSE
