SPECIFICATION Spec
CONSTANTS
  Geoms = {"g1", "g2"}
  MaxIdx = 12
  MaxHist = 3
  KeepLow = TRUE
  StickyPrice = TRUE
INVARIANTS PriceChosenPerBlock
CHECK_DEADLOCK FALSE
