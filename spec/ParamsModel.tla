----------------------------- MODULE ParamsModel -----------------------------
(* Bounded model of one CCtx over Params.tla: see the header of Params.tla. *)
EXTENDS Params

-----------------------------------------------------------------------------
(* Bounded model of one CCtx: histories over a representative parameter of  *)
(* each shape and the boundary value grid, with stages and resets.          *)
CONSTANTS MParams,     \* subset of CNames explored exhaustively
          MaxOps       \* bound on history length


VARIABLES vals,      \* requested parameters of the context
          stage,     \* "init" | "mid" | "err"
          dict,      \* 0 = none, else dictionary id loaded in the context
          nops, hist,
          lastOK     \* ghost: the contract verdict on the last step

mvars == <<vals, stage, dict, nops, hist, lastOK>>

MInit == /\ vals = [n \in MParams |-> CRow(n).def]
         /\ stage = "init" /\ dict = 0 /\ nops = 0 /\ hist = <<>> /\ lastOK = TRUE

Rec(a) == /\ nops' = nops + 1 /\ hist' = Append(hist, a)

MSet(n, v) ==
    LET r == CRow(n)
        refused == stage = "mid" /\ ~r.upd          \* stage gating
        d == IF refused THEN <<FALSE, vals[n]>> ELSE DesignSet(r, v, vals[n]) IN
    /\ nops < MaxOps /\ stage # "err"
    /\ vals' = [vals EXCEPT ![n] = d[2]]
    /\ lastOK' = /\ (stage = "init" => SetOK(r, v, d[1], vals[n], d[2]))
                 /\ (stage = "mid" /\ ~r.upd => ~d[1])
                 /\ (stage = "mid" => (~d[1] => d[2] = vals[n]) /\ Stored(r, d[2]))
    /\ Rec([a |-> "set", q |-> n, v |-> v, ok |-> d[1]])
    /\ UNCHANGED <<stage, dict>>

MBegin == /\ nops < MaxOps /\ stage = "init" /\ stage' = "mid" /\ Rec([a |-> "begin", q |-> "", v |-> 0, ok |-> TRUE])
          /\ lastOK' = TRUE /\ UNCHANGED <<vals, dict>>
MEnd == /\ nops < MaxOps /\ stage = "mid" /\ stage' = "init" /\ Rec([a |-> "end", q |-> "", v |-> 0, ok |-> TRUE])
        /\ lastOK' = TRUE /\ UNCHANGED <<vals, dict>>
MFail == /\ nops < MaxOps /\ stage = "init" /\ stage' = "err" /\ Rec([a |-> "fail", q |-> "", v |-> 0, ok |-> FALSE])
         /\ lastOK' = TRUE /\ UNCHANGED <<vals, dict>>
MLoadDict == /\ nops < MaxOps /\ stage = "init" /\ dict' = 1 /\ Rec([a |-> "loadDict", q |-> "", v |-> 1, ok |-> TRUE])
             /\ lastOK' = TRUE /\ UNCHANGED <<vals, stage>>
\* ZSTD_CCtx_reset(): kind 1 = session only, 2 = parameters, 3 = session and parameters
MReset(kind) ==
    /\ nops < MaxOps
    /\ LET refused == kind = 2 /\ stage # "init" IN
       /\ stage' = IF kind \in {1, 3} THEN "init" ELSE stage
       /\ vals' = IF kind \in {2, 3} /\ ~refused THEN [n \in MParams |-> CRow(n).def] ELSE vals
       /\ dict' = IF kind \in {2, 3} /\ ~refused THEN 0 ELSE dict
       /\ Rec([a |-> "reset", q |-> "", v |-> kind, ok |-> ~refused])
    /\ lastOK' = TRUE

MNext == \/ \E n \in MParams : \E v \in Grid(CRow(n)) : MSet(n, v)
         \/ MBegin \/ MEnd \/ MFail \/ MLoadDict \/ \E k \in 1..3 : MReset(k)

MSpec == MInit /\ [][MNext]_mvars

\* Design => Contract on every step of every history
DesignMeetsContract == lastOK
\* whatever the history, what is stored is inside the advertised bounds (or the documented sentinel)
StoredInBounds == \A n \in MParams : Stored(CRow(n), vals[n])
\* a parameter reset in the init stage restores every default and drops the dictionary
ResetRestores == (hist # <<>> /\ hist[Len(hist)].a = "reset" /\ hist[Len(hist)].v \in {2, 3} /\ hist[Len(hist)].ok)
                    => (vals = [n \in MParams |-> CRow(n).def] /\ dict = 0)
=============================================================================
