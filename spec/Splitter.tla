------------------------------ MODULE Splitter ------------------------------
(***************************************************************************)
(* Repeat-offset histories across the partitions of a split block           *)
(* (properties C01, C05; lib/compress/zstd_compress.c,                      *)
(* ZSTD_compressBlock_splitBlock_internal + ZSTD_seqStore_resolveOffCodes). *)
(*                                                                          *)
(* The match finder parses the whole block once; its history (crep) moves   *)
(* with every sequence it stores.  The post-splitter then emits the block   *)
(* as several partitions; a partition may be stored raw/RLE, in which case  *)
(* the decoder never sees its sequences and its history (drep) stays put.   *)
(* Before a partition is entropy-coded, every stored repeat code that the   *)
(* two histories resolve differently is rewritten into an explicit offset;  *)
(* srep is the splitter's simulation of the decoder history, and it is      *)
(* what the next block's match finder starts from.                          *)
(*                                                                          *)
(* TLC checks, for every initial history and every sequence of              *)
(* (offset, litLength = 0?, partition kind) up to MaxLen, that the decoder  *)
(* resolves each emitted code to the offset the match finder meant, and     *)
(* that the simulated history is the decoder's.                             *)
(* SimUsesStored = TRUE is the faulty variant in which the simulation is    *)
(* advanced with the stored code rather than the emitted one; the           *)
(* Splitter_mutSim configuration must be rejected.                          *)
(***************************************************************************)
EXTENDS Integers, Sequences, TLC

CONSTANTS MaxOff, MaxLen, SimUsesStored

R == INSTANCE Repcodes WITH MaxOff <- MaxOff, MaxLen <- MaxLen, erep <- <<1,1,1>>, drep <- <<1,1,1>>, n <- 0, ok <- TRUE

VARIABLES crep,   \* history of the match finder (cRepcodes)
          srep,   \* the splitter's simulation of the decoder (dRepcodes)
          drep,   \* the decoder's history
          part,   \* kind of the partition being written: "comp" or "raw"
          n, ok

vars == <<crep, srep, drep, part, n, ok>>
Offs == 1..MaxOff

\* ZSTD_resolveRepcodeToRawOffset (code in 1..3)
Resolve(r, code, ll0) ==
    LET a == code - 1 + (IF ll0 THEN 1 ELSE 0) IN
    IF a = 3 THEN r[1] - 1 ELSE r[a + 1]

Init == /\ \E a, b, c \in Offs : crep = <<a, b, c>> /\ srep = <<a, b, c>> /\ drep = <<a, b, c>>
        /\ part = "comp" /\ n = 0 /\ ok = TRUE

\* one stored sequence of a partition that is entropy-coded
SeqComp == /\ n < MaxLen /\ part = "comp"
           /\ \E raw \in Offs, ll0 \in BOOLEAN :
                LET code == R!EncCode(raw, crep, ll0)
                    emitted == IF code <= 3 /\ Resolve(srep, code, ll0) # Resolve(crep, code, ll0)
                               THEN Resolve(crep, code, ll0) + 3 ELSE code
                    d == R!Dec(emitted, drep, ll0) IN
                /\ ok' = (ok /\ d[1] = raw /\ d[1] >= 1)
                /\ drep' = d[2]
                /\ srep' = R!EncUpdate(srep, IF SimUsesStored THEN code ELSE emitted, ll0)
                /\ crep' = R!EncUpdate(crep, code, ll0)
           /\ n' = n + 1 /\ UNCHANGED part

\* one stored sequence of a partition that ends up raw or RLE: only the match finder has seen it
SeqRaw == /\ n < MaxLen /\ part = "raw"
          /\ \E raw \in Offs, ll0 \in BOOLEAN :
                crep' = R!EncUpdate(crep, R!EncCode(raw, crep, ll0), ll0)
          /\ n' = n + 1 /\ UNCHANGED <<srep, drep, part, ok>>

NextPartition == /\ \E k \in {"comp", "raw"} : part' = k
                 /\ part' # part
                 /\ UNCHANGED <<crep, srep, drep, n, ok>>

\* end of the block: the next block's match finder starts from the simulated decoder history
BlockEnd == /\ n < MaxLen /\ crep # srep
            /\ crep' = srep /\ part' = "comp"
            /\ UNCHANGED <<srep, drep, n, ok>>

Next == SeqComp \/ SeqRaw \/ NextPartition \/ BlockEnd \/ (n = MaxLen /\ UNCHANGED vars)
Spec == Init /\ [][Next]_vars

RoundTrip == ok
SimIsDecoder == srep = drep
\* within an entropy-coded run with no raw partition behind it the three histories coincide
=============================================================================
