----------------------------- MODULE SeqApiGen -----------------------------
(* Enumeration of boundary sequence lists (model -> code): every list of up  *)
(* to MaxLen sequences over the boundary domains below, with the verdict of  *)
(* SeqApi.tla, written as one JSON line each; checks/c17.py replays them on  *)
(* ZSTD_compressSequences and compares verdicts.                             *)
EXTENDS SeqApi, Json
CONSTANTS MaxLen, Win, Dict, MinMatch
VARIABLES list, pos
LLs == {0, 1, 7, Win - 2, Win + 5}
MLs == {2, 3, 4, 9}
\* offsets relative to the history available at the match start: 1, exactly all history, one too many, window, window+1
Offs(start) == {1, start + Dict, start + Dict + 1, Win, Win + 1} \cap 1..(2 * Win + Dict + 20)     \* (offset 0 with a match length is outside the documented validation scope)
GInit == list = <<>> /\ pos = 0
GNext == /\ Len(list) < MaxLen
         /\ \E ll \in LLs, ml \in MLs : \E off \in Offs(pos + ll) :
               /\ list' = Append(list, [ll |-> ll, ml |-> ml, off |-> off])
               /\ pos' = pos + ll + ml
Export == IF list = <<>> THEN TRUE
          ELSE PrintT("SEQLIST " \o ToJson([list |-> list, ok |-> VerdictNoDelim(list, Win, Dict, MinMatch, FALSE), win |-> Win, dict |-> Dict, minMatch |-> MinMatch]))
=============================================================================
