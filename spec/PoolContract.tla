---------------------------- MODULE PoolContract ----------------------------
(***************************************************************************)
(* The caller-visible contract of the thread pool (property C12), stated    *)
(* over application-level events only: posts, their return values, job      *)
(* executions, joinJobs and free.  It is independent of how pool.c is       *)
(* implemented, so it keeps deciding the property when the tight model      *)
(* (Pool.tla) no longer matches a refactored pool.c.                        *)
(* Used for trace validation only: every recorded execution is replayed     *)
(* through it and the invariants are evaluated after every event.           *)
(***************************************************************************)
EXTENDS Integers, Sequences, FiniteSets, TLC, Json, IOUtils

VARIABLES l,
          posted,      \* jobs whose post call has been issued
          accepted,    \* jobs whose post returned success (add returned / tryAdd returned 1)
          refused,     \* jobs whose tryAdd returned 0
          started, finished,
          beforeJoin,  \* jobs accepted before the pending joinJobs call was issued
          joining, freeing, freed, dead,
          created, joined   \* worker threads created / joined so far

vars == <<l, posted, accepted, refused, started, finished, beforeJoin, joining, freeing, freed, dead, created, joined>>
JobIds == 0..15
Tr == ndJsonDeserialize(IOEnv.TRACE)
Ev == Tr[l]
Is(e) == l <= Len(Tr) /\ Ev.e = e /\ l' = l + 1

Fresh == /\ posted = {} /\ accepted = {} /\ refused = {} /\ beforeJoin = {}
         /\ started = [j \in JobIds |-> 0] /\ finished = [j \in JobIds |-> 0]
         /\ joining = FALSE /\ freeing = FALSE /\ freed = FALSE /\ dead = FALSE
         /\ created = {} /\ joined = {}

CInit == l = 1 /\ TLCSet(1, 0) /\ Fresh

CReset == /\ Is("config")
          /\ posted' = {} /\ accepted' = {} /\ refused' = {} /\ beforeJoin' = {}
          /\ started' = [j \in JobIds |-> 0] /\ finished' = [j \in JobIds |-> 0]
          /\ joining' = FALSE /\ freeing' = FALSE /\ freed' = FALSE /\ dead' = FALSE
          /\ created' = {} /\ joined' = {}

CCall == /\ Is("call")
         /\ posted' = IF Ev.op \in {"add", "tryAdd"} THEN posted \cup {Ev.j} ELSE posted
         /\ joining' = IF Ev.op = "joinJobs" THEN TRUE ELSE joining
         /\ beforeJoin' = IF Ev.op = "joinJobs" THEN accepted ELSE beforeJoin
         /\ freeing' = IF Ev.op = "free" THEN TRUE ELSE freeing
         /\ UNCHANGED <<accepted, refused, started, finished, freed, dead, created, joined>>

CRet == /\ Is("ret")
        \* a post that returns while the pool is being destroyed may have been dropped (documented shutdown rule)
        /\ accepted' = IF (Ev.op = "add" \/ (Ev.op = "tryAdd" /\ Ev.r = 1)) /\ ~freeing THEN accepted \cup {Ev.j} ELSE accepted
        /\ refused' = IF Ev.op = "tryAdd" /\ Ev.r = 0 THEN refused \cup {Ev.j} ELSE refused
        /\ joining' = IF Ev.op = "joinJobs" THEN FALSE ELSE joining
        /\ freed' = IF Ev.op = "free" THEN TRUE ELSE freed
        \* joinJobs postcondition: everything accepted before the call was issued has finished
        /\ Ev.op = "joinJobs" => \A j \in beforeJoin : finished[j] = 1
        \* free postcondition: every job accepted before free was called has run
        /\ Ev.op = "free" => \A j \in accepted : finished[j] = 1
        \* ... and every worker thread ever created has been joined
        /\ Ev.op = "free" => created \subseteq joined
        /\ UNCHANGED <<posted, started, finished, beforeJoin, freeing, dead, created, joined>>

CJobStart == /\ Is("jobStart")
             /\ Ev.j \in posted /\ Ev.j \notin refused      \* never an unposted or refused job
             /\ started[Ev.j] = 0                            \* at most once
             /\ ~freed                                       \* no job runs after the pool is destroyed
             /\ started' = [started EXCEPT ![Ev.j] = 1]
             /\ UNCHANGED <<posted, accepted, refused, finished, beforeJoin, joining, freeing, freed, dead, created, joined>>

CJobEnd == /\ Is("jobEnd")
           /\ started[Ev.j] = 1 /\ finished[Ev.j] = 0
           /\ finished' = [finished EXCEPT ![Ev.j] = 1]
           /\ UNCHANGED <<posted, accepted, refused, started, beforeJoin, joining, freeing, freed, dead, created, joined>>

CCount == Is("count") /\ started[Ev.j] = Ev.started /\ finished[Ev.j] = Ev.finished /\ UNCHANGED <<posted, accepted, refused, started, finished, beforeJoin, joining, freeing, freed, dead, created, joined>>

\* at the end of an execution that destroyed the pool: each accepted job ran exactly once
CEnd == /\ Is("end")
        /\ freed => \A j \in accepted : started[j] = 1 /\ finished[j] = 1
        /\ UNCHANGED <<posted, accepted, refused, started, finished, beforeJoin, joining, freeing, freed, dead, created, joined>>

\* synchronisation-level lines carry no contract-level meaning
Sync == {"lock", "unlock", "relock", "wait", "signal", "broadcast", "start", "exit", "names"}
CCreate == Is("create") /\ created' = created \cup {Ev.c}
           /\ UNCHANGED <<posted, accepted, refused, started, finished, beforeJoin, joining, freeing, freed, dead, joined>>
CJoin == Is("join") /\ joined' = joined \cup {Ev.c}
         /\ UNCHANGED <<posted, accepted, refused, started, finished, beforeJoin, joining, freeing, freed, dead, created>>
CSkip == /\ l <= Len(Tr) /\ Ev.e \in Sync /\ l' = l + 1
         /\ UNCHANGED <<posted, accepted, refused, started, finished, beforeJoin, joining, freeing, freed, dead, created, joined>>

\* "deadlock", "stuck", "bad_unlock", "step_limit" lines are never matched: such a trace is rejected
CNext == CCreate \/ CJoin \/ CReset \/ CCall \/ CRet \/ CJobStart \/ CJobEnd \/ CCount \/ CEnd \/ CSkip

Track == IF l > TLCGet(1) THEN TLCSet(1, l) ELSE TRUE
TraceAccepted == IF TLCGet(1) = Len(Tr) + 1 THEN TRUE
                 ELSE /\ PrintT(<<"TRACE-REJECT matched", TLCGet(1) - 1, "of", Len(Tr), "next line", IF TLCGet(1) <= Len(Tr) THEN Tr[TLCGet(1)] ELSE <<>> >>)
                      /\ FALSE
=============================================================================
