SPECIFICATION Spec
CONSTANTS
  N = 4
  B = 2
  H = 1
  E = 0
  InSizes = {1, 3}
  OutSizes = {1, 4}
  DInSizes = {1, 9}
  DOutSizes = {1, 9}
INVARIANTS TypeOK CProgress DProgress FlushDecodable EndComplete CompletionHonest DecoderSound DoneExact NeverDoneOnPrefix
