INIT MInit
NEXT MNext
CONSTANTS
  MParams = {"compressionLevel", "windowLog", "targetLength", "targetCBlockSize", "checksumFlag", "nbWorkers", "jobSize", "rsyncable"}
  MaxOps = 3
INVARIANTS DesignMeetsContract StoredInBounds ResetRestores
