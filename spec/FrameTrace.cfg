INIT FInit
NEXT FNext
CONSTRAINT Track
POSTCONDITION TraceAccepted
CHECK_DEADLOCK FALSE
