SPECIFICATION Spec
CONSTANTS
  Cap = 6
  In = 4
  Dict = 2
  MaxV = 8
  MaxSeq = 3
  CheckLit = TRUE
  CheckRoom = TRUE
  CheckOffset = TRUE
INVARIANTS OutputInBounds LiteralsInBounds
PROPERTIES MatchInHistory Terminates



CHECK_DEADLOCK FALSE
