SPECIFICATION Spec
CONSTANTS
  RingSize = 7
  MaxDist = 4
  CycleLog = 1
  MaxBlock = 3
  IdxMax = 20
  HashRead = 2
  OverlapAlways = TRUE
INVARIANTS ReachableFresh LimitsOrdered IndexBounded CorrectionSound WindowKept
CONSTRAINT Wears
CHECK_DEADLOCK FALSE
