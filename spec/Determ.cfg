SPECIFICATION Spec
CONSTANTS
  Geoms = {"g1", "g2"}
  MaxIdx = 12
  MaxHist = 5
  KeepLow = TRUE
  StickyPrice = FALSE
INVARIANTS TypeOK NoStaleReach NoStaleTag PriceChosenPerBlock IndexBounded
CHECK_DEADLOCK FALSE
