SPECIFICATION Spec
CONSTANTS
  Cap = 6
  In = 4
  Dict = 2
  MaxV = 8
  MaxSeq = 3
  CheckLit = TRUE
  CheckRoom = TRUE
  CheckOffset = FALSE



PROPERTIES MatchInHistory
CHECK_DEADLOCK FALSE
