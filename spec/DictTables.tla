----------------------------- MODULE DictTables -----------------------------
(***************************************************************************)
(* Life of the offset-code table a zstd-format dictionary brings along      *)
(* (properties C17, C08; lib/compress/zstd_compress.c ZSTD_loadCEntropy,    *)
(* ZSTD_compressBlock_internal, ZSTD_compressSequences_internal;            *)
(* zstd_compress_sequences.c ZSTD_selectEncodingType).                      *)
(*                                                                          *)
(* Loading the dictionary marks the table "valid" when it has a symbol for  *)
(* every offset code up to Code(dictContent + BlockSize): that is all a     *)
(* match of the FIRST block can need.  While the table is "valid" the fast  *)
(* strategies re-use it for a block WITHOUT looking at the block's symbols; *)
(* in state "check" it is re-used only after every symbol of the block was  *)
(* found in it.  Hence the table must leave "valid" once the first block    *)
(* is behind - whichever way that block was emitted (compressed, raw, RLE,  *)
(* or too small to compress).                                               *)
(*                                                                          *)
(* DowngradeAfter is the set of block kinds after which the implementation  *)
(* downgrades.  The repaired tree has all four; the tree as pinned had only *)
(* "comp" on the ZSTD_compressSequences path (configuration                 *)
(* DictTables_mutComp, which TLC must reject).                              *)
(***************************************************************************)
EXTENDS Integers, TLC

CONSTANTS DictContent,      \* bytes of dictionary content
          BlockSize,        \* bytes per full block
          NBlocks,          \* blocks per frame explored
          DowngradeAfter    \* subset of Kinds

Kinds == {"comp", "raw", "rle", "tiny"}

VARIABLES b,       \* blocks emitted so far
          pos,     \* bytes consumed so far
          mode,    \* "valid" | "check"
          ok       \* no block was coded with a symbol its table lacks

vars == <<b, pos, mode, ok>>

RECURSIVE Log2(_)
Log2(n) == IF n <= 1 THEN 0 ELSE 1 + Log2(n \div 2)
Code(off) == Log2(off + 3)                      \* offset code of a raw offset (offBase = offset + 3)

Covered == Log2(DictContent + BlockSize)        \* offcodeMax of ZSTD_loadCEntropy: the table has symbols 0..Covered

Init == b = 0 /\ pos = 0 /\ mode = "valid" /\ ok = TRUE

\* one block of `len` bytes; its largest offset reaches from its last match (which starts at least 3 bytes before the block's end)
\* back to the start of the dictionary content
Block(kind, len, far) ==
    LET maxOff == pos + len - 3 + DictContent
        top == IF far THEN Code(maxOff) ELSE 0           \* the block's highest offset code
    IN /\ b < NBlocks
       /\ IF kind = "comp"
          THEN ok' = (ok /\ (mode = "valid" => top <= Covered))     \* "valid": re-used unseen; "check": re-used only if it fits
          ELSE ok' = ok
       /\ mode' = IF kind \in DowngradeAfter THEN "check" ELSE mode
       /\ b' = b + 1 /\ pos' = pos + len

Next == \/ \E kind \in {"comp", "raw", "rle"}, far \in BOOLEAN : Block(kind, BlockSize, far)
        \/ \E far \in BOOLEAN : Block("tiny", 5, far)
        \/ (b = NBlocks /\ UNCHANGED vars)

Spec == Init /\ [][Next]_vars

NeverAnUncoveredSymbol == ok
\* the first block alone can never need more than the table covers: the "valid" shortcut is sound exactly there
FirstBlockCovered == Code(BlockSize - 3 + DictContent) <= Covered
ASSUME FirstBlockCovered
=============================================================================
