-------------------------------- MODULE Cli --------------------------------
(***************************************************************************)
(* File-system protocol of the zstd command-line tool for one source file   *)
(* (programs/fileio.c: FIO_compressFilename_srcFile / _dstFile and the      *)
(* decompression twins), with a Crash step enabled after every step         *)
(* (property C19).  One action per system call that matters for user data.  *)
(*                                                                         *)
(* Flags: rm (--rm), force (-f), out in {"file","stdout","test"},           *)
(* dstPre = the destination name exists before the run, ok = the library    *)
(* accepts the input (decompression / test of a corrupt file fails).        *)
(* RmBeforeClose is a deliberately wrong variant (source removed before the *)
(* destination is closed) used to show that DataSafe is not vacuous.        *)
(***************************************************************************)
EXTENDS Integers, Sequences, FiniteSets, TLC

CONSTANTS Rm, Force, Out, DstPre, Ok, NBlocks, RmBeforeClose

VARIABLES pc,        \* program counter
          src,       \* [exists, intact]
          dst,       \* [exists, kind] kind in {"none", "old", "partial", "complete"}
          dstOpen,   \* destination descriptor open (data may still sit in stdio buffers: not credited until written)
          written,   \* blocks written to the destination
          rc, crashed

vars == <<pc, src, dst, dstOpen, written, rc, crashed>>

Init == /\ pc = "start"
        /\ src = [exists |-> TRUE, intact |-> TRUE]
        /\ dst = [exists |-> DstPre, kind |-> IF DstPre THEN "old" ELSE "none"]
        /\ dstOpen = FALSE /\ written = 0 /\ rc = -1 /\ crashed = FALSE

ToFile == Out = "file"
Go(p) == pc' = p

OpenSrc == pc = "start" /\ Go("checkdst") /\ UNCHANGED <<src, dst, dstOpen, written, rc, crashed>>

\* FIO_openDstFile: refuse to overwrite without -f; with -f the old file is removed first
CheckDst == /\ pc = "checkdst"
            /\ IF ~ToFile THEN Go("work") /\ UNCHANGED <<dst, rc>>
               ELSE IF dst.exists /\ ~Force THEN Go("exit") /\ rc' = 1 /\ UNCHANGED dst
               ELSE IF dst.exists THEN Go("opendst") /\ dst' = [exists |-> FALSE, kind |-> "none"] /\ UNCHANGED rc
               ELSE Go("opendst") /\ UNCHANGED <<dst, rc>>
            /\ UNCHANGED <<src, dstOpen, written, crashed>>

OpenDst == /\ pc = "opendst" /\ Go("work")
           /\ dst' = [exists |-> TRUE, kind |-> "partial"] /\ dstOpen' = TRUE
           /\ UNCHANGED <<src, written, rc, crashed>>

\* the (de)compression loop: one block written per step; a bad input fails somewhere on the way
Work == /\ pc = "work"
        /\ \/ /\ written < NBlocks /\ (Ok \/ written < NBlocks - 1)
              /\ written' = written + 1 /\ Go("work") /\ UNCHANGED rc
           \/ /\ written = NBlocks /\ Ok /\ Go(IF RmBeforeClose THEN "rmsrc" ELSE "closedst") /\ UNCHANGED <<written, rc>>
           \/ /\ ~Ok /\ Go("fail") /\ rc' = 1 /\ UNCHANGED written
        /\ UNCHANGED <<src, dst, dstOpen, crashed>>

CloseDst == /\ pc = "closedst"
            /\ IF ToFile THEN dst' = [exists |-> TRUE, kind |-> "complete"] /\ dstOpen' = FALSE ELSE UNCHANGED <<dst, dstOpen>>
            /\ Go(IF RmBeforeClose THEN "exit0" ELSE "rmsrc")
            /\ UNCHANGED <<src, written, rc, crashed>>

\* the source is removed only if asked, the operation succeeded and the output can stand for the input
RmSrc == /\ pc = "rmsrc"
         /\ IF Rm /\ ToFile THEN src' = [exists |-> FALSE, intact |-> FALSE] ELSE UNCHANGED src
         /\ Go(IF RmBeforeClose THEN "closedst" ELSE "exit0")
         /\ UNCHANGED <<dst, dstOpen, written, rc, crashed>>

\* failure path: close and remove the artefact
Fail == /\ pc = "fail"
        /\ IF ToFile /\ dstOpen THEN dst' = [exists |-> FALSE, kind |-> "none"] /\ dstOpen' = FALSE ELSE UNCHANGED <<dst, dstOpen>>
        /\ Go("exit")
        /\ UNCHANGED <<src, written, rc, crashed>>

Exit0 == pc = "exit0" /\ Go("done") /\ rc' = 0 /\ UNCHANGED <<src, dst, dstOpen, written, crashed>>
Exit == pc = "exit" /\ Go("done") /\ UNCHANGED <<src, dst, dstOpen, written, rc, crashed>>

\* abrupt termination at any instant: the file system stays as it is
Crash == /\ pc \notin {"done"} /\ ~crashed /\ crashed' = TRUE /\ Go("done")
         /\ UNCHANGED <<src, dst, dstOpen, written, rc>>

Next == OpenSrc \/ CheckDst \/ OpenDst \/ Work \/ CloseDst \/ RmSrc \/ Fail \/ Exit0 \/ Exit \/ Crash
        \/ (pc = "done" /\ UNCHANGED vars)
Spec == Init /\ [][Next]_vars

\* at every instant the user's data is recoverable
DataSafe == (src.exists /\ src.intact) \/ (dst.exists /\ dst.kind = "complete")
\* an existing file is never overwritten unless forced
NoClobber == (DstPre /\ ~Force) => (dst.exists /\ dst.kind = "old")
\* a failed operation exits non-zero and leaves no output file behind
CleanFail == (pc = "done" /\ ~crashed /\ rc # 0 /\ ~(DstPre /\ ~Force)) => ~(dst.exists /\ dst.kind \in {"partial"})
\* exit status tells the library's verdict
Verdict == (pc = "done" /\ ~crashed) => ((rc = 0) <=> (Ok /\ ~(ToFile /\ DstPre /\ ~Force)))
\* the source is never removed when the output cannot stand for it
RmOnlyWhenMeaningful == ~src.exists => (Rm /\ ToFile /\ Ok)
=============================================================================
