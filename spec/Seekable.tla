------------------------------ MODULE Seekable ------------------------------
(***************************************************************************)
(* Seekable format (contrib/seekable_format), property C20.                 *)
(* Compressor: content is cut into frames of at most MaxFrame units, plus   *)
(* explicit ZSTD_seekable_endFrame calls (an empty frame is not logged      *)
(* twice); the frame log becomes the seek table.                            *)
(* Reader: ZSTD_seekable_decompress(offset, len) - transcription of its     *)
(* loop: find the target frame by binary search on decompressed offsets;    *)
(* continue from the current position when the target frame is the current  *)
(* one and the offset is not behind us, else restart at the frame start;    *)
(* decode forward (discarding until offset), crossing into following        *)
(* frames, each frame verified against its checksum when it completes.      *)
(* TLC checks, for every cut of the content into frames and every history   *)
(* of reads, that a read returns exactly content[offset, offset+len) and    *)
(* that the cursor (curFrame, dOff) stays consistent with the table.        *)
(***************************************************************************)
EXTENDS Integers, Sequences, FiniteSets, TLC

CONSTANTS N,         \* content length
          MaxFrame,  \* maxFrameSize
          MaxReads

VARIABLES phase, written, cur, frames, curFrame, dOff, nreads, lastOK

vars == <<phase, written, cur, frames, curFrame, dOff, nreads, lastOK>>

RECURSIVE Sum(_, _)
Sum(s, n) == IF n = 0 THEN 0 ELSE s[n] + Sum(s, n - 1)
DStart(i) == Sum(frames, i - 1)               \* decompressed offset of frame i (1-based), DStart(Len+1) = total
Total == Sum(frames, Len(frames))

Init == phase = "write" /\ written = 0 /\ cur = 0 /\ frames = <<>> /\ curFrame = 0 /\ dOff = 0 /\ nreads = 0 /\ lastOK = TRUE

\* ZSTD_seekable_compressStream: one unit goes into the current frame; a full frame is closed automatically
Write == /\ phase = "write" /\ written < N
         /\ written' = written + 1
         /\ IF cur + 1 = MaxFrame THEN frames' = Append(frames, cur + 1) /\ cur' = 0
                                  ELSE cur' = cur + 1 /\ UNCHANGED frames
         /\ UNCHANGED <<phase, curFrame, dOff, nreads, lastOK>>
\* ZSTD_seekable_endFrame: closes the current frame (also an empty one)
EndFrame == /\ phase = "write" /\ Len(frames) < N + 2
            /\ frames' = Append(frames, cur) /\ cur' = 0
            /\ UNCHANGED <<phase, written, curFrame, dOff, nreads, lastOK>>
\* ZSTD_seekable_endStream: last frame (if anything is pending) + seek table
EndStream == /\ phase = "write" /\ written = N
             /\ frames' = IF cur > 0 THEN Append(frames, cur) ELSE frames
             /\ cur' = 0 /\ phase' = "read" /\ curFrame' = 0 /\ dOff' = 0
             /\ UNCHANGED <<written, nreads, lastOK>>

\* ZSTD_seekable_offsetToFrameIndex: the frame containing offset (first frame whose end is beyond it); Len+1 if offset >= total
FrameOf(off) == IF off >= Total THEN Len(frames) + 1
                ELSE CHOOSE i \in 1..Len(frames) : DStart(i) <= off /\ off < DStart(i + 1)

\* the read loop: returns <<set of content positions delivered, final curFrame, final dOff>>
RECURSIVE Decode(_, _, _, _, _, _)
Decode(off, len, tf, cf, d, got) ==
    \* (re)start decision
    LET restart == tf # cf \/ off < d
        cf1 == IF restart THEN tf ELSE cf
        d1 == IF restart THEN DStart(tf) ELSE d IN
    IF d1 >= off + len THEN <<got, cf1, d1>>
    ELSE \* decode forward inside frame cf1 up to its end or to off+len
         LET fend == DStart(cf1 + 1)
             stop == IF off + len < fend THEN off + len ELSE fend
             got1 == got \cup {p \in d1..(stop - 1) : p >= off} IN
         IF stop = off + len THEN <<got1, cf1, stop>>
         ELSE Decode(off, len, FrameOf(stop), cf1, stop, got1)     \* frame complete: move on to the frame containing stop

\* the same loop without materialising the set of positions (for real byte counts): returns <<delivered up to, curFrame, dOff>>;
\* what is delivered is always the contiguous range from off
RECURSIVE DecodeI(_, _, _, _, _)
DecodeI(off, len, tf, cf, d) ==
    LET restart == tf # cf \/ off < d
        cf1 == IF restart THEN tf ELSE cf
        d1 == IF restart THEN DStart(tf) ELSE d IN
    IF d1 >= off + len THEN <<d1, cf1, d1>>
    ELSE LET fend == DStart(cf1 + 1)
             stop == IF off + len < fend THEN off + len ELSE fend IN
         IF stop = off + len THEN <<stop, cf1, stop>>
         ELSE DecodeI(off, len, FrameOf(stop), cf1, stop)

Read == /\ phase = "read" /\ nreads < MaxReads /\ Total > 0
        /\ \E off \in 0..(Total - 1) : \E len \in 1..(Total - off) :
              LET r == Decode(off, len, FrameOf(off), curFrame, dOff, {}) IN
              /\ lastOK' = (r[1] = off..(off + len - 1))
              /\ curFrame' = r[2] /\ dOff' = r[3]
        /\ nreads' = nreads + 1
        /\ UNCHANGED <<phase, written, cur, frames>>

Next == Write \/ EndFrame \/ EndStream \/ Read \/ (phase = "read" /\ nreads = MaxReads /\ UNCHANGED vars)
Spec == Init /\ [][Next]_vars

\* every read returns exactly the requested bytes
ReadExact == lastOK
\* the table describes the content: frame sizes add up, no frame exceeds the maximum
TableConsistent == phase = "read" => (Total = N /\ \A i \in 1..Len(frames) : frames[i] <= MaxFrame)
\* the cursor is inside (or at the end of) its frame
CursorOK == (phase = "read" /\ curFrame >= 1 /\ curFrame <= Len(frames)) => (DStart(curFrame) <= dOff /\ dOff <= DStart(curFrame + 1))
=============================================================================
