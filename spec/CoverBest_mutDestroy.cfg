SPECIFICATION Spec
CONSTANTS
  Ctxs = 2
  JobsPer = 2
  Workers = 2
  Size <- SizeSmall
  StartInJob = FALSE
  DestroyWaits = FALSE
INVARIANTS NoUseAfterDestroy
CHECK_DEADLOCK FALSE
