----------------------------- MODULE AllocTrace -----------------------------
(***************************************************************************)
(* Monitor for property C13 over the events of harness/allocdrv.c: every    *)
(* allocation and deallocation the library makes through the caller's       *)
(* allocator, every operation with its verdict, per (scenario, k) where the *)
(* k-th allocation after the ARM mark fails.                                *)
(***************************************************************************)
EXTENDS Integers, Sequences, FiniteSets, TLC, Json, IOUtils

VARIABLES l, live, k, faulted, reported, afterFault, retried, name
vars == <<l, live, k, faulted, reported, afterFault, retried, name>>
Tr == ndJsonDeserialize(IOEnv.TRACE)
Ev == Tr[l]
Is(e) == l <= Len(Tr) /\ Ev.e = e /\ l' = l + 1

AInit == l = 1 /\ TLCSet(1, 0) /\ live = {} /\ k = 0 /\ faulted = FALSE /\ reported = FALSE /\ afterFault = FALSE /\ retried = FALSE /\ name = ""

Scn == /\ Is("scn") /\ live' = {} /\ k' = Ev.k /\ faulted' = FALSE /\ reported' = FALSE /\ afterFault' = FALSE /\ retried' = FALSE /\ name' = Ev.name

Alloc == /\ Is("alloc")
         /\ IF Ev.ok THEN live' = live \cup {Ev.id} /\ UNCHANGED faulted
                     ELSE faulted' = TRUE /\ UNCHANGED live
         /\ UNCHANGED <<k, reported, afterFault, retried, name>>

\* every pointer handed out is returned exactly once, through the caller's deallocator
Free == /\ Is("free") /\ Ev.state = "ok" /\ Ev.id \in live
        /\ live' = live \ {Ev.id}
        /\ UNCHANGED <<k, faulted, reported, afterFault, retried, name>>

Mark == /\ l <= Len(Tr) /\ Ev.e \in {"arm", "disarm", "note"} /\ l' = l + 1 /\ UNCHANGED <<live, k, faulted, reported, afterFault, retried, name>>

IsRetry(n) == n \in {"retry", "retry-small", "retry-fits-old-size", "retry-small-first"}

\* an operation during which an allocation failed reports failure; after a reset the same work succeeds
Op == /\ Is("op")
      /\ (Ev.faulted => ~Ev.ok)                                   \* the failure is reported
      /\ (IsRetry(Ev.name) => Ev.ok)                              \* context reusable once memory is available
      /\ (k = 0 => Ev.ok)                                         \* healthy run: everything succeeds
      /\ reported' = (reported \/ (Ev.faulted /\ ~Ev.ok))
      /\ retried' = (retried \/ IsRetry(Ev.name))
      /\ UNCHANGED <<live, k, faulted, afterFault, name>>

\* by the time the objects are freed, all memory obtained through the caller's allocator has been returned
EndScn == /\ Is("endscn")
          /\ Ev.live = 0 /\ live = {} /\ Ev.badFree = 0
          /\ (k > 0 /\ Ev.faults > 0) => reported
          /\ UNCHANGED <<live, k, faulted, reported, afterFault, retried, name>>

End == Is("end") /\ UNCHANGED <<live, k, faulted, reported, afterFault, retried, name>>
\* "crash" lines (a signal in the child) and frees in state "double"/"foreign" match no action: the trace is rejected there

ANext == Scn \/ Alloc \/ Free \/ Mark \/ Op \/ EndScn \/ End
Track == IF l > TLCGet(1) THEN TLCSet(1, l) ELSE TRUE
TraceAccepted == IF TLCGet(1) = Len(Tr) + 1 THEN TRUE
                 ELSE /\ PrintT(<<"TRACE-REJECT matched", TLCGet(1) - 1, "of", Len(Tr), "next line", IF TLCGet(1) <= Len(Tr) THEN Tr[TLCGet(1)] ELSE <<>> >>)
                      /\ FALSE
=============================================================================
