------------------------------- MODULE ZstdMT -------------------------------
(***************************************************************************)
(* Design model of multithreaded streaming compression                      *)
(* (lib/compress/zstdmt_compress.c), property C11: the job ring, the round  *)
(* input buffer with overlap prefixes, the serial section ordered by job    *)
(* id (LDM + frame checksum), the hand-off to the worker pool (queue size   *)
(* 0) and in-order flushing - one action per critical section.  Sizes are   *)
(* in abstract units; the round-buffer capacity is the code's formula.      *)
(*                                                                         *)
(* Caller thread:  GetRange (ZSTDMT_tryGetInputRange incl. the wrap-around  *)
(* memmove of the prefix), Fill, CreateJob (+ POOL_tryAdd), Flush           *)
(* (ZSTDMT_flushProduced).  Worker w: Begin, Serial                         *)
(* (ZSTDMT_serialState_update), Chunk, End (ensureFinished + report).       *)
(***************************************************************************)
EXTENDS Integers, Sequences, FiniteSets, TLC

CONSTANTS NW,        \* workers
          Slots,     \* job table size (jobIDMask + 1)
          Sec,       \* targetSectionSize
          Pre,       \* targetPrefixSize (overlap), <= Sec
          Win,       \* window size (units) entering the capacity formula
          Total,     \* units of input the caller will provide
          CheckInUse \* TRUE = the code's in-use test; FALSE = test removed (to show NoOverlap is not vacuous)

Max(a, b) == IF a > b THEN a ELSE b
Min(a, b) == IF a < b THEN a ELSE b
\* ZSTDMT_initCStream_internal: capacity = max(windowSize, sectionSize * nbWorkers) + sectionSize * (2 + (prefix>0))
Cap == Max(Win, Sec * NW) + Sec * (2 + (IF Pre > 0 THEN 1 ELSE 0))

Workers == 1..NW
MaxJobs == Total + 2
JobIds == 0..(MaxJobs - 1)
NoJob == [src |-> <<0, 0>>, pre |-> <<0, 0>>, consumed |-> 0, csize |-> 0, flushed |-> 0, last |-> FALSE, st |-> "free"]

VARIABLES rem,            \* input units the caller still has
          jobs,           \* [JobIds -> job record]; st in {"free","ready","posted","ended","done"}
          nextID, doneID, jobReady,
          inStart, inFilled,      \* current input section in the round buffer (inStart = -1: none)
          preStart, preSize,      \* prefix to be used by the next job
          pos,                    \* roundBuff.pos
          frameEnded,
          serialNext, xxh,        \* serial section: next job id allowed; jobs whose bytes entered the checksum, in order
          wjob, wst,              \* per worker: job id (-1 idle) and stage
          out                     \* job ids completely flushed, in order

vars == <<rem, jobs, nextID, doneID, jobReady, inStart, inFilled, preStart, preSize, pos, frameEnded, serialNext, xxh, wjob, wst, out>>

Init == /\ rem = Total /\ jobs = [j \in JobIds |-> NoJob]
        /\ nextID = 0 /\ doneID = 0 /\ jobReady = FALSE
        /\ inStart = -1 /\ inFilled = 0 /\ preStart = 0 /\ preSize = 0 /\ pos = 0 /\ frameEnded = FALSE
        /\ serialNext = 0 /\ xxh = <<>>
        /\ wjob = [w \in Workers |-> -1] /\ wst = [w \in Workers |-> "idle"]
        /\ out = <<>>

Overlap(s1, n1, s2, n2) == n1 > 0 /\ n2 > 0 /\ s1 < s2 + n2 /\ s2 < s1 + n1

\* ZSTDMT_getInputDataInUse: the prefix (or, if empty, the source) of the earliest job not completely consumed
Unfinished == {j \in doneID..(nextID - 1) : jobs[j].consumed < jobs[j].src[2]}
FirstUnfinished == CHOOSE j \in Unfinished : \A k \in Unfinished : j <= k
InUse == IF Unfinished = {} \/ ~CheckInUse THEN <<0, 0>>
         ELSE LET j == jobs[FirstUnfinished] IN IF j.pre[2] > 0 THEN j.pre ELSE j.src

-----------------------------------------------------------------------------
(* caller *)

\* ZSTDMT_tryGetInputRange
GetRange ==
    /\ inStart = -1 /\ ~frameEnded /\ ~jobReady /\ rem > 0
    /\ IF Cap - pos < Sec
       THEN \* not enough room at the end: move the prefix to the start, unless that region is still read
            /\ ~Overlap(0, preSize, InUse[1], InUse[2])
            /\ ~Overlap(preSize, Sec, InUse[1], InUse[2])
            /\ preStart' = 0 /\ pos' = preSize
            /\ inStart' = preSize
       ELSE /\ ~Overlap(pos, Sec, InUse[1], InUse[2])
            /\ inStart' = pos
            /\ UNCHANGED <<preStart, pos>>
    /\ inFilled' = 0
    /\ UNCHANGED <<rem, jobs, nextID, doneID, jobReady, preSize, frameEnded, serialNext, xxh, wjob, wst, out>>

Fill ==
    /\ inStart # -1 /\ rem > 0 /\ inFilled < Sec
    /\ \E n \in 1..Min(rem, Sec - inFilled) :
          /\ inFilled' = inFilled + n /\ rem' = rem - n
    /\ UNCHANGED <<jobs, nextID, doneID, jobReady, inStart, preStart, preSize, pos, frameEnded, serialNext, xxh, wjob, wst, out>>

IdleWorkers == {w \in Workers : wjob[w] = -1}

\* POOL_tryAdd on a pool with queue size 0: accepted iff a worker is free
TryPost(id, js) ==
    IF IdleWorkers # {}
    THEN \E w \in IdleWorkers :
            /\ wjob' = [wjob EXCEPT ![w] = id] /\ wst' = [wst EXCEPT ![w] = "begin"]
            /\ jobs' = [js EXCEPT ![id].st = "posted"]
            /\ nextID' = id + 1 /\ jobReady' = FALSE
    ELSE /\ jobs' = js /\ jobReady' = TRUE /\ UNCHANGED <<wjob, wst, nextID>>

\* ZSTDMT_createCompressionJob(srcSize = inFilled, end)
CreateJob(end) ==
    /\ ~frameEnded \/ jobReady
    /\ nextID <= doneID + Slots - 1                            \* job table not full
    /\ nextID < MaxJobs
    /\ IF jobReady
       THEN /\ TryPost(nextID, jobs)
            /\ UNCHANGED <<inStart, inFilled, preStart, preSize, pos, frameEnded>>
       ELSE /\ \/ (inStart # -1 /\ inFilled = Sec)                      \* section full
               \/ (inStart # -1 /\ inFilled > 0 /\ rem = 0)             \* flush / end with buffered input
               \/ (end /\ rem = 0 /\ inFilled = 0)                      \* end with nothing buffered: (possibly empty) last job
            /\ end => rem = 0
            /\ LET sz == inFilled
                   st == IF inStart = -1 THEN 0 ELSE inStart
                   j == [src |-> <<st, sz>>, pre |-> <<preStart, preSize>>, consumed |-> 0, csize |-> 0, flushed |-> 0,
                         last |-> end, st |-> "ready"]
                   js == [jobs EXCEPT ![nextID] = j] IN
              /\ pos' = pos + sz
              /\ inStart' = -1 /\ inFilled' = 0
              /\ IF end THEN preStart' = 0 /\ preSize' = 0 /\ frameEnded' = TRUE
                        ELSE preSize' = Min(sz, Pre) /\ preStart' = st + sz - Min(sz, Pre) /\ frameEnded' = frameEnded
              /\ IF sz = 0 /\ nextID > 0
                 THEN \* ZSTDMT_writeLastEmptyBlock: no worker involved
                      /\ jobs' = [js EXCEPT ![nextID].st = "ended", ![nextID].csize = 1]
                      /\ nextID' = nextID + 1 /\ UNCHANGED <<jobReady, wjob, wst>>
                 ELSE TryPost(nextID, js)
    /\ UNCHANGED <<rem, doneID, serialNext, xxh, out>>

\* ZSTDMT_flushProduced: in job order; a slot is released once its job is complete and fully flushed
Flush ==
    /\ doneID < nextID
    /\ LET j == jobs[doneID] IN
       /\ j.st \in {"posted", "ended"}
       /\ \/ /\ j.csize > j.flushed
             /\ \E k \in 1..(j.csize - j.flushed) :
                   jobs' = [jobs EXCEPT ![doneID].flushed = @ + k]
             /\ UNCHANGED <<doneID, out>>
          \/ /\ j.st = "ended" /\ j.csize = j.flushed
             /\ jobs' = [jobs EXCEPT ![doneID].st = "done"]
             /\ doneID' = doneID + 1 /\ out' = Append(out, doneID)
    /\ UNCHANGED <<rem, nextID, jobReady, inStart, inFilled, preStart, preSize, pos, frameEnded, serialNext, xxh, wjob, wst>>

-----------------------------------------------------------------------------
(* worker w *)

Begin(w) == /\ wst[w] = "begin" /\ wst' = [wst EXCEPT ![w] = "serial"]
            /\ UNCHANGED <<rem, jobs, nextID, doneID, jobReady, inStart, inFilled, preStart, preSize, pos, frameEnded, serialNext, xxh, wjob, out>>

\* ZSTDMT_serialState_update: wait for our turn, do the serial work, pass the turn on
Serial(w) ==
    /\ wst[w] = "serial" /\ serialNext >= wjob[w]
    /\ xxh' = IF serialNext = wjob[w] THEN Append(xxh, wjob[w]) ELSE xxh
    /\ serialNext' = serialNext + 1
    /\ wst' = [wst EXCEPT ![w] = "compress"]
    /\ UNCHANGED <<rem, jobs, nextID, doneID, jobReady, inStart, inFilled, preStart, preSize, pos, frameEnded, wjob, out>>

\* one chunk compressed: more output available, more input consumed (all but the last unit)
Chunk(w) ==
    /\ wst[w] = "compress"
    /\ LET id == wjob[w] IN
       /\ jobs[id].consumed + 1 < jobs[id].src[2]
       /\ jobs' = [jobs EXCEPT ![id].consumed = @ + 1, ![id].csize = @ + 1]
    /\ UNCHANGED <<rem, nextID, doneID, jobReady, inStart, inFilled, preStart, preSize, pos, frameEnded, serialNext, xxh, wjob, wst, out>>

\* last block, ensureFinished, report completion, return to the pool
End(w) ==
    /\ wst[w] = "compress"
    /\ LET id == wjob[w] IN
       /\ jobs[id].consumed + 1 >= jobs[id].src[2]
       /\ jobs' = [jobs EXCEPT ![id].consumed = jobs[id].src[2], ![id].csize = @ + 1, ![id].st = "ended"]
    /\ wjob' = [wjob EXCEPT ![w] = -1] /\ wst' = [wst EXCEPT ![w] = "idle"]
    /\ UNCHANGED <<rem, nextID, doneID, jobReady, inStart, inFilled, preStart, preSize, pos, frameEnded, serialNext, xxh, out>>

Finished == frameEnded /\ doneID = nextID /\ ~jobReady

Next == \/ GetRange \/ Fill \/ CreateJob(FALSE) \/ CreateJob(TRUE) \/ Flush
        \/ \E w \in Workers : Begin(w) \/ Serial(w) \/ Chunk(w) \/ End(w)
        \/ (Finished /\ UNCHANGED vars)

Spec == Init /\ [][Next]_vars
FairSpec == Spec /\ WF_vars(GetRange) /\ WF_vars(Fill) /\ WF_vars(CreateJob(FALSE)) /\ WF_vars(CreateJob(TRUE)) /\ WF_vars(Flush)
                 /\ \A w \in Workers : WF_vars(Begin(w) \/ Serial(w) \/ Chunk(w) \/ End(w))

-----------------------------------------------------------------------------
(* properties *)

Active == {j \in JobIds : jobs[j].st \in {"ready", "posted"} /\ jobs[j].consumed < jobs[j].src[2]}
\* a range of the round buffer is reused only when no unfinished job still reads it (source or prefix)
NoOverlap == inStart # -1 =>
               \A j \in Active : /\ ~Overlap(inStart, Sec, jobs[j].src[1], jobs[j].src[2])
                                 /\ ~Overlap(inStart, Sec, jobs[j].pre[1], jobs[j].pre[2])
InsideBuffer == /\ (inStart # -1 => inStart + Sec <= Cap)
                /\ \A j \in JobIds : jobs[j].st # "free" => jobs[j].src[1] + jobs[j].src[2] <= Cap
\* the serial section (LDM sequence generation, frame checksum) sees each job once, in job order
SerialInOrder == \A i \in 1..Len(xxh) : xxh[i] = i - 1
\* output is the concatenation of the jobs in order, each entirely
OutInOrder == \A i \in 1..Len(out) : out[i] = i - 1
Ring == nextID - doneID <= Slots /\ doneID <= nextID
\* the prefix handed to a job is the tail of the previous job's source (or its copy at the start after a wrap)
PrefixSize == \A j \in JobIds : jobs[j].st # "free" => jobs[j].pre[2] <= Pre
\* a job reaches its serial step before it is reported complete
SerialBeforeEnd == \A j \in JobIds : (jobs[j].st \in {"ended", "done"} /\ jobs[j].src[2] > 0) => serialNext > j \/ jobs[j].csize = 1

TypeOK == /\ rem \in 0..Total /\ nextID \in 0..MaxJobs /\ doneID \in 0..MaxJobs /\ pos \in 0..Cap

\* every stream is eventually completely compressed and flushed
Completes == <>Finished
=============================================================================
