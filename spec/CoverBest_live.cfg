SPECIFICATION FairSpec
CONSTANTS
  Ctxs = 2
  JobsPer = 2
  Workers = 2
  Size <- SizeSmall
  StartInJob = FALSE
PROPERTIES Terminates
CHECK_DEADLOCK FALSE
