------------------------------- MODULE Determ -------------------------------
(***************************************************************************)
(* Property C07: compressed output is a function of input, parameters,      *)
(* dictionary and calls - not of what the context did before.               *)
(*                                                                         *)
(* Design model of a compression context that is reused: the index space   *)
(* of the match finder (ZSTD_window_t: nextIdx / lowLimit), the search     *)
(* tables whose entries survive from frame to frame, the table geometry    *)
(* (a change of which forces ZSTD_resetCCtx_internal to restart indices    *)
(* and clear tables), and the modes that live in the context and survive   *)
(* frames (optimal-parser price mode, row-hash salt, LDM bucket cursors).  *)
(* One action per event that the code treats separately:                   *)
(*   Begin(g)  ZSTD_compressBegin_internal -> ZSTD_resetCCtx_internal      *)
(*   Block     ZSTD_compressBlock_internal: search sees Visible, inserts   *)
(*   End       frame epilogue                                              *)
(*   Abort     the caller walks away mid-frame                             *)
(*   Fail      an operation fails mid-frame (dst too small)                *)
(*   Reset     ZSTD_CCtx_reset(session_only / and_parameters)              *)
(* The history variable `hist' is the abstract call history; the checker   *)
(* exports every history up to MaxHist (DetermGen.cfg) and harness/detdrv  *)
(* replays each on the real library, followed by a probe whose output is   *)
(* compared with a fresh context's (spec/DetTrace.tla).                    *)
(***************************************************************************)
EXTENDS Naturals, Sequences, FiniteSets, TLC

CONSTANTS Geoms,        \* table geometries (parameter classes that size the tables)
          MaxIdx,       \* end of the index space (pre-emptive reset threshold)
          MaxHist,      \* history length explored
          KeepLow,      \* TRUE: the design; FALSE: mutation "frame start keeps the old lowLimit" (sanity of the invariant)
          StickyPrice   \* FALSE: the design; TRUE: mutation "the price mode is only set, never re-chosen"

VARIABLES nextIdx,      \* next index handed out (window.nextSrc - window.base)
          lowLimit,     \* lowest index a search may return
          table,        \* set of <<index, frame>>: search-table entries and the frame whose data they describe
          geom,         \* geometry the tables were sized for, "none" before first use
          frame,        \* number of frames begun
          inFrame,      \* a frame is open
          blocks,       \* blocks of the open frame so far
          price,        \* optimal-parser price mode: "dynamic" | "predef"  (sticky in the match state)
          salt,         \* row-hash salt epoch of the tags in the tag table vs the epoch used for matching
          tagEpoch,
          hist          \* abstract call history
vars == <<nextIdx, lowLimit, table, geom, frame, inFrame, blocks, price, salt, tagEpoch, hist>>

Ops == {"Fsame", "Fother", "Fbig", "Ftiny", "Abort", "Fail", "ResetS", "ResetSP", "Fdict", "Fmt"}

Init == /\ nextIdx = 1 /\ lowLimit = 1 /\ table = {} /\ geom = "none" /\ frame = 0 /\ inFrame = FALSE /\ blocks = 0
        /\ price = "dynamic" /\ salt = 0 /\ tagEpoch = 0 /\ hist = <<>>

\* what a search of the current frame can return
Visible == {e \in table : e[1] >= lowLimit}

\* ZSTD_resetCCtx_internal: indices restart (and tables are cleared) when the geometry changes or the index space is nearly used up;
\* otherwise indices continue and the window is cleared: everything older than this frame falls below lowLimit.
Begin(g, sz) ==
    /\ ~inFrame
    /\ LET needReset == geom # g \/ nextIdx + sz >= MaxIdx IN
       /\ IF needReset THEN /\ table' = {} /\ nextIdx' = 1 /\ lowLimit' = 1
                       ELSE /\ table' = table /\ nextIdx' = nextIdx
                            /\ lowLimit' = (IF KeepLow THEN nextIdx ELSE lowLimit)
       /\ geom' = g
    /\ frame' = frame + 1 /\ inFrame' = TRUE /\ blocks' = 0
    /\ salt' = salt + 1                 \* a new salt per frame: tags of older frames cannot match (ZSTD_advanceHashSalt)
    /\ UNCHANGED <<price, tagEpoch>>

\* one block of n positions: the price mode is chosen at the start of every block (ZSTD_rescaleFreqs), entries are inserted
Block(n, tiny) ==
    /\ inFrame /\ nextIdx + n < MaxIdx + 4
    /\ price' = (IF tiny /\ blocks = 0 THEN "predef" ELSE IF StickyPrice THEN price ELSE "dynamic")
    /\ table' = table \cup {<<i, frame>> : i \in nextIdx..(nextIdx + n - 1)}
    /\ nextIdx' = nextIdx + n /\ blocks' = blocks + 1 /\ tagEpoch' = salt
    /\ UNCHANGED <<lowLimit, geom, frame, inFrame, salt, hist>>

EndFrame == inFrame /\ inFrame' = FALSE /\ UNCHANGED <<nextIdx, lowLimit, table, geom, frame, blocks, price, salt, tagEpoch, hist>>
Reset == inFrame' = FALSE /\ UNCHANGED <<nextIdx, lowLimit, table, geom, frame, blocks, price, salt, tagEpoch, hist>>

(* ---- the abstract history alphabet, each op a short composition of the actions above ---- *)
Do(op) ==
    /\ Len(hist) < MaxHist /\ ~inFrame
    /\ hist' = Append(hist, op)
    /\ LET g == CHOOSE x \in Geoms : TRUE
           g2 == CHOOSE x \in Geoms : x # g IN
       CASE op \in {"Fsame", "Fdict", "Fmt"} -> Begin(g, 2)
         [] op = "Fother" -> Begin(g2, 2)
         [] op = "Fbig" -> Begin(g, 4)
         [] op = "Ftiny" -> Begin(g, 1)
         [] op \in {"Abort", "Fail"} -> Begin(g, 2)
         [] op \in {"ResetS", "ResetSP"} -> UNCHANGED <<nextIdx, lowLimit, table, geom, frame, inFrame, blocks, price, salt, tagEpoch>>

\* the body of the op just begun: blocks then end / abort+reset
Body ==
    /\ inFrame /\ hist # <<>>
    /\ LET op == hist[Len(hist)] IN
       \/ /\ blocks = 0 /\ Block(IF op = "Fbig" THEN 4 ELSE IF op = "Ftiny" THEN 1 ELSE 2, op = "Ftiny")
       \/ /\ blocks > 0 /\ IF op \in {"Abort", "Fail"} THEN Reset ELSE EndFrame

Next == (\E op \in Ops : Do(op)) \/ Body
Spec == Init /\ [][Next]_vars

(* ---- properties ---- *)
TypeOK == /\ nextIdx \in 1..(MaxIdx + 8) /\ lowLimit \in 1..(MaxIdx + 8) /\ lowLimit <= nextIdx /\ inFrame \in BOOLEAN

\* C07 at design level: whatever the history, a search only ever sees entries of the frame being compressed ...
NoStaleReach == \A e \in Visible : e[2] = frame \/ ~inFrame
\* ... only tags of the current salt epoch take part in matching ...
NoStaleTag == (inFrame /\ blocks > 0) => tagEpoch = salt
\* ... and the price mode used for a block never depends on an earlier frame: it is (re)chosen at every block start
PriceChosenPerBlock == (inFrame /\ blocks > 0 /\ hist[Len(hist)] # "Ftiny") => price = "dynamic"
\* the index space never overflows
IndexBounded == nextIdx <= MaxIdx + 4

\* export of histories for replay (DetermGen.cfg): one line per complete history
ExportHist == (~inFrame /\ Len(hist) >= 1) => PrintT(<<"HIST", hist>>)
=============================================================================
