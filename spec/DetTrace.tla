------------------------------ MODULE DetTrace ------------------------------
(***************************************************************************)
(* Trace validation for property C07 (harness/detdrv.c).                    *)
(* Each "run" event is one execution of a probe - a fixed sequence of       *)
(* compression calls on fixed input, parameters and dictionary - on a      *)
(* context with some history (a behaviour exported from Determ.tla made    *)
(* concrete), some placement of the caller's buffers, some sequence of     *)
(* output capacities and some number of workers / schedule.                *)
(* Contract: every run of a probe succeeds and produces the same bytes     *)
(* (64-bit digest, logged in three pieces) as its first run, which is a    *)
(* fresh heap context with no history.                                     *)
(***************************************************************************)
EXTENDS Naturals, Sequences, TLC, Json, IOUtils

VARIABLES l, ref
Tr == ndJsonDeserialize(IOEnv.TRACE)
Ev == Tr[l]
Is(e) == l <= Len(Tr) /\ Ev.e = e /\ l' = l + 1
None == <<>>
Probes == 0..63

TInit == l = 1 /\ TLCSet(1, 0) /\ ref = [p \in Probes |-> None]

Digest(ev) == <<ev.size, ev.h1, ev.h2, ev.h3>>
Run == /\ Is("run")
       /\ Ev.ok                                                   \* a destination of compressBound bytes always suffices; resets succeed
       /\ IF ref[Ev.probe] = None
          THEN /\ Ev.nh = 0 /\ Ev.ctx = 0                          \* the reference run is the fresh one
               /\ ref' = [ref EXCEPT ![Ev.probe] = Digest(Ev)]
          ELSE /\ Digest(Ev) = ref[Ev.probe]                       \* C07
               /\ UNCHANGED ref
\* a history step that returned an error is legal (the history may contain failing operations); it is logged for the record
Hop == Is("hop") /\ UNCHANGED ref
NewBatch == Is("batch") /\ ref' = [p \in Probes |-> None]
End == Is("end") /\ UNCHANGED ref
TNext == Run \/ Hop \/ NewBatch \/ End
Track == IF l > TLCGet(1) THEN TLCSet(1, l) ELSE TRUE
TraceAccepted == IF TLCGet(1) = Len(Tr) + 1 THEN TRUE
                 ELSE /\ PrintT(<<"TRACE-REJECT matched", TLCGet(1) - 1, "of", Len(Tr), "next line", IF TLCGet(1) <= Len(Tr) THEN Tr[TLCGet(1)] ELSE <<>> >>)
                      /\ FALSE
TSpec == TInit /\ [][TNext]_<<l, ref>>
=============================================================================
