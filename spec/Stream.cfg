SPECIFICATION Spec
CONSTANTS
  N = 5
  B = 2
  H = 1
  E = 0
  InSizes = {1, 2, 3, 5}
  OutSizes = {1, 2, 4, 9}
  DInSizes = {1, 2, 9}
  DOutSizes = {1, 3, 9}
INVARIANTS TypeOK CProgress DProgress FlushDecodable EndComplete CompletionHonest DecoderSound DoneExact NeverDoneOnPrefix
