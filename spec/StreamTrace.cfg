INIT SInit
NEXT SNext
CONSTRAINT Track
POSTCONDITION TraceAccepted
CHECK_DEADLOCK FALSE
