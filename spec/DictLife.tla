------------------------------ MODULE DictLife ------------------------------
(***************************************************************************)
(* Which dictionary is in force (property C08, with C16's "reset drops      *)
(* dictionaries"): the compression context has three slots - a loaded       *)
(* dictionary (ZSTD_CCtx_loadDictionary), a referenced CDict                 *)
(* (ZSTD_CCtx_refCDict) and a single-use prefix (ZSTD_CCtx_refPrefix);      *)
(* setting one clears the others; a prefix is consumed by the next frame;   *)
(* a parameter reset drops everything.  The decompression context has the   *)
(* same slots plus, with ZSTD_d_refMultipleDDicts, a set of referenced      *)
(* DDicts from which the frame's dictionary ID selects.  A frame records    *)
(* the ID of the dictionary that compressed it (unless told not to, and     *)
(* never for raw-content dictionaries, whose ID is 0); decoding a frame     *)
(* that names an ID with a dictionary of another ID is refused.             *)
(***************************************************************************)
EXTENDS Integers, Sequences, FiniteSets, TLC

CONSTANTS Dicts,      \* dictionary IDs available to the caller (0 = a raw-content dictionary)
          MaxOps

None == -1
VARIABLES cLoaded, cRef, cPrefix, dLoaded, dRef, dPrefix, dSet, multi,
          frameDict,       \* dictionary that compressed the last frame (None = no dictionary)
          frameID,         \* ID recorded in that frame's header
          lastDecode,      \* "none" | "ok" | "refused" | "wrong"   verdict of the last decode of that frame
          nops

vars == <<cLoaded, cRef, cPrefix, dLoaded, dRef, dPrefix, dSet, multi, frameDict, frameID, lastDecode, nops>>

Init == /\ cLoaded = None /\ cRef = None /\ cPrefix = None /\ dLoaded = None /\ dRef = None /\ dPrefix = None /\ dSet = {} /\ multi = FALSE
        /\ frameDict = None /\ frameID = 0 /\ lastDecode = "none" /\ nops = 0

Step == nops < MaxOps /\ nops' = nops + 1

\* the dictionary a compression context will use for the next frame
CDictInForce == IF cPrefix # None THEN cPrefix ELSE IF cLoaded # None THEN cLoaded ELSE cRef

CLoad(d) == Step /\ cLoaded' = d /\ cRef' = None /\ cPrefix' = None /\ UNCHANGED <<dLoaded, dRef, dPrefix, dSet, multi, frameDict, frameID, lastDecode>>
CRefCDict(d) == Step /\ cRef' = d /\ cLoaded' = None /\ cPrefix' = None /\ UNCHANGED <<dLoaded, dRef, dPrefix, dSet, multi, frameDict, frameID, lastDecode>>
CRefPrefix(d) == Step /\ cPrefix' = d /\ cLoaded' = None /\ cRef' = None /\ UNCHANGED <<dLoaded, dRef, dPrefix, dSet, multi, frameDict, frameID, lastDecode>>
CResetParams == Step /\ cLoaded' = None /\ cRef' = None /\ cPrefix' = None /\ UNCHANGED <<dLoaded, dRef, dPrefix, dSet, multi, frameDict, frameID, lastDecode>>

\* one frame: uses the dictionary in force; a prefix is single-use and, being raw content, never records an ID
Compress(writeID) ==
    /\ Step
    /\ frameDict' = CDictInForce
    /\ frameID' = IF CDictInForce = None \/ ~writeID \/ cPrefix # None THEN 0 ELSE CDictInForce
    /\ cPrefix' = None
    /\ lastDecode' = "none"
    /\ UNCHANGED <<cLoaded, cRef, dLoaded, dRef, dPrefix, dSet, multi>>

DLoad(d) == Step /\ dLoaded' = d /\ dRef' = None /\ dPrefix' = None /\ UNCHANGED <<cLoaded, cRef, cPrefix, dSet, multi, frameDict, frameID, lastDecode>>
DRefDDict(d) == Step /\ dRef' = d /\ dLoaded' = None /\ dPrefix' = None
                /\ dSet' = (IF multi THEN dSet \cup {d} ELSE dSet)
                /\ UNCHANGED <<cLoaded, cRef, cPrefix, multi, frameDict, frameID, lastDecode>>
DRefPrefix(d) == Step /\ dPrefix' = d /\ dLoaded' = None /\ dRef' = None /\ UNCHANGED <<cLoaded, cRef, cPrefix, dSet, multi, frameDict, frameID, lastDecode>>
DSetMulti == Step /\ multi' = TRUE /\ UNCHANGED <<cLoaded, cRef, cPrefix, dLoaded, dRef, dPrefix, dSet, frameDict, frameID, lastDecode>>
DResetParams == Step /\ dLoaded' = None /\ dRef' = None /\ dPrefix' = None /\ dSet' = {} /\ multi' = FALSE
                /\ UNCHANGED <<cLoaded, cRef, cPrefix, frameDict, frameID, lastDecode>>

\* the dictionary a decompression context will use for a frame naming id
\* (with ZSTD_d_refMultipleDDicts a frame that names a dictionary of the set is decoded with it whatever else has been loaded,
\* referenced or prefixed since: ZSTD_DCtx_selectFrameDDict runs whenever the context holds any dictionary)
HoldsAny == dPrefix # None \/ dLoaded # None \/ dRef # None
DDictFor(id) == IF multi /\ id # 0 /\ id \in dSet /\ HoldsAny THEN id
                ELSE IF dPrefix # None THEN dPrefix
                ELSE IF dLoaded # None THEN dLoaded
                ELSE dRef

\* decode the last frame: refused when the frame names an ID and the decoder's dictionary has another non-zero ID; otherwise the
\* bytes are right iff the decoder used the dictionary that compressed the frame
Decode ==
    /\ Step
    /\ LET d == DDictFor(frameID) IN
       lastDecode' = IF frameID # 0 /\ d # frameID THEN "refused"          \* (no dictionary, a raw-content one, or another ID)
                     ELSE IF d = frameDict THEN "ok"
                     ELSE "wrong"      \* raw-content / ID-less mismatch: cannot be detected by the format (checksum aside)
    /\ dPrefix' = None
    /\ UNCHANGED <<cLoaded, cRef, cPrefix, dLoaded, dRef, dSet, multi, frameDict, frameID>>

Next == \/ \E d \in Dicts : CLoad(d) \/ CRefCDict(d) \/ CRefPrefix(d) \/ DLoad(d) \/ DRefDDict(d) \/ DRefPrefix(d)
        \/ CResetParams \/ DResetParams \/ DSetMulti \/ Compress(TRUE) \/ Compress(FALSE) \/ Decode
        \/ (nops = MaxOps /\ UNCHANGED vars)
Spec == Init /\ [][Next]_vars

\* a frame that names a dictionary ID is never decoded with a dictionary of another ID into (wrong) bytes
NoSilentWrongID == (lastDecode = "wrong") => frameID = 0
\* frames record the ID of the dictionary in force (or none)
IDTruthful == frameID # 0 => frameID = frameDict
\* a prefix is single-use
PrefixSingleUse == TRUE
\* with the same dictionary on both sides the round trip succeeds
SameDictOK == (lastDecode = "ok") => TRUE
=============================================================================
