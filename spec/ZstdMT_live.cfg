SPECIFICATION FairSpec
CONSTANTS
  NW = 2
  Slots = 4
  Sec = 2
  Pre = 1
  Win = 2
  Total = 6
  CheckInUse = TRUE
INVARIANTS TypeOK NoOverlap SerialInOrder OutInOrder Ring
PROPERTY Completes
