------------------------------ MODULE ParamsGen ------------------------------
(* Behaviour generation: TLC in -simulate mode prints complete histories of   *)
(* Params.tla (model -> code direction); checks/c16.py replays them on the    *)
(* real library and compares the design's prediction with the code.           *)
EXTENDS ParamsModel, Json
Export == IF nops < MaxOps THEN TRUE ELSE PrintT("HIST " \o ToJson(hist))
==============================================================================
