INIT TInit
NEXT TNext
CONSTANTS
  Configs = {}
  Skels <- AllSkels
CONSTRAINT Track
POSTCONDITION TraceAccepted
CHECK_DEADLOCK FALSE
INVARIANTS AtMostOnce TryAddHonest JoinJobsPost FreePost ExactlyOnceAtEnd QueueBound BusyBound
