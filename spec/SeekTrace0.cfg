INIT TInit
NEXT TNext
CONSTANTS
  N = 0
  MaxFrame = 0
  MaxReads = 0
  CheckCursor = FALSE
CONSTRAINT Track
POSTCONDITION TraceAccepted
CHECK_DEADLOCK FALSE
