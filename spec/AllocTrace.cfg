INIT AInit
NEXT ANext
CONSTRAINT Track
POSTCONDITION TraceAccepted
CHECK_DEADLOCK FALSE
