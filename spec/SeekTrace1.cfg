INIT TInit
NEXT TNext
CONSTANTS
  N = 0
  MaxFrame = 0
  MaxReads = 0
  CheckCursor = TRUE
CONSTRAINT Track
POSTCONDITION TraceAccepted
CHECK_DEADLOCK FALSE
