----------------------------- MODULE PoolTrace -----------------------------
(***************************************************************************)
(* Trace validation for Pool.tla: every line of an ndjson trace recorded    *)
(* from the real lib/common/pool.c under harness/vsched.c must be a step of *)
(* the Pool specification.  Several executions are concatenated; each       *)
(* starts with a "config" line.  The synchronisation skeleton is not given: *)
(* TLC starts from every candidate in Skels and the survivors are printed   *)
(* at the end of the trace (inferred skeleton).                             *)
(***************************************************************************)
EXTENDS Pool, Json, IOUtils

VARIABLE l

K3 == {"none", "signal", "broadcast"}
K2 == {"none", "broadcast"}
AllSkels == [afterPop : K3, afterDone : K3, onAdd : K3, onResize : K3, onShutPush : K3, onShutPop : K3]

Tr == ndJsonDeserialize(IOEnv.TRACE)

CfgOf(e) == [nt |-> e.nt, qs |-> e.qs, maxT |-> e.maxT, prog |-> e.prog, body |-> e.body]

TInit == /\ l = 2
         /\ Tr[1].e = "config"
         /\ TLCSet(1, 0)
         /\ \E s \in Skels : InitWith(CfgOf(Tr[1]), s)

Ev == Tr[l]
Is(e) == l <= Len(Tr) /\ Ev.e = e /\ l' = l + 1

\* a new execution: same code, hence same skeleton; everything else back to the initial state
TReset ==
    /\ Is("config")
    /\ LET c == CfgOf(Ev) IN
       /\ cfg' = c /\ skel' = skel
       /\ mu' = None /\ wPush' = {} /\ wPop' = {} /\ woken' = {}
       /\ todo' = [t \in 0..c.maxT |-> <<>>]
       /\ api' = [t \in 0..c.maxT |-> NoApi]
       /\ apiDone' = [t \in 0..c.maxT |-> FALSE]
       /\ res' = [t \in 0..c.maxT |-> 0]
       /\ rest' = [t \in 0..c.maxT |-> IF t = Main THEN <<[op |-> "create", j |-> c.nt]>> \o c.prog ELSE <<>>]
       /\ wk' = [t \in 0..c.maxT |-> "none"]
       /\ cur' = [t \in 0..c.maxT |-> None]
       /\ queue' = <<>> /\ busy' = 0 /\ limit' = c.nt /\ cap' = 0 /\ shutdown' = FALSE /\ spawned' = 0
       /\ accepted' = {} /\ started' = [j \in JobIds |-> 0] /\ finished' = [j \in JobIds |-> 0]
       /\ tryRes' = [j \in JobIds |-> None]
       /\ joinOK' = TRUE /\ freeOK' = TRUE
       /\ lastT' = None /\ lastE' = "init" /\ lastW' = None

T == Ev.t

TLock == Is("lock") /\ Ev.o = "qm" /\ Lock(T)
TRelock == Is("relock") /\ Ev.m = "qm" /\ Relock(T)
TUnlock == Is("unlock") /\ Ev.o = "qm" /\ Unlock(T)
TWait == Is("wait") /\ HasTodo(T, "wait") /\ Head(todo[T]).c = Ev.o /\ Wait(T)
TSignal == Is("signal") /\ HasTodo(T, "signal") /\ Head(todo[T]).c = Ev.o /\ Signal(T, Ev.w)
TBroadcast == Is("broadcast") /\ HasTodo(T, "broadcast") /\ Head(todo[T]).c = Ev.o /\ Broadcast(T)
TCreate == Is("create") /\ Ev.c = spawned + 1 /\ Create(T)
TStart == Is("start") /\ Start(T)
TExit == Is("exit") /\ Exit(T)
TJoin == Is("join") /\ HasTodo(T, "join") /\ Head(todo[T]).x = Ev.c /\ Join(T)
TCall == Is("call") /\ CanRunClient(T) /\ rest[T] # <<>> /\ Head(rest[T]).op = Ev.op /\ Head(rest[T]).j = Ev.j /\ Call(T)
TRet == Is("ret") /\ api[T].op = Ev.op /\ api[T].j = Ev.j /\ res[T] = Ev.r /\ Ret(T)
TJobStart == Is("jobStart") /\ cur[T] = Ev.j /\ JobStart(T)
TJobEnd == Is("jobEnd") /\ cur[T] = Ev.j /\ JobEnd(T)
\* final counters observed by the driver must equal the model's
TCount == Is("count") /\ started[Ev.j] = Ev.started /\ finished[Ev.j] = Ev.finished /\ UNCHANGED vars
TNames == Is("names") /\ UNCHANGED vars
TEnd == Is("end") /\ AllQuiet /\ (IF l < Len(Tr) THEN TRUE ELSE PrintT("SKEL afterPop=" \o skel.afterPop \o " afterDone=" \o skel.afterDone \o " onAdd=" \o skel.onAdd \o " onResize=" \o skel.onResize \o " onShutPush=" \o skel.onShutPush \o " onShutPop=" \o skel.onShutPop \o " ")) /\ UNCHANGED vars

TNext == \/ TReset \/ TLock \/ TRelock \/ TUnlock \/ TWait \/ TSignal \/ TBroadcast \/ TCreate \/ TStart \/ TExit
         \/ TJoin \/ TCall \/ TRet \/ TJobStart \/ TJobEnd \/ TCount \/ TNames \/ TEnd

TSpec == TInit /\ [][TNext]_<<vars, l>>

\* remember the longest prefix explained (needs -workers 1)
Track == IF l > TLCGet(1) THEN TLCSet(1, l) ELSE TRUE

TraceAccepted == IF TLCGet(1) = Len(Tr) + 1 THEN TRUE
                 ELSE /\ PrintT(<<"TRACE-REJECT matched", TLCGet(1) - 1, "of", Len(Tr), "next line", IF TLCGet(1) <= Len(Tr) THEN Tr[TLCGet(1)] ELSE <<>> >>)
                      /\ FALSE
=============================================================================
