---------------------------- MODULE ParamsTrace ----------------------------
(***************************************************************************)
(* Trace validation for property C16: each line of an ndjson trace written  *)
(* by harness/paramdrv.c (one line per public call, with the read-back      *)
(* snapshot of every parameter after the call) must satisfy the Contract    *)
(* layer of Params.tla.  The monitor's state is the previous snapshot, the  *)
(* stage of each context and the dictionary each context holds.             *)
(***************************************************************************)
EXTENDS Params, Json, IOUtils

VARIABLES l, cv, pv, dv, cstage, dstage, cdict, ddict

tvars == <<l, cv, pv, dv, cstage, dstage, cdict, ddict>>
Tr == ndJsonDeserialize(IOEnv.TRACE)
Ev == Tr[l]
Is(e) == l <= Len(Tr) /\ Ev.e = e /\ l' = l + 1

TInit == /\ l = 1 /\ TLCSet(1, 0)
         /\ cv = CDefaults /\ pv = CDefaults /\ dv = DDefaults
         /\ cstage = "init" /\ dstage = "init" /\ cdict = 0 /\ ddict = 0

Snap(names) == [n \in names |-> Ev.snap[n]]
SameExcept(names, old, new, q) == \A n \in names \ {q} : new[n] = old[n]

\* fresh contexts: every parameter reads back its documented default
TNew == /\ Is("new")
        /\ \A n \in CNames : Ev.snap[n] = CRow(n).def
        /\ \A n \in DNames : Ev.dsnap[n] = DRow(n).def
        /\ cv' = CDefaults /\ pv' = CDefaults /\ dv' = DDefaults
        /\ cstage' = "init" /\ dstage' = "init" /\ cdict' = 0 /\ ddict' = 0

TCSet == /\ Is("cset")
         /\ LET r == CRow(Ev.q) new == Snap(CNames) IN
            /\ SameExcept(CNames, cv, new, Ev.q)                         \* no other parameter moves
            /\ CASE cstage = "init" -> SetOK(r, Ev.v, Ev.ok, cv[Ev.q], new[Ev.q])
                 [] cstage = "mid" -> /\ (~r.upd => ~Ev.ok)               \* refused mid-frame
                                      /\ (~Ev.ok => new[Ev.q] = cv[Ev.q])
                                      /\ Stored(r, new[Ev.q])
                 [] OTHER -> /\ (~Ev.ok => new[Ev.q] = cv[Ev.q])          \* after an error, before reset
                             /\ Stored(r, new[Ev.q])
            /\ cv' = new
         /\ UNCHANGED <<pv, dv, cstage, dstage, cdict, ddict>>

TPSet == /\ Is("pset")
         /\ LET r == CRow(Ev.q) new == Snap(CNames) IN
            /\ SameExcept(CNames, pv, new, Ev.q)
            /\ SetOK(r, Ev.v, Ev.ok, pv[Ev.q], new[Ev.q])
            /\ pv' = new
         /\ UNCHANGED <<cv, dv, cstage, dstage, cdict, ddict>>

TPReset == /\ Is("preset") /\ Ev.ok /\ Snap(CNames) = CDefaults /\ pv' = CDefaults
           /\ UNCHANGED <<cv, dv, cstage, dstage, cdict, ddict>>

\* ZSTD_CCtx_setParametersUsingCCtxParams: only in init stage; installs exactly the params object
TPApply == /\ Is("papply")
           /\ (cstage = "init" => (Ev.ok /\ Snap(CNames) = pv))
           /\ (cstage = "mid" => ~Ev.ok)
           /\ (~Ev.ok => Snap(CNames) = cv)
           /\ cv' = Snap(CNames)
           /\ UNCHANGED <<pv, dv, cstage, dstage, cdict, ddict>>

TDSet == /\ Is("dset")
         /\ LET r == DRow(Ev.q) new == Snap(DNames) IN
            /\ SameExcept(DNames, dv, new, Ev.q)
            /\ CASE dstage = "init" -> SetOK(r, Ev.v, Ev.ok, dv[Ev.q], new[Ev.q])
                 [] dstage = "mid" -> ~Ev.ok /\ new[Ev.q] = dv[Ev.q]       \* decoder parameters are frozen mid-frame
                 [] OTHER -> (~Ev.ok => new[Ev.q] = dv[Ev.q]) /\ Stored(r, new[Ev.q])
            /\ dv' = new
         /\ UNCHANGED <<cv, pv, cstage, dstage, cdict, ddict>>

\* the advertised bounds are exactly the documented ones
TCBounds == Is("cbounds") /\ Ev.ok /\ Ev.lo = CRow(Ev.q).lo /\ Ev.hi = CRow(Ev.q).hi /\ UNCHANGED <<cv, pv, dv, cstage, dstage, cdict, ddict>>
TDBounds == Is("dbounds") /\ Ev.ok /\ Ev.lo = DRow(Ev.q).lo /\ Ev.hi = DRow(Ev.q).hi /\ UNCHANGED <<cv, pv, dv, cstage, dstage, cdict, ddict>>

\* reset kinds: 1 session only, 2 parameters, 3 session and parameters
TCReset == /\ Is("creset")
           /\ LET new == Snap(CNames)
                  mustRefuse == Ev.kind = 2 /\ cstage = "mid" IN
              /\ (mustRefuse => ~Ev.ok)
              /\ (Ev.kind \in {1, 3} => Ev.ok)
              /\ (Ev.kind = 2 /\ cstage = "init" => Ev.ok)
              /\ (Ev.ok /\ Ev.kind \in {2, 3} => new = CDefaults)          \* restores every default
              /\ (~Ev.ok \/ Ev.kind = 1 => new = cv)                        \* session reset keeps parameters
              /\ cv' = new
              /\ cstage' = IF Ev.ok /\ Ev.kind \in {1, 3} THEN "init" ELSE cstage
              /\ cdict' = IF Ev.ok /\ Ev.kind \in {2, 3} THEN 0 ELSE cdict    \* ... and drops dictionaries
           /\ UNCHANGED <<pv, dv, dstage, ddict>>

TDReset == /\ Is("dreset")
           /\ LET new == Snap(DNames)
                  mustRefuse == Ev.kind = 2 /\ dstage = "mid" IN
              /\ (mustRefuse => ~Ev.ok)
              /\ (Ev.kind \in {1, 3} => Ev.ok)
              /\ (Ev.kind = 2 /\ dstage = "init" => Ev.ok)
              /\ (Ev.ok /\ Ev.kind \in {2, 3} => new = DDefaults)
              /\ (~Ev.ok \/ Ev.kind = 1 => new = dv)
              /\ dv' = new
              /\ dstage' = IF Ev.ok /\ Ev.kind \in {1, 3} THEN "init" ELSE dstage
              /\ ddict' = IF Ev.ok /\ Ev.kind \in {2, 3} THEN 0 ELSE ddict
           /\ UNCHANGED <<cv, pv, cstage, cdict>>

TCLoad == /\ Is("cload") /\ (cstage = "init" => Ev.ok) /\ Snap(CNames) = cv
          /\ cdict' = IF Ev.ok THEN Ev.id ELSE cdict
          /\ UNCHANGED <<cv, pv, dv, cstage, dstage, ddict>>
TDLoad == /\ Is("dload") /\ (dstage = "init" => Ev.ok) /\ Snap(DNames) = dv
          /\ ddict' = IF Ev.ok THEN Ev.id ELSE ddict
          /\ UNCHANGED <<cv, pv, dv, cstage, dstage, cdict>>

\* what a frame produced under the requested parameters must look like
HeaderOK(h, n, known) ==
    /\ h.magic = (IF cv["format"] = 1 THEN 0 ELSE 1)
    /\ h.checksum = cv["checksumFlag"]
    /\ h.reserved = 0
    /\ (cv["contentSizeFlag"] = 1 /\ known => h.fcs = n)
    /\ (cv["contentSizeFlag"] = 0 \/ ~known => h.fcs = -1)
    /\ h.dictID = (IF cdict # 0 /\ cv["dictIDFlag"] = 1 THEN cdict ELSE 0)
    /\ (cv["windowLog"] # 0 /\ h.wlog # -1 => h.wlog <= cv["windowLog"])

\* ZSTD_compressCCtx(level): advanced parameters are ignored (documented)
SimpleHeaderOK(h, n) == h.magic = 1 /\ h.checksum = 0 /\ h.fcs = n /\ h.dictID = 0 /\ h.reserved = 0

TCFrame == /\ Is("cframe") /\ cstage = "init"
           /\ Snap(CNames) = cv                                  \* compressing changes no parameter, success or not
           /\ Ev.ok
           /\ IF Ev.api = "simple" THEN SimpleHeaderOK(Ev.hdr, Ev.n) ELSE HeaderOK(Ev.hdr, Ev.n, TRUE)
           /\ UNCHANGED <<cv, pv, dv, cstage, dstage, cdict, ddict>>

TCFail == /\ Is("cfail") /\ ~Ev.ok /\ Snap(CNames) = cv        \* a failed operation changes no parameter
          /\ cstage' = "err"
          /\ UNCHANGED <<cv, pv, dv, dstage, cdict, ddict>>

\* (starting a frame may fail for lack of memory under extreme parameters: then the context needs a reset)
TCBegin == /\ Is("cbegin") /\ cstage = "init" /\ Snap(CNames) = cv
           /\ cstage' = (IF Ev.ok THEN "mid" ELSE "err") /\ UNCHANGED <<cv, pv, dv, dstage, cdict, ddict>>

\* end of a streamed frame of unknown size: header reflects the parameters in force when the frame began
TCEnd == /\ Is("cend") /\ cstage = "mid" /\ Ev.ok /\ Snap(CNames) = cv
         /\ Ev.hdr.magic # -1 => (Ev.hdr.checksum = cv["checksumFlag"] /\ Ev.hdr.fcs = -1 /\ Ev.hdr.reserved = 0)
         /\ cstage' = "init" /\ UNCHANGED <<cv, pv, dv, dstage, cdict, ddict>>

\* decoding a frame naming dictionary fid: accepted iff the decoder holds that dictionary (or the frame names none)
\* ZSTD_CCtx_setParams: all or nothing - a rejected call (invalid compression parameter, or wrong stage) changes no parameter
TCSetParams == /\ Is("csetparams")
               /\ (Ev.bad = 1 => ~Ev.ok) /\ (cstage = "mid" => ~Ev.ok)
               /\ (~Ev.ok => Snap(CNames) = cv)
               /\ cv' = Snap(CNames)
               /\ UNCHANGED <<pv, dv, cstage, dstage, cdict, ddict>>
TDFrame == /\ Is("dframe") /\ dstage = "init" /\ Snap(DNames) = dv
           \* a frame that names a dictionary decodes iff that dictionary is loaded; a frame that names none (dictIDFlag = 0, or no
           \* dictionary) must decode when the compressor had no dictionary or the decoder holds the same one - without the
           \* dictionary it was made with, nothing is promised
           /\ Ev.have = 1 => /\ (Ev.fid # 0) => (Ev.ok <=> Ev.fid = ddict)
                             /\ (Ev.fid = 0 /\ (cdict = 0 \/ cdict = ddict)) => Ev.ok
           /\ UNCHANGED <<cv, pv, dv, cstage, dstage, cdict, ddict>>
TDBegin == /\ Is("dbegin") /\ Ev.ok /\ Snap(DNames) = dv /\ dstage' = "mid" /\ UNCHANGED <<cv, pv, dv, cstage, cdict, ddict>>
TDFail == /\ Is("dfail") /\ ~Ev.ok /\ Snap(DNames) = dv /\ dstage' = "err" /\ UNCHANGED <<cv, pv, dv, cstage, cdict, ddict>>
TEnd == Is("end") /\ UNCHANGED <<cv, pv, dv, cstage, dstage, cdict, ddict>>

TNext == \/ TNew \/ TCSet \/ TPSet \/ TPReset \/ TPApply \/ TDSet \/ TCBounds \/ TDBounds \/ TCReset \/ TDReset
         \/ TCSetParams \/ TCLoad \/ TDLoad \/ TCFrame \/ TCFail \/ TCBegin \/ TCEnd \/ TDFrame \/ TDBegin \/ TDFail \/ TEnd

Track == IF l > TLCGet(1) THEN TLCSet(1, l) ELSE TRUE
TraceAccepted == IF TLCGet(1) = Len(Tr) + 1 THEN TRUE
                 ELSE /\ PrintT(<<"TRACE-REJECT matched", TLCGet(1) - 1, "of", Len(Tr), "next line", IF TLCGet(1) <= Len(Tr) THEN [x \in DOMAIN Tr[TLCGet(1)] \ {"snap", "dsnap"} |-> Tr[TLCGet(1)][x]] ELSE <<>> >>)
                      /\ FALSE
=============================================================================
