------------------------------- MODULE WindowF -------------------------------
(***************************************************************************)
(* Constants and the pure arithmetic of ZSTD_window_update and             *)
(* ZSTD_window_correctOverflow, shared by the model (Window.tla) and the   *)
(* trace specification (WinTrace.tla).                                     *)
(***************************************************************************)
EXTENDS Integers, FiniteSets, TLC

CONSTANTS RingSize,      \* addresses 0..RingSize-1 (the streaming input buffer: window + block)
          MaxDist,       \* window size (power of two)
          CycleLog,      \* log2 of the cycle whose low bits a correction preserves
          MaxBlock,      \* largest block
          HashRead,      \* an extDict shorter than this is dropped (HASH_READ_SIZE = 8 in the code)
          IdxMax,        \* correction is due when the end of the next block would pass IdxMax
          OverlapAlways  \* TRUE: the design; FALSE: mutation "retire overwritten extDict bytes only on a segment switch"

Start == 2                               \* ZSTD_WINDOW_START_INDEX
CycleSize == 2 ^ CycleLog
Max(a, b) == IF a > b THEN a ELSE b
Min(a, b) == IF a < b THEN a ELSE b

(* ---- pure functions: exactly the arithmetic of the code ---- *)
\* ZSTD_window_update on a window <<b, db, lo, dl, ns>> with input [ip, ip+n): result <<b', db', lo', dl', ns', contiguous>>
\* the two halves of ZSTD_window_update as functions of scalars (the form WinTrace.tla evaluates on logged values)
SegmentLimits(lo, dl, dist, nonContig) == IF nonContig THEN <<(IF dist - dl < HashRead THEN dist ELSE dl), dist>> ELSE <<lo, dl>>
OverlapLimit(lo1, dl1, overlap, high) == IF overlap THEN Min(high, dl1) ELSE lo1
UpdateF(b, db, lo, dl, ns, ip, n, force, overlapAlways) ==
    LET nonContig == ip # ns \/ force
        dist == ns - b
        lo1 == SegmentLimits(lo, dl, dist, nonContig)[1]                                \* too small extDict (HASH_READ_SIZE) is dropped
        dl1 == SegmentLimits(lo, dl, dist, nonContig)[2]
        db1 == IF nonContig THEN b ELSE db
        b1 == IF nonContig THEN ip - dist ELSE b
        overlap == (ip + n > db1 + lo1) /\ (ip < db1 + dl1)
        high == (ip + n) - db1
        lo2 == OverlapLimit(lo1, dl1, overlap /\ (overlapAlways \/ nonContig), high)
    IN <<b1, db1, lo2, dl1, ip + n, ~nonContig>>

\* ZSTD_window_correctOverflow: <<correction, newCurrent>> for the index curr
CorrectF(curr, cycleLog, maxDist) ==
    LET cs == 2 ^ cycleLog
        cyc == curr % cs
        cc == IF cyc < Start THEN Max(cs, Start) ELSE 0
        newCur == cyc + cc + Max(maxDist, cs)
    IN <<curr - newCur, newCur>>
LimitAfter(l, correction) == IF l < correction + Start THEN Start ELSE l - correction

=============================================================================
