SPECIFICATION Spec
CONSTANTS
  MaxN = 10
  BlockSizes = {1024, 1340, 2048, 4096, 32768, 131072}
  MaxCap = 40
  EpilogueChargesBlock = FALSE
INVARIANTS NeverBeyond

CHECK_DEADLOCK FALSE
