INIT XInit
NEXT XNext
