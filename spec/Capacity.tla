------------------------------ MODULE Capacity ------------------------------
(***************************************************************************)
(* Property C06: capacity discipline and size bounds.                      *)
(*                                                                         *)
(* 1. Bound arithmetic.  ZSTD_compressBound(n) must cover the worst case   *)
(*    the format allows the compressor to fall back to: a frame header, n  *)
(*    bytes in raw blocks of blockSize bytes with a 3-byte header each, an *)
(*    empty last block, and a checksum.  Checked for every n up to MaxN    *)
(*    and every block size the parameters can select.                      *)
(* 2. Write cursor.  A frame is emitted by a sequence of writers (frame    *)
(*    header, block, epilogue = optional empty last block + optional       *)
(*    checksum), each of which receives the room that is left, checks it   *)
(*    before writing, and reports what it wrote; the caller keeps `room'   *)
(*    in step with `pos'.  TLC explores every order and size of writes     *)
(*    against every capacity: nothing is written beyond the capacity and   *)
(*    a success reports at most the capacity.  The mutation EpilogueKeeps  *)
(*    Room (the epilogue forgets to charge the empty block before it       *)
(*    checks the room for the checksum) must be rejected.                  *)
(* 3. Contract on sweeps of the real code (CapTrace.tla).                  *)
(***************************************************************************)
EXTENDS Naturals, TLC

CONSTANTS MaxN,             \* inputs 0..MaxN for the bound arithmetic
          BlockSizes,       \* block sizes that parameters can select (>= 1024)
          MaxCap,           \* capacities 0..MaxCap for the write-cursor model
          EpilogueChargesBlock   \* TRUE: the design; FALSE: mutation

Max(a, b) == IF a > b THEN a ELSE b
\* ZSTD_COMPRESSBOUND
Bound(n) == n + (n \div 256) + (IF n < 131072 THEN (131072 - n) \div 2048 ELSE 0)
CeilDiv(a, b) == (a + b - 1) \div b
\* largest frame made of raw blocks: header (<= 18), one 3-byte header per block (at least one block), content, checksum
RawFrame(n, bs) == 18 + 3 * Max(1, CeilDiv(n, bs)) + n + 4
\* (the frame header of a frame that carries its content size is smaller for small n: 6 bytes below 256, 7 below 64 KiB + 256)
HeaderFor(n) == IF n < 256 THEN 6 ELSE IF n < 65792 THEN 7 ELSE 9
RawFrameExact(n, bs) == HeaderFor(n) + 3 * Max(1, CeilDiv(n, bs)) + n + 4
BoundCoversRaw == \A n \in 0..MaxN : \A bs \in BlockSizes : RawFrameExact(n, bs) <= Bound(n)
ASSUME BoundCoversRawHolds == BoundCoversRaw

VARIABLES cap, pos, room, stage, csum
vars == <<cap, pos, room, stage, csum>>

Init == /\ cap \in 0..MaxCap /\ pos = 0 /\ room = cap /\ stage = "init" /\ csum \in BOOLEAN

Fail == stage' = "error" /\ UNCHANGED <<cap, pos, room, csum>>
Write(k, st) == pos' = pos + k /\ room' = room - k /\ stage' = st /\ UNCHANGED <<cap, csum>>

Header(h) == /\ stage = "init"
             /\ IF room < h THEN Fail ELSE Write(h, "ongoing")
Block(sz, last) == /\ stage = "ongoing"
                   /\ IF room < 3 + sz THEN Fail ELSE Write(3 + sz, IF last THEN "ending" ELSE "ongoing")
\* ZSTD_writeEpilogue: an empty last block unless the last block was already flagged, then the checksum
Epilogue == /\ stage \in {"ongoing", "ending"}
            /\ LET needBlock == stage = "ongoing"
                   roomAfterBlock == IF needBlock /\ EpilogueChargesBlock THEN room - 3 ELSE room IN
               IF needBlock /\ room < 3 THEN Fail
               ELSE IF csum /\ roomAfterBlock < 4 THEN
                        \* the block (if any) has been written, then the error is returned
                        /\ pos' = pos + (IF needBlock THEN 3 ELSE 0) /\ room' = roomAfterBlock /\ stage' = "error" /\ UNCHANGED <<cap, csum>>
               ELSE /\ pos' = pos + (IF needBlock THEN 3 ELSE 0) + (IF csum THEN 4 ELSE 0)
                    /\ room' = roomAfterBlock - (IF csum THEN 4 ELSE 0) /\ stage' = "done" /\ UNCHANGED <<cap, csum>>

Next == \/ \E h \in {2, 6, 18} : Header(h)
        \/ \E sz \in 0..3 : \E last \in BOOLEAN : Block(sz, last)
        \/ Epilogue
Spec == Init /\ [][Next]_vars

NeverBeyond == pos <= cap                         \* nothing is written beyond the capacity, on the error paths as well
SuccessWithin == stage = "done" => pos <= cap
RoomInStep == stage # "error" => room = cap - pos
=============================================================================
