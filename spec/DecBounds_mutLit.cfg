SPECIFICATION Spec
CONSTANTS
  Cap = 6
  In = 4
  Dict = 2
  MaxV = 8
  MaxSeq = 3
  CheckLit = FALSE
  CheckRoom = TRUE
  CheckOffset = TRUE

INVARIANTS LiteralsInBounds


CHECK_DEADLOCK FALSE
