SPECIFICATION Spec
CONSTANTS
  N = 3
  B = 2
  H = 1
  E = 1
  InSizes = {1, 2}
  OutSizes = {1, 3}
  DInSizes = {1, 2}
  DOutSizes = {1, 2}
INVARIANTS TypeOK CProgress DProgress FlushDecodable EndComplete CompletionHonest DecoderSound DoneExact NeverDoneOnPrefix
