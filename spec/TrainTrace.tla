------------------------------ MODULE TrainTrace ------------------------------
(***************************************************************************)
(* Trace validation for property C18 (harness/traindrv.c).                  *)
(*  train   outcome of one training call: an error, the documented empty    *)
(*          result, or a dictionary within the capacity that both sides     *)
(*          load, with one non-zero ID for all queries, with which every    *)
(*          sample round-trips; single-threaded runs repeat bit for bit.    *)
(*  cv*     job accounting events of the optimisers (guarded hooks in       *)
(*          cover.c / fastcover.c) must be a behaviour of CoverBest.tla:    *)
(*          the live counter is exactly the number of registered and not    *)
(*          yet reported jobs, a job only begins on a live context, a       *)
(*          context is only destroyed when none of its jobs is outstanding, *)
(*          the wait returns at zero, and the kept candidate never grows.   *)
(***************************************************************************)
EXTENDS Integers, Sequences, FiniteSets, TLC, Json, IOUtils

VARIABLES l, live, aliveCtx, begunOn, keptSize, registered, reported
Tr == ndJsonDeserialize(IOEnv.TRACE)
Ev == Tr[l]
Is(e) == l <= Len(Tr) /\ Ev.e = e /\ l' = l + 1

TInit == l = 1 /\ TLCSet(1, 0) /\ live = 0 /\ aliveCtx = {} /\ begunOn = <<>> /\ keptSize = -1 /\ registered = 0 /\ reported = 0
KeepA == UNCHANGED <<live, aliveCtx, begunOn, keptSize, registered, reported>>

Train == /\ Is("train")
         /\ \/ Ev.isErr
            \/ Ev.size = 0
            \/ /\ Ev.size <= Ev.cap /\ Ev.loadsC /\ Ev.loadsD
               /\ Ev.idDict # 0 /\ Ev.idC = Ev.idDict /\ Ev.idD = Ev.idDict
               /\ Ev.rtAll
         /\ (Ev.nbThreads <= 1) => Ev.repeatSame
         /\ KeepA
TBegin == /\ Is("tbegin") /\ live' = 0 /\ aliveCtx' = {} /\ begunOn' = <<>> /\ keptSize' = -1 /\ registered' = 0 /\ reported' = 0
CtxInit == /\ Is("cvCtxInit") /\ aliveCtx' = aliveCtx \cup {Ev.x} /\ UNCHANGED <<live, begunOn, keptSize, registered, reported>>
\* COVER_best_start: a = liveJobs after
Start == /\ Is("cvStart") /\ Ev.a = live + 1 /\ live' = live + 1 /\ registered' = registered + 1 /\ UNCHANGED <<aliveCtx, begunOn, keptSize, reported>>
\* a job begins: its context exists, and it has been registered before it runs
JobBegin == /\ Is("cvJobBegin") /\ Ev.x \in aliveCtx
            /\ Len(begunOn) < registered
            /\ begunOn' = Append(begunOn, Ev.x) /\ UNCHANGED <<live, aliveCtx, keptSize, registered, reported>>
\* COVER_best_finish: a = liveJobs after, b = measured size (-1 error), c = 1 if this candidate is the one kept
Finish == /\ Is("cvFinish") /\ Ev.a = live - 1 /\ live' = live - 1 /\ reported' = reported + 1
          /\ live >= 1
          /\ keptSize' = IF Ev.c = 1 /\ Ev.b >= 0 THEN Ev.b ELSE keptSize
          /\ (Ev.c = 1 /\ Ev.b >= 0 /\ keptSize >= 0) => Ev.b <= keptSize        \* the kept candidate never grows
          /\ UNCHANGED <<aliveCtx, begunOn, registered>>
WaitDone == /\ Is("cvWaitDone") /\ Ev.a = 0 /\ live = 0 /\ KeepA
\* the context goes away only when every job begun on it has reported: begun = reported and nothing registered is outstanding
CtxDestroy == /\ Is("cvCtxDestroy")
              /\ (Ev.x \in aliveCtx) => (live = 0 /\ Len(begunOn) = reported)
              /\ aliveCtx' = aliveCtx \ {Ev.x} /\ UNCHANGED <<live, begunOn, keptSize, registered, reported>>
Other == /\ l <= Len(Tr) /\ Ev.e \in {"samples", "end", "fault"} /\ l' = l + 1 /\ KeepA
TNext == Train \/ TBegin \/ CtxInit \/ Start \/ JobBegin \/ Finish \/ WaitDone \/ CtxDestroy \/ Other
Track == IF l > TLCGet(1) THEN TLCSet(1, l) ELSE TRUE
TraceAccepted == IF TLCGet(1) = Len(Tr) + 1 THEN TRUE
                 ELSE /\ PrintT(<<"TRACE-REJECT matched", TLCGet(1) - 1, "of", Len(Tr), "next line", IF TLCGet(1) <= Len(Tr) THEN Tr[TLCGet(1)] ELSE <<>> >>)
                      /\ FALSE
=============================================================================
