SPECIFICATION Spec
CONSTANTS
  Ctxs = 2
  JobsPer = 2
  Workers = 2
  Size <- SizeSmall
  StartInJob = FALSE
  DestroyWaits = TRUE
INVARIANTS NoUseAfterDestroy CounterExact BestIsMin
CHECK_DEADLOCK FALSE
