SPECIFICATION Spec
CONSTANTS
  Size = 8
  MaxReq = 3
  MaxOps = 6
INVARIANTS Disjoint Inside Ordered
