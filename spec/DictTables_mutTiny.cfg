SPECIFICATION Spec
CONSTANTS
  DictContent = 131070
  BlockSize = 131072
  NBlocks = 4
  DowngradeAfter = {"comp", "raw", "rle"}
INVARIANT NeverAnUncoveredSymbol
