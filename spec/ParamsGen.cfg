INIT MInit
NEXT MNext
CONSTANTS
  MParams = {"compressionLevel", "minMatch", "strategy", "targetLength", "targetCBlockSize", "checksumFlag", "contentSizeFlag", "overlapLog", "rsyncable", "format", "maxBlockSize", "literalCompressionMode", "ldmMinMatch", "srcSizeHint"}
  MaxOps = 6
INVARIANTS DesignMeetsContract StoredInBounds Export
