----------------------------- MODULE BudgetTrace -----------------------------
(***************************************************************************)
(* Memory budgets (property C14) as a monitor over harness/budgetdrv.c:     *)
(*  - a context placed in caller memory of the size given by the matching   *)
(*    estimation function completes every operation the estimate covers     *)
(*    (level l <= L; exactly the estimated parameters), never fails with a  *)
(*    memory error there, and never touches a byte outside the block        *)
(*    (pattern-filled guard zones + ASan red zones);                        *)
(*  - a streaming decoder with a window limit accepts a frame iff its       *)
(*    window is within the limit, and its heap use stays within             *)
(*    ZSTD_estimateDStreamSize(min(limit, window));                         *)
(*  - ZSTD_sizeof_*() never under-reports what the counting allocator saw.  *)
(* Cwksp.tla is the design model of the workspace these budgets rest on.    *)
(***************************************************************************)
EXTENDS Integers, Sequences, TLC, Json, IOUtils

VARIABLE l
Tr == ndJsonDeserialize(IOEnv.TRACE)
Ev == Tr[l]
Is(e) == l <= Len(Tr) /\ Ev.e = e /\ l' = l + 1
BInit == l = 1 /\ TLCSet(1, 0)

StaticCCtx == /\ Is("staticCCtx") /\ Ev.guardOK
              /\ (Ev.l <= Ev.L) => (Ev.init /\ Ev.ok /\ Ev.roundtrip)
StaticCStream == /\ Is("staticCStream") /\ Ev.guardOK
                 /\ (Ev.l <= Ev.L) => (Ev.init /\ Ev.ok /\ Ev.roundtrip)
\* estimate*_usingCParams / usingCCtxParams followed by exactly those parameters
StaticParams == /\ Is("staticParams") /\ Ev.guardOK /\ Ev.estimateOK /\ Ev.init /\ Ev.ok /\ Ev.roundtrip
\* decoder in caller memory sized for window W: accepts the frame iff its window is within W
StaticDStream == /\ Is("staticDStream") /\ Ev.guardOK /\ Ev.init
                 /\ (Ev.window <= Ev.W) => Ev.ok
                 /\ (Ev.window > Ev.W /\ ~Ev.mayShortcut) => ~Ev.ok     \* (a frame decoded in a single pass needs no internal buffers: it may succeed)
                 /\ (Ev.ok => Ev.match)
\* heap decoder with ZSTD_d_windowLogMax: refusal iff the frame needs more; buffers within the documented function of the limit
HeapDStream == /\ Is("heapDStream")
               /\ (Ev.ok <=> Ev.window <= Ev.limit) /\ (Ev.ok => Ev.match)
               /\ Ev.ok => Ev.peak <= Ev.bound
               /\ Ev.sizeofDCtx >= Ev.live
StaticDict == /\ Is("staticDict") /\ Ev.guardOK /\ Ev.initC /\ Ev.initD /\ Ev.ok
SizeOf == /\ Is("sizeof") /\ Ev.ok /\ Ev.sizeof >= Ev.live
End == Is("end")

BNext == StaticCCtx \/ StaticCStream \/ StaticParams \/ StaticDStream \/ HeapDStream \/ StaticDict \/ SizeOf \/ End
Track == IF l > TLCGet(1) THEN TLCSet(1, l) ELSE TRUE
TraceAccepted == IF TLCGet(1) = Len(Tr) + 1 THEN TRUE
                 ELSE /\ PrintT(<<"TRACE-REJECT matched", TLCGet(1) - 1, "of", Len(Tr), "next line", IF TLCGet(1) <= Len(Tr) THEN Tr[TLCGet(1)] ELSE <<>> >>)
                      /\ FALSE
=============================================================================
