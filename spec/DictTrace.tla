------------------------------ MODULE DictTrace ------------------------------
(***************************************************************************)
(* Trace validation for property C08 (harness/dictdrv.c):                   *)
(*  loaders  - compression-side and decompression-side loaders agree on     *)
(*             accepting a dictionary; all ID queries agree;                *)
(*  rt       - for an accepted dictionary every (supply mode x attach       *)
(*             preference x decode mode x level) round-trips, and the frame *)
(*             records the dictionary's ID unless told not to;              *)
(*  wrong    - a frame naming an ID is refused with a dictionary of another *)
(*             ID;                                                          *)
(*  hist     - histories of load / ref / prefix / reset / compress / decode *)
(*             are behaviours of DictLife.tla (which dictionary is in       *)
(*             force, single-use prefix, reset drops dictionaries).         *)
(***************************************************************************)
EXTENDS DictLife, Json, IOUtils

VARIABLES l, ids, accepted, formatted
tvars == <<l, ids, accepted, formatted>>
Tr == ndJsonDeserialize(IOEnv.TRACE)
Ev == Tr[l]
Is(e) == l <= Len(Tr) /\ Ev.e = e /\ l' = l + 1
Slots == 0..7
KeepM == UNCHANGED vars

TInit == /\ l = 1 /\ TLCSet(1, 0) /\ ids = [s \in Slots |-> 0] /\ accepted = [s \in Slots |-> TRUE] /\ formatted = [s \in Slots |-> FALSE]
         /\ cLoaded = None /\ cRef = None /\ cPrefix = None /\ dLoaded = None /\ dRef = None /\ dPrefix = None /\ dSet = {} /\ multi = FALSE
         /\ frameDict = None /\ frameID = 0 /\ lastDecode = "none" /\ nops = 0

DictEv == /\ Is("dict") /\ ids' = [ids EXCEPT ![Ev.slot] = Ev.id] /\ UNCHANGED <<accepted, formatted>> /\ KeepM

Loaders == /\ Is("loaders")
           /\ Ev.cdict = Ev.ddict /\ Ev.cdictL1 = Ev.cdict /\ Ev.cdictL19 = Ev.cdict          \* both sides, every level: same verdict
           /\ (~Ev.formatted) => (Ev.cdict /\ Ev.idC = 0 /\ Ev.idD = 0)                        \* raw content of any length is a dictionary
           /\ (Ev.cdict /\ Ev.formatted) => (Ev.idC = Ev.idDict /\ Ev.idD = Ev.idDict)          \* all ID queries agree
           /\ accepted' = [accepted EXCEPT ![Ev.slot] = Ev.cdict]
           /\ formatted' = [formatted EXCEPT ![Ev.slot] = Ev.formatted]
           /\ ids' = [ids EXCEPT ![Ev.slot] = IF Ev.cdict /\ Ev.formatted THEN Ev.idDict ELSE 0]
           /\ KeepM

RawMode(mc) == mc \in {"refPrefix", "cdictRaw", "loadRaw"}      \* the bytes are used as content whatever they look like
FullMode(mc) == mc \in {"cdictFull", "loadFull"}               \* the bytes must be a formatted dictionary
RT == /\ Is("rt")
      /\ (FullMode(Ev.mc) /\ ~formatted[Ev.slot] /\ Ev.dsize > 0) => ~Ev.cok        \* (an empty dictionary is no dictionary)
      /\ IF (accepted[Ev.slot] /\ (FullMode(Ev.mc) => formatted[Ev.slot])) \/ RawMode(Ev.mc)
         THEN /\ Ev.cok /\ Ev.dok /\ Ev.match
              /\ Ev.frameID = (IF Ev.idFlag = 1 /\ ~RawMode(Ev.mc) THEN ids[Ev.slot] ELSE 0)
         ELSE ~Ev.cok \/ (Ev.dok => Ev.match)         \* a refused dictionary: an error, never wrong bytes
      /\ UNCHANGED <<ids, accepted, formatted>> /\ KeepM

Wrong == /\ Is("wrong")
         /\ (Ev.cok /\ Ev.frameID # 0 /\ Ev.idD # Ev.frameID) => ~Ev.dok
         /\ UNCHANGED <<ids, accepted, formatted>> /\ KeepM

HistBegin == /\ Is("histbegin")
             /\ cLoaded' = None /\ cRef' = None /\ cPrefix' = None /\ dLoaded' = None /\ dRef' = None /\ dPrefix' = None /\ dSet' = {} /\ multi' = FALSE
             /\ frameDict' = None /\ frameID' = 0 /\ lastDecode' = "none" /\ nops' = 0
             /\ UNCHANGED <<ids, accepted, formatted>>
HistEnd == Is("histend") /\ UNCHANGED <<ids, accepted, formatted>> /\ KeepM

D == ids[Ev.arg]
Hist == /\ Is("hist") /\ UNCHANGED <<ids, accepted, formatted>>
        /\ nops' = 0
        /\ CASE Ev.op = "cload" -> Ev.ok /\ cLoaded' = D /\ cRef' = None /\ cPrefix' = None /\ UNCHANGED <<dLoaded, dRef, dPrefix, dSet, multi, frameDict, frameID, lastDecode>>
             [] Ev.op = "cref" -> Ev.ok /\ cRef' = D /\ cLoaded' = None /\ cPrefix' = None /\ UNCHANGED <<dLoaded, dRef, dPrefix, dSet, multi, frameDict, frameID, lastDecode>>
             [] Ev.op = "cprefix" -> Ev.ok /\ cPrefix' = 0 /\ cLoaded' = None /\ cRef' = None /\ UNCHANGED <<dLoaded, dRef, dPrefix, dSet, multi, frameDict, frameID, lastDecode>>
             [] Ev.op = "creset" -> Ev.ok /\ cLoaded' = None /\ cRef' = None /\ cPrefix' = None /\ UNCHANGED <<dLoaded, dRef, dPrefix, dSet, multi, frameDict, frameID, lastDecode>>
             [] Ev.op = "comp" -> /\ Ev.ok
                                  /\ frameDict' = (IF cPrefix # None THEN -2 - Ev.step ELSE CDictInForce)     \* (a prefix is identified by the step that used it)
                                  /\ frameID' = (IF CDictInForce = None \/ Ev.arg = 0 \/ cPrefix # None THEN 0 ELSE CDictInForce)
                                  /\ Ev.frameID = (IF CDictInForce = None \/ Ev.arg = 0 \/ cPrefix # None THEN 0 ELSE CDictInForce)     \* the frame records the ID of the dictionary in force
                                  /\ cPrefix' = None /\ lastDecode' = "none"
                                  /\ UNCHANGED <<cLoaded, cRef, dLoaded, dRef, dPrefix, dSet, multi>>
             [] Ev.op = "dload" -> Ev.ok /\ dLoaded' = D /\ dRef' = None /\ dPrefix' = None /\ UNCHANGED <<cLoaded, cRef, cPrefix, dSet, multi, frameDict, frameID, lastDecode>>
             [] Ev.op = "dref" -> Ev.ok /\ dRef' = D /\ dLoaded' = None /\ dPrefix' = None /\ dSet' = (IF multi THEN dSet \cup {D} ELSE dSet)
                                   /\ UNCHANGED <<cLoaded, cRef, cPrefix, multi, frameDict, frameID, lastDecode>>
             [] Ev.op = "dprefix" -> Ev.ok /\ dPrefix' = 0 /\ dLoaded' = None /\ dRef' = None /\ UNCHANGED <<cLoaded, cRef, cPrefix, dSet, multi, frameDict, frameID, lastDecode>>
             [] Ev.op = "dmulti" -> Ev.ok /\ multi' = TRUE /\ UNCHANGED <<cLoaded, cRef, cPrefix, dLoaded, dRef, dPrefix, dSet, frameDict, frameID, lastDecode>>
             [] Ev.op = "dreset" -> Ev.ok /\ dLoaded' = None /\ dRef' = None /\ dPrefix' = None /\ dSet' = {} /\ multi' = FALSE /\ UNCHANGED <<cLoaded, cRef, cPrefix, frameDict, frameID, lastDecode>>
             [] Ev.op = "dec" -> /\ IF Ev.have = 0 THEN UNCHANGED lastDecode
                                    ELSE LET d == DDictFor(frameID)
                                             refused == frameID # 0 /\ d # frameID IN
                                         /\ refused => ~Ev.ok                                                    \* wrong-ID refusal
                                         /\ (~refused /\ frameID # 0) => (Ev.ok /\ Ev.match)                      \* same formatted dictionary: round trip
                                         /\ (frameID = 0 /\ frameDict = None /\ d = None) => (Ev.ok /\ Ev.match)  \* no dictionary at all
                                         /\ Ev.ok => Ev.match                                                     \* (frames carry a checksum) never wrong bytes as success
                                         /\ lastDecode' = (IF Ev.ok THEN "ok" ELSE "refused")
                                 /\ dPrefix' = None
                                 /\ UNCHANGED <<cLoaded, cRef, cPrefix, dLoaded, dRef, dSet, multi, frameDict, frameID>>

\* a multi-DDict set of n dictionaries (IDs chosen to collide in the set's hash table): each frame is decoded with the dictionary it
\* names, and a frame naming a dictionary that is not in the set is refused
MultiN == /\ Is("multiN") /\ (Ev.made = Ev.n => (Ev.okAll /\ Ev.refusedUnknown)) /\ UNCHANGED <<ids, accepted, formatted>> /\ KeepM

\* diagnosis line written before a round trip whose bytes differ (which side produced them); the verdict is the rt line's
RtDiag == Is("rtdiag") /\ UNCHANGED <<ids, accepted, formatted>> /\ KeepM
End == Is("end") /\ UNCHANGED <<ids, accepted, formatted>> /\ KeepM
TNext == RtDiag \/ MultiN \/ DictEv \/ Loaders \/ RT \/ Wrong \/ HistBegin \/ HistEnd \/ Hist \/ End
Track == IF l > TLCGet(1) THEN TLCSet(1, l) ELSE TRUE
TraceAccepted == IF TLCGet(1) = Len(Tr) + 1 THEN TRUE
                 ELSE /\ PrintT(<<"TRACE-REJECT matched", TLCGet(1) - 1, "of", Len(Tr), "next line", IF TLCGet(1) <= Len(Tr) THEN Tr[TLCGet(1)] ELSE <<>> >>)
                      /\ FALSE
=============================================================================
