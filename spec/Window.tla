------------------------------- MODULE Window -------------------------------
(***************************************************************************)
(* Property C15: correctness does not wear out.                            *)
(*                                                                         *)
(* Model of the index space of a match finder (ZSTD_window_t in            *)
(* lib/compress/zstd_compress_internal.h) fed from a ring buffer that      *)
(* wraps any number of times, with 32-bit indices scaled down so that the  *)
(* overflow correction runs after a few blocks:                            *)
(*   Update      ZSTD_window_update: contiguous block, or new segment      *)
(*               (the previous prefix becomes the extDict), and the        *)
(*               overlap rule that retires extDict bytes the input has     *)
(*               overwritten                                              *)
(*   EnforceMax  ZSTD_window_enforceMaxDist (once per block)               *)
(*   Correct     ZSTD_window_correctOverflow + ZSTD_reduceIndex: rebase    *)
(*               keeping the low cycle bits, every stored index reduced    *)
(*   Insert      the block's positions are inserted in the table           *)
(* Memory is a ring of RingSize addresses; every write bumps the version  *)
(* of the address, every table entry remembers the version it indexed.     *)
(* The formulas of Update and Correct are the ones WinTrace.tla evaluates  *)
(* on the values logged by the hooks of the real code.                     *)
(***************************************************************************)
EXTENDS WindowF

VARIABLES base, dictBase,     \* address = base + index (prefix) / dictBase + index (extDict); integers, may be negative
          lowLimit, dictLimit,
          nextSrc,            \* address right after the last block
          ver,                \* ver[a]: number of times address a has been written
          table,              \* set of <<index, address, version>>: entries of the search tables
          corrections         \* number of overflow corrections so far
vars == <<base, dictBase, lowLimit, dictLimit, nextSrc, ver, table, corrections>>

Init == /\ base = 0 - Start /\ dictBase = 0 - Start /\ lowLimit = Start /\ dictLimit = Start /\ nextSrc = 0
        /\ ver = [a \in 0..(RingSize - 1) |-> 0] /\ table = {} /\ corrections = 0

Cur == nextSrc - base                                   \* index of the next byte
Resolve(i) == IF i < dictLimit THEN dictBase + i ELSE base + i

(* ---- actions ---- *)
\* where the producer puts the next block (of any size 1..MaxBlock: a flush cuts blocks short): after the previous one while a
\* full block still fits in the ring, else at address 0 (the ring wraps)
Block(n) ==
    LET ip == IF nextSrc + MaxBlock <= RingSize THEN nextSrc ELSE 0      \* ZSTD_compressStream_generic: wrap when a full block no longer fits
        curEnd == Cur + n
    IN
    /\ curEnd <= IdxMax + MaxBlock
    /\ IF Cur + n > IdxMax /\ Cur > CycleSize + Max(MaxDist, CycleSize) + Start
       THEN \* overflow correction first (ZSTD_overflowCorrectIfNeeded), then nothing else in this step
            LET c == CorrectF(Cur, CycleLog, MaxDist) IN
            /\ base' = base + c[1] /\ dictBase' = dictBase + c[1]
            /\ lowLimit' = LimitAfter(lowLimit, c[1]) /\ dictLimit' = LimitAfter(dictLimit, c[1])
            /\ table' = {<<e[1] - c[1], e[2], e[3]>> : e \in {x \in table : x[1] >= c[1] + Start}}     \* ZSTD_reduceIndex
            /\ corrections' = corrections + 1
            /\ UNCHANGED <<nextSrc, ver>>
       ELSE LET u == UpdateF(base, dictBase, lowLimit, dictLimit, nextSrc, ip, n, FALSE, OverlapAlways)
                b1 == u[1]  lo1 == u[3]
                cur1 == ip - b1
                \* ZSTD_window_enforceMaxDist for the end of the block
                lo2 == IF cur1 > MaxDist THEN Max(lo1, cur1 - MaxDist) ELSE lo1          \* (called with the START of the block)
                dl2 == Max(u[4], lo2)
            IN
            /\ base' = b1 /\ dictBase' = u[2] /\ dictLimit' = dl2 /\ nextSrc' = u[5]
            /\ lowLimit' = lo2
            /\ ver' = [a \in 0..(RingSize - 1) |-> IF a >= ip /\ a < ip + n THEN ver[a] + 1 ELSE ver[a]]
            /\ table' = table \cup {<<cur1 + k, ip + k, ver[ip + k] + 1>> : k \in 0..(n - 1)}
            /\ UNCHANGED corrections

Next == \E n \in 1..MaxBlock : Block(n)
Spec == Init /\ [][Next]_vars

(* ---- properties ---- *)
Reachable == {e \in table : e[1] >= lowLimit /\ e[1] < Cur}
\* an index the match finder may follow resolves to the address it indexed, still holding the bytes it indexed
ReachableFresh == \A e \in Reachable : Resolve(e[1]) = e[2] /\ ver[e[2]] = e[3]
LimitsOrdered == Start <= lowLimit /\ lowLimit <= dictLimit /\ dictLimit <= Cur
IndexBounded == Cur <= IdxMax + MaxBlock
\* a correction keeps the low cycle bits of every index and leaves the whole window addressable
CorrectionSound == \A c \in (CycleSize + Max(MaxDist, CycleSize) + Start + 1)..(IdxMax + MaxBlock) :
                      LET r == CorrectF(c, CycleLog, MaxDist) IN
                      /\ r[1] > 0 /\ r[2] % CycleSize = c % CycleSize /\ r[2] >= MaxDist + Start
\* the last MaxDist bytes stay matchable across a correction: nothing inside the window is dropped by the reduction
WindowKept == \A e \in table : (e[1] >= Cur - MaxDist /\ e[1] < Cur /\ e[1] >= lowLimit) => e \in Reachable
Wears == corrections <= 3          \* (state constraint: number of corrections explored)
=============================================================================
