------------------------------- MODULE SeqApi -------------------------------
(***************************************************************************)
(* Structural validity of a sequence list handed to sequence-level          *)
(* compression with validation enabled (property C17), as the property      *)
(* states it:                                                               *)
(*   - an offset must not reach beyond the window, nor beyond the history   *)
(*     available AT THE START OF ITS MATCH (position after the sequence's   *)
(*     literals, plus the dictionary while the position is within the       *)
(*     window);                                                             *)
(*   - a match must not be shorter than the minimum (3 when minMatch = 3 or *)
(*     an external producer is registered, else 4);                         *)
(*   - with explicit delimiters, every block must end with a delimiter      *)
(*     (offset 0, matchLength 0) and its lengths must add up to a block     *)
(*     of the source no larger than the block size.                         *)
(* Verdict(..) is evaluated by TLC both to enumerate boundary lists         *)
(* (SeqApiGen.tla, model -> code) and on the lists of recorded calls        *)
(* (SeqTrace.tla, code -> model).                                           *)
(***************************************************************************)
EXTENDS Integers, Sequences, FiniteSets, TLC

MinLen(minMatch, producer) == IF minMatch = 3 \/ producer THEN 3 ELSE 4

OffsetOK(off, start, win, dict) == off >= 1 /\ (IF start > win THEN off <= win ELSE off <= start + dict)

IsDelim(s) == s.off = 0 /\ s.ml = 0

\* delimiter-free mode: each sequence in turn; pos = bytes covered so far
RECURSIVE ValidFrom(_, _, _, _, _, _)
ValidFrom(list, i, pos, win, dict, minLen) ==
    IF i > Len(list) THEN TRUE
    ELSE LET s == list[i] start == pos + s.ll IN
         /\ s.ml >= minLen
         /\ OffsetOK(s.off, start, win, dict)
         /\ ValidFrom(list, i + 1, start + s.ml, win, dict, minLen)

VerdictNoDelim(list, win, dict, minMatch, producer) == ValidFrom(list, 1, 0, win, dict, MinLen(minMatch, producer))

\* explicit-delimiter mode: blocks are delimiter-terminated; lengths of each block must fit the source and the block size
RECURSIVE ValidDelim(_, _, _, _, _, _, _, _, _)
ValidDelim(list, i, pos, blockStart, win, dict, minLen, srcSize, blockSize) ==
    IF i > Len(list) THEN pos = srcSize /\ blockStart = pos          \* the list must end right after a delimiter, having covered the source
    ELSE LET s == list[i] IN
         IF IsDelim(s)
         THEN LET e == pos + s.ll IN
              /\ e <= srcSize /\ e - blockStart <= blockSize /\ e > blockStart
              /\ ValidDelim(list, i + 1, e, e, win, dict, minLen, srcSize, blockSize)
         ELSE LET start == pos + s.ll IN
              /\ s.ml >= minLen
              /\ OffsetOK(s.off, start, win, dict)
              /\ start + s.ml <= srcSize
              /\ ValidDelim(list, i + 1, start + s.ml, blockStart, win, dict, minLen, srcSize, blockSize)

VerdictDelim(list, win, dict, minMatch, producer, srcSize, blockSize) ==
    ValidDelim(list, 1, 0, 0, win, dict, MinLen(minMatch, producer), srcSize, blockSize)

\* total source bytes a delimiter-free list covers
RECURSIVE Covered(_, _)
Covered(list, i) == IF i > Len(list) THEN 0 ELSE list[i].ll + list[i].ml + Covered(list, i + 1)
=============================================================================
