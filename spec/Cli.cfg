SPECIFICATION Spec
CONSTANTS
  Rm = TRUE
  Force = TRUE
  Out = "file"
  DstPre = TRUE
  Ok = TRUE
  NBlocks = 2
  RmBeforeClose = FALSE
INVARIANTS DataSafe NoClobber CleanFail Verdict RmOnlyWhenMeaningful
