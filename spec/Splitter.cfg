SPECIFICATION Spec
CONSTANTS
  MaxOff = 5
  MaxLen = 5
  SimUsesStored = FALSE
INVARIANTS RoundTrip SimIsDecoder
