/* fmtdrv.c — one-shot compression cases: compress with a given entry point / parameter vector / dictionary, then
 *  (1) decode with the library decoder, (2) decode with the independent reference decoder (refdec.c) which also emits
 *  the frame / block / sequence events on which FrameTrace.tla evaluates format conformance and header truthfulness.
 * usage: fmtdrv <script> <trace.ndjson>
 *   CASE <api> <kind> <size> <seed> <seqlog> <dict> [id:value ...]
 *      api : compress | cctx | compress2 | usingDict | usingCDict | stream | streamflush | advanced
 *      dict: none | raw:<size>:<seed> | file:<path>
 *      the first id:value pair with id 100 gives the level for the simple entry points */
#define ZSTD_STATIC_LINKING_ONLY
#include "zstd.h"
#include "zstd_errors.h"
#include "refdec.h"
#include "vgen.h"
#include <stdio.h>

static unsigned char *src, *comp, *out, *dict; static size_t dictSize; static FILE* T;
#define MAXN (1u << 23)

int main(int argc, char** argv) {
    FILE* S; char line[1024]; int caseNo = 0;
    if (argc < 3) return 2;
    S = fopen(argv[1], "r"); T = fopen(argv[2], "w"); if (!S || !T) return 2;
    if (getenv("STREAMDRV_LB")) setvbuf(T, NULL, _IOLBF, 0);
    src = malloc(MAXN); comp = malloc(ZSTD_compressBound(MAXN)); out = malloc(MAXN + 64); dict = malloc(1 << 22);
    while (fgets(line, sizeof(line), S)) {
        char cmd[16], api[32], kind[32], dspec[300]; long size; unsigned seed; int seqlog; int off = 0; int n;
        int ids[64], vals[64], np = 0; ZSTD_CCtx* c; size_t r = 0; int level = 3; unsigned expectDictID = 0; int usedDict = 0;
        if (sscanf(line, "%15s %31s %31s %ld %u %d %299s%n", cmd, api, kind, &size, &seed, &seqlog, dspec, &off) < 7 || strcmp(cmd, "CASE")) continue;
        { const char* p = line + off; int id, v, k; while (sscanf(p, " %d:%d%n", &id, &v, &k) == 2 && np < 64) { ids[np] = id; vals[np] = v; np++; p += k; } }
        if ((size_t)size > MAXN) size = MAXN;
        vgen(kind, (size_t)size, seed, src);
        dictSize = 0;
        if (!strncmp(dspec, "raw:", 4)) { long ds; unsigned dseed; sscanf(dspec + 4, "%ld:%u", &ds, &dseed); if (ds > (1 << 22)) ds = 1 << 22; vgen("text", (size_t)ds, dseed, dict);
            /* make the dictionary relevant: its tail is a copy of the start of the source */ if (ds > 64 && size > 64) memcpy(dict + ds - 64, src, 64); dictSize = (size_t)ds; }
        else if (!strncmp(dspec, "file:", 5)) { FILE* D = fopen(dspec + 5, "rb"); if (D) { dictSize = fread(dict, 1, 1 << 22, D); fclose(D); } }
        for (n = 0; n < np; n++) if (ids[n] == 100) level = vals[n];
        c = ZSTD_createCCtx();
        if (!strcmp(api, "compress")) r = ZSTD_compress(comp, ZSTD_compressBound(size), src, size, level);
        else if (!strcmp(api, "cctx")) r = ZSTD_compressCCtx(c, comp, ZSTD_compressBound(size), src, size, level);
        else if (!strcmp(api, "usingDict")) { r = ZSTD_compress_usingDict(c, comp, ZSTD_compressBound(size), src, size, dict, dictSize, level); usedDict = dictSize > 0; }
        else if (!strcmp(api, "usingCDict")) { ZSTD_CDict* cd = ZSTD_createCDict(dict, dictSize, level); r = cd ? ZSTD_compress_usingCDict(c, comp, ZSTD_compressBound(size), src, size, cd) : (size_t)-1; ZSTD_freeCDict(cd); usedDict = dictSize > 0; }
        else if (!strcmp(api, "advanced")) { ZSTD_parameters p = ZSTD_getParams(level, size, dictSize);
            for (n = 0; n < np; n++) { if (ids[n] == 201) p.fParams.checksumFlag = vals[n]; if (ids[n] == 200) p.fParams.contentSizeFlag = vals[n]; if (ids[n] == 101 && vals[n]) p.cParams.windowLog = vals[n]; }
            r = ZSTD_compress_advanced(c, comp, ZSTD_compressBound(size), src, size, dict, dictSize, p); usedDict = dictSize > 0; }
        else {   /* compress2 / stream / streamflush : advanced parameters */
            size_t pe = 0;
            for (n = 0; n < np; n++) { size_t e = ZSTD_CCtx_setParameter(c, (ZSTD_cParameter)ids[n], vals[n]); if (ZSTD_isError(e)) pe = e; }
            if (dictSize) { ZSTD_CCtx_loadDictionary(c, dict, dictSize); usedDict = 1; }
            if (pe) r = pe;
            else if (!strcmp(api, "compress2")) r = ZSTD_compress2(c, comp, ZSTD_compressBound(size), src, size);
            else { ZSTD_inBuffer in; ZSTD_outBuffer ob; size_t chunk = !strcmp(api, "streamflush") ? (size_t)(1 + seed % 9000) : (size_t)size + 1; size_t rr = 1; int guard = 0;
                in.src = src; in.size = 0; in.pos = 0; ob.dst = comp; ob.size = ZSTD_compressBound(size) + 1024 + (size / (chunk ? chunk : 1) + 2) * 16; ob.pos = 0;
                if (ob.size > ZSTD_compressBound(MAXN)) ob.size = ZSTD_compressBound(MAXN);
                while (in.size < (size_t)size && !ZSTD_isError(rr)) { in.size = in.size + chunk > (size_t)size ? (size_t)size : in.size + chunk;
                    do { rr = ZSTD_compressStream2(c, &ob, &in, in.size == (size_t)size ? ZSTD_e_end : ZSTD_e_flush); } while (!ZSTD_isError(rr) && rr != 0 && ++guard < 1000000); }
                if (size == 0) rr = ZSTD_compressStream2(c, &ob, &in, ZSTD_e_end);
                r = ZSTD_isError(rr) ? rr : ob.pos; } }
        if (usedDict) expectDictID = ZSTD_getDictID_fromDict(dict, dictSize);
        fprintf(T, "{\"e\":\"case\",\"no\":%d,\"api\":\"%s\",\"kind\":\"%s\",\"srcSize\":%ld,\"seed\":%u,\"level\":%d,\"dictSize\":%zu,\"dictID\":%u,\"usedDict\":%d,\"ok\":%s,\"err\":\"%s\",\"csize\":%lld,\"bound\":%zu,\"p\":{",
                caseNo++, api, kind, size, seed, level, dictSize, expectDictID, usedDict, ZSTD_isError(r) ? "false" : "true", ZSTD_isError(r) ? ZSTD_getErrorName(r) : "", ZSTD_isError(r) ? -1LL : (long long)r, ZSTD_compressBound(size));
        { int first = 1; static const int known[] = {100, 101, 200, 201, 202, 10, 1015, 130, 400, 160, 107, 105, 1002, 1010, 1011}; unsigned k;
          for (k = 0; k < sizeof(known) / sizeof(known[0]); k++) { int v = 0; int given = 0; for (n = 0; n < np; n++) if (ids[n] == known[k]) { v = vals[n]; given = 1; }
              if (!given && known[k] == 200) v = 1; if (!given && known[k] == 202) v = 1;
              fprintf(T, "%s\"%d\":%d", first ? "" : ",", known[k], v); first = 0; } }
        fprintf(T, "}}\n");
        if (!ZSTD_isError(r)) {
            size_t lr, rr2; int magicless = 0; ZSTD_DCtx* d = ZSTD_createDCtx();
            for (n = 0; n < np; n++) if (ids[n] == 10 && vals[n] == 1 && strcmp(api, "compress") && strcmp(api, "cctx") && strcmp(api, "usingDict") && strcmp(api, "usingCDict") && strcmp(api, "advanced")) magicless = 1;
            ZSTD_DCtx_setParameter(d, ZSTD_d_format, magicless); ZSTD_DCtx_setParameter(d, ZSTD_d_windowLogMax, 31);
            if (usedDict) ZSTD_DCtx_loadDictionary(d, dict, dictSize);
            lr = ZSTD_decompressDCtx(d, out, (size_t)size + 64, comp, r);
            fprintf(T, "{\"e\":\"libdec\",\"ok\":%s,\"match\":%s,\"err\":\"%s\"}\n", ZSTD_isError(lr) ? "false" : "true", (!ZSTD_isError(lr) && lr == (size_t)size && !memcmp(out, src, size)) ? "true" : "false", ZSTD_isError(lr) ? ZSTD_getErrorName(lr) : "");
            ZSTD_freeDCtx(d);
            /* reference decoder (frames in the magicless format get their magic number back first) */
            { unsigned char* f = comp; size_t fn = r; unsigned char* tmp = NULL;
              if (magicless) { tmp = malloc(r + 4); tmp[0] = 0x28; tmp[1] = 0xB5; tmp[2] = 0x2F; tmp[3] = 0xFD; memcpy(tmp + 4, comp, r); f = tmp; fn = r + 4; }
              REF_set_trace(T, seqlog); memset(out, 0xEE, (size_t)size + 64);
              rr2 = REF_decode_all(out, (size_t)size + 64, f, fn, usedDict ? dict : NULL, usedDict ? dictSize : 0);
              REF_set_trace(NULL, 0);
              fprintf(T, "{\"e\":\"refdec\",\"ok\":%s,\"match\":%s,\"why\":\"%s\",\"magicless\":%d}\n", rr2 == (size_t)-1 ? "false" : "true",
                      (rr2 == (size_t)size && !memcmp(out, src, size)) ? "true" : "false", rr2 == (size_t)-1 ? REF_last_error() : "", magicless);
              free(tmp); }
        }
        ZSTD_freeCCtx(c);
    }
    fprintf(T, "{\"e\":\"end\"}\n"); fclose(T);
    return 0;
}
