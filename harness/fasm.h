/* fasm.h — frame assembler: builds Zstandard frames from abstract descriptors, including format features the bundled
 * compressor never emits (RLE / repeat table modes with arbitrary symbols, non-minimal size encodings, treeless literals,
 * window descriptors with mantissa, every content-size width, raw literals next to short sequence sections, ...).
 * The entropy sections are serialised with the library's table builders / bit writers (FSE_*, HUF_*, ZSTD_encodeSequences);
 * the structure (headers, modes, sizes, order) is written here.  Whether a produced frame is valid is NOT decided here:
 * the independent reference decoder (refdec.c) adjudicates, and tells the expected content. */
#ifndef FASM_H
#define FASM_H
#define ZSTD_STATIC_LINKING_ONLY
#define FSE_STATIC_LINKING_ONLY
#define HUF_STATIC_LINKING_ONLY
#include "zstd.h"
#include "../lib/common/zstd_internal.h"
#include "../lib/common/fse.h"
#include "../lib/common/huf.h"
#include "../lib/compress/zstd_compress_internal.h"
#include "../lib/compress/zstd_compress_sequences.h"
#include <string.h>
#include <stdlib.h>

typedef struct { unsigned ll, ml, offv; } fa_seq;      /* offv: offset_value of the format (1..3 = repeat codes, else offset + 3) */
enum { FA_PREDEF = 0, FA_RLE = 1, FA_FSE = 2, FA_REPEAT = 3 };
enum { FA_LRAW = 0, FA_LRLE = 1, FA_LHUF = 2, FA_LTREELESS = 3 };

typedef struct {
    unsigned x;                          /* prng */
    /* frame state */
    size_t windowSize, blockMax, produced, dictContent;
    unsigned rep[3]; unsigned litBase;
    /* entropy state carried between blocks */
    FSE_CTable ctLL[FSE_CTABLE_SIZE_U32(LLFSELog, MaxLL)], ctOF[FSE_CTABLE_SIZE_U32(OffFSELog, MaxOff)], ctML[FSE_CTABLE_SIZE_U32(MLFSELog, MaxML)];
    int haveLL, haveOF, haveML, haveHuf;
    short pn[3][64];                     /* symbols the current table of each kind can encode (non-zero = encodable) */
    HUF_CElt huf[HUF_CTABLE_SIZE_ST(255)];
    unsigned hufMaxSym;
    /* statistics of what was produced (features) */
    unsigned fLit[4], fMode[3][4], fSeq0, fSeqLong, fNonMin, fRawBlk, fRleBlk, fCmpBlk, fMaxSym, fLongLL, fLongML;
    unsigned wk[4096];
} fa_t;

static unsigned fa_rnd(fa_t* f) { f->x = f->x * 1103515245u + 12345u; return (f->x >> 16) & 0x7fff; }
static unsigned fa_pick(fa_t* f, unsigned n) { return n ? ((fa_rnd(f) << 15 | fa_rnd(f)) % n) : 0; }

/* ---------------- frame header ---------------- */
/* fcsMode: 0 none, 1..: 1,2,4,8 bytes;  singleSeg;  wexp/wmant: Window_Descriptor;  dictIdBytes 0,1,2,4;  checksum */
static size_t fa_frame_header(unsigned char* d, unsigned long long content, int fcsBytes, int singleSeg, unsigned wexp, unsigned wmant, unsigned dictID, int dictIdBytes, int checksum, int reservedBit) {
    size_t p = 0; unsigned fcsCode = fcsBytes == 1 ? 0 : fcsBytes == 2 ? 1 : fcsBytes == 4 ? 2 : fcsBytes == 8 ? 3 : 0; unsigned didCode = dictIdBytes == 1 ? 1 : dictIdBytes == 2 ? 2 : dictIdBytes == 4 ? 3 : 0;
    d[p++] = 0x28; d[p++] = 0xB5; d[p++] = 0x2F; d[p++] = 0xFD;
    d[p++] = (unsigned char)((fcsCode << 6) | ((singleSeg ? 1 : 0) << 5) | ((reservedBit ? 1 : 0) << 3) | ((checksum ? 1 : 0) << 2) | didCode);
    if (!singleSeg) d[p++] = (unsigned char)((wexp << 3) | (wmant & 7));
    { int i; for (i = 0; i < dictIdBytes; i++) d[p++] = (unsigned char)(dictID >> (8 * i)); }
    if (singleSeg && fcsBytes == 0) fcsBytes = 1;      /* (single segment implies a content size; code 0 then means 1 byte) */
    if (fcsBytes == 1) d[p++] = (unsigned char)content;
    else if (fcsBytes == 2) { unsigned v = (unsigned)(content - 256); d[p++] = v & 255; d[p++] = (v >> 8) & 255; }
    else if (fcsBytes == 4) { int i; for (i = 0; i < 4; i++) d[p++] = (unsigned char)(content >> (8 * i)); }
    else if (fcsBytes == 8) { int i; for (i = 0; i < 8; i++) d[p++] = (unsigned char)(content >> (8 * i)); }
    return p;
}
static size_t fa_block_header(unsigned char* d, int last, int type, unsigned size) { unsigned h = (last ? 1 : 0) | ((unsigned)type << 1) | (size << 3); d[0] = h & 255; d[1] = (h >> 8) & 255; d[2] = (h >> 16) & 255; return 3; }

/* ---------------- literals section ---------------- */
static void fa_gen_literals(fa_t* f, unsigned char* lit, size_t n, int skew) {
    size_t i; unsigned base = f->litBase;
    for (i = 0; i < n; i++) { unsigned r = fa_rnd(f); unsigned s = skew ? ((r & 1) ? 0 : (r & 2) ? 1 : (r & 4) ? 2 : (r & 8) ? 3 + ((r >> 4) % 5) : 8 + ((r >> 4) % 40)) : (r >> 3) & 255; lit[i] = (unsigned char)(base + s); }
}
/* returns section size, or 0 if this mode cannot express the request (caller falls back) */
static size_t fa_literals(fa_t* f, unsigned char* d, size_t cap, const unsigned char* lit, size_t n, int mode, int fmt) {
    size_t p = 0;
    if (mode == FA_LRAW || mode == FA_LRLE) {
        /* size format: fmt 0 -> smallest legal, 1 -> 2 bytes (12 bits), 2 -> 3 bytes (20 bits) : non-minimal encodings are legal */
        int bytes = n < 32 ? 1 : n < 4096 ? 2 : 3; if (fmt == 1 && bytes < 2) bytes = 2; if (fmt == 2) bytes = 3;
        if (bytes > 1 && bytes == (n < 32 ? 1 : n < 4096 ? 2 : 3) + 0) { } else if (bytes > (n < 32 ? 1 : n < 4096 ? 2 : 3)) f->fNonMin++;
        if (bytes == 1) d[p++] = (unsigned char)(mode | (0 << 2) | (n << 3));
        else if (bytes == 2) { unsigned v = (unsigned)(mode | (1 << 2) | (n << 4)); d[p++] = v & 255; d[p++] = (v >> 8) & 255; }
        else { unsigned v = (unsigned)(mode | (3 << 2) | (n << 4)); d[p++] = v & 255; d[p++] = (v >> 8) & 255; d[p++] = (v >> 16) & 255; }
        if (mode == FA_LRAW) { if (p + n > cap) return 0; memcpy(d + p, lit, n); p += n; } else d[p++] = lit[0];
        f->fLit[mode]++; return p;
    }
    {   /* Huffman: 1 stream (fmt 0, only when both sizes < 1024) or 4 streams */
        unsigned count[256]; size_t i; unsigned maxSym = 0; size_t treeSize = 0, cSize; unsigned char* body; int four; size_t hdr; unsigned maxBits;
        static unsigned char tmpTree[600]; static unsigned char tmpBody[300000];
        if (n < 8 || n > 131072) return 0;
        if (mode == FA_LHUF) {
            memset(count, 0, sizeof(count)); for (i = 0; i < n; i++) count[lit[i]]++; for (i = 0; i < 256; i++) if (count[i]) maxSym = (unsigned)i;
            { unsigned distinct = 0; for (i = 0; i <= maxSym; i++) distinct += count[i] != 0; if (distinct < 2) return 0; }
            maxBits = (unsigned)HUF_buildCTable_wksp(f->huf, count, maxSym, 11, f->wk, sizeof(f->wk)); if (HUF_isError(maxBits)) return 0;
            treeSize = HUF_writeCTable_wksp(tmpTree, sizeof(tmpTree), f->huf, maxSym, maxBits, f->wk, sizeof(f->wk)); if (HUF_isError(treeSize)) return 0;
            f->hufMaxSym = maxSym; f->haveHuf = 1;
        } else { if (!f->haveHuf) return 0; for (i = 0; i < n; i++) if (lit[i] > f->hufMaxSym || HUF_getNbBitsFromCTable(f->huf, lit[i]) == 0) return 0; }
        four = (fmt != 0) || n >= 1024;
        cSize = four ? HUF_compress4X_usingCTable(tmpBody, sizeof(tmpBody), lit, n, f->huf, 0) : HUF_compress1X_usingCTable(tmpBody, sizeof(tmpBody), lit, n, f->huf, 0);
        if (HUF_isError(cSize) || cSize == 0) return 0;
        cSize += treeSize; body = tmpBody;
        if (!four && cSize >= 1024) return 0;
        {   int sf = !four ? 0 : (n < 1024 && cSize < 1024 && fmt < 2) ? 1 : (n < 16384 && cSize < 16384 && fmt < 3) ? 2 : 3;
            if (four && sf > ((n < 1024 && cSize < 1024) ? 1 : (n < 16384 && cSize < 16384) ? 2 : 3)) f->fNonMin++;
            if (sf <= 1) { unsigned v = (unsigned)(mode | (sf << 2) | (n << 4) | (cSize << 14)); d[p++] = v & 255; d[p++] = (v >> 8) & 255; d[p++] = (v >> 16) & 255; hdr = 3; }
            else if (sf == 2) { unsigned v = (unsigned)(mode | (2 << 2) | (n << 4) | (cSize << 18)); d[p++] = v & 255; d[p++] = (v >> 8) & 255; d[p++] = (v >> 16) & 255; d[p++] = (v >> 24) & 255; hdr = 4; }
            else { unsigned long long v = (unsigned long long)mode | (3 << 2) | ((unsigned long long)n << 4) | ((unsigned long long)cSize << 22); int k; for (k = 0; k < 5; k++) d[p++] = (unsigned char)(v >> (8 * k)); hdr = 5; }
            (void)hdr; }
        if (p + cSize > cap) return 0;
        memcpy(d + p, tmpTree, treeSize); p += treeSize; memcpy(d + p, body, cSize - treeSize); p += cSize - treeSize;
        f->fLit[mode]++; return p;
    }
}

/* ---------------- sequences section ---------------- */
static unsigned fa_llcode(unsigned ll) { return ll >= 65536 ? 35 : ZSTD_LLcode(ll); }
static unsigned fa_mlcode(unsigned ml) { return (ml - 3) >= 65536 ? 52 : ZSTD_MLcode(ml - 3); }
/* builds one table (mode m) for the codes; writes its description; returns bytes written or (size_t)-1 */
static size_t fa_table(fa_t* f, unsigned char* d, int which, int* mode, const unsigned char* codes, size_t n, FSE_CTable* ct, int* have) {
    unsigned maxSym = which == 0 ? MaxLL : which == 1 ? MaxOff : MaxML; unsigned maxLog = which == 0 ? LLFSELog : which == 1 ? OffFSELog : MLFSELog;
    const short* defNorm = which == 0 ? LL_defaultNorm : which == 1 ? OF_defaultNorm : ML_defaultNorm; unsigned defLog = which == 0 ? LL_defaultNormLog : which == 1 ? OF_defaultNormLog : ML_defaultNormLog; unsigned defMax = which == 1 ? DefaultMaxOff : maxSym;
    size_t i; unsigned count[64]; unsigned top = 0; int allSame = 1;
    memset(count, 0, sizeof(count)); for (i = 0; i < n; i++) { count[codes[i]]++; if (codes[i] > top) top = codes[i]; if (codes[i] != codes[0]) allSame = 0; }
    if (*mode == FA_REPEAT && !*have) *mode = FA_PREDEF;
    if (*mode == FA_REPEAT) { for (i = 0; i < n; i++) if (f->pn[which][codes[i]] == 0) { *mode = FA_FSE; break; } }     /* every code must be encodable with the previous table */
    if (*mode == FA_REPEAT) return 0;
    if (*mode == FA_RLE && !allSame) *mode = FA_FSE;
    if (*mode == FA_FSE && (allSame || n < 2)) *mode = allSame ? FA_RLE : FA_PREDEF;
    if (*mode == FA_PREDEF) { for (i = 0; i <= top; i++) if (count[i] && (i > defMax || defNorm[i] == 0)) { *mode = allSame ? FA_RLE : FA_FSE; break; } }
    if (*mode == FA_PREDEF) { if (FSE_isError(FSE_buildCTable_wksp(ct, defNorm, defMax, defLog, f->wk, sizeof(f->wk)))) return (size_t)-1; *have = 1; memset(f->pn[which], 0, sizeof(f->pn[which])); for (i = 0; i <= defMax; i++) f->pn[which][i] = defNorm[i]; return 0; }
    if (*mode == FA_RLE) { FSE_buildCTable_rle(ct, codes[0]); d[0] = codes[0]; *have = 1; if (codes[0] == maxSym) f->fMaxSym++; memset(f->pn[which], 0, sizeof(f->pn[which])); f->pn[which][codes[0]] = 1; return 1; }
    {   short norm[64]; unsigned tl = 5 + fa_rnd(f) % (maxLog - 4); size_t r; unsigned minLog = 1; { unsigned t = (unsigned)n; unsigned distinct = 0; for (i = 0; i <= top; i++) distinct += count[i] != 0; while ((1u << minLog) < distinct + 1) minLog++; (void)t; }
        if (tl < minLog) tl = minLog; if (tl < 5) tl = 5; if (tl > maxLog) tl = maxLog;
        r = FSE_normalizeCount(norm, tl, count, n, top, 1); if (FSE_isError(r)) return (size_t)-1; tl = (unsigned)r;
        r = FSE_writeNCount(d, 256, norm, top, tl); if (FSE_isError(r)) return (size_t)-1;
        if (FSE_isError(FSE_buildCTable_wksp(ct, norm, top, tl, f->wk, sizeof(f->wk)))) return (size_t)-1; *have = 1; memset(f->pn[which], 0, sizeof(f->pn[which])); for (i = 0; i <= top; i++) f->pn[which][i] = norm[i]; return r; }
}

/* returns section size or 0 on failure. modes[3] = LL, OF, ML requested (adjusted to what is expressible); nbFmt: 0 minimal, 1 force 2-byte, 2 force 3-byte */
static size_t fa_sequences(fa_t* f, unsigned char* d, size_t cap, const fa_seq* s, size_t n, int modes[3], int nbFmt) {
    size_t p = 0; static seqDef sd[70000]; static unsigned char llc[70000], ofc[70000], mlc[70000]; size_t i; unsigned char* modeByte; size_t r;
    if (n == 0) { d[0] = 0; f->fSeq0++; return 1; }
    if (n >= 70000) return 0;
    if (n < 128 && nbFmt == 0) d[p++] = (unsigned char)n;
    else if (n < 0x7F00 && nbFmt <= 1) { d[p++] = (unsigned char)((n >> 8) + 0x80); d[p++] = (unsigned char)n; if (n < 128) f->fNonMin++; }
    else { if (n < 0x7F00) { /* the 3-byte form cannot express n < 0x7F00 */ d[p++] = (unsigned char)((n >> 8) + 0x80); d[p++] = (unsigned char)n; } else { d[p++] = 0xFF; d[p++] = (unsigned char)((n - 0x7F00) & 255); d[p++] = (unsigned char)((n - 0x7F00) >> 8); f->fSeqLong++; } }
    for (i = 0; i < n; i++) { llc[i] = (unsigned char)fa_llcode(s[i].ll); mlc[i] = (unsigned char)fa_mlcode(s[i].ml); ofc[i] = (unsigned char)ZSTD_highbit32(s[i].offv);
        sd[i].litLength = (U16)s[i].ll; sd[i].mlBase = (U16)(s[i].ml - 3); sd[i].offBase = s[i].offv; if (s[i].ll >= 65536) f->fLongLL++; if (s[i].ml - 3 >= 65536) f->fLongML++; }
    modeByte = d + p++;
    r = fa_table(f, d + p, 0, &modes[0], llc, n, f->ctLL, &f->haveLL); if (r == (size_t)-1) return 0; p += r;
    r = fa_table(f, d + p, 1, &modes[1], ofc, n, f->ctOF, &f->haveOF); if (r == (size_t)-1) return 0; p += r;
    r = fa_table(f, d + p, 2, &modes[2], mlc, n, f->ctML, &f->haveML); if (r == (size_t)-1) return 0; p += r;
    *modeByte = (unsigned char)((modes[0] << 6) | (modes[1] << 4) | (modes[2] << 2));
    f->fMode[0][modes[0]]++; f->fMode[1][modes[1]]++; f->fMode[2][modes[2]]++;
    r = ZSTD_encodeSequences(d + p, cap - p, f->ctML, mlc, f->ctOF, ofc, f->ctLL, llc, sd, n, 0, 0);
    if (ZSTD_isError(r) || r == 0) return 0;
    return p + r;
}

/* ---------------- sequences generation (lengths only: the reference decoder defines the content) ---------------- */
/* produces n sequences + trailing literals for a block of exactly `target` regenerated bytes, valid w.r.t. history/window;
 * style: 0 mixed, 1 repcode heavy, 2 long lengths, 3 constant codes (all sequences share LL/OF/ML codes: RLE-able), 4 tiny */
static size_t fa_gen_seqs(fa_t* f, fa_seq* s, size_t maxSeq, size_t target, size_t* litTotal, int style, unsigned constLL, unsigned constML, unsigned constOffLog) {
    size_t n = 0, used = 0, lits = 0; unsigned rep[3]; memcpy(rep, f->rep, sizeof(rep));
    while (n < maxSeq && used + 4 <= target) {
        unsigned ll, ml, offv; size_t room = target - used; size_t hist;
        if (style == 3) { ll = constLL; ml = constML; }
        else if (style == 2) { ll = fa_pick(f, 5) == 0 ? 65536 + fa_pick(f, 3000) : fa_pick(f, 40); ml = fa_pick(f, 4) == 0 ? 65539 + fa_pick(f, 2000) : 3 + fa_pick(f, 300); }
        else if (style == 4) { ll = fa_pick(f, 4) == 0 ? 1 : 0; ml = 3; }
        else { unsigned r = fa_rnd(f); ll = (r & 3) == 0 ? 0 : (r & 12) == 0 ? 16 + fa_pick(f, 3000) : fa_pick(f, 24); ml = 3 + ((r & 48) == 0 ? fa_pick(f, 2000) : fa_pick(f, 40)); }
        if (ll + ml > room) { if (style == 3) break; if (room < 4) break; ll = (unsigned)fa_pick(f, (unsigned)(room - 3)); if (ll > 60000) ll = 60000; ml = 3 + fa_pick(f, (unsigned)(room - ll - 2)); if (ml < 3) ml = 3; if (ll + ml > room) break; }
        hist = f->dictContent + f->produced + used + ll; if (hist == 0) { if (style == 3) break; ll = 1 + fa_pick(f, 8); if (ll + ml > room) break; hist = ll; }
        {   size_t maxOff = hist < f->windowSize ? hist : f->windowSize; unsigned off;
            int wantRep = (style == 1) ? (fa_rnd(f) % 4 != 0) : (style == 3 ? 0 : (fa_rnd(f) % 5 == 0));
            if (style == 3) { unsigned lo = 1u << constOffLog, hi = (2u << constOffLog) - 1; /* offv in [lo,hi] => offset = offv-3 */ unsigned v;
                if (constOffLog < 2) { break; } v = lo + fa_pick(f, hi - lo + 1); if (v < 4) v = 4; off = v - 3; if (off > maxOff) { off = (unsigned)maxOff; if (ZSTD_highbit32(off + 3) != constOffLog) break; } offv = off + 3; wantRep = 0; }
            else if (wantRep) { unsigned code = 1 + fa_rnd(f) % 3; unsigned idx = code - 1 + (ll == 0 ? 1 : 0); unsigned cand = idx < 3 ? rep[idx] : rep[0] - 1;
                if (cand == 0 || cand > maxOff) { wantRep = 0; } else { offv = code; off = cand; } }
            if (!wantRep && style != 3) { unsigned r = fa_rnd(f); off = (r & 3) == 0 ? 1 + fa_pick(f, 16) : 1 + fa_pick(f, (unsigned)maxOff); if (off > maxOff) off = (unsigned)maxOff; if (off == 0) break; offv = off + 3; }
            /* repeat-offset history of the format */
            if (offv > 3) { rep[2] = rep[1]; rep[1] = rep[0]; rep[0] = offv - 3; }
            else { unsigned idx = offv - 1 + (ll == 0 ? 1 : 0); if (idx == 0) { } else { unsigned v = idx < 3 ? rep[idx] : rep[0] - 1; if (idx >= 2) rep[2] = rep[1]; rep[1] = rep[0]; rep[0] = v; } }
        }
        s[n].ll = ll; s[n].ml = ml; s[n].offv = offv; n++; used += ll + ml; lits += ll;
    }
    lits += target - used;      /* trailing literals */
    if (n > 0) memcpy(f->rep, rep, sizeof(rep));
    *litTotal = lits; return n;
}
#endif
