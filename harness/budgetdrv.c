/* budgetdrv.c — memory budgets (property C14): contexts placed in caller memory of exactly the estimated size, decoder window
 * limits, reported sizes.  Caller memory is an exact-size heap block (ASan red zones catch any byte touched outside) bracketed
 * by pattern-filled guard zones inside a larger mapping for the static decoders; a counting ZSTD_customMem observes heap use.
 * usage: budgetdrv <script> <trace.ndjson>
 *   SC <L> <l> <kind> <size> <seed> <reuses>          initStaticCCtx(estimateCCtxSize(L)); compressCCtx at level l, <reuses> times
 *   SS <L> <l> <kind> <size> <seed> <known> <chunk>   initStaticCStream(estimateCStreamSize(L)); streaming at level l (pledged if known)
 *   SP <mode> <kind> <size> <seed> <stream> id:v ...  estimate*_usingCParams / usingCCtxParams (mode cp|pp) + exactly those parameters
 *   SD <W> <wlog> <size> <seed> <fcs> <ochunk>        initStaticDStream(estimateDStreamSize(W)); frame with window 2^wlog
 *   HD <wlogMax> <wlog> <size> <seed> <dict>          heap DStream with windowLogMax: refusal iff window > limit; allocation total vs estimate
 *   DD <level> <dictSize>                             static CDict / DDict with estimateCDictSize / estimateDDictSize
 *   SZ <level> <size> <nbWorkers>                     sizeof_CCtx/DCtx/CDict/DDict >= bytes seen by the counting allocator */
#define ZSTD_STATIC_LINKING_ONLY
#include "zstd.h"
#include "zstd_errors.h"
#include "vgen.h"
#include <stdio.h>
#include <stdint.h>

static FILE* T; static unsigned char *src, *comp, *out;
#define MAXN (1u << 23)
static size_t liveBytes, peakBytes, nAllocs;
typedef struct { size_t n; } hdr_t;
static void* c_alloc(void* o, size_t n) { hdr_t* h = (hdr_t*)malloc(n + 64); (void)o; if (!h) return NULL; h->n = n; liveBytes += n; nAllocs++; if (liveBytes > peakBytes) peakBytes = liveBytes; return (char*)h + 64; }
static void c_free(void* o, void* p) { hdr_t* h; (void)o; if (!p) return; h = (hdr_t*)((char*)p - 64); liveBytes -= h->n; free(h); }
static ZSTD_customMem CM = { c_alloc, c_free, NULL };

/* guard-zoned block: [guard 4096][block n][guard 4096], block 64-byte aligned */
typedef struct { unsigned char* base; unsigned char* blk; size_t n; } gz_t;
static gz_t gz_make(size_t n) { gz_t g; g.n = n; g.base = (unsigned char*)malloc(n + 8192 + 64); memset(g.base, 0xA5, n + 8192 + 64); g.blk = (unsigned char*)(((uintptr_t)g.base + 4096 + 63) & ~(uintptr_t)63); return g; }
static int gz_ok(gz_t g) { size_t i; for (i = 0; i < (size_t)(g.blk - g.base); i++) if (g.base[i] != 0xA5) return 0; { unsigned char* e = g.blk + g.n; unsigned char* lim = g.base + g.n + 8192 + 64; for (; e < lim; e++) if (*e != 0xA5) return 0; } return 1; }

static int rt(size_t cs, size_t n) { size_t r = ZSTD_decompress(out, n + 64, comp, cs); return !ZSTD_isError(r) && r == n && !memcmp(out, src, n); }

int main(int argc, char** argv) {
    FILE* S; char line[2048];
    if (argc < 3) return 2;
    S = fopen(argv[1], "r"); T = fopen(argv[2], "w"); if (!S || !T) return 2;
    if (getenv("STREAMDRV_LB")) setvbuf(T, NULL, _IOLBF, 0);
    src = malloc(MAXN); comp = malloc(ZSTD_compressBound(MAXN) + 4096); out = malloc(MAXN + 64);
    while (fgets(line, sizeof(line), S)) {
        char cmd[8], kind[32]; int L, l; long size; unsigned seed;
        if (sscanf(line, "%7s", cmd) != 1) continue;
        if (!strcmp(cmd, "SC")) { int reuses, i, okAll = 1, rtAll = 1; const char* err = ""; size_t est; gz_t g; ZSTD_CCtx* c;
            if (sscanf(line, "%*s %d %d %31s %ld %u %d", &L, &l, kind, &size, &seed, &reuses) < 6) continue;
            vgen(kind, size, seed, src); est = ZSTD_estimateCCtxSize(L); g = gz_make(est); c = ZSTD_initStaticCCtx(g.blk, est);
            for (i = 0; c && i < reuses; i++) { size_t r = ZSTD_compressCCtx(c, comp, ZSTD_compressBound(size), src, size, l); if (ZSTD_isError(r)) { okAll = 0; err = ZSTD_getErrorName(r); break; } if (!rt(r, size)) rtAll = 0; }
            fprintf(T, "{\"e\":\"staticCCtx\",\"L\":%d,\"l\":%d,\"kind\":\"%s\",\"size\":%ld,\"reuses\":%d,\"estimate\":%zu,\"init\":%s,\"ok\":%s,\"roundtrip\":%s,\"guardOK\":%s,\"err\":\"%s\",\"failedAt\":%d}\n",
                    L, l, kind, size, reuses, est, c ? "true" : "false", (c && okAll) ? "true" : "false", rtAll ? "true" : "false", gz_ok(g) ? "true" : "false", err, okAll ? -1 : i);
            free(g.base);
        } else if (!strcmp(cmd, "SS")) { int known; long chunk; size_t est; gz_t g; ZSTD_CStream* c; size_t r = 0; const char* err = ""; int ok = 1; ZSTD_inBuffer in; ZSTD_outBuffer ob; int guard = 0;
            if (sscanf(line, "%*s %d %d %31s %ld %u %d %ld", &L, &l, kind, &size, &seed, &known, &chunk) < 7) continue;
            vgen(kind, size, seed, src); est = ZSTD_estimateCStreamSize(L); g = gz_make(est); c = ZSTD_initStaticCStream(g.blk, est);
            if (c) { r = ZSTD_CCtx_setParameter(c, ZSTD_c_compressionLevel, l); if (known && !ZSTD_isError(r)) r = ZSTD_CCtx_setPledgedSrcSize(c, size);
                in.src = src; in.size = 0; in.pos = 0; ob.dst = comp; ob.size = ZSTD_compressBound(size) + 4096; ob.pos = 0;
                while (!ZSTD_isError(r)) { in.size = in.size + chunk > (size_t)size ? (size_t)size : in.size + chunk;
                    do { r = ZSTD_compressStream2(c, &ob, &in, in.size == (size_t)size ? ZSTD_e_end : ZSTD_e_continue); } while (!ZSTD_isError(r) && (in.pos < in.size || (in.size == (size_t)size && r != 0)) && ++guard < 1000000);
                    if (in.size == (size_t)size) break; }
                if (ZSTD_isError(r)) { ok = 0; err = ZSTD_getErrorName(r); } }
            fprintf(T, "{\"e\":\"staticCStream\",\"L\":%d,\"l\":%d,\"kind\":\"%s\",\"size\":%ld,\"known\":%d,\"estimate\":%zu,\"init\":%s,\"ok\":%s,\"roundtrip\":%s,\"guardOK\":%s,\"err\":\"%s\"}\n",
                    L, l, kind, size, known, est, c ? "true" : "false", (c && ok) ? "true" : "false", (c && ok && rt(ob.pos, size)) ? "true" : "false", gz_ok(g) ? "true" : "false", err);
            free(g.base);
        } else if (!strcmp(cmd, "SP")) { char mode[8]; int stream, off = 0, np = 0, ids[32], vals[32], n; ZSTD_CCtx_params* pp = ZSTD_createCCtxParams(); ZSTD_compressionParameters cp; size_t est; gz_t g; ZSTD_CCtx* c; size_t r = 0; const char* err = ""; int ok = 1;
            if (sscanf(line, "%*s %7s %31s %ld %u %d%n", mode, kind, &size, &seed, &stream, &off) < 5) continue;
            { const char* p = line + off; int id, v, k; while (sscanf(p, " %d:%d%n", &id, &v, &k) == 2 && np < 32) { ids[np] = id; vals[np] = v; np++; p += k; } }
            vgen(kind, size, seed, src);
            cp = ZSTD_getCParams(3, 0, 0);
            for (n = 0; n < np; n++) { ZSTD_CCtxParams_setParameter(pp, (ZSTD_cParameter)ids[n], vals[n]);
                if (ids[n] == 101) cp.windowLog = vals[n]; if (ids[n] == 102) cp.hashLog = vals[n]; if (ids[n] == 103) cp.chainLog = vals[n]; if (ids[n] == 104) cp.searchLog = vals[n];
                if (ids[n] == 105) cp.minMatch = vals[n]; if (ids[n] == 106) cp.targetLength = vals[n]; if (ids[n] == 107) cp.strategy = (ZSTD_strategy)vals[n]; }
            if (!strcmp(mode, "cp")) est = stream ? ZSTD_estimateCStreamSize_usingCParams(cp) : ZSTD_estimateCCtxSize_usingCParams(cp);
            else est = stream ? ZSTD_estimateCStreamSize_usingCCtxParams(pp) : ZSTD_estimateCCtxSize_usingCCtxParams(pp);
            if (ZSTD_isError(est)) { fprintf(T, "{\"e\":\"staticParams\",\"mode\":\"%s\",\"stream\":%d,\"estimateOK\":false,\"init\":false,\"ok\":false,\"roundtrip\":false,\"guardOK\":true,\"err\":\"%s\",\"line\":\"\"}\n", mode, stream, ZSTD_getErrorName(est)); ZSTD_freeCCtxParams(pp); continue; }
            g = gz_make(est); c = ZSTD_initStaticCCtx(g.blk, est);
            if (c) { if (!strcmp(mode, "cp")) { r = ZSTD_CCtx_setCParams(c, cp); } else r = ZSTD_CCtx_setParametersUsingCCtxParams(c, pp);
                if (!ZSTD_isError(r)) { if (!stream) r = ZSTD_compress2(c, comp, ZSTD_compressBound(size), src, size);
                    else { ZSTD_inBuffer in; ZSTD_outBuffer ob; int guard = 0; in.src = src; in.size = 0; in.pos = 0; ob.dst = comp; ob.size = ZSTD_compressBound(size) + 4096; ob.pos = 0;
                        do { in.size = in.size + 30000 > (size_t)size ? (size_t)size : in.size + 30000;
                             do { r = ZSTD_compressStream2(c, &ob, &in, in.size == (size_t)size ? ZSTD_e_end : ZSTD_e_continue); } while (!ZSTD_isError(r) && (in.pos < in.size || (in.size == (size_t)size && r != 0)) && ++guard < 1000000);
                        } while (!ZSTD_isError(r) && in.size < (size_t)size);
                        if (!ZSTD_isError(r)) r = ob.pos; } }
                if (ZSTD_isError(r)) { ok = 0; err = ZSTD_getErrorName(r); } }
            { char* nl = strchr(line, '\n'); if (nl) *nl = 0; }
            fprintf(T, "{\"e\":\"staticParams\",\"mode\":\"%s\",\"stream\":%d,\"estimateOK\":true,\"estimate\":%zu,\"init\":%s,\"ok\":%s,\"roundtrip\":%s,\"guardOK\":%s,\"err\":\"%s\",\"line\":\"%s\"}\n",
                    mode, stream, est, c ? "true" : "false", (c && ok) ? "true" : "false", (c && ok && rt(r, size)) ? "true" : "false", gz_ok(g) ? "true" : "false", err, line);
            free(g.base); ZSTD_freeCCtxParams(pp);
        } else if (!strcmp(cmd, "SD") || !strcmp(cmd, "HD")) { long W; int wlog, fcs, useDict = 0; long ochunk = 4096; size_t cs, est, r = 0, total = 0; ZSTD_CCtx* c = ZSTD_createCCtx(); int ok = 1; const char* err = ""; int isStatic = !strcmp(cmd, "SD");
            if (isStatic) { if (sscanf(line, "%*s %ld %d %ld %u %d %ld", &W, &wlog, &size, &seed, &fcs, &ochunk) < 6) continue; }
            else { if (sscanf(line, "%*s %ld %d %ld %u %d", &W, &wlog, &size, &seed, &useDict) < 5) continue; fcs = 0; }
            vgen("text", size, seed, src);
            ZSTD_CCtx_setParameter(c, ZSTD_c_windowLog, wlog); ZSTD_CCtx_setParameter(c, ZSTD_c_contentSizeFlag, fcs); ZSTD_CCtx_setParameter(c, ZSTD_c_compressionLevel, 1);
            /* a frame that really declares a 2^wlog window: stream it so that it is not single-segment */
            { ZSTD_inBuffer in; ZSTD_outBuffer ob; in.src = src; in.size = size; in.pos = 0; ob.dst = comp; ob.size = ZSTD_compressBound(size) + 4096; ob.pos = 0;
              if (fcs) ZSTD_CCtx_setPledgedSrcSize(c, size);
              ZSTD_compressStream2(c, &ob, &in, ZSTD_e_flush); while (ZSTD_compressStream2(c, &ob, &in, ZSTD_e_end) != 0) {} cs = ob.pos; }
            ZSTD_freeCCtx(c);
            { ZSTD_frameHeader fh; ZSTD_getFrameHeader(&fh, comp, cs);
              if (isStatic) { gz_t g; ZSTD_DStream* d; ZSTD_inBuffer in; int guard = 0; est = ZSTD_estimateDStreamSize((size_t)W); g = gz_make(est); d = ZSTD_initStaticDStream(g.blk, est);
                  in.src = comp; in.size = cs; in.pos = 0;
                  while (d && in.pos < cs && ++guard < 10000000) { ZSTD_outBuffer ob; ob.dst = out + total; ob.size = (size_t)ochunk; ob.pos = 0; { size_t save = in.size; in.size = in.pos + 3000 > cs ? cs : in.pos + 3000; r = ZSTD_decompressStream(d, &ob, &in); in.size = save; } if (ZSTD_isError(r)) { ok = 0; err = ZSTD_getErrorName(r); break; } total += ob.pos; if (r == 0) break; }
                  fprintf(T, "{\"e\":\"staticDStream\",\"W\":%ld,\"window\":%llu,\"size\":%ld,\"estimate\":%zu,\"mayShortcut\":%s,\"init\":%s,\"ok\":%s,\"match\":%s,\"guardOK\":%s,\"err\":\"%s\"}\n", W, (unsigned long long)fh.windowSize, size, est,
                          /* whole frame in the first call, content size known, output room for all of it: decoded in one pass, no internal buffers needed */ (fcs && cs <= 3000 && (size_t)ochunk >= (size_t)size) ? "true" : "false", d ? "true" : "false",
                          (d && ok) ? "true" : "false", (d && ok && total == (size_t)size && !memcmp(out, src, size)) ? "true" : "false", gz_ok(g) ? "true" : "false", err);
                  free(g.base);
              } else { ZSTD_DCtx* d; ZSTD_inBuffer in; int guard = 0; size_t limit = (size_t)1 << W; size_t bound; liveBytes = peakBytes = nAllocs = 0; d = ZSTD_createDCtx_advanced(CM);
                  ZSTD_DCtx_setParameter(d, ZSTD_d_windowLogMax, (int)W); in.src = comp; in.size = cs; in.pos = 0;
                  while (in.pos < cs && ++guard < 10000000) { ZSTD_outBuffer ob; ob.dst = out + total; ob.size = 5000; ob.pos = 0; { size_t save = in.size; in.size = in.pos + 3000 > cs ? cs : in.pos + 3000; r = ZSTD_decompressStream(d, &ob, &in); in.size = save; } if (ZSTD_isError(r)) { ok = 0; err = ZSTD_getErrorName(r); break; } total += ob.pos; if (r == 0) break; }
                  bound = ZSTD_estimateDStreamSize(fh.windowSize < limit ? (size_t)fh.windowSize : limit);
                  fprintf(T, "{\"e\":\"heapDStream\",\"wlogMax\":%ld,\"limit\":%zu,\"window\":%llu,\"size\":%ld,\"ok\":%s,\"match\":%s,\"peak\":%zu,\"bound\":%zu,\"sizeofDCtx\":%zu,\"live\":%zu,\"err\":\"%s\"}\n", W, limit, (unsigned long long)fh.windowSize, size,
                          ok ? "true" : "false", (ok && total == (size_t)size && !memcmp(out, src, size)) ? "true" : "false", peakBytes, bound, ZSTD_sizeof_DCtx(d), liveBytes, err);
                  ZSTD_freeDCtx(d); } }
        } else if (!strcmp(cmd, "DD")) { int level; long ds; size_t ec, ed; gz_t gc, gd; const ZSTD_CDict* cd; const ZSTD_DDict* dd; static unsigned char dict[1 << 20]; size_t r = 0, r2 = 0; ZSTD_CCtx* c = ZSTD_createCCtx(); ZSTD_DCtx* d = ZSTD_createDCtx();
            if (sscanf(line, "%*s %d %ld", &level, &ds) < 2) continue; if (ds > (1 << 20)) ds = 1 << 20;
            vgen("text", ds, 3, dict); vgen("text", 50000, 4, src);
            /* explicit cParams are given to initStaticCDict below: the matching estimate is the _advanced form with the same cParams */
            ec = ZSTD_estimateCDictSize_advanced(ds, ZSTD_getCParams(level, 0, ds), ZSTD_dlm_byCopy); ed = ZSTD_estimateDDictSize(ds, ZSTD_dlm_byCopy); gc = gz_make(ec); gd = gz_make(ed);
            cd = ZSTD_initStaticCDict(gc.blk, ec, dict, ds, ZSTD_dlm_byCopy, ZSTD_dct_auto, ZSTD_getCParams(level, 0, ds));
            dd = ZSTD_initStaticDDict(gd.blk, ed, dict, ds, ZSTD_dlm_byCopy, ZSTD_dct_auto);
            if (cd) r = ZSTD_compress_usingCDict(c, comp, ZSTD_compressBound(50000), src, 50000, cd);
            if (cd && dd && !ZSTD_isError(r)) r2 = ZSTD_decompress_usingDDict(d, out, 50064, comp, r, dd);
            fprintf(T, "{\"e\":\"staticDict\",\"level\":%d,\"dictSize\":%ld,\"estC\":%zu,\"estD\":%zu,\"initC\":%s,\"initD\":%s,\"ok\":%s,\"guardOK\":%s}\n", level, ds, ec, ed, cd ? "true" : "false", dd ? "true" : "false",
                    (cd && dd && !ZSTD_isError(r) && !ZSTD_isError(r2) && r2 == 50000 && !memcmp(out, src, 50000)) ? "true" : "false", (gz_ok(gc) && gz_ok(gd)) ? "true" : "false");
            free(gc.base); free(gd.base); ZSTD_freeCCtx(c); ZSTD_freeDCtx(d);
        } else if (!strcmp(cmd, "SZ")) { int level, nw; ZSTD_CCtx* c; size_t r, sz, live1; 
            if (sscanf(line, "%*s %d %ld %d", &level, &size, &nw) < 3) continue;
            vgen("text", size, 9, src); liveBytes = peakBytes = nAllocs = 0; c = ZSTD_createCCtx_advanced(CM);
            ZSTD_CCtx_setParameter(c, ZSTD_c_compressionLevel, level); ZSTD_CCtx_setParameter(c, ZSTD_c_nbWorkers, nw);
            r = ZSTD_compress2(c, comp, ZSTD_compressBound(size), src, size); sz = ZSTD_sizeof_CCtx(c); live1 = liveBytes;
            fprintf(T, "{\"e\":\"sizeof\",\"what\":\"CCtx\",\"level\":%d,\"nbWorkers\":%d,\"ok\":%s,\"sizeof\":%zu,\"live\":%zu}\n", level, nw, ZSTD_isError(r) ? "false" : "true", sz, live1);
            ZSTD_freeCCtx(c);
            { static unsigned char dict[100000]; ZSTD_CDict* cd; ZSTD_DDict* dd; vgen("text", sizeof(dict), 5, dict); liveBytes = 0; cd = ZSTD_createCDict_advanced(dict, sizeof(dict), ZSTD_dlm_byCopy, ZSTD_dct_auto, ZSTD_getCParams(level, 0, sizeof(dict)), CM);
              fprintf(T, "{\"e\":\"sizeof\",\"what\":\"CDict\",\"level\":%d,\"nbWorkers\":0,\"ok\":%s,\"sizeof\":%zu,\"live\":%zu}\n", level, cd ? "true" : "false", ZSTD_sizeof_CDict(cd), liveBytes); ZSTD_freeCDict(cd);
              liveBytes = 0; dd = ZSTD_createDDict_advanced(dict, sizeof(dict), ZSTD_dlm_byCopy, ZSTD_dct_auto, CM);
              fprintf(T, "{\"e\":\"sizeof\",\"what\":\"DDict\",\"level\":%d,\"nbWorkers\":0,\"ok\":%s,\"sizeof\":%zu,\"live\":%zu}\n", level, dd ? "true" : "false", ZSTD_sizeof_DDict(dd), liveBytes); ZSTD_freeDDict(dd); }
        }
    }
    fprintf(T, "{\"e\":\"end\"}\n"); fclose(T);
    return 0;
}
