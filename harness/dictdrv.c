/* dictdrv.c — dictionary compression (property C08).
 * Dictionaries: golden file, raw content of any length, arbitrary bytes, and structurally valid dictionaries GENERATED from an
 * abstract descriptor (DictFormat): Huffman table with/without zero weights and depth 11, offset/match-length/literal-length
 * tables with chosen maximum symbol, zero-probability symbols and table logs, repeat offsets, content size.  The entropy
 * sections are serialised with the library's table WRITERS (FSE_writeNCount / HUF_writeCTable); the code under test is the two
 * LOADERS and everything that uses the loaded tables.
 * usage: dictdrv <script> <trace.ndjson>
 *   DICT <slot> file <path> | raw <size> <seed> | bytes <size> <seed> <magic:0/1> | gen <id> <contentSize> <seed> hufMode ofZero ofMax mlMax llMax ofLog mlLog llLog rep0 rep1 rep2
 *   LOADERS <slot>                         accept verdicts of both loaders + ID queries
 *   RT <slot> <mc> <attach> <md> <level> <kind> <size> <seed> <dictIDFlag>     one round trip
 *        mc: usingDict cdictCopy cdictRef load loadRef refCDict refPrefix dds cdictRaw cdictFull loadRaw loadFull      md: usingDict ddict load refDDict refPrefix multi rawDDict loadRaw
 *   WRONG <slotC> <slotD> <level>          compress with dictionary C, decode with dictionary D
 *   HIST <ops...>                          a DictLife history: cload:s cref:s cprefix:s creset comp:0/1 dload:s dref:s dprefix:s dmulti dreset dec */
#define ZSTD_STATIC_LINKING_ONLY
#define FSE_STATIC_LINKING_ONLY
#define HUF_STATIC_LINKING_ONLY
#include "zstd.h"
#include "zstd_errors.h"
#include "../lib/common/fse.h"
#include "../lib/common/huf.h"
#define XXH_NAMESPACE ZSTD_
#include "../lib/common/xxhash.h"
#include "vgen.h"
#include <stdio.h>
#include <stdint.h>

#define NSLOT 8
#define MAXD (1u << 21)
static unsigned char* dict[NSLOT]; static size_t dictSize[NSLOT]; static char dictKind[NSLOT][16];
static unsigned char *src, *comp, *out; static FILE* T;
static unsigned gx; static unsigned grnd(void) { gx = gx * 1103515245u + 12345u; return (gx >> 16) & 0x7fff; }

static size_t write_ncount(unsigned char* dst, size_t cap, unsigned maxSym, int zeroAt, unsigned tableLog, unsigned total) {
    unsigned count[64]; short norm[64]; unsigned s; size_t r; unsigned sum = 0;
    for (s = 0; s <= maxSym; s++) { count[s] = 1 + grnd() % 50; if ((int)s == zeroAt) count[s] = 0; sum += count[s]; }
    (void)total;
    r = FSE_normalizeCount(norm, tableLog, count, sum, maxSym, 1);
    if (FSE_isError(r)) return r;
    return FSE_writeNCount(dst, cap, norm, maxSym, (unsigned)r);
}

/* returns dictionary size or 0 */
static size_t gen_dict(unsigned char* d, unsigned id, size_t contentSize, unsigned seed, int hufMode, int ofZero, unsigned ofMax, unsigned mlMax, unsigned llMax,
                       unsigned ofLog, unsigned mlLog, unsigned llLog, unsigned rep0, unsigned rep1, unsigned rep2) {
    size_t p = 0, r; gx = seed * 2654435761u + 7;
    d[0] = 0x37; d[1] = 0xA4; d[2] = 0x30; d[3] = 0xEC; d[4] = id & 255; d[5] = (id >> 8) & 255; d[6] = (id >> 16) & 255; d[7] = (id >> 24) & 255; p = 8;
    {   unsigned count[256]; unsigned s; HUF_CElt ct[HUF_CTABLE_SIZE_ST(255)]; static unsigned wksp[HUF_CTABLE_WORKSPACE_SIZE_U32 + 1024]; unsigned maxSym = 255; size_t maxBits;
        /* hufMode 0: all 256 symbols present; 1: some symbols absent (zero weights); 2: only symbols < 128 (maxSymbol < 255); 3: steep distribution, depth 11 */
        for (s = 0; s < 256; s++) { count[s] = 1 + grnd() % 200; if (hufMode == 1 && s % 7 == 3) count[s] = 0; if (hufMode == 2 && s >= 128) count[s] = 0; if (hufMode == 3) count[s] = 1u << (s % 16); }
        if (hufMode == 2) maxSym = 127;
        maxBits = HUF_buildCTable_wksp(ct, count, maxSym, 11, wksp, sizeof(wksp)); if (HUF_isError(maxBits)) return 0;
        r = HUF_writeCTable_wksp(d + p, 1024, ct, maxSym, (unsigned)maxBits, wksp, sizeof(wksp)); if (HUF_isError(r)) return 0; p += r; }
    r = write_ncount(d + p, 512, ofMax, ofZero, ofLog, 0); if (FSE_isError(r)) return 0; p += r;
    r = write_ncount(d + p, 512, mlMax, -1, mlLog, 0); if (FSE_isError(r)) return 0; p += r;
    r = write_ncount(d + p, 512, llMax, -1, llLog, 0); if (FSE_isError(r)) return 0; p += r;
    { unsigned reps[3]; int i; reps[0] = rep0; reps[1] = rep1; reps[2] = rep2; for (i = 0; i < 3; i++) { d[p++] = reps[i] & 255; d[p++] = (reps[i] >> 8) & 255; d[p++] = (reps[i] >> 16) & 255; d[p++] = (reps[i] >> 24) & 255; } }
    if (p + contentSize > MAXD) contentSize = MAXD - p;
    vgen("text", contentSize, seed + 3, d + p); p += contentSize;
    return p;
}

static int loadersC(int s, int level) { ZSTD_CDict* cd = ZSTD_createCDict(dict[s], dictSize[s], level); int ok = cd != NULL; ZSTD_freeCDict(cd); return ok; }
static int loadersD(int s) { ZSTD_DDict* dd = ZSTD_createDDict(dict[s], dictSize[s]); int ok = dd != NULL; ZSTD_freeDDict(dd); return ok; }

static size_t do_compress(const char* mc, int attach, int level, int s, size_t n, int idFlag, const char** err) {
    ZSTD_CCtx* c = ZSTD_createCCtx(); size_t r = 0; ZSTD_CDict* cd = NULL; size_t cap = ZSTD_compressBound(n) + 512;
    *err = "";
    if (!strcmp(mc, "usingDict")) r = ZSTD_compress_usingDict(c, comp, cap, src, n, dict[s], dictSize[s], level);
    else {
        ZSTD_CCtx_setParameter(c, ZSTD_c_compressionLevel, level); ZSTD_CCtx_setParameter(c, ZSTD_c_forceAttachDict, attach); ZSTD_CCtx_setParameter(c, ZSTD_c_dictIDFlag, idFlag); ZSTD_CCtx_setParameter(c, ZSTD_c_checksumFlag, 1);
        if (!strcmp(mc, "dds")) ZSTD_CCtx_setParameter(c, ZSTD_c_enableDedicatedDictSearch, 1);
        if (!strcmp(mc, "load") || !strcmp(mc, "dds")) r = ZSTD_CCtx_loadDictionary(c, dict[s], dictSize[s]);
        else if (!strcmp(mc, "loadRef")) r = ZSTD_CCtx_loadDictionary_byReference(c, dict[s], dictSize[s]);
        else if (!strcmp(mc, "refPrefix")) r = ZSTD_CCtx_refPrefix(c, dict[s], dictSize[s]);
        else if (!strcmp(mc, "loadRaw") || !strcmp(mc, "loadFull")) r = ZSTD_CCtx_loadDictionary_advanced(c, dict[s], dictSize[s], ZSTD_dlm_byCopy, !strcmp(mc, "loadRaw") ? ZSTD_dct_rawContent : ZSTD_dct_fullDict);
        else { if (!strcmp(mc, "cdictRaw") || !strcmp(mc, "cdictFull")) { ZSTD_customMem cm = { NULL, NULL, NULL };
                 cd = ZSTD_createCDict_advanced(dict[s], dictSize[s], (n & 1) ? ZSTD_dlm_byRef : ZSTD_dlm_byCopy, !strcmp(mc, "cdictRaw") ? ZSTD_dct_rawContent : ZSTD_dct_fullDict, ZSTD_getCParams(level, n, dictSize[s]), cm); }
            else cd = !strcmp(mc, "cdictRef") ? ZSTD_createCDict_byReference(dict[s], dictSize[s], level) : ZSTD_createCDict(dict[s], dictSize[s], level);
            if (!cd) { *err = "createCDict"; ZSTD_freeCCtx(c); return (size_t)-ZSTD_error_dictionary_corrupted; }
            if (!strcmp(mc, "refCDict") || !strcmp(mc, "cdictRaw") || !strcmp(mc, "cdictFull")) r = ZSTD_CCtx_refCDict(c, cd);
            else { r = ZSTD_compress_usingCDict(c, comp, cap, src, n, cd); goto done; } }
        if (!ZSTD_isError(r)) r = ZSTD_compress2(c, comp, cap, src, n);
    }
done:
    if (ZSTD_isError(r)) *err = ZSTD_getErrorName(r);
    ZSTD_freeCDict(cd); ZSTD_freeCCtx(c); return r;
}
static size_t do_decompress(const char* md, int s, size_t cs, size_t n, const char** err) {
    ZSTD_DCtx* d = ZSTD_createDCtx(); size_t r = 0; ZSTD_DDict* dd = NULL; ZSTD_DDict* other = NULL; *err = "";
    if (!strcmp(md, "usingDict")) r = ZSTD_decompress_usingDict(d, out, n + 64, comp, cs, dict[s], dictSize[s]);
    else { if (!strcmp(md, "load")) r = ZSTD_DCtx_loadDictionary(d, dict[s], dictSize[s]);
        else if (!strcmp(md, "refPrefix")) r = ZSTD_DCtx_refPrefix(d, dict[s], dictSize[s]);
        else if (!strcmp(md, "loadRaw")) r = ZSTD_DCtx_loadDictionary_advanced(d, dict[s], dictSize[s], ZSTD_dlm_byCopy, ZSTD_dct_rawContent);
        else { if (!strcmp(md, "rawDDict")) { ZSTD_customMem cm = { NULL, NULL, NULL }; dd = ZSTD_createDDict_advanced(dict[s], dictSize[s], ZSTD_dlm_byRef, ZSTD_dct_rawContent, cm); }
            else dd = ZSTD_createDDict(dict[s], dictSize[s]);
            if (!dd) { *err = "createDDict"; ZSTD_freeDCtx(d); return (size_t)-ZSTD_error_dictionary_corrupted; }
            if (!strcmp(md, "ddict")) { r = ZSTD_decompress_usingDDict(d, out, n + 64, comp, cs, dd); goto done; }
            if (!strcmp(md, "multi")) { int o = (s + 1) % 6; ZSTD_DCtx_setParameter(d, ZSTD_d_refMultipleDDicts, 1); if (dictSize[o] >= 8) { other = ZSTD_createDDict(dict[o], dictSize[o]); if (other) ZSTD_DCtx_refDDict(d, other); } }
            r = ZSTD_DCtx_refDDict(d, dd); }
        if (!ZSTD_isError(r)) { /* streaming decode in small pieces */ ZSTD_inBuffer in; size_t total = 0; int guard = 0; in.src = comp; in.size = cs; in.pos = 0; r = 1;
            while (in.pos < cs && ++guard < 1000000) { ZSTD_outBuffer ob; ob.dst = out + total; ob.size = 3000; ob.pos = 0; r = ZSTD_decompressStream(d, &ob, &in); if (ZSTD_isError(r)) break; total += ob.pos; if (r == 0) break; }
            if (!ZSTD_isError(r)) r = (r == 0) ? total : (size_t)-ZSTD_error_srcSize_wrong; } }
done:
    if (ZSTD_isError(r)) *err = ZSTD_getErrorName(r);
    ZSTD_freeDDict(dd); ZSTD_freeDDict(other); ZSTD_freeDCtx(d); return r;
}

int main(int argc, char** argv) {
    FILE* S; static char line[4096]; int i;
    if (argc < 3) return 2;
    S = fopen(argv[1], "r"); T = fopen(argv[2], "w"); if (!S || !T) return 2;
    if (getenv("STREAMDRV_LB")) setvbuf(T, NULL, _IOLBF, 0);
    for (i = 0; i < NSLOT; i++) { dict[i] = malloc(MAXD); dictSize[i] = 0; strcpy(dictKind[i], "none"); }
    src = malloc(1 << 22); comp = malloc(ZSTD_compressBound(1 << 22) + 1024); out = malloc((1 << 22) + 64);
    while (fgets(line, sizeof(line), S)) {
        char cmd[16]; int off = 0;
        if (sscanf(line, "%15s%n", cmd, &off) != 1) continue;
        if (!strcmp(cmd, "DICT")) { int s; char kind[16]; int k; const char* p;
            if (sscanf(line + off, "%d %15s%n", &s, kind, &k) < 2 || s < 0 || s >= NSLOT) continue; p = line + off + k; strcpy(dictKind[s], kind);
            if (!strcmp(kind, "file")) { char path[400]; FILE* D; sscanf(p, "%399s", path); D = fopen(path, "rb"); dictSize[s] = D ? fread(dict[s], 1, MAXD, D) : 0; if (D) fclose(D); }
            else if (!strcmp(kind, "raw")) { long n; unsigned seed; sscanf(p, "%ld %u", &n, &seed); if ((size_t)n > MAXD) n = MAXD; vgen("text", n, seed, dict[s]); if (n >= 4 && dict[s][0] == 0x37) dict[s][0] = 'x'; dictSize[s] = (size_t)n; }
            else if (!strcmp(kind, "bytes")) { long n; unsigned seed; int magic; sscanf(p, "%ld %u %d", &n, &seed, &magic); if ((size_t)n > MAXD) n = MAXD; vgen("rand", n, seed, dict[s]); if (magic && n >= 4) { dict[s][0] = 0x37; dict[s][1] = 0xA4; dict[s][2] = 0x30; dict[s][3] = 0xEC; } dictSize[s] = (size_t)n; }
            else if (!strcmp(kind, "copy")) { int from; unsigned id; sscanf(p, "%d %u", &from, &id); dictSize[s] = 0; if (from >= 0 && from < NSLOT && dictSize[from] >= 8) { memcpy(dict[s], dict[from], dictSize[from]); dictSize[s] = dictSize[from];
                    dict[s][4] = id & 255; dict[s][5] = (id >> 8) & 255; dict[s][6] = (id >> 16) & 255; dict[s][7] = (id >> 24) & 255; } }
            else if (!strcmp(kind, "gen")) { unsigned id, seed, ofMax, mlMax, llMax, ofLog, mlLog, llLog, r0, r1, r2; long cs; int hufMode, ofZero;
                if (sscanf(p, "%u %ld %u %d %d %u %u %u %u %u %u %u %u %u", &id, &cs, &seed, &hufMode, &ofZero, &ofMax, &mlMax, &llMax, &ofLog, &mlLog, &llLog, &r0, &r1, &r2) == 14)
                    dictSize[s] = gen_dict(dict[s], id, (size_t)cs, seed, hufMode, ofZero, ofMax, mlMax, llMax, ofLog, mlLog, llLog, r0, r1, r2); else dictSize[s] = 0; }
            fprintf(T, "{\"e\":\"dict\",\"slot\":%d,\"kind\":\"%s\",\"size\":%zu,\"id\":%u}\n", s, kind, dictSize[s], dictSize[s] >= 8 ? ZSTD_getDictID_fromDict(dict[s], dictSize[s]) : 0);
        } else if (!strcmp(cmd, "LOADERS")) { int s; ZSTD_CDict* cd; ZSTD_DDict* dd; unsigned idDict, idC = 0, idD = 0; int okc1, okc19;
            if (sscanf(line + off, "%d", &s) < 1) continue;
            cd = ZSTD_createCDict(dict[s], dictSize[s], 3); dd = ZSTD_createDDict(dict[s], dictSize[s]);
            idDict = ZSTD_getDictID_fromDict(dict[s], dictSize[s]); if (cd) idC = ZSTD_getDictID_fromCDict(cd); if (dd) idD = ZSTD_getDictID_fromDDict(dd);
            okc1 = loadersC(s, 1); okc19 = loadersC(s, 19);
            fprintf(T, "{\"e\":\"loaders\",\"slot\":%d,\"kind\":\"%s\",\"size\":%zu,\"cdict\":%s,\"ddict\":%s,\"cdictL1\":%s,\"cdictL19\":%s,\"idDict\":%u,\"idC\":%u,\"idD\":%u,\"formatted\":%s}\n", s, dictKind[s], dictSize[s],
                    cd ? "true" : "false", dd ? "true" : "false", okc1 ? "true" : "false", okc19 ? "true" : "false", idDict, idC, idD,
                    (dictSize[s] >= 8 && dict[s][0] == 0x37 && dict[s][1] == 0xA4 && dict[s][2] == 0x30 && dict[s][3] == 0xEC) ? "true" : "false");
            ZSTD_freeCDict(cd); ZSTD_freeDDict(dd);
        } else if (!strcmp(cmd, "RT")) { int s, attach, level, idFlag; char mc[16], md[16], kind[32]; long n; unsigned seed; size_t cs, ds; const char *e1, *e2; unsigned fid = 0;
            if (sscanf(line + off, "%d %15s %d %15s %d %31s %ld %u %d", &s, mc, &attach, md, &level, kind, &n, &seed, &idFlag) < 9) continue;
            vgen(kind, (size_t)n, seed, src);
            /* make the dictionary matter: the source starts with a piece of the dictionary content's tail and reuses pieces of it */
            /* ... and, deep into the first block, a piece of the START of the dictionary content: the longest offsets the format allows */
            if (dictSize[s] > 2000 && n > 125000) { memcpy(src + 118000, dict[s] + 600, 400); memcpy(src + 130000 < src + n - 500 ? src + 130000 : src + 119000, dict[s] + 1100, 300); }
            if (dictSize[s] > 300 && n > 600) { memcpy(src, dict[s] + dictSize[s] - 200, 200); memcpy(src + 300, dict[s] + dictSize[s] / 2, dictSize[s] / 2 > 250 ? 250 : dictSize[s] / 2); }
            cs = do_compress(mc, attach, level, s, (size_t)n, idFlag, &e1);
            if (!ZSTD_isError(cs)) fid = ZSTD_getDictID_fromFrame(comp, cs);
            ds = ZSTD_isError(cs) ? cs : do_decompress(md, s, cs, (size_t)n, &e2);
            /* a successful decode with wrong bytes: which side is at fault?  decode the same frame once more, single call with the raw dictionary bytes */
            if (!ZSTD_isError(cs) && !ZSTD_isError(ds) && !(ds == (size_t)n && !memcmp(out, src, n))) { ZSTD_DCtx* d2 = ZSTD_createDCtx(); static unsigned char* out2 = NULL; size_t r2; if (!out2) out2 = malloc((1 << 22) + 64);
                r2 = !strcmp(mc, "refPrefix") ? 0 : ZSTD_decompress_usingDict(d2, out2, (size_t)n + 64, comp, cs, dict[s], dictSize[s]); ZSTD_freeDCtx(d2);
                fprintf(T, "{\"e\":\"rtdiag\",\"altOk\":%s,\"altSize\":%zu,\"firstDiff\":%ld,\"got\":%zu}\n", (!ZSTD_isError(r2) && r2 == (size_t)n && !memcmp(out2, src, n)) ? "true" : "false", ZSTD_isError(r2) ? 0 : r2,
                        (long)({ long k = 0; while (k < n && k < (long)ds && out[k] == src[k]) k++; k; }), ds);
                if (getenv("DICTDRV_DUMP")) { int k; for (k = 0; k < NSLOT; k++) if (dictSize[k] > 300) { size_t j, eq = 0; for (j = 0; j < 200; j++) eq += out[j] == dict[k][dictSize[k] - 200 + j]; fprintf(T, "{\"e\":\"rtdiag\",\"altOk\":true,\"altSize\":%d,\"firstDiff\":%zu,\"got\":0}\n", k, eq); } }
                if (getenv("DICTDRV_DUMP")) { char nm[300]; FILE* D; snprintf(nm, sizeof(nm), "%s.frame.zst", getenv("DICTDRV_DUMP")); D = fopen(nm, "wb"); if (D) { fwrite(comp, 1, cs, D); fclose(D); } } }
            fprintf(T, "{\"e\":\"rt\",\"slot\":%d,\"dkind\":\"%s\",\"dsize\":%zu,\"mc\":\"%s\",\"attach\":%d,\"md\":\"%s\",\"level\":%d,\"n\":%ld,\"idFlag\":%d,\"cok\":%s,\"cerr\":\"%s\",\"frameID\":%u,\"dictID\":%u,\"dok\":%s,\"derr\":\"%s\",\"match\":%s}\n",
                    s, dictKind[s], dictSize[s], mc, attach, md, level, n, (!strcmp(mc, "usingDict") || !strcmp(mc, "cdictCopy") || !strcmp(mc, "cdictRef")) ? 1 : idFlag, ZSTD_isError(cs) ? "false" : "true", e1, fid,
                    dictSize[s] >= 8 ? ZSTD_getDictID_fromDict(dict[s], dictSize[s]) : 0, (!ZSTD_isError(cs) && !ZSTD_isError(ds)) ? "true" : "false", ZSTD_isError(cs) ? "" : e2,
                    (!ZSTD_isError(cs) && !ZSTD_isError(ds) && ds == (size_t)n && !memcmp(out, src, n)) ? "true" : "false");
        } else if (!strcmp(cmd, "WRONG")) { int sc, sd, level; size_t cs, ds; const char *e1, *e2;
            if (sscanf(line + off, "%d %d %d", &sc, &sd, &level) < 3) continue;
            vgen("text", 30000, 5, src); if (dictSize[sc] > 300) memcpy(src, dict[sc] + dictSize[sc] - 200, 200);
            cs = do_compress("load", 0, level, sc, 30000, 1, &e1); ds = ZSTD_isError(cs) ? cs : do_decompress("load", sd, cs, 30000, &e2);
            fprintf(T, "{\"e\":\"wrong\",\"idC\":%u,\"idD\":%u,\"cok\":%s,\"frameID\":%u,\"dok\":%s,\"match\":%s}\n", ZSTD_getDictID_fromDict(dict[sc], dictSize[sc]), ZSTD_getDictID_fromDict(dict[sd], dictSize[sd]),
                    ZSTD_isError(cs) ? "false" : "true", ZSTD_isError(cs) ? 0 : ZSTD_getDictID_fromFrame(comp, cs), (!ZSTD_isError(cs) && !ZSTD_isError(ds)) ? "true" : "false",
                    (!ZSTD_isError(cs) && !ZSTD_isError(ds) && ds == 30000 && !memcmp(out, src, 30000)) ? "true" : "false");
        } else if (!strcmp(cmd, "MULTI")) {     /* MULTI <base slot> <n> <collide> : a multi-DDict set of n dictionaries (copies of a formatted one with other IDs) */
            int bs, n, collide, k, okAll = 1, refusedUnknown = 1, made = 0; unsigned ids[260]; ZSTD_DDict* dds[260]; unsigned cand = 1000; ZSTD_DCtx* d; unsigned char* dcopy; unsigned unknown = 0;
            if (sscanf(line + off, "%d %d %d", &bs, &n, &collide) < 3 || n > 256 || dictSize[bs] < 8) continue;
            dcopy = malloc(dictSize[bs]); memcpy(dcopy, dict[bs], dictSize[bs]);
            /* collide: every ID hashes to the last slot of the initial 64-entry table (the set hashes XXH64 of the 4 ID bytes) */
            for (k = 0; k < n + 1; k++) { for (;;) { cand++; if (!collide || (ZSTD_XXH64(&cand, 4, 0) & 63) == 63) break; } if (k < n) ids[k] = cand; else unknown = cand; }
            d = ZSTD_createDCtx(); ZSTD_DCtx_setParameter(d, ZSTD_d_refMultipleDDicts, 1);
            for (k = 0; k < n; k++) { dcopy[4] = ids[k] & 255; dcopy[5] = (ids[k] >> 8) & 255; dcopy[6] = (ids[k] >> 16) & 255; dcopy[7] = (ids[k] >> 24) & 255;
                dds[k] = ZSTD_createDDict(dcopy, dictSize[bs]); if (dds[k]) { made++; if (ZSTD_isError(ZSTD_DCtx_refDDict(d, dds[k]))) okAll = 0; } }
            vgen("text", 5000, 11, src); if (dictSize[bs] > 300) memcpy(src, dict[bs] + dictSize[bs] - 200, 200);
            for (k = 0; k <= n && made == n; k++) { unsigned id = k < n ? ids[k] : unknown; ZSTD_CCtx* c = ZSTD_createCCtx(); size_t cs, dr; ZSTD_inBuffer in; ZSTD_outBuffer ob;
                dcopy[4] = id & 255; dcopy[5] = (id >> 8) & 255; dcopy[6] = (id >> 16) & 255; dcopy[7] = (id >> 24) & 255;
                cs = ZSTD_compress_usingDict(c, comp, ZSTD_compressBound(5000), src, 5000, dcopy, dictSize[bs], 3); ZSTD_freeCCtx(c);
                if (ZSTD_isError(cs)) { okAll = 0; continue; }
                in.src = comp; in.size = cs; in.pos = 0; ob.dst = out; ob.size = 5064; ob.pos = 0; ZSTD_DCtx_reset(d, ZSTD_reset_session_only); dr = ZSTD_decompressStream(d, &ob, &in);
                if (k < n) { if (dr != 0 || ob.pos != 5000 || memcmp(out, src, 5000)) okAll = 0; } else if (!ZSTD_isError(dr)) refusedUnknown = 0; }
            fprintf(T, "{\"e\":\"multiN\",\"n\":%d,\"collide\":%d,\"made\":%d,\"okAll\":%s,\"refusedUnknown\":%s}\n", n, collide, made, okAll ? "true" : "false", refusedUnknown ? "true" : "false");
            for (k = 0; k < n; k++) ZSTD_freeDDict(dds[k]); ZSTD_freeDCtx(d); free(dcopy);
        } else if (!strcmp(cmd, "HIST")) {      /* replay of a DictLife behaviour on one CCtx and one DCtx */
            ZSTD_CCtx* c = ZSTD_createCCtx(); ZSTD_DCtx* d = ZSTD_createDCtx(); ZSTD_CDict* cds[NSLOT] = {0}; ZSTD_DDict* dds[NSLOT] = {0}; const char* p = line + off; char op[32]; int k; size_t cs = 0; int haveFrame = 0; int step = 0;
            for (i = 0; i < NSLOT; i++) if (dictSize[i]) { cds[i] = ZSTD_createCDict(dict[i], dictSize[i], 3); dds[i] = ZSTD_createDDict(dict[i], dictSize[i]); }
            vgen("text", 20000, 9, src);
            fprintf(T, "{\"e\":\"histbegin\"}\n");
            while (sscanf(p, " %31s%n", op, &k) == 1) { int s = 0; size_t r = 0; char* colon = strchr(op, ':'); p += k; if (colon) { *colon = 0; s = atoi(colon + 1); }
                if (!strcmp(op, "cload")) r = ZSTD_CCtx_loadDictionary(c, dict[s], dictSize[s]);
                else if (!strcmp(op, "cref")) r = ZSTD_CCtx_refCDict(c, cds[s]);
                else if (!strcmp(op, "cprefix")) r = ZSTD_CCtx_refPrefix(c, dict[s], dictSize[s]);
                else if (!strcmp(op, "creset")) r = ZSTD_CCtx_reset(c, ZSTD_reset_parameters);
                else if (!strcmp(op, "comp")) { ZSTD_CCtx_setParameter(c, ZSTD_c_dictIDFlag, s); ZSTD_CCtx_setParameter(c, ZSTD_c_checksumFlag, 1); cs = ZSTD_compress2(c, comp, ZSTD_compressBound(20000), src, 20000); r = cs; haveFrame = !ZSTD_isError(cs);
                    fprintf(T, "{\"e\":\"hist\",\"step\":%d,\"op\":\"comp\",\"arg\":%d,\"ok\":%s,\"frameID\":%u}\n", step++, s, ZSTD_isError(r) ? "false" : "true", haveFrame ? ZSTD_getDictID_fromFrame(comp, cs) : 0); continue; }
                else if (!strcmp(op, "dload")) r = ZSTD_DCtx_loadDictionary(d, dict[s], dictSize[s]);
                else if (!strcmp(op, "dref")) r = ZSTD_DCtx_refDDict(d, dds[s]);
                else if (!strcmp(op, "dprefix")) r = ZSTD_DCtx_refPrefix(d, dict[s], dictSize[s]);
                else if (!strcmp(op, "dmulti")) r = ZSTD_DCtx_setParameter(d, ZSTD_d_refMultipleDDicts, 1);
                else if (!strcmp(op, "dreset")) r = ZSTD_DCtx_reset(d, ZSTD_reset_parameters);
                else if (!strcmp(op, "dec")) { size_t dr = haveFrame ? ZSTD_decompressDCtx(d, out, 20064, comp, cs) : 0;
                    fprintf(T, "{\"e\":\"hist\",\"step\":%d,\"op\":\"dec\",\"arg\":0,\"ok\":%s,\"frameID\":%u,\"match\":%s,\"have\":%d}\n", step++, ZSTD_isError(dr) ? "false" : "true", haveFrame ? ZSTD_getDictID_fromFrame(comp, cs) : 0,
                            (haveFrame && !ZSTD_isError(dr) && dr == 20000 && !memcmp(out, src, 20000)) ? "true" : "false", haveFrame); continue; }
                fprintf(T, "{\"e\":\"hist\",\"step\":%d,\"op\":\"%s\",\"arg\":%d,\"ok\":%s,\"frameID\":0}\n", step++, op, s, ZSTD_isError(r) ? "false" : "true"); }
            fprintf(T, "{\"e\":\"histend\"}\n");
            for (i = 0; i < NSLOT; i++) { ZSTD_freeCDict(cds[i]); ZSTD_freeDDict(dds[i]); } ZSTD_freeCCtx(c); ZSTD_freeDCtx(d);
        }
    }
    fprintf(T, "{\"e\":\"end\"}\n"); fclose(T);
    return 0;
}
