#ifndef VSCHED_H
#define VSCHED_H
/* see vsched.c */
void vsched_name(void* addr, int iscond, const char* name);
void vsched_event(const char* json_fields);
void vsched_flush(void);
int  vsched_report_live(void);
void vsched_yield(void);
int  vsched_self(void);
const char* vsched_objname(void* addr, int iscond);
int  vsched_active(void);
#define VSCHED_WRAP "-Wl,--wrap=pthread_create,--wrap=pthread_join,--wrap=pthread_mutex_lock,--wrap=pthread_mutex_unlock,--wrap=pthread_cond_wait,--wrap=pthread_cond_signal,--wrap=pthread_cond_broadcast,--wrap=pthread_mutex_destroy,--wrap=pthread_cond_destroy"
#endif
