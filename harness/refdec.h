#ifndef REFDEC_H
#define REFDEC_H
#include <stdio.h>
#include <stddef.h>
#include <stdint.h>
/* independent reference decoder (see refdec.c) */
size_t REF_decode_all(void* dst, size_t cap, const void* src, size_t n, const void* dict, size_t dictSize);   /* (size_t)-1 = rejected */
const char* REF_last_error(void);
void REF_set_trace(FILE* f, int log_sequences);
void REF_set_verify_checksum(int on);      /* off: a wrong stored checksum is not a reason to reject (used to compute the checksum of assembled frames) */
uint64_t REF_xxh64(const void* data, size_t len, uint64_t seed);
#endif
