/* refdec.c — the independent reference decoder R of the conformance harness.
 * It is doc/educational_decoder (vendored in refdec/, symbols renamed, exit() replaced by longjmp, stored checksum read)
 * plus: an independent XXH64, a multi-frame / skippable-frame loop, the window rule as the format document states it,
 * and one ndjson event per frame header, block, sequence and frame end for the TLA+ frame specification (FrameTrace.tla).
 * No code is shared with lib/. */
#include <stdio.h>
#include <stdlib.h>
#include <string.h>
#include <setjmp.h>
#include <stdint.h>
#include "refdec.h"

#define ZSTD_decompress REFI_decompress
#define ZSTD_decompress_with_dict REFI_decompress_with_dict
#define ZSTD_get_decompressed_size REFI_get_decompressed_size
#define create_dictionary REFI_create_dictionary
#define parse_dictionary REFI_parse_dictionary
#define free_dictionary REFI_free_dictionary
static jmp_buf ref_jmp; static const char* ref_why = ""; static int ref_active = 0;
static FILE* ref_T = NULL; static int ref_seqlog = 0; static size_t ref_frame_no = 0;
static size_t ref_nseq_block = 0, ref_blocks = 0;
#include "refdec/zstd_decompress.c"

static void REF_fail(const char* why) { ref_why = why; if (ref_active) longjmp(ref_jmp, 1); fprintf(stderr, "refdec: %s\n", why); abort(); }

/* ---- XXH64 (specification: xxhash.com / doc/zstd_compression_format.md "Content_Checksum") ---- */
#define P1 11400714785074694791ULL
#define P2 14029467366897019727ULL
#define P3 1609587929392839161ULL
#define P4 9650029242287828579ULL
#define P5 2870177450012600261ULL
static uint64_t rotl(uint64_t x, int r) { return (x << r) | (x >> (64 - r)); }
static uint64_t rd64(const unsigned char* p) { uint64_t v = 0; int i; for (i = 0; i < 8; i++) v |= (uint64_t)p[i] << (8 * i); return v; }
static uint32_t rd32(const unsigned char* p) { return (uint32_t)p[0] | ((uint32_t)p[1] << 8) | ((uint32_t)p[2] << 16) | ((uint32_t)p[3] << 24); }
static uint64_t rnd64(uint64_t acc, uint64_t in) { acc += in * P2; acc = rotl(acc, 31); return acc * P1; }
static uint64_t mrg(uint64_t acc, uint64_t v) { v = rnd64(0, v); acc ^= v; return acc * P1 + P4; }
uint64_t REF_xxh64(const void* data, size_t len, uint64_t seed) {
    const unsigned char* p = (const unsigned char*)data; const unsigned char* end = p + len; uint64_t h;
    if (len >= 32) { uint64_t v1 = seed + P1 + P2, v2 = seed + P2, v3 = seed, v4 = seed - P1;
        do { v1 = rnd64(v1, rd64(p)); v2 = rnd64(v2, rd64(p + 8)); v3 = rnd64(v3, rd64(p + 16)); v4 = rnd64(v4, rd64(p + 24)); p += 32; } while (p + 32 <= end);
        h = rotl(v1, 1) + rotl(v2, 7) + rotl(v3, 12) + rotl(v4, 18); h = mrg(h, v1); h = mrg(h, v2); h = mrg(h, v3); h = mrg(h, v4);
    } else h = seed + P5;
    h += (uint64_t)len;
    while (p + 8 <= end) { h ^= rnd64(0, rd64(p)); h = rotl(h, 27) * P1 + P4; p += 8; }
    if (p + 4 <= end) { h ^= (uint64_t)rd32(p) * P1; h = rotl(h, 23) * P2 + P3; p += 4; }
    while (p < end) { h ^= (*p) * P5; h = rotl(h, 11) * P1; p++; }
    h ^= h >> 33; h *= P2; h ^= h >> 29; h *= P3; h ^= h >> 32; return h;
}

/* ---- event hooks ---- */
static int ref_nosum = 0; static size_t ref_window, ref_dictlen; static size_t ref_maxoff_violation = 0;
static void REF_ev_frame(frame_context_t* ctx) {
    ref_window = ctx->header.window_size; ref_dictlen = ctx->dict_content_len; ref_blocks = 0;
    if (ref_T) fprintf(ref_T, "{\"e\":\"rFrame\",\"n\":%zu,\"window\":%zu,\"fcs\":%lld,\"dictID\":%u,\"checksum\":%d,\"single\":%d,\"dictLen\":%zu}\n", ref_frame_no,
                       ctx->header.window_size > 2000000000u ? (size_t)2000000000u : ctx->header.window_size,
                       ctx->header.fcs_present ? (long long)(ctx->header.frame_content_size > 2000000000u ? 2000000000u : ctx->header.frame_content_size) : -1LL,
                       ctx->header.dictionary_id, ctx->header.content_checksum_flag, ctx->header.single_segment_flag, ctx->dict_content_len);
}
static void REF_ev_block(frame_context_t* ctx, int type, size_t len, int last, size_t pos, size_t regen) {
    (void)ctx;
    /* Block_Maximum_Size = min(Window_Size, 128 KiB) bounds the regenerated size of every block and the size of a compressed block's body */
    { size_t bmax = ref_window < 131072 ? ref_window : 131072; if (regen > bmax) REF_fail("block regenerates more than Block_Maximum_Size"); if (type == 2 && len > bmax) REF_fail("compressed block larger than Block_Maximum_Size"); }
    if (ref_T) fprintf(ref_T, "{\"e\":\"rBlock\",\"k\":%zu,\"type\":%d,\"csize\":%zu,\"last\":%d,\"pos\":%zu,\"regen\":%zu,\"nseq\":%zu,\"litMode\":%d,\"seqModes\":%d}\n",
                       ref_blocks, type, type == 1 ? (size_t)1 : len, last, pos, regen, type == 2 ? ref_nseq_block : (size_t)0, type == 2 ? ref_lit_mode : -1, type == 2 ? ref_seq_modes : -1);
    ref_blocks++; ref_nseq_block = 0; ref_seq_modes = 0;
}
static void REF_ev_seq(frame_context_t* ctx, size_t pos, u32 ll, u32 ml, u32 ov, size_t off) {
    (void)ctx; ref_nseq_block++;
    if (ref_T && ref_seqlog) fprintf(ref_T, "{\"e\":\"rSeq\",\"pos\":%zu,\"ll\":%u,\"ml\":%u,\"ov\":%u,\"off\":%zu}\n", pos, ll, ml, ov, off);
    /* the window rule exactly as worded in the format document (the vendored decoder enforces it too) */
    if (off == 0) REF_fail("offset 0");
    if (pos > ref_window) { if (off > ref_window) REF_fail("offset beyond window"); }
    else if (off > pos + ref_dictlen) REF_fail("offset beyond available history");
}
static void REF_ev_lastlits(frame_context_t* ctx, size_t nseq, size_t len, const u64* hist) {
    (void)ctx; (void)nseq; (void)len; (void)hist;
}
static void REF_ev_frame_end(frame_context_t* ctx, const u8* start, size_t n) {
    int sumok = 1; uint32_t calc = 0;
    if (ctx->header.content_checksum_flag) { calc = (uint32_t)REF_xxh64(start, n, 0); sumok = (calc == ref_stored_checksum); }
    if (ref_T) fprintf(ref_T, "{\"e\":\"rFrameEnd\",\"n\":%zu,\"size\":%zu,\"blocks\":%zu,\"checksumOK\":%s,\"fcsOK\":%s}\n", ref_frame_no, n, ref_blocks,
                       sumok ? "true" : "false", (!ctx->header.fcs_present || ctx->header.frame_content_size == n) ? "true" : "false");
    if (!sumok && !ref_nosum) REF_fail("content checksum mismatch");
    if (ctx->header.fcs_present && ctx->header.frame_content_size != n) REF_fail("frame content size mismatch");
    ref_frame_no++;
}

void REF_set_verify_checksum(int on) { ref_nosum = !on; }
void REF_set_trace(FILE* f, int log_sequences) { ref_T = f; ref_seqlog = log_sequences; }
const char* REF_last_error(void) { return ref_why; }

/* Decodes every frame of src (skippable frames are skipped). Returns decoded size, or (size_t)-1 on rejection. */
size_t REF_decode_all(void* dst, size_t cap, const void* src, size_t n, const void* dict, size_t dictSize) {
    volatile size_t total = 0; size_t pos = 0; const unsigned char* s = (const unsigned char*)src;
    dictionary_t* d = NULL;
    ref_frame_no = 0; ref_why = "";
    ref_active = 1;
    if (setjmp(ref_jmp)) { ref_active = 0; return (size_t)-1; }
    d = REFI_create_dictionary();
    if (dict && dictSize) REFI_parse_dictionary(d, dict, dictSize);
    if (n == 0) REF_fail("empty input");
    while (pos < n) {
        if (n - pos >= 8 && (rd32(s + pos) & 0xFFFFFFF0u) == 0x184D2A50u) { size_t sz = rd32(s + pos + 4); if (n - pos - 8 < sz) REF_fail("truncated skippable frame"); pos += 8 + sz; continue; }
        {   istream_t in = IO_make_istream(s + pos, n - pos); ostream_t out = IO_make_ostream((u8*)dst + total, cap - total);
            decode_frame(&out, &in, d);
            total += (size_t)(out.ptr - ((u8*)dst + total));
            pos = n - IO_istream_len(&in); }
    }
    ref_active = 0;
    return total;
}
