/* allocdrv.c — allocation-failure enumeration (property C13).
 * Every scenario is run once with a healthy allocator to count the allocations made after its ARM mark, then once per k with the
 * k-th of those allocations failing.  All library memory comes from a private arena through ZSTD_customMem: a pointer handed to
 * the default free() or freed twice cannot "work by accident" (ASan aborts on the foreign free; freed blocks are poisoned).
 * Each (scenario, k) runs in a forked child; the parent turns a signal into a "crash" event.
 * usage: allocdrv <trace.ndjson> <scenario|all> [maxk]
 * Events: scn, alloc, free, op (name, ok, faultedDuring), crash, endscn(live). */
#define ZSTD_STATIC_LINKING_ONLY
#define ZDICT_STATIC_LINKING_ONLY
#include "zstd.h"
#include "zstd_errors.h"
#include "vgen.h"
#include <stdio.h>
#include <stdlib.h>
#include <string.h>
#include <unistd.h>
#include <sys/mman.h>
#include <sys/wait.h>
#include <sanitizer/asan_interface.h>

static FILE* T;
/* ---- arena allocator ---- */
#define ARENA (1ull << 31)
static unsigned char* arena; static size_t apos;
typedef struct { void* p; size_t n; int live; } rec_t;
static rec_t recs[1 << 16]; static int nrec;
static int armed = 0, failAt = -1, countArmed = 0, faultInOp = 0, faultsTotal = 0, badFree = 0;
static volatile int v_lock = 0;      /* the library allocates from worker threads too */
#define VLOCK() while (__atomic_exchange_n(&v_lock, 1, __ATOMIC_ACQUIRE)) { }
#define VUNLOCK() __atomic_store_n(&v_lock, 0, __ATOMIC_RELEASE)
static void* v_alloc_locked(void* opq, size_t n);
static void* v_alloc(void* opq, size_t n) { void* p; VLOCK(); p = v_alloc_locked(opq, n); VUNLOCK(); return p; }
static void* v_alloc_locked(void* opq, size_t n) {
    size_t a; (void)opq;
    if (armed) { countArmed++; if (countArmed == failAt) { faultInOp = 1; faultsTotal++; fprintf(T, "{\"e\":\"alloc\",\"id\":-1,\"n\":%zu,\"ok\":false,\"idx\":%d}\n", n, countArmed); return NULL; } }
    a = (apos + 63) & ~(size_t)63; if (a + n + 64 > ARENA || nrec >= (1 << 16)) return NULL;
    apos = a + n + 64;
    ASAN_UNPOISON_MEMORY_REGION(arena + a, n);
    recs[nrec].p = arena + a; recs[nrec].n = n; recs[nrec].live = 1;
    fprintf(T, "{\"e\":\"alloc\",\"id\":%d,\"n\":%zu,\"ok\":true,\"idx\":%d}\n", nrec, n, armed ? countArmed : 0);
    return recs[nrec++].p;
}
static void v_free_locked(void* opq, void* p);
static void v_free(void* opq, void* p) { VLOCK(); v_free_locked(opq, p); VUNLOCK(); }
static void v_free_locked(void* opq, void* p) {
    int i; (void)opq;
    if (!p) return;
    for (i = nrec - 1; i >= 0; i--) if (recs[i].p == p) break;
    if (i < 0) { badFree++; fprintf(T, "{\"e\":\"free\",\"id\":-1,\"state\":\"foreign\"}\n"); return; }
    if (!recs[i].live) { badFree++; fprintf(T, "{\"e\":\"free\",\"id\":%d,\"state\":\"double\"}\n", i); return; }
    recs[i].live = 0; ASAN_POISON_MEMORY_REGION(p, recs[i].n);
    fprintf(T, "{\"e\":\"free\",\"id\":%d,\"state\":\"ok\"}\n", i);
}
static ZSTD_customMem CM = { v_alloc, v_free, NULL };
static int liveCount(void) { int i, n = 0; for (i = 0; i < nrec; i++) n += recs[i].live; return n; }

static void opev(const char* name, int ok) { fprintf(T, "{\"e\":\"op\",\"name\":\"%s\",\"ok\":%s,\"faulted\":%s}\n", name, ok ? "true" : "false", faultInOp ? "true" : "false"); faultInOp = 0; }
#define ARM() do { armed = 1; countArmed = 0; fprintf(T, "{\"e\":\"arm\"}\n"); } while (0)
#define DISARM() do { armed = 0; fprintf(T, "{\"e\":\"disarm\"}\n"); } while (0)

static unsigned char *src, *comp, *out, *dict; static size_t dictSize;
#define SRCN 3000000

static int roundtrip(const void* c, size_t cs, const void* s, size_t n, const void* d, size_t dn) {
    size_t r = dn ? ZSTD_decompress_usingDict(ZSTD_createDCtx(), out, SRCN, c, cs, d, dn) : ZSTD_decompress(out, SRCN, c, cs);
    return !ZSTD_isError(r) && r == n && !memcmp(out, s, n);
}

/* streaming compression of n bytes with the context as configured; returns compressed size or error */
static size_t cstream(ZSTD_CCtx* c, size_t n, size_t chunk) {
    ZSTD_inBuffer in; ZSTD_outBuffer ob; size_t r = 1; int guard = 0;
    in.src = src; in.size = 0; in.pos = 0; ob.dst = comp; ob.size = ZSTD_compressBound(n) + 4096; ob.pos = 0;
    do { in.size = in.size + chunk > n ? n : in.size + chunk;
         do { r = ZSTD_compressStream2(c, &ob, &in, in.size == n ? ZSTD_e_end : ZSTD_e_continue); } while (!ZSTD_isError(r) && (in.pos < in.size || (in.size == n && r != 0)) && ++guard < 100000);
    } while (!ZSTD_isError(r) && in.size < n);
    return ZSTD_isError(r) ? r : ob.pos;
}
static size_t dstream(ZSTD_DCtx* d, const void* c, size_t cs, size_t chunk, size_t ocap) {
    ZSTD_inBuffer in; size_t total = 0; size_t r = 1; int guard = 0;
    in.src = c; in.size = 0; in.pos = 0;
    while (in.pos < cs && ++guard < 1000000) { ZSTD_outBuffer ob; in.size = in.pos + chunk > cs ? cs : in.pos + chunk;
        do { ob.dst = out + total; ob.size = ocap; ob.pos = 0; r = ZSTD_decompressStream(d, &ob, &in); if (ZSTD_isError(r)) return r; total += ob.pos; } while (ob.pos == ocap && ++guard < 1000000); }
    return r == 0 ? total : (size_t)-ZSTD_error_srcSize_wrong;
}

/* ---- scenarios: history, ARM, the operation under fault, DISARM, reset + retry, free ---- */
static void scn_cctx_compress2(int level, int wlog, size_t n1, size_t n2) {
    ZSTD_CCtx* c; size_t r;
    ARM(); c = ZSTD_createCCtx_advanced(CM); opev("createCCtx", c != NULL); if (!c) { DISARM(); return; }
    ZSTD_CCtx_setParameter(c, ZSTD_c_compressionLevel, level); if (wlog) ZSTD_CCtx_setParameter(c, ZSTD_c_windowLog, wlog);
    r = ZSTD_compress2(c, comp, ZSTD_compressBound(n1), src, n1); opev("compress2", !ZSTD_isError(r));
    if (n2) { /* a second, larger job: workspace resize */ ZSTD_CCtx_setParameter(c, ZSTD_c_compressionLevel, level + 6); ZSTD_CCtx_setParameter(c, ZSTD_c_windowLog, 0);
        r = ZSTD_compress2(c, comp, ZSTD_compressBound(n2), src, n2); opev("compress2-bigger", !ZSTD_isError(r)); }
    DISARM();
    ZSTD_CCtx_reset(c, ZSTD_reset_session_only);
    r = ZSTD_compress2(c, comp, ZSTD_compressBound(n1), src, n1); opev("retry", !ZSTD_isError(r) && roundtrip(comp, r, src, n1, NULL, 0));
    r = ZSTD_compress2(c, comp, ZSTD_compressBound(50000), src, 50000); opev("retry-small", !ZSTD_isError(r) && roundtrip(comp, r, src, 50000, NULL, 0));
    ZSTD_freeCCtx(c);
}
static void scn_history_then_resize(void) {      /* a context that already owns a workspace, then a job needing a bigger one fails */
    ZSTD_CCtx* c = ZSTD_createCCtx_advanced(CM); size_t r; if (!c) return;
    ZSTD_CCtx_setParameter(c, ZSTD_c_compressionLevel, 1);
    r = ZSTD_compress2(c, comp, ZSTD_compressBound(20000), src, 20000); opev("history", !ZSTD_isError(r));
    ARM(); ZSTD_CCtx_setParameter(c, ZSTD_c_compressionLevel, 12);
    r = ZSTD_compress2(c, comp, ZSTD_compressBound(800000), src, 800000); opev("compress2-resize", !ZSTD_isError(r)); DISARM();
    ZSTD_CCtx_reset(c, ZSTD_reset_session_only);
    r = ZSTD_compress2(c, comp, ZSTD_compressBound(800000), src, 800000); opev("retry", !ZSTD_isError(r) && roundtrip(comp, r, src, 800000, NULL, 0));
    ZSTD_CCtx_reset(c, ZSTD_reset_session_and_parameters); ZSTD_CCtx_setParameter(c, ZSTD_c_compressionLevel, 1);
    r = ZSTD_compress2(c, comp, ZSTD_compressBound(20000), src, 20000); opev("retry-fits-old-size", !ZSTD_isError(r) && roundtrip(comp, r, src, 20000, NULL, 0));
    ZSTD_freeCCtx(c);
}
static void scn_dict(int byRef) {
    ZSTD_CCtx* c = ZSTD_createCCtx_advanced(CM); ZSTD_CDict* cd; size_t r; if (!c) return;
    ARM(); r = byRef ? ZSTD_CCtx_loadDictionary_byReference(c, dict, dictSize) : ZSTD_CCtx_loadDictionary(c, dict, dictSize); opev("loadDictionary", !ZSTD_isError(r));
    r = ZSTD_compress2(c, comp, ZSTD_compressBound(100000), src, 100000); opev("compress2-dict", !ZSTD_isError(r));
    cd = ZSTD_createCDict_advanced(dict, dictSize, byRef ? ZSTD_dlm_byRef : ZSTD_dlm_byCopy, ZSTD_dct_auto, ZSTD_getCParams(3, 0, dictSize), CM); opev("createCDict", cd != NULL);
    if (cd) { r = ZSTD_CCtx_refCDict(c, cd); r = ZSTD_compress2(c, comp, ZSTD_compressBound(100000), src, 100000); opev("compress2-cdict", !ZSTD_isError(r)); }
    DISARM();
    ZSTD_CCtx_reset(c, ZSTD_reset_session_and_parameters);
    r = ZSTD_CCtx_loadDictionary(c, dict, dictSize); r = ZSTD_isError(r) ? r : ZSTD_compress2(c, comp, ZSTD_compressBound(100000), src, 100000);
    opev("retry", !ZSTD_isError(r) && roundtrip(comp, r, src, 100000, dict, dictSize));
    ZSTD_freeCDict(cd); ZSTD_freeCCtx(c);
}
static void scn_cstream(int level, size_t n) {
    ZSTD_CCtx* c = ZSTD_createCCtx_advanced(CM); size_t r; if (!c) return;
    ZSTD_CCtx_setParameter(c, ZSTD_c_compressionLevel, level);
    ARM(); r = cstream(c, n, 70000); opev("compressStream", !ZSTD_isError(r)); DISARM();
    ZSTD_CCtx_reset(c, ZSTD_reset_session_only);
    r = cstream(c, n, 70000); opev("retry", !ZSTD_isError(r) && roundtrip(comp, r, src, n, NULL, 0));
    ZSTD_freeCCtx(c);
}
static void scn_mt(int nw, int ldm, size_t n) {
    ZSTD_CCtx* c = ZSTD_createCCtx_advanced(CM); size_t r; if (!c) return;
    ARM();
    r = ZSTD_CCtx_setParameter(c, ZSTD_c_nbWorkers, nw); opev("set-nbWorkers", !ZSTD_isError(r));
    ZSTD_CCtx_setParameter(c, ZSTD_c_compressionLevel, 1); ZSTD_CCtx_setParameter(c, ZSTD_c_jobSize, 1); ZSTD_CCtx_setParameter(c, ZSTD_c_checksumFlag, 1);
    if (ldm) ZSTD_CCtx_setParameter(c, ZSTD_c_enableLongDistanceMatching, 1);
    r = cstream(c, n, 300000); opev("mt-compressStream", !ZSTD_isError(r)); DISARM();
    ZSTD_CCtx_reset(c, ZSTD_reset_session_only);
    r = cstream(c, n, 300000); if (ZSTD_isError(r)) fprintf(T, "{\"e\":\"note\",\"retryError\":\"%s\"}\n", ZSTD_getErrorName(r));
    opev("retry", !ZSTD_isError(r) && roundtrip(comp, r, src, n, NULL, 0));
    ZSTD_freeCCtx(c);
}
static void scn_dstream(int variant) {
    /* decode a small-window frame, then (armed) a larger-window one, then after reset frames of both kinds */
    static unsigned char fsmall[200000], fbig[1200000]; size_t ns, nb, r; ZSTD_DCtx* d; ZSTD_CCtx* c = ZSTD_createCCtx();
    ZSTD_CCtx_setParameter(c, ZSTD_c_windowLog, 12); ZSTD_CCtx_setParameter(c, ZSTD_c_contentSizeFlag, 0); ns = ZSTD_compress2(c, fsmall, sizeof(fsmall), src, 150000);
    ZSTD_CCtx_setParameter(c, ZSTD_c_windowLog, 20); nb = ZSTD_compress2(c, fbig, sizeof(fbig), src, 1100000); ZSTD_freeCCtx(c);
    d = ZSTD_createDCtx_advanced(CM); if (!d) return;
    if (variant >= 1) { r = dstream(d, fsmall, ns, 1000, 4096); opev("history-small", !ZSTD_isError(r) && r == 150000); }
    ARM(); r = dstream(d, fbig, nb, 5000, 8192); opev("decompressStream-big", !ZSTD_isError(r) && r == 1100000); DISARM();
    ZSTD_DCtx_reset(d, ZSTD_reset_session_only);
    if (variant == 2) { r = dstream(d, fsmall, ns, 500, 2048); opev("retry-small-first", !ZSTD_isError(r) && r == 150000 && !memcmp(out, src, 150000)); ZSTD_DCtx_reset(d, ZSTD_reset_session_only); }
    r = dstream(d, fbig, nb, 5000, 8192); opev("retry", !ZSTD_isError(r) && r == 1100000 && !memcmp(out, src, 1100000));
    r = dstream(d, fsmall, ns, 700, 1500); opev("retry-small", !ZSTD_isError(r) && r == 150000 && !memcmp(out, src, 150000));
    ZSTD_freeDCtx(d);
}
static void scn_ddict(void) {
    ZSTD_DCtx* d; ZSTD_DDict* dd; static unsigned char f[200000]; size_t nf, r; ZSTD_CCtx* c = ZSTD_createCCtx();
    nf = ZSTD_compress_usingDict(c, f, sizeof(f), src, 100000, dict, dictSize, 3); ZSTD_freeCCtx(c);
    ARM(); d = ZSTD_createDCtx_advanced(CM); opev("createDCtx", d != NULL); if (!d) { DISARM(); return; }
    dd = ZSTD_createDDict_advanced(dict, dictSize, ZSTD_dlm_byCopy, ZSTD_dct_auto, CM); opev("createDDict", dd != NULL);
    r = ZSTD_DCtx_setParameter(d, ZSTD_d_refMultipleDDicts, 1); opev("set-refMultipleDDicts", !ZSTD_isError(r));
    if (dd) { r = ZSTD_DCtx_refDDict(d, dd); opev("refDDict", !ZSTD_isError(r)); }
    r = ZSTD_DCtx_loadDictionary(d, dict, dictSize); opev("DCtx_loadDictionary", !ZSTD_isError(r));
    r = ZSTD_decompressDCtx(d, out, SRCN, f, nf); opev("decompress-dict", !ZSTD_isError(r) && r == 100000);
    DISARM();
    ZSTD_DCtx_reset(d, ZSTD_reset_session_and_parameters);
    r = ZSTD_DCtx_loadDictionary(d, dict, dictSize); r = ZSTD_isError(r) ? r : ZSTD_decompressDCtx(d, out, SRCN, f, nf); opev("retry", !ZSTD_isError(r) && r == 100000 && !memcmp(out, src, 100000));
    ZSTD_freeDDict(dd); ZSTD_freeDCtx(d);
}

static void scn_ddict_set_grows(void) {
    /* 40 dictionaries with distinct IDs referenced under ZSTD_d_refMultipleDDicts: the set's table grows at the 17th and 33rd; then the context is reused */
    enum { ND = 40 }; static ZSTD_DDict* dds[ND]; static unsigned char dcopy[1 << 17]; static unsigned char f[200000]; size_t nf, r = 0; int i, refs = 0; ZSTD_DCtx* d; ZSTD_CCtx* c = ZSTD_createCCtx();
    size_t ds = dictSize < sizeof(dcopy) ? dictSize : sizeof(dcopy); memcpy(dcopy, dict, ds);
    for (i = 0; i < ND; i++) { unsigned id = 70000u + (unsigned)i * 977u; dcopy[4] = id & 255; dcopy[5] = (id >> 8) & 255; dcopy[6] = (id >> 16) & 255; dcopy[7] = (id >> 24) & 255; dds[i] = ZSTD_createDDict(dcopy, ds); }
    nf = ZSTD_compress_usingDict(c, f, sizeof(f), src, 100000, dcopy, ds, 3); ZSTD_freeCCtx(c);      /* names the last ID */
    d = ZSTD_createDCtx_advanced(CM); if (!d) return;
    ZSTD_DCtx_setParameter(d, ZSTD_d_refMultipleDDicts, 1);
    ARM(); for (i = 0; i < ND; i++) { r = ZSTD_DCtx_refDDict(d, dds[i]); if (ZSTD_isError(r)) break; refs++; } opev("refDDict-x40", !ZSTD_isError(r)); DISARM();
    ZSTD_DCtx_reset(d, ZSTD_reset_session_only);
    for (i = 0; i < ND; i++) { r = ZSTD_DCtx_refDDict(d, dds[i]); if (ZSTD_isError(r)) break; }
    if (!ZSTD_isError(r)) r = ZSTD_decompressDCtx(d, out, SRCN, f, nf);
    opev("retry", !ZSTD_isError(r) && r == 100000 && !memcmp(out, src, 100000));
    ZSTD_freeDCtx(d); for (i = 0; i < ND; i++) ZSTD_freeDDict(dds[i]);
}
static void scn_mt_more_workers(void) {
    /* a multi-threaded context that has worked with 1 worker is asked for 3: pools are re-created */
    ZSTD_CCtx* c = ZSTD_createCCtx_advanced(CM); size_t r; if (!c) return;
    ZSTD_CCtx_setParameter(c, ZSTD_c_nbWorkers, 1); ZSTD_CCtx_setParameter(c, ZSTD_c_compressionLevel, 1); ZSTD_CCtx_setParameter(c, ZSTD_c_jobSize, 1);
    r = cstream(c, 1300000, 300000); opev("history-1-worker", !ZSTD_isError(r));
    ARM(); ZSTD_CCtx_setParameter(c, ZSTD_c_nbWorkers, 3);
    r = cstream(c, 1700000, 300000); opev("mt-3-workers", !ZSTD_isError(r)); DISARM();
    ZSTD_CCtx_reset(c, ZSTD_reset_session_only);
    r = cstream(c, 1700000, 300000); if (ZSTD_isError(r)) fprintf(T, "{\"e\":\"note\",\"retryError\":\"%s\"}\n", ZSTD_getErrorName(r));
    opev("retry", !ZSTD_isError(r) && roundtrip(comp, r, src, 1700000, NULL, 0));
    ZSTD_freeCCtx(c);
}

typedef struct { const char* name; int a, b; } scn_t;
static const scn_t SCN[] = { {"cctx-l3", 0, 0}, {"cctx-l1-then-l7", 1, 0}, {"cctx-l19", 2, 0}, {"history-then-resize", 3, 0}, {"dict-copy", 4, 0}, {"dict-ref", 5, 0},
    {"cstream-l3", 6, 0}, {"cstream-l13", 7, 0}, {"mt-1", 8, 0}, {"mt-2", 9, 0}, {"mt-2-ldm", 10, 0}, {"dstream-fresh", 11, 0}, {"dstream-after-small", 12, 0}, {"dstream-retry-small-first", 13, 0}, {"ddict", 14, 0}, {"ddict-set-grows", 15, 0}, {"mt-more-workers", 16, 0} };
#define NSCN (int)(sizeof(SCN)/sizeof(SCN[0]))
static void run_scn(int i) {
    switch (i) {
    case 0: scn_cctx_compress2(3, 0, 200000, 0); break;
    case 1: scn_cctx_compress2(1, 14, 100000, 900000); break;
    case 2: scn_cctx_compress2(19, 18, 60000, 0); break;
    case 3: scn_history_then_resize(); break;
    case 4: scn_dict(0); break;
    case 5: scn_dict(1); break;
    case 6: scn_cstream(3, 500000); break;
    case 7: scn_cstream(13, 300000); break;
    case 8: scn_mt(1, 0, 1300000); break;
    case 9: scn_mt(2, 0, 1700000); break;
    case 10: scn_mt(2, 1, 1700000); break;
    case 11: scn_dstream(0); break;
    case 12: scn_dstream(1); break;
    case 13: scn_dstream(2); break;
    case 14: scn_ddict(); break;
    case 15: scn_ddict_set_grows(); break;
    case 16: scn_mt_more_workers(); break;
    }
}

/* runs scenario i with fault k (0 = healthy) in a child; returns number of armed allocations seen (healthy run) */
static int child_run(const char* tracePath, int i, int k) {
    pid_t pid; int st = 0; int pfd[2]; int count = 0;
    fflush(T); if (pipe(pfd)) return -1;
    pid = fork();
    if (pid == 0) {
        close(pfd[0]); T = fopen(tracePath, "a"); setvbuf(T, NULL, _IOLBF, 0);
        failAt = k > 0 ? k : -1; nrec = 0; apos = 0;
        fprintf(T, "{\"e\":\"scn\",\"name\":\"%s\",\"k\":%d}\n", SCN[i].name, k);
        run_scn(i);
        fprintf(T, "{\"e\":\"endscn\",\"live\":%d,\"badFree\":%d,\"faults\":%d,\"armedAllocs\":%d}\n", liveCount(), badFree, faultsTotal, countArmed);
        fclose(T); if (write(pfd[1], &countArmed, sizeof(int)) < 0) {} _exit(0);
    }
    close(pfd[1]);
    { fd_set fs; struct timeval tv; int waited = 0; (void)fs; (void)tv;
      while (waitpid(pid, &st, WNOHANG) == 0) { usleep(20000); if (++waited > 3000) { kill(pid, 9); waitpid(pid, &st, 0); T = fopen(tracePath, "a"); fprintf(T, "{\"e\":\"crash\",\"sig\":-1,\"why\":\"timeout\"}\n"); fclose(T); T = fopen(tracePath, "a"); close(pfd[0]); return -1; } } }
    if (read(pfd[0], &count, sizeof(int)) != sizeof(int)) count = -1;
    close(pfd[0]);
    T = fopen(tracePath, "a");
    if (!(WIFEXITED(st) && WEXITSTATUS(st) == 0)) { fprintf(T, "{\"e\":\"crash\",\"sig\":%d,\"exit\":%d}\n", WIFSIGNALED(st) ? WTERMSIG(st) : 0, WIFEXITED(st) ? WEXITSTATUS(st) : -1); fflush(T); }
    return count;
}

int main(int argc, char** argv) {
    int i, first = 0, last = NSCN - 1, maxk = 1 << 30;
    if (argc < 3) return 2;
    T = fopen(argv[1], "w"); if (!T) return 2;
    if (strcmp(argv[2], "all")) { for (i = 0; i < NSCN; i++) if (!strcmp(SCN[i].name, argv[2])) first = last = i; }
    if (argc > 3) maxk = atoi(argv[3]);
    arena = mmap(NULL, ARENA, PROT_READ | PROT_WRITE, MAP_PRIVATE | MAP_ANONYMOUS | MAP_NORESERVE, -1, 0);
    if (arena == MAP_FAILED) return 2;
    src = malloc(SRCN); comp = malloc(ZSTD_compressBound(SRCN) + 8192); out = malloc(SRCN + 64); dict = malloc(1 << 20);
    vgen("text", SRCN, 77, src);
    { FILE* D = fopen(argc > 4 ? argv[4] : "/repo/tests/golden-dictionaries/http-dict-missing-symbols", "rb"); if (D) { dictSize = fread(dict, 1, 1 << 20, D); fclose(D); } }
    for (i = first; i <= last; i++) {
        int n = child_run(argv[1], i, 0); int k;
        for (k = 1; k <= n && k <= maxk; k++) child_run(argv[1], i, k);
    }
    fprintf(T, "{\"e\":\"end\"}\n"); fclose(T);
    return 0;
}
