/* capdrv.c — capacity discipline (property C06).
 * Every destination buffer handed to the library ends exactly at an inaccessible page (mmap + PROT_NONE), every source buffer too:
 * one byte written beyond dst+capacity or read beyond src+size faults (reported by the sanitizer runtime as SEGV with a stack).
 * The bytes in front of a buffer (inside its first page) carry a canary that is checked after each call.
 * usage: capdrv <script> <trace.ndjson>
 *   CSWEEP <api> <kind> <size> <seed> <np> {k v}      capacity sweep of a compression entry point
 *        api: compress2 | compressCCtx | usingDict | stream | bufferlessEnd | bufferlessEnd0 | stableOut | sequences | skippable | mt
 *   DSWEEP <api> <kind> <size> <seed> <np> {k v}      capacity sweep of a decompression entry point on a valid frame, then on damaged copies
 *        api: decompress | dctx | stream | stableOut | usingDict
 *   INSPECT <nframes> { <kind> <size> <seed> <level> <wlog> <flags 1 csum 2 nocontentsize 4 skippable-before> }   frame inspectors vs the decoder
 */
#define ZSTD_STATIC_LINKING_ONLY
#include "zstd.h"
#include "zstd_errors.h"
#define XXH_NAMESPACE ZSTD_
#include "../lib/common/xxhash.h"
#include "vgen.h"
#include <stdio.h>
#include <stdint.h>
#include <sys/mman.h>
#include <unistd.h>

static FILE* T; static char g_op[512];
#define MAXN (1u << 22)
#define PAGE 4096
typedef struct { unsigned char* map; size_t mapSize; unsigned char* p; size_t size; } gbuf;
/* a buffer of `size` bytes whose end is the start of a PROT_NONE page */
static gbuf galloc(size_t size) {
    gbuf g; size_t pages = (size + PAGE - 1) / PAGE + 1; size_t i;
    g.mapSize = (pages + 1) * PAGE; g.map = mmap(NULL, g.mapSize, PROT_READ | PROT_WRITE, MAP_PRIVATE | MAP_ANONYMOUS, -1, 0);
    if (g.map == MAP_FAILED) { fprintf(stderr, "mmap failed\n"); exit(2); }
    mprotect(g.map + pages * PAGE, PAGE, PROT_NONE);
    g.p = g.map + pages * PAGE - size; g.size = size;
    for (i = 0; g.map + i < g.p; i++) g.map[i] = (unsigned char)(0xC5 ^ i);
    return g;
}
static int gcheck(const gbuf* g) { size_t i; for (i = 0; g->map + i < g->p; i++) if (g->map[i] != (unsigned char)(0xC5 ^ i)) return 0; return 1; }
static void gfree(gbuf* g) { munmap(g->map, g->mapSize); }

static unsigned char *src0, *ref, *tmp, *dictRaw; static size_t refSize;
#define DICTRAW 20000
static int np, pk[40], pv[40];
static void apply_params(ZSTD_CCtx* c) { int i; for (i = 0; i < np; i++) ZSTD_CCtx_setParameter(c, (ZSTD_cParameter)pk[i], pv[i]); }
static int param(int k, int dflt) { int i; for (i = 0; i < np; i++) if (pk[i] == k) return pv[i]; return dflt; }

/* capacities worth trying around the unconstrained output `out` of size `final` */
static size_t caps[400]; static int ncaps;
static void addcap(long long c) { int i; if (c < 0) return; for (i = 0; i < ncaps; i++) if (caps[i] == (size_t)c) return; if (ncaps < 400) caps[ncaps++] = (size_t)c; }
static void make_caps(const unsigned char* out, size_t final, size_t bound, unsigned seed) {
    long long c; size_t pos; int nb = 0; ncaps = 0;
    for (c = 0; c <= 24; c++) addcap(c);
    for (c = (long long)final - 8; c <= (long long)final + 2; c++) addcap(c);
    addcap((long long)bound - 1); addcap(bound); addcap(bound + 1);
    /* block boundaries of the unconstrained frame */
    if (out && final > 8) { ZSTD_frameHeader fh; if (ZSTD_getFrameHeader(&fh, out, final) == 0) { pos = fh.headerSize;
        while (pos + 3 <= final && nb < 400) { unsigned h = out[pos] | (out[pos + 1] << 8) | ((unsigned)out[pos + 2] << 16); unsigned type = (h >> 1) & 3, bs = h >> 3; size_t cs = (type == 1) ? 1 : bs;
            if (nb < 5 || (h & 1)) { for (c = -1; c <= 4; c++) addcap((long long)pos + c); }
            pos += 3 + cs; nb++; if (nb < 6 || (h & 1)) { for (c = -2; c <= 1; c++) addcap((long long)pos + c); }
            if (h & 1) break; } } }
    { unsigned x = seed * 2654435761u + 1; int i; for (i = 0; i < 8; i++) { x = x * 1103515245u + 12345u; addcap((x >> 8) % (final + 2)); } }
}

static size_t roundtrip_ok(const unsigned char* comp, size_t cs, const unsigned char* src, size_t n, int useDict) {
    ZSTD_DCtx* d = ZSTD_createDCtx(); size_t r = useDict ? ZSTD_decompress_usingDict(d, tmp, n + 64, comp, cs, dictRaw, DICTRAW) : ZSTD_decompressDCtx(d, tmp, n + 64, comp, cs);
    ZSTD_freeDCtx(d); return !ZSTD_isError(r) && r == n && !memcmp(tmp, src, n);
}

/* one execution of a compression entry point with `cap` bytes of room (see the per-api comments); the produced frame is left in
 * *whole / returned size; an error code is returned as is */
static int g_posOver, g_canary;
static size_t run_capi(const char* api, const gbuf* gs, size_t n, size_t cap, unsigned seed, const ZSTD_Sequence* seqs, size_t nseq, unsigned char** whole) {
    gbuf gd = galloc(cap); ZSTD_CCtx* c = ZSTD_createCCtx(); size_t r = 0; int level = param(100, 3); static unsigned char* keep = NULL; if (!keep) keep = malloc(ZSTD_compressBound(MAXN) + 4096);
    apply_params(c); *whole = keep;
    if (!strcmp(api, "compress2") || !strcmp(api, "mt")) r = ZSTD_compress2(c, gd.p, cap, gs->p, n);
    else if (!strcmp(api, "compressCCtx")) r = ZSTD_compressCCtx(c, gd.p, cap, gs->p, n, level);
    else if (!strcmp(api, "usingDict")) r = ZSTD_compress_usingDict(c, gd.p, cap, gs->p, n, dictRaw, DICTRAW, level);
    else if (!strcmp(api, "skippable")) r = ZSTD_writeSkippableFrame(gd.p, cap, gs->p, n, seed % 16);
    else if (!strcmp(api, "sequences")) { ZSTD_CCtx_reset(c, ZSTD_reset_session_and_parameters); ZSTD_CCtx_setParameter(c, ZSTD_c_compressionLevel, level); ZSTD_CCtx_setParameter(c, ZSTD_c_checksumFlag, param(201, 0)); ZSTD_CCtx_setParameter(c, ZSTD_c_blockDelimiters, ZSTD_sf_explicitBlockDelimiters); r = ZSTD_compressSequences(c, gd.p, cap, seqs, nseq, gs->p, n); }
    else if (!strcmp(api, "bufferlessEnd0") || !strcmp(api, "bufferlessEnd")) {
        /* begin / continue into a roomy buffer / end into `cap` bytes: End0 closes the frame with no new input, End with the second half */
        size_t first = !strcmp(api, "bufferlessEnd0") ? n : n / 2, r1; gbuf g1 = galloc(ZSTD_compressBound(first) + 64); ZSTD_parameters zp = ZSTD_getParams(level, 0, 0);
        zp.fParams.checksumFlag = param(201, 0); zp.fParams.contentSizeFlag = 0; if (param(101, 0)) zp.cParams.windowLog = (unsigned)param(101, 0);
        r = ZSTD_compressBegin_advanced(c, NULL, 0, zp, ZSTD_CONTENTSIZE_UNKNOWN);
        r1 = ZSTD_isError(r) ? r : ZSTD_compressContinue(c, g1.p, g1.size, gs->p, first);
        if (ZSTD_isError(r1)) r = r1; else { r = ZSTD_compressEnd(c, gd.p, cap, gs->p + first, n - first);
            if (!ZSTD_isError(r)) { if (r > cap) { g_posOver++; } else { memcpy(keep, g1.p, r1); memcpy(keep + r1, gd.p, r); r += r1; } } }
        if (!gcheck(&g1)) g_canary++; gfree(&g1); if (!gcheck(&gd)) g_canary++; gfree(&gd); ZSTD_freeCCtx(c); return r; }
    else if (!strcmp(api, "stream")) {           /* every call gets a fresh output buffer of `cap` bytes */
        ZSTD_inBuffer in; int guard = 0; size_t total = 0; in.src = gs->p; in.size = n; in.pos = 0; r = 1;
        while (r != 0 && ++guard < 6000000) { gbuf go = galloc(cap); ZSTD_outBuffer ob; ob.dst = go.p; ob.size = cap; ob.pos = 0; r = ZSTD_compressStream2(c, &ob, &in, ZSTD_e_end);
            if (ob.pos > cap) g_posOver++; else { memcpy(keep + total, go.p, ob.pos); total += ob.pos; }
            if (!gcheck(&go)) g_canary++; gfree(&go); if (ZSTD_isError(r)) break; }
        if (!ZSTD_isError(r)) r = (r == 0) ? total : (size_t)-ZSTD_error_GENERIC;
        gfree(&gd); ZSTD_freeCCtx(c); return r; }
    else if (!strcmp(api, "stableOut")) {         /* one stable output buffer of `cap` bytes in total: flush everything, then end with no new input */
        ZSTD_inBuffer in; ZSTD_outBuffer ob; int guard = 0; ZSTD_CCtx_setParameter(c, ZSTD_c_stableOutBuffer, 1); in.src = gs->p; in.size = n; in.pos = 0; ob.dst = gd.p; ob.size = cap; ob.pos = 0;
        r = ZSTD_compressStream2(c, &ob, &in, ZSTD_e_flush); if (ob.pos > cap) g_posOver++;
        while (!ZSTD_isError(r) && ++guard < 4) { r = ZSTD_compressStream2(c, &ob, &in, ZSTD_e_end); if (ob.pos > cap) g_posOver++; if (r == 0) break; }
        if (!ZSTD_isError(r)) r = (r == 0 && in.pos == in.size) ? ob.pos : (size_t)-ZSTD_error_dstSize_tooSmall; }
    if (!ZSTD_isError(r) && r <= cap) memcpy(keep, gd.p, r);
    if (!gcheck(&gd)) g_canary++;
    gfree(&gd); ZSTD_freeCCtx(c); return r;
}

static void csweep(const char* api, const char* kind, size_t n, unsigned seed) {
    size_t bound = ZSTD_compressBound(n); int ci; int okOverCap = 0, errAtBound = 0, okWrong = 0, nOk = 0, nErr = 0, otherErr = 0; long long minOk = -1; long long firstBad = -1; const char* badErr = "";
    gbuf gs = galloc(n); int level = param(100, 3); ZSTD_Sequence* seqs = NULL; size_t nseq = 0; unsigned char* whole; int dict = !strcmp(api, "usingDict"); int skippable = !strcmp(api, "skippable");
    /* is `bound` bytes of room documented to suffice?  (single-pass entry points) */
    int boundApplies = !strcmp(api, "compress2") || !strcmp(api, "compressCCtx") || dict || !strcmp(api, "sequences") || !strcmp(api, "mt");
    int perCall = !strcmp(api, "stream");
    vgen(kind, n, seed, src0); memcpy(gs.p, src0, n); g_posOver = g_canary = 0;
    if (skippable) { bound = n + 8; boundApplies = 1; }
    if (!strcmp(api, "sequences")) { ZSTD_CCtx* c = ZSTD_createCCtx(); size_t cap = ZSTD_sequenceBound(n); seqs = malloc(cap * sizeof(ZSTD_Sequence)); ZSTD_CCtx_setParameter(c, ZSTD_c_compressionLevel, level);
        nseq = ZSTD_generateSequences(c, seqs, cap, src0, n); ZSTD_freeCCtx(c); if (ZSTD_isError(nseq)) { free(seqs); gfree(&gs); fprintf(T, "{\"e\":\"csweep\",\"api\":\"%s\",\"n\":%zu,\"refok\":false,\"err\":\"generateSequences\"}\n", api, n); return; } }
    snprintf(g_op, sizeof(g_op), "CSWEEP %s %s %zu %u ref", api, kind, n, seed);
    refSize = run_capi(api, &gs, n, bound + 64, seed, seqs, nseq, &whole);
    if (ZSTD_isError(refSize)) { fprintf(T, "{\"e\":\"csweep\",\"api\":\"%s\",\"n\":%zu,\"refok\":false,\"err\":\"%s\"}\n", api, n, ZSTD_getErrorName(refSize)); free(seqs); gfree(&gs); return; }
    memcpy(ref, whole, refSize);
    make_caps(ref, refSize, bound, seed);
    if (!strncmp(api, "bufferless", 10)) { long long c; for (c = 0; c <= 12; c++) addcap(c); }
    for (ci = 0; ci < ncaps; ci++) { size_t cap = caps[ci]; size_t r;
        if (perCall && cap == 0) continue;
        snprintf(g_op, sizeof(g_op), "CSWEEP %s %s %zu %u cap=%zu", api, kind, n, seed, cap);
        r = run_capi(api, &gs, n, cap, seed, seqs, nseq, &whole);
        if (ZSTD_isError(r)) { nErr++;
            if ((cap >= bound && boundApplies) || perCall) { errAtBound++; if (firstBad < 0) { firstBad = (long long)cap; badErr = ZSTD_getErrorName(r); } }
            else if (ZSTD_getErrorCode(r) != ZSTD_error_dstSize_tooSmall && ZSTD_getErrorCode(r) != ZSTD_error_dstBuffer_wrong) { otherErr++; if (firstBad < 0) { firstBad = (long long)cap; badErr = ZSTD_getErrorName(r); } } }
        else { nOk++; if (minOk < 0 || (long long)cap < minOk) minOk = (long long)cap;
            if (!perCall && strncmp(api, "bufferless", 10) && r > cap) { okOverCap++; if (firstBad < 0) firstBad = (long long)cap; }
            else if (skippable) { if (r != n + 8 || memcmp(whole + 8, src0, n)) { okWrong++; if (firstBad < 0) firstBad = (long long)cap; } }
            else if (!roundtrip_ok(whole, r, src0, n, dict)) { okWrong++; if (firstBad < 0) firstBad = (long long)cap; } }
    }
    fprintf(T, "{\"e\":\"csweep\",\"api\":\"%s\",\"kind\":\"%s\",\"n\":%zu,\"level\":%d,\"refok\":true,\"final\":%zu,\"bound\":%zu,\"ncaps\":%d,\"nOk\":%d,\"nErr\":%d,\"minOk\":%lld,\"okOverCap\":%d,\"posOver\":%d,\"errAtBound\":%d,\"okWrong\":%d,\"canary\":%d,\"otherErr\":%d,\"firstBad\":%lld,\"badErr\":\"%s\"}\n",
            api, kind, n, level, refSize, bound, ncaps, nOk, nErr, minOk, okOverCap, g_posOver, errAtBound, okWrong, g_canary, otherErr, firstBad, badErr);
    free(seqs); gfree(&gs);
}

static void dsweep(const char* api, const char* kind, size_t n, unsigned seed) {
    size_t bound = ZSTD_compressBound(n), cs; int ci; int okOverCap = 0, errAtFinal = 0, okWrong = 0, canary = 0, nOk = 0, nErr = 0, okBelow = 0, posOver = 0; long long firstBad = -1; int dict = !strcmp(api, "usingDict"); gbuf gsrc; int dmgOk = 0, dmgErr = 0, dmgOver = 0;
    vgen(kind, n, seed, src0);
    {   ZSTD_CCtx* c = ZSTD_createCCtx(); apply_params(c); if (dict) ZSTD_CCtx_loadDictionary(c, dictRaw, DICTRAW); cs = ZSTD_compress2(c, ref, bound + 64, src0, n); ZSTD_freeCCtx(c);
        if (ZSTD_isError(cs)) { fprintf(T, "{\"e\":\"dsweep\",\"api\":\"%s\",\"n\":%zu,\"refok\":false}\n", api, n); return; } }
    gsrc = galloc(cs); memcpy(gsrc.p, ref, cs);
    ncaps = 0; { long long c; for (c = 0; c <= 4; c++) addcap(c); for (c = (long long)n - 3; c <= (long long)n + 2; c++) addcap(c); addcap(n + 100); addcap(n / 2); addcap(131072); addcap(131071); addcap(131073); addcap(n > 131072 ? n - 131072 : 7); addcap(1024); addcap(1023); }
    for (ci = 0; ci < ncaps; ci++) { size_t cap = caps[ci]; gbuf gd = galloc(cap); ZSTD_DCtx* d = ZSTD_createDCtx(); size_t r = 0; unsigned char* whole = gd.p;
        snprintf(g_op, sizeof(g_op), "DSWEEP %s %s %zu %u cap=%zu", api, kind, n, seed, cap);
        if (!strcmp(api, "decompress")) r = ZSTD_decompress(gd.p, cap, gsrc.p, cs);
        else if (!strcmp(api, "dctx")) r = ZSTD_decompressDCtx(d, gd.p, cap, gsrc.p, cs);
        else if (dict) r = ZSTD_decompress_usingDict(d, gd.p, cap, gsrc.p, cs, dictRaw, DICTRAW);
        else if (!strcmp(api, "stream")) { ZSTD_inBuffer in; int guard = 0; size_t total = 0; in.src = gsrc.p; in.size = cs; in.pos = 0; r = 1;
            if (cap == 0) { ZSTD_freeDCtx(d); gfree(&gd); continue; }
            while (r != 0 && ++guard < 5000000) { gbuf go = galloc(cap); ZSTD_outBuffer ob; ob.dst = go.p; ob.size = cap; ob.pos = 0; r = ZSTD_decompressStream(d, &ob, &in); if (ob.pos > cap) posOver++; else if (total + ob.pos <= MAXN) { memcpy(tmp + total, go.p, ob.pos); total += ob.pos; }
                if (!gcheck(&go)) canary++; gfree(&go); if (ZSTD_isError(r)) break; if (ob.pos == 0 && in.pos == in.size) break; }
            if (!ZSTD_isError(r)) { whole = tmp; r = total; cap = total > cap ? total : cap; } }
        else if (!strcmp(api, "stableOut")) { ZSTD_inBuffer in; ZSTD_outBuffer ob; int guard = 0; ZSTD_DCtx_setParameter(d, ZSTD_d_stableOutBuffer, 1); in.src = gsrc.p; in.size = cs; in.pos = 0; ob.dst = gd.p; ob.size = cap; ob.pos = 0; r = 1;
            while (r != 0 && ++guard < 100000) { size_t before = ob.pos + in.pos; r = ZSTD_decompressStream(d, &ob, &in); if (ob.pos > cap) posOver++; if (ZSTD_isError(r)) break; if (ob.pos + in.pos == before) { r = (size_t)-ZSTD_error_dstSize_tooSmall; break; } }
            if (!ZSTD_isError(r)) r = ob.pos; }
        if (!gcheck(&gd)) canary++;
        if (ZSTD_isError(r)) { nErr++; if (caps[ci] >= n && strcmp(api, "stream")) { errAtFinal++; if (firstBad < 0) firstBad = (long long)caps[ci]; } }
        else { nOk++; if (r > cap) { okOverCap++; if (firstBad < 0) firstBad = (long long)caps[ci]; }
            else if (r != n || memcmp(whole, src0, n)) { if (caps[ci] < n && strcmp(api, "stream")) okBelow++; else okWrong++; if (firstBad < 0) firstBad = (long long)caps[ci]; } }
        ZSTD_freeDCtx(d); gfree(&gd); }
    /* damaged copies of the frame: any capacity; only "error or n <= capacity" and no access outside the buffers */
    {   unsigned x = seed * 2246822519u + 3; int k; for (k = 0; k < 24; k++) { size_t cap, r; gbuf gd, gs2; size_t cs2 = cs; ZSTD_DCtx* d = ZSTD_createDCtx();
            x = x * 1103515245u + 12345u; memcpy(tmp, ref, cs);
            if (k % 6 == 3 && cs > 6) cs2 = cs - 1 - (x >> 8) % 4;           /* the last 1..4 bytes (the checksum, when there is one) are missing */
            else if (k % 3 == 0 && cs > 2) cs2 = 1 + (x >> 8) % (cs - 1); else { int f; for (f = 0; f < 1 + k % 3; f++) { x = x * 1103515245u + 12345u; tmp[(x >> 8) % cs] ^= (unsigned char)(1u << ((x >> 4) & 7)); } }
            x = x * 1103515245u + 12345u; cap = (k & 1) ? n : (x >> 8) % (n + 2);
            gd = galloc(cap); gs2 = galloc(cs2); memcpy(gs2.p, tmp, cs2);
            if (k & 2) ZSTD_DCtx_setParameter(d, ZSTD_d_forceIgnoreChecksum, 1);      /* (ignoring the checksum must not mean reading where it would be) */
            snprintf(g_op, sizeof(g_op), "DSWEEP-damaged %s %s %zu %u k=%d cap=%zu", api, kind, n, seed, k, cap);
            if (!strcmp(api, "stream") || !strcmp(api, "stableOut")) { ZSTD_inBuffer in; ZSTD_outBuffer ob; int guard = 0; in.src = gs2.p; in.size = cs2; in.pos = 0; ob.dst = gd.p; ob.size = cap; ob.pos = 0; r = 1;
                while (r != 0 && ++guard < 100000) { size_t before = ob.pos + in.pos; r = ZSTD_decompressStream(d, &ob, &in); if (ob.pos > cap) dmgOver++; if (ZSTD_isError(r)) break; if (ob.pos + in.pos == before) break; } if (!ZSTD_isError(r)) r = ob.pos; }
            else if (dict) r = ZSTD_decompress_usingDict(d, gd.p, cap, gs2.p, cs2, dictRaw, DICTRAW);
            else r = ZSTD_decompressDCtx(d, gd.p, cap, gs2.p, cs2);
            if (ZSTD_isError(r)) dmgErr++; else { dmgOk++; if (r > cap) dmgOver++; }
            if (!gcheck(&gd)) canary++;
            ZSTD_freeDCtx(d); gfree(&gd); gfree(&gs2); } }
    fprintf(T, "{\"e\":\"dsweep\",\"api\":\"%s\",\"kind\":\"%s\",\"n\":%zu,\"refok\":true,\"csize\":%zu,\"ncaps\":%d,\"nOk\":%d,\"nErr\":%d,\"okOverCap\":%d,\"posOver\":%d,\"errAtFinal\":%d,\"okWrong\":%d,\"okBelow\":%d,\"canary\":%d,\"firstBad\":%lld,\"dmgOk\":%d,\"dmgErr\":%d,\"dmgOver\":%d}\n",
            api, kind, n, cs, ncaps, nOk, nErr, okOverCap, posOver, errAtFinal, okWrong, okBelow, canary, firstBad, dmgOk, dmgErr, dmgOver);
    gfree(&gsrc);
}

static void inspect(const char* args) {
    int nf, k, i; const char* q = args; size_t pos = 0, total = 0; size_t fstart[16], fsize[16], fdec[16]; int fskip[16]; int nfr = 0; unsigned char* F = ref; unsigned char* S = src0;
    int fcsOk = 1, fcsBad = 0, findOk = 1, consumedOk = 1; unsigned long long dbound, fds; size_t margin; int inplaceOk = 0; const char* inplaceErr = ""; int shortFail = 1;
    if (sscanf(q, "%d%n", &nf, &k) < 1 || nf > 7) return; q += k;
    for (i = 0; i < nf; i++) { char kind[16]; long n; unsigned seed; int level, wlog, flags; ZSTD_CCtx* c; size_t cs;
        if (sscanf(q, "%15s %ld %u %d %d %d%n", kind, &n, &seed, &level, &wlog, &flags, &k) < 6) return; q += k;
        if (total + (size_t)n > MAXN) n = (long)(MAXN - total);
        if (flags & 4) { size_t r = ZSTD_writeSkippableFrame(F + pos, 64, "skippable!", 10, 3); fstart[nfr] = pos; fsize[nfr] = r; fdec[nfr] = 0; fskip[nfr] = 1; nfr++; pos += r; }
        vgen(kind, (size_t)n, seed, S + total);
        c = ZSTD_createCCtx(); ZSTD_CCtx_setParameter(c, ZSTD_c_compressionLevel, level); if (wlog) ZSTD_CCtx_setParameter(c, ZSTD_c_windowLog, wlog);
        if (flags & 1) ZSTD_CCtx_setParameter(c, ZSTD_c_checksumFlag, 1); if (flags & 2) ZSTD_CCtx_setParameter(c, ZSTD_c_contentSizeFlag, 0);
        cs = ZSTD_compress2(c, F + pos, ZSTD_compressBound((size_t)n), S + total, (size_t)n); ZSTD_freeCCtx(c); if (ZSTD_isError(cs)) return;
        fstart[nfr] = pos; fsize[nfr] = cs; fdec[nfr] = (size_t)n; fskip[nfr] = 0; nfr++; pos += cs; total += (size_t)n; }
    snprintf(g_op, sizeof(g_op), "INSPECT %s", args);
    {   gbuf gF = galloc(pos); memcpy(gF.p, F, pos);
        for (i = 0; i < nfr; i++) { size_t fc = ZSTD_findFrameCompressedSize(gF.p + fstart[i], pos - fstart[i]); unsigned long long cz;
            if (fc != fsize[i]) findOk = 0;
            cz = ZSTD_getFrameContentSize(gF.p + fstart[i], pos - fstart[i]);
            if (!fskip[i]) { if (cz != ZSTD_CONTENTSIZE_UNKNOWN) { if (cz != fdec[i]) { fcsOk = 0; fcsBad++; } } }
            /* the decoder consumes exactly the frame: streaming decode of the rest stops (ret 0) after fsize[i] bytes */
            if (!fskip[i]) { ZSTD_DCtx* d = ZSTD_createDCtx(); ZSTD_inBuffer in; ZSTD_outBuffer ob; size_t r = 1; int guard = 0; in.src = gF.p + fstart[i]; in.size = pos - fstart[i]; in.pos = 0;
                while (r != 0 && ++guard < 100000) { ob.dst = tmp; ob.size = MAXN; ob.pos = 0; r = ZSTD_decompressStream(d, &ob, &in); if (ZSTD_isError(r)) break; }
                if (r != 0 || in.pos != fsize[i]) consumedOk = 0;
                /* and one byte less is not a frame */
                { size_t r2 = ZSTD_decompressDCtx(d, tmp, MAXN, gF.p + fstart[i], fsize[i] - 1); if (!ZSTD_isError(r2)) shortFail = 0; }
                ZSTD_freeDCtx(d); } }
        dbound = ZSTD_decompressBound(gF.p, pos); fds = ZSTD_findDecompressedSize(gF.p, pos); margin = ZSTD_decompressionMargin(gF.p, pos);
        if (!ZSTD_isError(margin)) { gbuf gb = galloc(total + margin); size_t r; memcpy(gb.p + total + margin - pos, gF.p, pos);
            r = ZSTD_decompress(gb.p, total + margin, gb.p + total + margin - pos, pos); inplaceOk = (!ZSTD_isError(r) && r == total && !memcmp(gb.p, S, total)); if (ZSTD_isError(r)) inplaceErr = ZSTD_getErrorName(r); else if (!inplaceOk) inplaceErr = "wrong bytes";
            if (!gcheck(&gb)) inplaceOk = 0; gfree(&gb); }
        gfree(&gF); }
    {   int anyUnknown = 0; for (i = 0; i < nfr; i++) if (!fskip[i]) { unsigned long long cz = ZSTD_getFrameContentSize(F + fstart[i], fsize[i]); if (cz == ZSTD_CONTENTSIZE_UNKNOWN) anyUnknown = 1; }
        fprintf(T, "{\"e\":\"inspect\",\"frames\":%d,\"total\":%zu,\"csize\":%zu,\"findOk\":%s,\"consumedOk\":%s,\"shortFail\":%s,\"fcsOk\":%s,\"boundOk\":%s,\"boundErr\":%s,\"anyUnknown\":%s,\"fdsKnown\":%s,\"fdsOk\":%s,\"marginErr\":%s,\"margin\":%zu,\"inplaceOk\":%s,\"inplaceErr\":\"%s\"}\n",
                nfr, total, pos, findOk ? "true" : "false", consumedOk ? "true" : "false", shortFail ? "true" : "false", fcsOk ? "true" : "false", (dbound != ZSTD_CONTENTSIZE_ERROR && dbound >= total) ? "true" : "false", dbound == ZSTD_CONTENTSIZE_ERROR ? "true" : "false",
                anyUnknown ? "true" : "false", (fds != ZSTD_CONTENTSIZE_UNKNOWN && fds != ZSTD_CONTENTSIZE_ERROR) ? "true" : "false", (fds == total) ? "true" : "false",
                ZSTD_isError(margin) ? "true" : "false", ZSTD_isError(margin) ? 0 : margin, inplaceOk ? "true" : "false", inplaceErr); }
}

int main(int argc, char** argv) {
    FILE* S; static char line[4096];
    if (argc < 3) return 2;
    S = fopen(argv[1], "r"); T = fopen(argv[2], "w"); if (!S || !T) return 2;
    setvbuf(T, NULL, _IOLBF, 0);
    src0 = malloc(MAXN + 64); ref = malloc(ZSTD_compressBound(MAXN) * 2 + 4096); tmp = malloc((size_t)3 << 22); dictRaw = malloc(DICTRAW); vgen("text", DICTRAW, 77, dictRaw); if (dictRaw[0] == 0x37) dictRaw[0] = 'x';
    while (fgets(line, sizeof(line), S)) { char cmd[16], api[24], kind[16]; long n; unsigned seed; int off = 0, k, i;
        if (sscanf(line, "%15s%n", cmd, &off) != 1) continue;
        if (!strcmp(cmd, "INSPECT")) { inspect(line + off); continue; }
        if (sscanf(line + off, "%23s %15s %ld %u %d%n", api, kind, &n, &seed, &np, &k) < 5 || np > 40 || n < 0 || (size_t)n > MAXN / 2) continue; off += k;
        for (i = 0; i < np; i++) { if (sscanf(line + off, "%d %d%n", &pk[i], &pv[i], &k) < 2) break; off += k; }
        fprintf(T, "{\"e\":\"op\",\"line\":\"%s %s %s %ld %u\"}\n", cmd, api, kind, n, seed);
        if (!strcmp(cmd, "CSWEEP")) csweep(api, kind, (size_t)n, seed); else if (!strcmp(cmd, "DSWEEP")) dsweep(api, kind, (size_t)n, seed);
    }
    fprintf(T, "{\"e\":\"end\"}\n"); fclose(T);
    return 0;
}
