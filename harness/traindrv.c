/* traindrv.c — dictionary training (property C18).
 * Sample sets and the dictionary buffer each end at an inaccessible page.  Every training entry point is run on degenerate and
 * ordinary sample sets under parameter vectors from the edges; a returned dictionary must load on both sides, carry one
 * non-zero ID for all queries, and round-trip every sample; single-threaded runs are repeated and compared.
 * With -DZSTD_VERIF_TRACE the job accounting events of the optimisers are logged (validated against CoverBest.tla); linked with
 * vsched.c the optimisers' worker threads run under seeded schedules.
 * usage: traindrv <script> <trace.ndjson>
 *   SAMPLES <kind> <nb> <minSize> <maxSize> <seed>      kind: text | records | rand | same | tiny | alpha2 | zero | mix
 *   TRAIN <algo> <capacity> <k> <d> <f> <accel> <steps> <split*100> <shrink> <nbThreads> <level>
 *        algo: default | cover | fastcover | optcover | optfast | legacy | finalize | addentropy
 *   FAILAT <n>      (built with -DTRAINDRV_FAULT and -Wl,--wrap=malloc,--wrap=calloc) the n-th allocation made inside the next
 *        training call returns NULL; 0 only counts.  The call must come back (error or dictionary) with every job accounted for.
 */
#define ZSTD_STATIC_LINKING_ONLY
#define ZDICT_STATIC_LINKING_ONLY
#include "zstd.h"
#include "zstd_errors.h"
#include "zdict.h"
#include "vgen.h"
#include <stdio.h>
#include <stdint.h>
#include <sys/mman.h>
#ifdef ZSTD_VERIF_TRACE
#include "../lib/common/zstd_verif.h"
#endif

static FILE* T;
#ifdef TRAINDRV_FAULT
#include <stdlib.h>
void* __real_malloc(size_t n); void* __real_calloc(size_t a, size_t b);
static volatile long g_armed = 0, g_failAt = 0, g_count = 0, g_failed = 0;      /* counted under whatever interleaving the threads have: the sweep covers every n */
void* __wrap_malloc(size_t n) { if (g_armed) { long c = __sync_add_and_fetch(&g_count, 1); if (c == g_failAt) { g_failed = 1; return NULL; } } return __real_malloc(n); }
void* __wrap_calloc(size_t a, size_t b) { if (g_armed) { long c = __sync_add_and_fetch(&g_count, 1); if (c == g_failAt) { g_failed = 1; return NULL; } } return __real_calloc(a, b); }
#endif
#define PAGE 4096
typedef struct { unsigned char* map; size_t mapSize; unsigned char* p; size_t size; } gbuf;
static gbuf galloc(size_t size) { gbuf g; size_t pages = (size + PAGE - 1) / PAGE + 1; g.mapSize = (pages + 1) * PAGE; g.map = mmap(NULL, g.mapSize, PROT_READ | PROT_WRITE, MAP_PRIVATE | MAP_ANONYMOUS, -1, 0);
    if (g.map == MAP_FAILED) { fprintf(stderr, "mmap failed\n"); exit(2); } mprotect(g.map + pages * PAGE, PAGE, PROT_NONE); g.p = g.map + pages * PAGE - size; g.size = size; return g; }
static void gfree(gbuf* g) { if (g->map) munmap(g->map, g->mapSize); g->map = NULL; }

static gbuf gS; static size_t* sizes; static unsigned nbSamples; static size_t totalSize; static char sKind[16];
#define MAXS 20000

#ifdef ZSTD_VERIF_TRACE
static volatile int g_hlock = 0; static const void* ids[64]; static int nids;
static int idof(const void* p) { int i; for (i = 0; i < nids; i++) if (ids[i] == p) return i; if (nids < 64) { ids[nids] = p; return nids++; } return 63; }
static void hook_cb(const char* ev, const void* ctx, long long a, long long b, long long c, long long d, long long e, long long f) {
    (void)f; if (ev[0] != 'c' || ev[1] != 'v') return;
    while (__atomic_exchange_n(&g_hlock, 1, __ATOMIC_ACQUIRE)) { }
    fprintf(T, "{\"e\":\"%s\",\"x\":%d,\"a\":%lld,\"b\":%lld,\"c\":%lld,\"d\":%lld,\"f\":%lld}\n", ev, idof(ctx), a, b, c, d, e);
    __atomic_store_n(&g_hlock, 0, __ATOMIC_RELEASE);
}
#endif

static void make_samples(const char* kind, unsigned nb, size_t mn, size_t mx, unsigned seed) {
    unsigned i; unsigned x = seed * 2654435761u + 1; size_t total = 0, pos = 0; static unsigned char* tmp = NULL; if (!tmp) tmp = malloc(1 << 22);
    if (nb > MAXS) nb = MAXS; free(sizes); sizes = malloc(sizeof(size_t) * (nb + 1));
    for (i = 0; i < nb; i++) { x = x * 1103515245u + 12345u; sizes[i] = mn + (mx > mn ? (x >> 8) % (mx - mn + 1) : 0); total += sizes[i]; if (total > (1u << 22)) { nb = i; total -= sizes[i]; break; } }
    gfree(&gS); gS = galloc(total); nbSamples = nb; totalSize = total; snprintf(sKind, sizeof(sKind), "%s", kind);
    for (i = 0; i < nb; i++) { size_t n = sizes[i]; unsigned char* d = gS.p + pos;
        if (!strcmp(kind, "same")) vgen("text", n, seed, d);                        /* all samples identical (prefixes of one text) */
        else if (!strcmp(kind, "tiny") || !strcmp(kind, "alpha2")) { size_t j; for (j = 0; j < n; j++) { x = x * 1103515245u + 12345u; d[j] = (unsigned char)('a' + ((x >> 16) & 1)); } }
        else if (!strcmp(kind, "zero")) memset(d, 0, n);
        else if (!strcmp(kind, "records")) { size_t j; vgen("records", n, seed + (i % 7), d); for (j = 0; j + 8 < n; j += 64) d[j] = (unsigned char)i; }
        else vgen(!strcmp(kind, "mix") ? "mix" : !strcmp(kind, "rand") ? "rand" : "text", n, seed + i * 7 + 1, d);
        pos += n; }
    (void)tmp;
}

typedef struct { size_t ret; unsigned char* dict; } trained;
static size_t train_once(const char* algo, gbuf* gd, size_t cap, unsigned k, unsigned d, unsigned f, unsigned accel, unsigned steps, double split, unsigned shrink, unsigned nbThreads, int level) {
    ZDICT_params_t zp; memset(&zp, 0, sizeof(zp)); zp.compressionLevel = level;
    if (!strcmp(algo, "default")) return ZDICT_trainFromBuffer(gd->p, cap, gS.p, sizes, nbSamples);
    if (!strcmp(algo, "legacy")) { ZDICT_legacy_params_t lp; memset(&lp, 0, sizeof(lp)); lp.selectivityLevel = k % 12; lp.zParams = zp; return ZDICT_trainFromBuffer_legacy(gd->p, cap, gS.p, sizes, nbSamples, lp); }
    if (!strcmp(algo, "finalize")) { size_t cs = totalSize < cap / 2 ? totalSize : cap / 2; return ZDICT_finalizeDictionary(gd->p, cap, gS.p, cs, gS.p, sizes, nbSamples, zp); }
    if (!strcmp(algo, "addentropy")) { size_t cs = totalSize < cap / 2 ? totalSize : cap / 2; if (cs > cap) cs = cap; memcpy(gd->p + cap - cs, gS.p, cs); return ZDICT_addEntropyTablesFromBuffer(gd->p, cs, cap, gS.p, sizes, nbSamples); }
    if (!strcmp(algo, "cover") || !strcmp(algo, "optcover")) { ZDICT_cover_params_t cp; memset(&cp, 0, sizeof(cp)); cp.k = k; cp.d = d; cp.steps = steps; cp.nbThreads = nbThreads; cp.splitPoint = split; cp.shrinkDict = shrink; cp.zParams = zp;
        return !strcmp(algo, "cover") ? ZDICT_trainFromBuffer_cover(gd->p, cap, gS.p, sizes, nbSamples, cp) : ZDICT_optimizeTrainFromBuffer_cover(gd->p, cap, gS.p, sizes, nbSamples, &cp); }
    {   ZDICT_fastCover_params_t fp; memset(&fp, 0, sizeof(fp)); fp.k = k; fp.d = d; fp.f = f; fp.accel = accel; fp.steps = steps; fp.nbThreads = nbThreads; fp.splitPoint = split; fp.shrinkDict = shrink; fp.zParams = zp;
        return !strcmp(algo, "fastcover") ? ZDICT_trainFromBuffer_fastCover(gd->p, cap, gS.p, sizes, nbSamples, fp) : ZDICT_optimizeTrainFromBuffer_fastCover(gd->p, cap, gS.p, sizes, nbSamples, &fp); }
}

int main(int argc, char** argv) {
    FILE* S; static char line[1024];
    if (argc < 3) return 2;
    S = fopen(argv[1], "r"); T = fopen(argv[2], "w"); if (!S || !T) return 2;
    setvbuf(T, NULL, _IOLBF, 0);
#ifdef ZSTD_VERIF_TRACE
    if (getenv("TRAINDRV_HOOKS")) ZSTD_verif_hook = hook_cb;
#endif
    while (fgets(line, sizeof(line), S)) { char cmd[16]; int off = 0;
        if (sscanf(line, "%15s%n", cmd, &off) != 1) continue;
        if (!strcmp(cmd, "SAMPLES")) { char kind[16]; unsigned nb, seed; long mn, mx; if (sscanf(line + off, "%15s %u %ld %ld %u", kind, &nb, &mn, &mx, &seed) == 5) { make_samples(kind, nb, (size_t)mn, (size_t)mx, seed);
                fprintf(T, "{\"e\":\"samples\",\"kind\":\"%s\",\"nb\":%u,\"total\":%zu}\n", kind, nbSamples, totalSize); } }
#ifdef TRAINDRV_FAULT
        else if (!strcmp(cmd, "FAILAT")) { long n = 0; sscanf(line + off, "%ld", &n); g_failAt = n; g_count = 0; g_failed = 0; g_armed = -1; }
#endif
        else if (!strcmp(cmd, "TRAIN")) { char algo[16]; long cap; unsigned k, d, f, accel, steps, split100, shrink, nbThreads; int level; gbuf gd, gd2; size_t r, r2 = 0; int isErr, loadsC = 0, loadsD = 0, rtAll = 1, rtFail = 0, repeatSame = 1, noRepeat = 0; unsigned idDict = 0, idC = 0, idD = 0; unsigned i;
            if (sscanf(line + off, "%15s %ld %u %u %u %u %u %u %u %u %d", algo, &cap, &k, &d, &f, &accel, &steps, &split100, &shrink, &nbThreads, &level) < 11 || cap < 0 || cap > (1 << 22)) continue;
            if (!gS.map) continue;
#ifdef ZSTD_VERIF_TRACE
            nids = 0;
#endif
            fprintf(T, "{\"e\":\"tbegin\",\"algo\":\"%s\",\"nbThreads\":%u}\n", algo, nbThreads);
            gd = galloc((size_t)cap);
#ifdef TRAINDRV_FAULT
            { int inject = g_armed == -1; if (inject) g_armed = 1;
#endif
            r = train_once(algo, &gd, (size_t)cap, k, d, f, accel, steps, split100 / 100.0, shrink, nbThreads, level); isErr = ZDICT_isError(r);
#ifdef TRAINDRV_FAULT
              if (inject) { g_armed = 0; fprintf(T, "{\"e\":\"fault\",\"failAt\":%ld,\"allocs\":%ld,\"failed\":%ld,\"isErr\":%s}\n", g_failAt, g_count, g_failed, isErr ? "true" : "false"); noRepeat = 1; } }
#endif
            if (!isErr && r > 0 && r <= (size_t)cap) { const unsigned char* dict = gd.p; size_t ds = r; ZSTD_CDict* cd; ZSTD_DDict* dd; size_t pos = 0; ZSTD_CCtx* c = ZSTD_createCCtx(); ZSTD_DCtx* dc = ZSTD_createDCtx(); static unsigned char *cb = NULL, *ob = NULL;
                if (!strcmp(algo, "addentropy")) { /* the dictionary sits at the start of the buffer */ }
                if (!cb) { cb = malloc(ZSTD_compressBound(1 << 22)); ob = malloc(1 << 22); }
                cd = ZSTD_createCDict(dict, ds, 3); dd = ZSTD_createDDict(dict, ds); loadsC = cd != NULL; loadsD = dd != NULL;
                idDict = ZDICT_getDictID(dict, ds); if (cd) idC = ZSTD_getDictID_fromCDict(cd); if (dd) idD = ZSTD_getDictID_fromDDict(dd);
                if (cd && dd) for (i = 0; i < nbSamples; i++) { size_t cs = ZSTD_compress_usingCDict(c, cb, ZSTD_compressBound(sizes[i]), gS.p + pos, sizes[i], cd); size_t rr;
                        if (ZSTD_isError(cs)) { rtAll = 0; rtFail++; } else { rr = ZSTD_decompress_usingDDict(dc, ob, sizes[i] + 8, cb, cs, dd); if (ZSTD_isError(rr) || rr != sizes[i] || memcmp(ob, gS.p + pos, sizes[i])) { rtAll = 0; rtFail++; } }
                        pos += sizes[i]; if (i > 400) break; }
                else rtAll = 0;
                ZSTD_freeCDict(cd); ZSTD_freeDDict(dd); ZSTD_freeCCtx(c); ZSTD_freeDCtx(dc); }
            if (nbThreads <= 1 && !noRepeat) { gd2 = galloc((size_t)cap); fprintf(T, "{\"e\":\"tbegin\",\"algo\":\"%s\",\"nbThreads\":%u}\n", algo, nbThreads);   /* (the repetition is a new optimiser call: new accounting) */
                r2 = train_once(algo, &gd2, (size_t)cap, k, d, f, accel, steps, split100 / 100.0, shrink, nbThreads, level);
                repeatSame = (ZDICT_isError(r) && ZDICT_isError(r2)) || (r == r2 && (isErr || r > (size_t)cap || !memcmp(gd.p, gd2.p, r))); gfree(&gd2); }
            fprintf(T, "{\"e\":\"train\",\"algo\":\"%s\",\"kind\":\"%s\",\"nb\":%u,\"total\":%zu,\"cap\":%ld,\"k\":%u,\"d\":%u,\"f\":%u,\"accel\":%u,\"steps\":%u,\"split\":%u,\"shrink\":%u,\"nbThreads\":%u,\"isErr\":%s,\"err\":\"%s\",\"size\":%zu,\"loadsC\":%s,\"loadsD\":%s,\"idDict\":%u,\"idC\":%u,\"idD\":%u,\"rtAll\":%s,\"rtFail\":%d,\"repeatSame\":%s}\n",
                    algo, sKind, nbSamples, totalSize, cap, k, d, f, accel, steps, split100, shrink, nbThreads, isErr ? "true" : "false", isErr ? ZDICT_getErrorName(r) : "", isErr ? 0 : r, loadsC ? "true" : "false", loadsD ? "true" : "false",
                    idDict & 0x7fffffff, idC & 0x7fffffff, idD & 0x7fffffff, rtAll ? "true" : "false", rtFail, repeatSame ? "true" : "false");
            gfree(&gd); }
    }
    fprintf(T, "{\"e\":\"end\"}\n"); fclose(T);
    return 0;
}
