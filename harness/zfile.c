/* zfile.c — library-level oracle for the CLI checks (C19): "does the library accept this file, and what does it decode to".
 * usage: zfile d <in> <out>    streaming decode of all frames of <in> into <out>; exit 0 = accepted, 1 = rejected
 *        zfile c <in> <out> <level>   one-shot compression with checksum */
#include "zstd.h"
#include <stdio.h>
#include <stdlib.h>
#include <string.h>
static unsigned char* slurp(const char* p, size_t* n) { FILE* f = fopen(p, "rb"); unsigned char* b; long s; if (!f) return NULL; fseek(f, 0, SEEK_END); s = ftell(f); fseek(f, 0, SEEK_SET);
    b = (unsigned char*)malloc(s ? s : 1); *n = fread(b, 1, s, f); fclose(f); return b; }
int main(int argc, char** argv) {
    size_t n; unsigned char* in;
    if (argc < 4) return 2;
    in = slurp(argv[2], &n); if (!in) return 2;
    if (argv[1][0] == 'c') { size_t cap = ZSTD_compressBound(n); void* o = malloc(cap); ZSTD_CCtx* c = ZSTD_createCCtx(); size_t r; FILE* f;
        ZSTD_CCtx_setParameter(c, ZSTD_c_compressionLevel, argc > 4 ? atoi(argv[4]) : 3); ZSTD_CCtx_setParameter(c, ZSTD_c_checksumFlag, 1);
        r = ZSTD_compress2(c, o, cap, in, n); if (ZSTD_isError(r)) return 1; f = fopen(argv[3], "wb"); fwrite(o, 1, r, f); fclose(f); return 0; }
    { ZSTD_DCtx* d = ZSTD_createDCtx(); FILE* f = fopen(argv[3], "wb"); size_t cap = 1 << 17; void* o = malloc(cap); ZSTD_inBuffer ib; size_t last = 0; int any = 0;
      ZSTD_DCtx_setParameter(d, ZSTD_d_windowLogMax, 31);
      ib.src = in; ib.size = n; ib.pos = 0;
      if (n == 0) { fclose(f); return 1; }
      while (ib.pos < ib.size || last != 0) { ZSTD_outBuffer ob; size_t p0 = ib.pos; ob.dst = o; ob.size = cap; ob.pos = 0;
          last = ZSTD_decompressStream(d, &ob, &ib); if (ZSTD_isError(last)) { fclose(f); return 1; }
          fwrite(o, 1, ob.pos, f); any = 1;
          if (ib.pos == p0 && ob.pos == 0) break; }
      fclose(f); (void)any; return last == 0 ? 0 : 1; }
}
