/* seekdrv.c — seekable format (property C20): archives built by the real seekable compressor under call histories, an
 * independent walk of frames + seek table, a regular decoder, read histories through the three access modes with the reader's
 * cursor exposed (unity build of contrib/seekable_format), and field-level corruptions.
 * usage: seekdrv <script> <trace.ndjson>
 *   ARCH <level> <checksum> <maxFrame> <kind> <size> <seed> <chunk> <outcap> [endFrameOffset ...]
 *   WALK | REG | FRAMES
 *   READ <buff|file|cb> off:len [off:len ...]
 *   CORRUPT <what> <a> <b> off:len...   what: flip (byte a ^= b) | trunc (drop last a bytes) | nframes (footer numFrames = a) | word (a-th 32-bit word of the table = b) */
#define ZSTD_STATIC_LINKING_ONLY
#include "zstdseek_compress.c"
#undef ERROR
#undef CHECK_Z
#undef CHECK_IO
#include "zstdseek_decompress.c"
#include "vgen.h"
#include <stdio.h>
#include <string.h>

#define MAXN (1u << 22)
static unsigned char *src, *arch, *out; static size_t srcSize, archSize; static FILE* T; static int chk; static unsigned maxFrame;
static unsigned long long bounds[1 << 16]; static unsigned nbounds;   /* decompressed frame boundaries of the intact archive */
static int g_inTable = 0; static size_t g_tableStart = 0;
static int isBound(unsigned long long x) { unsigned i; for (i = 0; i < nbounds; i++) if (bounds[i] == x) return 1; return 0; }

static unsigned rd32(const unsigned char* p) { return p[0] | (p[1] << 8) | (p[2] << 16) | ((unsigned)p[3] << 24); }

/* callback access: a cursor over the archive in memory */
typedef struct { const unsigned char* p; size_t n; long long pos; } cbf;
static int cb_read(void* o, void* b, size_t n) { cbf* f = (cbf*)o; if (f->pos < 0 || (size_t)f->pos + n > f->n) return -1; memcpy(b, f->p + f->pos, n); f->pos += (long long)n; return 0; }
static int cb_seek(void* o, long long off, int origin) { cbf* f = (cbf*)o; long long np = origin == SEEK_SET ? off : origin == SEEK_CUR ? f->pos + off : (long long)f->n + off; if (np < 0 || (size_t)np > f->n) return -1; f->pos = np; return 0; }

static void do_reads(const char* mode, const unsigned char* a, size_t an, const char* p, const char* tag) {
    ZSTD_seekable* zs = ZSTD_seekable_create(); size_t r = 0; FILE* f = NULL; cbf cf; unsigned long long off, len; int k; int first = 1;
    if (!strcmp(mode, "buff")) r = ZSTD_seekable_initBuff(zs, a, an);
    else if (!strcmp(mode, "file")) { f = tmpfile(); if (an) fwrite(a, 1, an, f); fflush(f); rewind(f); r = ZSTD_seekable_initFile(zs, f); }
    else { ZSTD_seekable_customFile c; cf.p = a; cf.n = an; cf.pos = 0; c.opaque = &cf; c.read = cb_read; c.seek = cb_seek; r = ZSTD_seekable_initAdvanced(zs, c); }
    fprintf(T, "{\"e\":\"%sinit\",\"mode\":\"%s\",\"ok\":%s,\"err\":\"%s\",\"nframes\":%u}\n", tag, mode, ZSTD_isError(r) ? "false" : "true", ZSTD_isError(r) ? ZSTD_getErrorName(r) : "", ZSTD_isError(r) ? 0 : ZSTD_seekable_getNumFrames(zs));
    while (!ZSTD_isError(r) && sscanf(p, " %llu:%llu%n", &off, &len, &k) == 2) { size_t rr; p += k; (void)first;
        if (len > MAXN) len = MAXN;
        memset(out, 0xEE, len + 1);
        rr = ZSTD_seekable_decompress(zs, out, (size_t)len, off);
        fprintf(T, "{\"e\":\"%sread\",\"mode\":\"%s\",\"off\":%llu,\"len\":%llu,\"ok\":%s,\"ret\":%lld,\"match\":%s,\"curFrame\":%u,\"dOff\":%llu,\"guard\":%s,\"whole\":%s,\"tableDamaged\":%s,\"err\":\"%s\"}\n", tag, mode, off, len,
                ZSTD_isError(rr) ? "false" : "true", ZSTD_isError(rr) ? -1LL : (long long)rr,
                (!ZSTD_isError(rr) && rr <= len && off + rr <= srcSize && !memcmp(out, src + off, rr)) ? "true" : "false", zs->curFrame, (unsigned long long)zs->decompressedOffset,
                out[len] == 0xEE ? "true" : "false", (isBound(off) && isBound(off + len)) ? "true" : "false", g_inTable ? "true" : "false", ZSTD_isError(rr) ? ZSTD_getErrorName(rr) : ""); }
    ZSTD_seekable_free(zs); if (f) fclose(f);
}

int main(int argc, char** argv) {
    FILE* S; static char line[4096];
    if (argc < 3) return 2;
    S = fopen(argv[1], "r"); T = fopen(argv[2], "w"); if (!S || !T) return 2;
    if (getenv("STREAMDRV_LB")) setvbuf(T, NULL, _IOLBF, 0);
    src = malloc(MAXN); arch = malloc(2 * MAXN + 65536); out = malloc(MAXN + 64);
    while (fgets(line, sizeof(line), S)) {
        char cmd[16]; int off = 0;
        if (sscanf(line, "%15s%n", cmd, &off) != 1) continue;
        if (!strcmp(cmd, "ARCH")) { int level, k; char kind[32]; long size, chunk, outcap; unsigned seed; const char* p; long ends[256]; int ne = 0, ei = 0; ZSTD_seekable_CStream* zcs; size_t r = 0; size_t pos = 0; int guard = 0; int nEndCalls = 0;
            if (sscanf(line + off, "%d %d %u %31s %ld %u %ld %ld%n", &level, &chk, &maxFrame, kind, &size, &seed, &chunk, &outcap, &k) < 8) continue;
            p = line + off + k; { long e; int kk; while (ne < 256 && sscanf(p, " %ld%n", &e, &kk) == 1) { ends[ne++] = e; p += kk; } }
            if ((size_t)size > MAXN) size = MAXN; srcSize = (size_t)size; vgen(kind, srcSize, seed, src); archSize = 0;
            /* one compressor object for all the archives of a script (re-initialised each time, as the header allows), unless SEEKDRV_FRESH is set */
            { static ZSTD_seekable_CStream* shared = NULL; if (getenv("SEEKDRV_FRESH")) zcs = ZSTD_seekable_createCStream(); else { if (!shared) shared = ZSTD_seekable_createCStream(); zcs = shared; } }
            r = ZSTD_seekable_initCStream(zcs, level, chk, maxFrame);
            while (!ZSTD_isError(r) && pos < srcSize && ++guard < 10000000) { ZSTD_inBuffer in; ZSTD_outBuffer ob; size_t upto = pos + (size_t)chunk > srcSize ? srcSize : pos + (size_t)chunk;
                if (ei < ne && (size_t)ends[ei] >= pos && (size_t)ends[ei] < upto) upto = (size_t)ends[ei] > pos ? (size_t)ends[ei] : upto;
                in.src = src; in.size = upto; in.pos = pos; ob.dst = arch + archSize; ob.size = (size_t)outcap; ob.pos = 0;
                r = ZSTD_seekable_compressStream(zcs, &ob, &in); archSize += ob.pos; pos = in.pos;
                while (!ZSTD_isError(r) && ei < ne && (size_t)ends[ei] == pos) { size_t rr; do { ob.dst = arch + archSize; ob.size = (size_t)outcap; ob.pos = 0; rr = ZSTD_seekable_endFrame(zcs, &ob); archSize += ob.pos; } while (!ZSTD_isError(rr) && rr != 0 && ++guard < 10000000); if (ZSTD_isError(rr)) r = rr; ei++; nEndCalls++; } }
            while (!ZSTD_isError(r) && ++guard < 10000000) { ZSTD_outBuffer ob; ob.dst = arch + archSize; ob.size = (size_t)outcap; ob.pos = 0; r = ZSTD_seekable_endStream(zcs, &ob); archSize += ob.pos; if (r == 0) break; }
            fprintf(T, "{\"e\":\"arch\",\"ok\":%s,\"err\":\"%s\",\"size\":%zu,\"csize\":%zu,\"maxFrame\":%u,\"checksum\":%d,\"endCalls\":%d}\n", ZSTD_isError(r) ? "false" : "true", ZSTD_isError(r) ? ZSTD_getErrorName(r) : "", srcSize, archSize, maxFrame, chk, nEndCalls);
            if (getenv("SEEKDRV_FRESH")) ZSTD_seekable_freeCStream(zcs);
            { ZSTD_seekable* z2 = ZSTD_seekable_create(); nbounds = 0; if (!ZSTD_isError(ZSTD_seekable_initBuff(z2, arch, archSize))) { unsigned i, n = ZSTD_seekable_getNumFrames(z2); for (i = 0; i <= n && i < (1 << 16) - 1; i++) bounds[nbounds++] = i < n ? ZSTD_seekable_getFrameDecompressedOffset(z2, i) : srcSize; } ZSTD_seekable_free(z2); }
        } else if (!strcmp(cmd, "WALK")) {
            /* independent parse: zstd frames until the skippable seek-table frame; then the table as the format document lays it out */
            size_t at = 0; unsigned nf = 0; int okWalk = 1; unsigned long long sumC = 0, sumD = 0; int tableOK = 0; unsigned tn = 0; int consistent = 1; unsigned maxD = 0;
            static unsigned cs[1 << 16];
            while (at + 4 <= archSize) { unsigned m = rd32(arch + at); if ((m & 0xFFFFFFF0u) == 0x184D2A50u) break;
                { size_t fsz = ZSTD_findFrameCompressedSize(arch + at, archSize - at); if (ZSTD_isError(fsz)) { okWalk = 0; break; } if (nf < (1 << 16)) cs[nf] = (unsigned)fsz; nf++; at += fsz; } }
            if (okWalk && at + 8 <= archSize && rd32(arch + at) == 0x184D2A5Eu) { unsigned fsz = rd32(arch + at + 4); const unsigned char* t = arch + at + 8; const unsigned char* foot = arch + archSize - 9;
                if (at + 8 + fsz == archSize && fsz >= 9 && rd32(foot + 5) == 0x8F92EAB1u) { unsigned i; int cflag = foot[4] >> 7; unsigned per = 8 + (cflag ? 4 : 0); tn = rd32(foot); tableOK = (fsz == tn * per + 9) && cflag == chk;
                    for (i = 0; tableOK && i < tn; i++) { unsigned c = rd32(t + i * per), d = rd32(t + i * per + 4); sumC += c; sumD += d; if (d > maxD) maxD = d; if (i < nf && c != cs[i]) consistent = 0; } } }
            { ZSTD_seekable* zs = ZSTD_seekable_create(); size_t r = ZSTD_seekable_initBuff(zs, arch, archSize); unsigned i; int accOK = !ZSTD_isError(r);
              if (accOK) { unsigned long long co = 0, dof = 0; if (ZSTD_seekable_getNumFrames(zs) != tn) accOK = 0;
                  for (i = 0; accOK && i < tn; i++) { const unsigned char* t = arch + at + 8; unsigned per = 8 + (chk ? 4 : 0); unsigned c = rd32(t + i * per), d = rd32(t + i * per + 4);
                      if (ZSTD_seekable_getFrameCompressedOffset(zs, i) != co || ZSTD_seekable_getFrameDecompressedOffset(zs, i) != dof || ZSTD_seekable_getFrameCompressedSize(zs, i) != c || ZSTD_seekable_getFrameDecompressedSize(zs, i) != d) accOK = 0;
                      if (d > 0 && ZSTD_seekable_offsetToFrameIndex(zs, dof) != i) accOK = 0;
                      co += c; dof += d; } }
              g_tableStart = at;
              fprintf(T, "{\"e\":\"table\",\"walkOK\":%s,\"frames\":%u,\"tableOK\":%s,\"entries\":%u,\"consistent\":%s,\"sumC\":%llu,\"sumD\":%llu,\"tableStart\":%zu,\"maxD\":%u,\"accessorsOK\":%s,\"sizes\":[", okWalk ? "true" : "false", nf, tableOK ? "true" : "false", tn,
                      consistent ? "true" : "false", sumC, sumD, at, maxD, accOK ? "true" : "false");
              { unsigned per = 8 + (chk ? 4 : 0); const unsigned char* t = arch + at + 8; for (i = 0; tableOK && i < tn && i < 4000; i++) fprintf(T, "%s%u", i ? "," : "", rd32(t + i * per + 4)); }
              fprintf(T, "]}\n");
              ZSTD_seekable_free(zs); }
        } else if (!strcmp(cmd, "REG")) { ZSTD_DCtx* d = ZSTD_createDCtx(); ZSTD_inBuffer in; size_t total = 0, r = 1; int guard = 0;
            in.src = arch; in.size = archSize; in.pos = 0;
            while (in.pos < in.size && ++guard < 10000000) { ZSTD_outBuffer ob; ob.dst = out + total; ob.size = MAXN + 64 - total; ob.pos = 0; r = ZSTD_decompressStream(d, &ob, &in); if (ZSTD_isError(r)) break; total += ob.pos; }
            fprintf(T, "{\"e\":\"regular\",\"ok\":%s,\"match\":%s}\n", (!ZSTD_isError(r) && r == 0) ? "true" : "false", (total == srcSize && !memcmp(out, src, srcSize)) ? "true" : "false");
            ZSTD_freeDCtx(d);
        } else if (!strcmp(cmd, "READ")) { char mode[16]; int k;
            if (sscanf(line + off, "%15s%n", mode, &k) != 1) continue;
            do_reads(mode, arch, archSize, line + off + k, "");
        } else if (!strcmp(cmd, "FRAMES")) { ZSTD_seekable* zs = ZSTD_seekable_create(); size_t r = ZSTD_seekable_initBuff(zs, arch, archSize); unsigned i, n = ZSTD_isError(r) ? 0 : ZSTD_seekable_getNumFrames(zs); int ok = !ZSTD_isError(r);
            for (i = 0; ok && i < n; i++) { size_t ds = ZSTD_seekable_getFrameDecompressedSize(zs, i); unsigned long long dof = ZSTD_seekable_getFrameDecompressedOffset(zs, i); size_t rr = ZSTD_seekable_decompressFrame(zs, out, ds, i);
                if (ZSTD_isError(rr) || rr != ds || memcmp(out, src + dof, ds)) ok = 0; }
            fprintf(T, "{\"e\":\"frames\",\"n\":%u,\"ok\":%s}\n", n, ok ? "true" : "false"); ZSTD_seekable_free(zs);
        } else if (!strcmp(cmd, "CORRUPT")) { char what[16], mode[16]; long a, b; int k; unsigned char* c2; size_t n2 = archSize;
            if (sscanf(line + off, "%15s %15s %ld %ld%n", what, mode, &a, &b, &k) < 4) continue;
            c2 = malloc(archSize + 16); memcpy(c2, arch, archSize);
            g_inTable = 1;
            if (!strcmp(what, "flip") && archSize) { c2[(size_t)a % archSize] ^= (unsigned char)(b ? b : 1); g_inTable = ((size_t)a % archSize) >= g_tableStart; }
            else if (!strcmp(what, "trunc")) n2 = archSize > (size_t)a ? archSize - (size_t)a : 0;
            else if (!strcmp(what, "nframes") && archSize >= 9) { unsigned v = (unsigned)a; unsigned char* f = c2 + archSize - 9; f[0] = v & 255; f[1] = (v >> 8) & 255; f[2] = (v >> 16) & 255; f[3] = (v >> 24) & 255; }
            else if (!strcmp(what, "word")) { /* a-th 32-bit word counted backwards from the footer */ size_t posw = archSize >= 9 + 4 * ((size_t)a + 1) ? archSize - 9 - 4 * ((size_t)a + 1) : 0; unsigned v = (unsigned)b; c2[posw] = v & 255; c2[posw+1] = (v >> 8) & 255; c2[posw+2] = (v >> 16) & 255; c2[posw+3] = (v >> 24) & 255; }
            fprintf(T, "{\"e\":\"corrupt\",\"what\":\"%s\",\"a\":%ld,\"b\":%ld,\"checksum\":%d,\"size\":%zu}\n", what, a, b, chk, n2);
            { unsigned char* exact = malloc(n2 ? n2 : 1); memcpy(exact, c2, n2); do_reads(mode, exact, n2, line + off + k, "c"); free(exact); }
            free(c2);
        }
    }
    fprintf(T, "{\"e\":\"end\"}\n"); fclose(T);
    return 0;
}
