/* seqdrv.c — sequence-level compression cases (property C17).
 * usage: seqdrv <script> <trace.ndjson>
 *   SEQ <wlog> <minMatch> <delim> <repSearch> <dictSize> <validate> <srcSize> <seed> <level> ll:ml:off[,ll:ml:off...]
 *        the source is BUILT from the list: literals are random bytes, a match copies from the history (dictionary included)
 *        when its offset is reachable, else random bytes; the tail up to srcSize is random literals.
 *        delim=1: entries with ml=0,off=0 are block delimiters (their ll = last literals of the block).
 *   GEN <wlog> <minMatch> <delim> <repSearch> <kind> <srcSize> <seed> <level> <genLevel>
 *        sequences extracted by the library itself (ZSTD_generateSequences, optionally ZSTD_mergeBlockDelimiters)
 *   DSEQ <level> <delim> <validate> <dictContentSize> <srcSize> <seed> <repSearch> <cdict> <litBlocks>
 *        a zstd-format dictionary (ZDICT_finalizeDictionary: entropy tables + content) and a multi-block source built in this driver
 *        from a random valid parse whose matches reach recent data, the start of the source and the dictionary content - in later
 *        blocks with offsets larger than dictionary content + 128 KiB, i.e. offset codes the dictionary's table does not contain
 *        litBlocks -1 (with delimiters): a 5-byte first block, and every block closes with a 4-byte match that reaches the first byte of the dictionary
 *        content (the largest offset the position allows); otherwise
 *        litBlocks: that many leading 128 KiB blocks hold literals only (they are emitted raw, so the dictionary's tables are still unused after them)
 *   PROD <wlog> <level> <kind> <srcSize> <seed> <maxSeqPerBlock> <failBlock> <fallback> <repSearch>
 *        ZSTD_compress2 with a registered external sequence producer (a small greedy parser inside this driver that
 *        returns at most maxSeqPerBlock sequences per block and fails on block number failBlock, -1 = never) */
#define ZSTD_STATIC_LINKING_ONLY
#include "zstd.h"
#include "zstd_errors.h"
#include "zdict.h"
#include "refdec.h"
#include "vgen.h"
#include <stdio.h>

#define MAXN (1u << 22)
static unsigned char *src, *comp, *out, *dict; static FILE* T;
static unsigned rx; static unsigned rnd(void) { rx = rx * 1103515245u + 12345u; return (rx >> 16) & 0x7fff; }

static const unsigned char* g_fdict; static size_t g_fdictSize;      /* formatted dictionary of a DSEQ case */
static void verify(const char* tag, size_t r, size_t srcSize, size_t dictSize, int wlog) {
    if (ZSTD_isError(r)) return;
    { ZSTD_DCtx* d = ZSTD_createDCtx(); size_t lr, rr; ZSTD_DCtx_setParameter(d, ZSTD_d_windowLogMax, 31);
      if (g_fdict) ZSTD_DCtx_loadDictionary(d, g_fdict, g_fdictSize); else
      if (dictSize) ZSTD_DCtx_refPrefix(d, dict, dictSize);
      lr = ZSTD_decompressDCtx(d, out, srcSize + 64, comp, r);
      fprintf(T, "{\"e\":\"libdec\",\"ok\":%s,\"match\":%s,\"err\":\"%s\"}\n", ZSTD_isError(lr) ? "false" : "true", (!ZSTD_isError(lr) && lr == srcSize && !memcmp(out, src, srcSize)) ? "true" : "false", ZSTD_isError(lr) ? ZSTD_getErrorName(lr) : "");
      ZSTD_freeDCtx(d);
      REF_set_trace(T, 0); memset(out, 0xEE, srcSize + 64);
      rr = g_fdict ? REF_decode_all(out, srcSize + 64, comp, r, g_fdict, g_fdictSize) : REF_decode_all(out, srcSize + 64, comp, r, dictSize ? dict : NULL, dictSize);
      REF_set_trace(NULL, 0);
      fprintf(T, "{\"e\":\"refdec\",\"ok\":%s,\"match\":%s,\"why\":\"%s\",\"magicless\":0}\n", rr == (size_t)-1 ? "false" : "true", (rr == srcSize && !memcmp(out, src, srcSize)) ? "true" : "false", rr == (size_t)-1 ? REF_last_error() : ""); }
    (void)tag; (void)wlog;
}

/* ---- a tiny greedy parser used as external sequence producer ---- */
static int g_maxSeq = 1 << 30, g_failBlock = -1, g_blockNo = 0, g_prodCalls = 0, g_prodFails = 0;
static size_t producer(void* st, ZSTD_Sequence* outSeqs, size_t outCap, const void* s, size_t n, const void* d, size_t dn, int level, size_t windowSize) {
    const unsigned char* p = (const unsigned char*)s; size_t i = 0, lit = 0, k = 0; static int head[1 << 14];
    (void)st; (void)d; (void)dn; (void)level; (void)windowSize;
    g_prodCalls++;
    if (g_blockNo++ == g_failBlock) { g_prodFails++; return ZSTD_SEQUENCE_PRODUCER_ERROR; }
    memset(head, 0xff, sizeof(head));
    while (i + 4 <= n && k + 1 < outCap && (int)k < g_maxSeq) { unsigned h = ((p[i] | (p[i+1] << 8) | (p[i+2] << 16) | ((unsigned)p[i+3] << 24)) * 2654435761u) >> 18; int c = head[h]; head[h] = (int)i;
        if (c >= 0 && !memcmp(p + c, p + i, 4)) { size_t ml = 4; while (i + ml < n && p[c + ml] == p[i + ml]) ml++;
            outSeqs[k].offset = (unsigned)(i - (size_t)c); outSeqs[k].litLength = (unsigned)lit; outSeqs[k].matchLength = (unsigned)ml; outSeqs[k].rep = 0; k++; i += ml; lit = 0; }
        else { i++; lit++; } }
    lit += n - i;
    outSeqs[k].offset = 0; outSeqs[k].matchLength = 0; outSeqs[k].litLength = (unsigned)lit; outSeqs[k].rep = 0; k++;
    return k;
}

int main(int argc, char** argv) {
    FILE* S; static char line[1 << 16]; int no = 0;
    if (argc < 3) return 2;
    S = fopen(argv[1], "r"); T = fopen(argv[2], "w"); if (!S || !T) return 2;
    if (getenv("STREAMDRV_LB")) setvbuf(T, NULL, _IOLBF, 0);
    src = malloc(MAXN); comp = malloc(ZSTD_compressBound(MAXN) + 1024); out = malloc(MAXN + 64); dict = malloc(1 << 20);
    while (fgets(line, sizeof(line), S)) {
        if (!strncmp(line, "SEQ ", 4)) {
            int wlog, minMatch, delim, rep, validate, level, off = 0; long dictSize, srcSize; unsigned seed; static ZSTD_Sequence seqs[4096]; size_t ns = 0; size_t pos = 0; size_t r; ZSTD_CCtx* c;
            const char* p;
            if (sscanf(line + 4, "%d %d %d %d %ld %d %ld %u %d%n", &wlog, &minMatch, &delim, &rep, &dictSize, &validate, &srcSize, &seed, &level, &off) < 9) continue;
            p = line + 4 + off; { unsigned a, b, cc; int k; while (ns < 4095 && sscanf(p, " %u:%u:%u%n", &a, &b, &cc, &k) == 3) { seqs[ns].litLength = a; seqs[ns].matchLength = b; seqs[ns].offset = cc; seqs[ns].rep = 0; ns++; p += k; if (*p == ',') p++; } }
            rx = seed * 2654435761u + 99;
            { long i; for (i = 0; i < dictSize; i++) dict[i] = (unsigned char)(rnd() >> 3); }
            /* build the source from the list */
            { size_t i; for (i = 0; i < ns && pos < (size_t)srcSize; i++) { size_t j; size_t ll = seqs[i].litLength, ml = seqs[i].matchLength, of = seqs[i].offset;
                  for (j = 0; j < ll && pos < (size_t)srcSize; j++) src[pos++] = (unsigned char)(rnd() >> 3);
                  for (j = 0; j < ml && pos < (size_t)srcSize; j++) { unsigned char b;
                      if (of >= 1 && of <= pos) b = src[pos - of]; else if (of >= 1 && of <= pos + (size_t)dictSize) b = dict[(size_t)dictSize - (of - pos)]; else b = (unsigned char)(rnd() >> 3);
                      src[pos++] = b; } }
              while (pos < (size_t)srcSize) src[pos++] = (unsigned char)(rnd() >> 3); }
            c = ZSTD_createCCtx();
            ZSTD_CCtx_setParameter(c, ZSTD_c_compressionLevel, level); ZSTD_CCtx_setParameter(c, ZSTD_c_windowLog, wlog); ZSTD_CCtx_setParameter(c, ZSTD_c_minMatch, minMatch);
            ZSTD_CCtx_setParameter(c, ZSTD_c_blockDelimiters, delim); ZSTD_CCtx_setParameter(c, ZSTD_c_validateSequences, validate); ZSTD_CCtx_setParameter(c, ZSTD_c_searchForExternalRepcodes, rep);
            ZSTD_CCtx_setParameter(c, ZSTD_c_checksumFlag, 1);
            if (dictSize) { if (getenv("SEQDRV_PREFIX")) ZSTD_CCtx_refPrefix(c, dict, (size_t)dictSize); else ZSTD_CCtx_loadDictionary_advanced(c, dict, (size_t)dictSize, ZSTD_dlm_byRef, ZSTD_dct_rawContent); }
            r = ZSTD_compressSequences(c, comp, ZSTD_compressBound(srcSize) + 1024, seqs, ns, src, (size_t)srcSize);
            fprintf(T, "{\"e\":\"seqcase\",\"no\":%d,\"wlog\":%d,\"win\":%d,\"minMatch\":%d,\"delim\":%d,\"rep\":%d,\"dict\":%ld,\"validate\":%d,\"srcSize\":%ld,\"level\":%d,\"blockSize\":%d,\"ok\":%s,\"err\":\"%s\",\"list\":[",
                    no++, wlog, 1 << wlog, minMatch, delim, rep, dictSize, validate, srcSize, level, (1 << wlog) < 131072 ? (1 << wlog) : 131072, ZSTD_isError(r) ? "false" : "true", ZSTD_isError(r) ? ZSTD_getErrorName(r) : "");
            { size_t i; for (i = 0; i < ns; i++) fprintf(T, "%s{\"ll\":%u,\"ml\":%u,\"off\":%u}", i ? "," : "", seqs[i].litLength, seqs[i].matchLength, seqs[i].offset); }
            fprintf(T, "]}\n");
            verify("seq", r, (size_t)srcSize, (size_t)dictSize, wlog);
            ZSTD_freeCCtx(c);
        } else if (!strncmp(line, "DSEQ ", 5)) {
            int level, delim, validate, rep, useCDict = 0, litBlocks = 0; long dcs, srcSize; unsigned seed; size_t ns = 0, pos = 0, bend, r, fds, cap; ZSTD_CCtx* c; ZSTD_CDict* cd = NULL;
            ZSTD_Sequence* seqs; unsigned char* fd; unsigned lastOff = 1;
            if (sscanf(line + 5, "%d %d %d %ld %ld %u %d %d %d", &level, &delim, &validate, &dcs, &srcSize, &seed, &rep, &useCDict, &litBlocks) < 7) continue;
            if (dcs < 64 || dcs > (1 << 19) || srcSize < 1000 || (size_t)srcSize > MAXN) continue;
            rx = seed * 2654435761u + 7;
            { long i; for (i = 0; i < dcs; i++) dict[i] = (unsigned char)(rnd() >> 3); }
            seqs = malloc(sizeof(ZSTD_Sequence) * ((size_t)srcSize / 4 + 16));
            bend = 131072 < (size_t)srcSize ? 131072 : (size_t)srcSize;
            { size_t carry = 0; int forceFar = litBlocks < 0;       /* litBlocks -1: a 5-byte first block (explicit delimiters), and every block ends with a 4-byte match reaching the first dictionary byte */
            if (litBlocks == -1 && delim) { size_t j; for (j = 0; j < 5; j++) src[pos++] = (unsigned char)(rnd() >> 3); seqs[ns].litLength = 5; seqs[ns].matchLength = 0; seqs[ns].offset = 0; seqs[ns].rep = 0; ns++; bend = pos + 131072 < (size_t)srcSize ? pos + 131072 : (size_t)srcSize; }
            while (litBlocks > 0 && pos + 131072 + 1000 < (size_t)srcSize) { size_t j; for (j = 0; j < 131072; j++) src[pos++] = (unsigned char)(rnd() >> 3);
                if (delim) { seqs[ns].litLength = 131072; seqs[ns].matchLength = 0; seqs[ns].offset = 0; seqs[ns].rep = 0; ns++; } else carry += 131072;
                bend = pos + 131072 < (size_t)srcSize ? pos + 131072 : (size_t)srcSize; litBlocks--; }
            while (pos + 80 < (size_t)srcSize) {
                size_t ll = (rnd() % 9 == 0) ? 0 : rnd() % 400, ml = 4 + rnd() % 60, maxOff, of, j; unsigned cls = rnd() % 8;
                if (delim && pos + ll + ml > bend) {      /* close the block: its last literals, then the next block */
                    size_t rest = bend - pos;
                    if (forceFar && rest >= 4) { for (j = 0; j + 4 < rest; j++) src[pos++] = (unsigned char)(rnd() >> 3); of = pos + (size_t)dcs;
                        for (j = 0; j < 4; j++) { src[pos] = of <= pos ? src[pos - of] : dict[(size_t)dcs - (of - pos)]; pos++; }
                        seqs[ns].litLength = (unsigned)(rest - 4); seqs[ns].matchLength = 4; seqs[ns].offset = (unsigned)of; seqs[ns].rep = 0; ns++; rest = 0; }
                    for (j = 0; j < rest; j++) src[pos++] = (unsigned char)(rnd() >> 3);
                    seqs[ns].litLength = (unsigned)rest; seqs[ns].matchLength = 0; seqs[ns].offset = 0; seqs[ns].rep = 0; ns++;
                    bend = bend + 131072 < (size_t)srcSize ? bend + 131072 : (size_t)srcSize; continue; }
                if (pos + ll + ml + 80 > (size_t)srcSize) break;
                for (j = 0; j < ll; j++) src[pos++] = (unsigned char)(rnd() >> 3);
                maxOff = pos + (size_t)dcs;
                if (cls <= 2) of = 1 + rnd() % (maxOff < 4096 ? maxOff : 4096);
                else if (cls <= 4) of = 1 + ((size_t)rnd() * 5) % (maxOff < 131072 ? maxOff : 131072);
                else if (cls == 5) of = lastOff <= maxOff ? lastOff : 1;
                else of = maxOff - rnd() % ((size_t)dcs < 32768 ? (size_t)dcs : 32768);      /* into the dictionary content: grows with the position */
                for (j = 0; j < ml; j++) { src[pos] = of <= pos ? src[pos - of] : dict[(size_t)dcs - (of - pos)]; pos++; }
                seqs[ns].litLength = (unsigned)(ll + carry); carry = 0; seqs[ns].matchLength = (unsigned)ml; seqs[ns].offset = (unsigned)of; seqs[ns].rep = 0; ns++; lastOff = (unsigned)of;
            } }
            { size_t rest = (size_t)srcSize - pos, j;
              if (delim) { while (rest) { size_t take = bend - pos < rest ? bend - pos : rest; for (j = 0; j < take; j++) src[pos++] = (unsigned char)(rnd() >> 3);
                                           seqs[ns].litLength = (unsigned)take; seqs[ns].matchLength = 0; seqs[ns].offset = 0; seqs[ns].rep = 0; ns++; rest -= take; bend += 131072; } }
              else for (j = 0; j < rest; j++) src[pos++] = (unsigned char)(rnd() >> 3); }
            cap = (size_t)dcs + 65536; fd = malloc(cap);
            { size_t sizes[16]; int k; ZDICT_params_t zp; memset(&zp, 0, sizeof(zp)); zp.dictID = 0x1234 + seed % 100; for (k = 0; k < 16; k++) sizes[k] = (size_t)srcSize / 16;
              fds = ZDICT_finalizeDictionary(fd, cap, dict, (size_t)dcs, src, sizes, 16, zp); }
            if (ZDICT_isError(fds) || fds < (size_t)dcs || memcmp(fd + fds - (size_t)dcs, dict, (size_t)dcs)) {
                fprintf(T, "{\"e\":\"dseqskip\",\"why\":\"%s\"}\n", ZDICT_isError(fds) ? ZDICT_getErrorName(fds) : "dictionary content was trimmed"); free(fd); free(seqs); continue; }
            c = ZSTD_createCCtx();
            ZSTD_CCtx_setParameter(c, ZSTD_c_compressionLevel, level); ZSTD_CCtx_setParameter(c, ZSTD_c_windowLog, 22);
            ZSTD_CCtx_setParameter(c, ZSTD_c_blockDelimiters, delim); ZSTD_CCtx_setParameter(c, ZSTD_c_validateSequences, validate); ZSTD_CCtx_setParameter(c, ZSTD_c_searchForExternalRepcodes, rep);
            ZSTD_CCtx_setParameter(c, ZSTD_c_checksumFlag, 1);
            if (useCDict) { cd = ZSTD_createCDict(fd, fds, level); ZSTD_CCtx_refCDict(c, cd); } else ZSTD_CCtx_loadDictionary(c, fd, fds);
            r = ZSTD_compressSequences(c, comp, ZSTD_compressBound(srcSize) + 1024, seqs, ns, src, (size_t)srcSize);
            fprintf(T, "{\"e\":\"gencase\",\"no\":%d,\"kind\":\"fmtdict\",\"wlog\":22,\"minMatch\":0,\"delim\":%d,\"rep\":%d,\"srcSize\":%ld,\"nseq\":%lld,\"ok\":%s,\"err\":\"%s\",\"dictContent\":%ld,\"level\":%d,\"validate\":%d,\"cdict\":%d}\n", no++, delim, rep, srcSize,
                    (long long)ns, ZSTD_isError(r) ? "false" : "true", ZSTD_isError(r) ? ZSTD_getErrorName(r) : "", dcs, level, validate, useCDict);
            g_fdict = fd; g_fdictSize = fds; verify("dseq", r, (size_t)srcSize, 0, 22); g_fdict = NULL;
            ZSTD_freeCCtx(c); ZSTD_freeCDict(cd); free(fd); free(seqs);
        } else if (!strncmp(line, "GEN ", 4)) {
            int wlog, minMatch, delim, rep, level, genLevel; char kind[32]; long srcSize; unsigned seed; size_t ns, r; ZSTD_CCtx* c; ZSTD_Sequence* seqs;
            if (sscanf(line + 4, "%d %d %d %d %31s %ld %u %d %d", &wlog, &minMatch, &delim, &rep, kind, &srcSize, &seed, &level, &genLevel) < 9) continue;
            vgen(kind, (size_t)srcSize, seed, src);
            seqs = malloc(sizeof(ZSTD_Sequence) * ZSTD_sequenceBound(srcSize));
            c = ZSTD_createCCtx(); ZSTD_CCtx_setParameter(c, ZSTD_c_compressionLevel, genLevel); ZSTD_CCtx_setParameter(c, ZSTD_c_windowLog, wlog); ZSTD_CCtx_setParameter(c, ZSTD_c_minMatch, minMatch);
            ns = ZSTD_generateSequences(c, seqs, ZSTD_sequenceBound(srcSize), src, (size_t)srcSize);
            if (!ZSTD_isError(ns) && !delim) ns = ZSTD_mergeBlockDelimiters(seqs, ns);
            ZSTD_CCtx_reset(c, ZSTD_reset_session_and_parameters);
            ZSTD_CCtx_setParameter(c, ZSTD_c_compressionLevel, level); ZSTD_CCtx_setParameter(c, ZSTD_c_windowLog, wlog); ZSTD_CCtx_setParameter(c, ZSTD_c_minMatch, minMatch);
            ZSTD_CCtx_setParameter(c, ZSTD_c_blockDelimiters, delim); ZSTD_CCtx_setParameter(c, ZSTD_c_validateSequences, 1); ZSTD_CCtx_setParameter(c, ZSTD_c_searchForExternalRepcodes, rep);
            ZSTD_CCtx_setParameter(c, ZSTD_c_checksumFlag, 1);
            r = ZSTD_isError(ns) ? ns : ZSTD_compressSequences(c, comp, ZSTD_compressBound(srcSize) + 1024, seqs, ns, src, (size_t)srcSize);
            fprintf(T, "{\"e\":\"gencase\",\"no\":%d,\"kind\":\"%s\",\"wlog\":%d,\"minMatch\":%d,\"delim\":%d,\"rep\":%d,\"srcSize\":%ld,\"nseq\":%lld,\"ok\":%s,\"err\":\"%s\"}\n", no++, kind, wlog, minMatch, delim, rep, srcSize,
                    ZSTD_isError(ns) ? -1LL : (long long)ns, ZSTD_isError(r) ? "false" : "true", ZSTD_isError(r) ? ZSTD_getErrorName(r) : "");
            verify("gen", r, (size_t)srcSize, 0, wlog);
            free(seqs); ZSTD_freeCCtx(c);
        } else if (!strncmp(line, "PROD ", 5)) {
            int wlog, level, maxSeq, failBlock, fallback, rep; char kind[32]; long srcSize; unsigned seed; size_t r; ZSTD_CCtx* c;
            if (sscanf(line + 5, "%d %d %31s %ld %u %d %d %d %d", &wlog, &level, kind, &srcSize, &seed, &maxSeq, &failBlock, &fallback, &rep) < 9) continue;
            vgen(kind, (size_t)srcSize, seed, src);
            g_maxSeq = maxSeq; g_failBlock = failBlock; g_blockNo = 0; g_prodCalls = 0; g_prodFails = 0;
            c = ZSTD_createCCtx(); ZSTD_CCtx_setParameter(c, ZSTD_c_compressionLevel, level); ZSTD_CCtx_setParameter(c, ZSTD_c_windowLog, wlog);
            ZSTD_CCtx_setParameter(c, ZSTD_c_enableSeqProducerFallback, fallback); ZSTD_CCtx_setParameter(c, ZSTD_c_searchForExternalRepcodes, rep); ZSTD_CCtx_setParameter(c, ZSTD_c_checksumFlag, 1);
            ZSTD_CCtx_setParameter(c, ZSTD_c_validateSequences, 1);
            ZSTD_registerSequenceProducer(c, NULL, producer);
            r = ZSTD_compress2(c, comp, ZSTD_compressBound(srcSize) + 1024, src, (size_t)srcSize);
            fprintf(T, "{\"e\":\"prodcase\",\"no\":%d,\"kind\":\"%s\",\"wlog\":%d,\"srcSize\":%ld,\"maxSeq\":%d,\"failBlock\":%d,\"fallback\":%d,\"rep\":%d,\"calls\":%d,\"fails\":%d,\"ok\":%s,\"err\":\"%s\"}\n", no++, kind, wlog, srcSize, maxSeq, failBlock, fallback, rep,
                    g_prodCalls, g_prodFails, ZSTD_isError(r) ? "false" : "true", ZSTD_isError(r) ? ZSTD_getErrorName(r) : "");
            verify("prod", r, (size_t)srcSize, 0, wlog);
            ZSTD_freeCCtx(c);
        }
    }
    fprintf(T, "{\"e\":\"end\"}\n"); fclose(T);
    return 0;
}
