/* vgen.h — input-shape grammar shared by the conformance drivers (deterministic from a seed).
 * kinds: text rand rle zero mix longrep blockdup tailmatch straddle edge longlit longmatch period repheavy records sparse copies copies1m tworegime rawpart */
#ifndef VGEN_H
#define VGEN_H
#include <string.h>
#include <stdlib.h>
static unsigned vg_x;
#define VG_RND (vg_x = vg_x * 1103515245u + 12345u, (vg_x >> 16) & 0x7fff)
static void vgen(const char* kind, size_t n, unsigned seed, unsigned char* d) {
    size_t i; vg_x = seed * 2654435761u + 12345u;
    if (n == 0) return;
    if (!strcmp(kind, "rand")) { for (i = 0; i < n; i++) d[i] = (unsigned char)(VG_RND >> 3); }
    else if (!strcmp(kind, "rle")) { memset(d, 'A' + (seed % 20), n); }
    else if (!strcmp(kind, "zero")) { memset(d, 0, n); }
    else if (!strcmp(kind, "longrep")) { size_t p = 1 + (seed % 7) * 997 + 1500; for (i = 0; i < n; i++) d[i] = (i < p) ? (unsigned char)(VG_RND >> 3) : d[i - p]; }
    else if (!strcmp(kind, "period")) { size_t p = 1 + seed % 67; for (i = 0; i < n; i++) d[i] = (i < p) ? (unsigned char)(VG_RND >> 3) : d[i - p]; }
    else if (!strcmp(kind, "blockdup")) {      /* whole blocks duplicated: compressed blocks with almost no literals between blocks with new tables */
        size_t bs = (seed % 3 == 0) ? 131072 : (seed % 3 == 1 ? 4096 : 1024); size_t nb = 0;
        for (i = 0; i < n; ) { size_t len = bs < n - i ? bs : n - i; size_t j; unsigned mode = VG_RND % 4;
            if (nb > 0 && mode == 0) { memcpy(d + i, d + i - bs, len); }
            else if (mode == 1) { for (j = 0; j < len; j++) d[i + j] = (unsigned char)("abcdefgh01234567 \n"[VG_RND % 18]); }
            else if (mode == 2) { for (j = 0; j < len; j++) d[i + j] = (unsigned char)((VG_RND % 7) * 36 + (j % 5)); }
            else { for (j = 0; j < len; j++) d[i + j] = (unsigned char)(VG_RND >> 3); }
            i += len; nb++; } }
    else if (!strcmp(kind, "tailmatch")) {     /* incompressible data, with a very short match just before each block edge and a match straddling it */
        size_t bs = (seed % 2) ? 131072 : 4096;
        for (i = 0; i < n; i++) d[i] = (unsigned char)(VG_RND >> 3);
        for (i = bs; i < n; i += bs) { size_t back = 40 + VG_RND % 3000; size_t ml = 4 + VG_RND % 6; size_t at = i - ml - (VG_RND % 4);
            if (at > back + ml) memcpy(d + at, d + at - back, ml);
            if (i + 40 < n && i > back + 60) memcpy(d + i - 20, d + i - 20 - back, 40); } }
    else if (!strcmp(kind, "straddle")) {      /* per block: compressible text, an incompressible tail, a match, a few random bytes, and a
                                                 * second match (other distance) that starts a few bytes before the block edge and runs into the next block */
        size_t bs = (seed % 4 == 3) ? 4096 : 131072; size_t b;
        for (i = 0; i < n; i++) { unsigned r = VG_RND; d[i] = (r % 5 == 0 && i > 40) ? d[i - 7 - (r % 29)] : (unsigned char)("etaoin shrdlu,.\n"[r % 17]); }
        for (b = bs; b < n + bs; b += bs) { size_t edge = b < n ? b : n; size_t tail = bs / 4 + VG_RND % (bs / 8); size_t j;
            size_t pre = 4 + VG_RND % 36, cl = bs / 32 + VG_RND % (bs / 16), ml = 100 + VG_RND % 400, gap = 50 + VG_RND % 250;
            size_t d1 = bs / 3 + VG_RND % (bs / 4) + 1, d2 = bs / 2 + VG_RND % (bs / 5) + 2;
            if (edge < tail + 10 || edge < b - bs + tail) continue;
            for (j = edge - tail; j < edge; j++) d[j] = (unsigned char)(VG_RND >> 3);
            { size_t ms = edge - pre - gap - ml; if (ms > d1 && ms + ml <= n) for (j = ms; j < ms + ml; j++) d[j] = d[j - d1]; }
            { size_t cs0 = edge - pre; if (cs0 > d2) for (j = cs0; j < cs0 + cl && j < n; j++) d[j] = d[j - d2]; } } }
    else if (!strcmp(kind, "edge")) {          /* matches ending exactly on block edges (1 KiB grid) */
        for (i = 0; i < n; i++) d[i] = (unsigned char)(VG_RND >> 3);
        for (i = 1024; i < n; i += 1024) { size_t ml = 3 + VG_RND % 200; size_t back = ml + 1 + VG_RND % 500; if (i > back + ml) memcpy(d + i - ml, d + i - ml - back, ml); } }
    else if (!strcmp(kind, "longlit")) {       /* > 64 KiB literal run followed by matches */
        size_t lit = 70000 + (seed % 9) * 1000; for (i = 0; i < n; i++) d[i] = (i < lit || i < 100) ? (unsigned char)(VG_RND >> 3) : d[i - 100 - (i % 7)]; }
    else if (!strcmp(kind, "longmatch")) {     /* > 64 KiB match */
        size_t p = 200 + seed % 5000; for (i = 0; i < n; i++) d[i] = (i < p) ? (unsigned char)(VG_RND >> 3) : d[i - p]; if (n > 200000) d[150000] ^= 0x55; }
    else if (!strcmp(kind, "repheavy") || !strcmp(kind, "records")) {   /* fixed-size records differing in a few bytes: repeat offsets dominate */
        size_t rec = 16 + seed % 48; for (i = 0; i < n; i++) { if (i < rec) d[i] = (unsigned char)(VG_RND >> 3); else d[i] = (VG_RND % 11 == 0) ? (unsigned char)(VG_RND >> 3) : d[i - rec]; } }
    else if (!strcmp(kind, "copies")) {        /* an incompressible region repeated 3-6 times (a tar of copies): long-distance ties between equally good earlier copies */
        size_t k = 3 + seed % 4, r = n / k ? n / k : 1; for (i = 0; i < n; i++) d[i] = (i < r) ? (unsigned char)(VG_RND >> 3) : d[i - r]; }
    else if (!strcmp(kind, "copies1m")) {      /* the same with a region of 1 MiB (+ 0..3 pages) */
        size_t r = ((size_t)1 << 20) + (seed % 4) * 4096; for (i = 0; i < n; i++) d[i] = (i < r) ? (unsigned char)(VG_RND >> 3) : d[i - r]; }
    else if (!strcmp(kind, "tworegime")) {     /* per 100 KB: words of lowercase letters, then binary-looking records of another alphabet (a block worth splitting) */
        static const char* const w[] = { "capacity", "buffer", "frame", "literal", "sequence", "offset", "window", "dictionary", "entropy", "huffman", "symbol", "table", "block", "header", "stream", "match" };
        for (i = 0; i < n; ) { size_t seg = (i / 50000) & 1; if (!seg) { const char* x = w[VG_RND % 16]; size_t l = strlen(x), j; if (VG_RND % 5 == 0) { d[i++] = (unsigned char)('a' + VG_RND % 26); continue; } for (j = 0; j < l && i < n; j++) d[i++] = (unsigned char)x[j]; if (i < n) d[i++] = ' '; }
            else { unsigned r = VG_RND | (VG_RND << 15); unsigned char rec[12]; size_t j; rec[0] = 0xF0; rec[1] = 0xF1; rec[2] = (unsigned char)(0x80 + (r & 7)); rec[3] = (unsigned char)(0x90 + ((r >> 3) & 3)); rec[4] = (unsigned char)(0xC0 + ((r >> 8) & 63)); rec[5] = (unsigned char)(0xC0 + ((r >> 14) & 63));
                rec[6] = (unsigned char)(0xC0 + ((r >> 20) & 63)); rec[7] = 0xFE; rec[8] = 0xFE; rec[9] = (unsigned char)(0xA0 + ((r >> 26) & 15)); rec[10] = 0xFF; rec[11] = 0x00; for (j = 0; j < 12 && i < n; j++) d[i++] = rec[j]; } } }
    else if (!strcmp(kind, "rawpart")) {       /* per 128 KiB block: an incompressible region carrying sparse 5-byte matches at one offset X (a partition not worth coding),
                                                  then a copy at the same offset with sparse flips (repeat codes referring to an offset introduced in that region), the next
                                                  block opening with a run of zeros (repeat offset 1 under the history inherited from the split block) */
        size_t X = 600 + (seed % 9) * 173, sp = 300 + (seed % 5) * 60, base;
        for (base = 0; base < n; base += 131072) { size_t e = base + 131072 < n ? base + 131072 : n, rs = base + 60000 + (seed % 4) * 9000, z = base ? base + 3000 + (seed % 7) * 2500 : base, nx;
            for (i = base; i < e && i < z; i++) d[i] = 0;
            for (; i < e && i < rs; i++) d[i] = (unsigned char)(VG_RND >> 3);
            for (i = (z > X ? z : X) + X + 100; i + 8 < rs && i + 8 < e; i += sp + VG_RND % 16) { memcpy(d + i, d + i - X, 5); if (d[i - 1] == d[i - 1 - X]) d[i - 1] ^= 0x55; if (d[i + 5] == d[i + 5 - X]) d[i + 5] ^= 0x55; }
            nx = rs + 3; for (i = rs; i < e; i++) { d[i] = i >= X ? d[i - X] : 0; if (i == nx) { d[i] ^= (unsigned char)(1 + VG_RND % 3); nx += sp + VG_RND % 16; } } } }
    else if (!strcmp(kind, "sparse")) { memset(d, 0, n); for (i = 0; i < n; i += 1 + VG_RND % 5000) d[i] = (unsigned char)(1 + VG_RND % 255); }
    else if (!strcmp(kind, "mix")) {
        i = 0; while (i < n) { size_t run = 1 + VG_RND % 700; unsigned m = VG_RND % 4; size_t j;
            for (j = 0; j < run && i < n; j++, i++) {
                if (m == 0) d[i] = (unsigned char)(VG_RND >> 3); else if (m == 1) d[i] = 'z';
                else if (m == 2 && i > 300) d[i] = d[i - 1 - (seed % 250)]; else d[i] = (unsigned char)("the quick brown fox \n"[VG_RND % 21]); } } }
    else { static const char* w[] = {"alpha ", "beta ", "gamma ", "delta ", "compression ", "stream ", "zstd ", "frame ", "block ", "\n", "0123456789 ", "window "};
        i = 0; while (i < n) { const char* s = w[VG_RND % 12]; size_t l = strlen(s); size_t j; for (j = 0; j < l && i < n; j++, i++) d[i] = (unsigned char)s[j]; } }
}
#endif
