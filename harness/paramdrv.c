/* paramdrv.c — executes a script of parameter-interface operations against the real library and logs one
 * ndjson event per operation (after the call returned), each with the full read-back snapshot of the object
 * touched, so that ParamsTrace.tla can evaluate the C16 contract on every step.
 * usage: paramdrv <script> <trace.ndjson> <dictfile> */
#define ZSTD_STATIC_LINKING_ONLY
#include "zstd.h"
#include <stdio.h>
#include <stdlib.h>
#include <string.h>

typedef struct { const char* name; int id; } pdef;
static const pdef CP[] = {
 {"compressionLevel",100},{"windowLog",101},{"hashLog",102},{"chainLog",103},{"searchLog",104},{"minMatch",105},
 {"targetLength",106},{"strategy",107},{"targetCBlockSize",130},{"enableLongDistanceMatching",160},{"ldmHashLog",161},
 {"ldmMinMatch",162},{"ldmBucketSizeLog",163},{"ldmHashRateLog",164},{"contentSizeFlag",200},{"checksumFlag",201},
 {"dictIDFlag",202},{"nbWorkers",400},{"jobSize",401},{"overlapLog",402},{"rsyncable",500},{"format",10},
 {"forceMaxWindow",1000},{"forceAttachDict",1001},{"literalCompressionMode",1002},{"srcSizeHint",1004},
 {"enableDedicatedDictSearch",1005},{"stableInBuffer",1006},{"stableOutBuffer",1007},{"blockDelimiters",1008},
 {"validateSequences",1009},{"useBlockSplitter",1010},{"useRowMatchFinder",1011},{"deterministicRefPrefix",1012},
 {"prefetchCDictTables",1013},{"enableSeqProducerFallback",1014},{"maxBlockSize",1015},{"searchForExternalRepcodes",1016}};
static const pdef DP[] = {
 {"windowLogMax",100},{"format",1000},{"stableOutBuffer",1001},{"forceIgnoreChecksum",1002},{"refMultipleDDicts",1003},
 {"disableHuffmanAssembly",1004},{"maxBlockSize",1005}};
#define NCP (int)(sizeof(CP)/sizeof(CP[0]))
#define NDP (int)(sizeof(DP)/sizeof(DP[0]))

static FILE* T;
static ZSTD_CCtx* cctx; static ZSTD_DCtx* dctx; static ZSTD_CCtx_params* cpar;
static char* dictBuf; static size_t dictSize; static unsigned dictID;
static char src[70000]; static char dst[140000]; static char rt[70000];
static char held[140000]; static size_t heldSize; static size_t spos;   /* last frame produced with the dictionary (for dframe) */

static int cid(const char* n) { int i; for (i = 0; i < NCP; i++) if (!strcmp(CP[i].name, n)) return CP[i].id; return atoi(n); }
static int did(const char* n) { int i; for (i = 0; i < NDP; i++) if (!strcmp(DP[i].name, n)) return DP[i].id; return atoi(n); }

static void csnap(void) { int i; fprintf(T, "\"snap\":{");
    for (i = 0; i < NCP; i++) { int v = -7777; ZSTD_CCtx_getParameter(cctx, (ZSTD_cParameter)CP[i].id, &v); fprintf(T, "%s\"%s\":%d", i ? "," : "", CP[i].name, v); }
    fprintf(T, "}"); }
static void psnap(void) { int i; fprintf(T, "\"snap\":{");
    for (i = 0; i < NCP; i++) { int v = -7777; ZSTD_CCtxParams_getParameter(cpar, (ZSTD_cParameter)CP[i].id, &v); fprintf(T, "%s\"%s\":%d", i ? "," : "", CP[i].name, v); }
    fprintf(T, "}"); }
static void dsnap(void) { int i; fprintf(T, "\"snap\":{");
    for (i = 0; i < NDP; i++) { int v = -7777; ZSTD_DCtx_getParameter(dctx, (ZSTD_dParameter)DP[i].id, &v); fprintf(T, "%s\"%s\":%d", i ? "," : "", DP[i].name, v); }
    fprintf(T, "}"); }

/* independent frame-header reader (doc/zstd_compression_format.md), no library code */
static void hdr(const unsigned char* f, size_t n, int magicless) {
    size_t p = 0; int fhd, fcsCode, single, dictCode, wlog = -1, checksum; long long fcs = -1; unsigned long did2 = 0; unsigned magic = 0;
    if (!magicless) { if (n < 4) goto bad; magic = f[0] | (f[1] << 8) | (f[2] << 16) | ((unsigned)f[3] << 24); p = 4; }
    if (n < p + 1) goto bad;
    fhd = f[p++]; fcsCode = fhd >> 6; single = (fhd >> 5) & 1; checksum = (fhd >> 2) & 1; dictCode = fhd & 3;
    if (!single) { if (n < p + 1) goto bad; wlog = 10 + (f[p] >> 3); p++; }
    { int dl = dictCode == 0 ? 0 : dictCode == 1 ? 1 : dictCode == 2 ? 2 : 4; int i; if (n < p + dl) goto bad;
      for (i = 0; i < dl; i++) did2 |= (unsigned long)f[p + i] << (8 * i); p += dl; }
    { int fl = fcsCode == 0 ? (single ? 1 : 0) : fcsCode == 1 ? 2 : fcsCode == 2 ? 4 : 8; int i; unsigned long long v = 0;
      if (n < p + fl) goto bad;
      for (i = 0; i < fl; i++) v |= (unsigned long long)f[p + i] << (8 * i);
      if (fl == 2) v += 256; if (fl) fcs = (long long)v; p += fl; }
    fprintf(T, "\"hdr\":{\"magic\":%d,\"checksum\":%d,\"fcs\":%lld,\"wlog\":%d,\"dictID\":%lu,\"reserved\":%d,\"single\":%d}",
            magicless ? 0 : (magic == 0xFD2FB528u), checksum, fcs, wlog, did2, (fhd >> 3) & 1, single);
    return;
bad: fprintf(T, "\"hdr\":{\"magic\":-1,\"checksum\":-1,\"fcs\":-1,\"wlog\":-1,\"dictID\":0,\"reserved\":0,\"single\":0}");
}
static int fmtOf(void) { int v = 0; ZSTD_CCtx_getParameter(cctx, ZSTD_c_format, &v); return v; }

static void fill(size_t n, unsigned seed) { size_t i; unsigned x = seed * 2654435761u + 1;
    for (i = 0; i < n; i++) { x = x * 1103515245u + 12345u; src[i] = (char)("abcdefgh ijkl\n"[(x >> 16) % 15]); if ((x >> 24) < 40 && i > 64) src[i] = src[i - 1 - ((x >> 8) % 60)]; } }

int main(int argc, char** argv) {
    FILE* S; char line[256]; int lineno = 0;
    if (argc < 4) return 2;
    S = fopen(argv[1], "r"); T = fopen(argv[2], "w");
    { FILE* D = fopen(argv[3], "rb"); if (D) { dictBuf = malloc(1 << 20); dictSize = fread(dictBuf, 1, 1 << 20, D); fclose(D); dictID = ZSTD_getDictID_fromDict(dictBuf, dictSize); } }
    if (!S || !T) return 2;
    cctx = ZSTD_createCCtx(); dctx = ZSTD_createDCtx(); cpar = ZSTD_createCCtxParams();
    while (fgets(line, sizeof(line), S)) {
        char cmd[32] = "", a[64] = "", b[64] = ""; int n = sscanf(line, "%31s %63s %63s", cmd, a, b); lineno++;
        if (n < 1 || cmd[0] == '#') continue;
        if (!strcmp(cmd, "new")) { ZSTD_freeCCtx(cctx); ZSTD_freeDCtx(dctx); ZSTD_freeCCtxParams(cpar);
            cctx = ZSTD_createCCtx(); dctx = ZSTD_createDCtx(); cpar = ZSTD_createCCtxParams(); heldSize = 0;
            fprintf(T, "{\"e\":\"new\","); csnap(); fprintf(T, ",\"dsnap\":{"); { int i; for (i = 0; i < NDP; i++) { int v = -7777; ZSTD_DCtx_getParameter(dctx, (ZSTD_dParameter)DP[i].id, &v); fprintf(T, "%s\"%s\":%d", i ? "," : "", DP[i].name, v); } } fprintf(T, "}}\n");
        } else if (!strcmp(cmd, "cset")) { int v = atoi(b); size_t r = ZSTD_CCtx_setParameter(cctx, (ZSTD_cParameter)cid(a), v);
            fprintf(T, "{\"e\":\"cset\",\"q\":\"%s\",\"v\":%d,\"ok\":%s,\"err\":\"%s\",", a, v, ZSTD_isError(r) ? "false" : "true", ZSTD_isError(r) ? ZSTD_getErrorName(r) : ""); csnap(); fprintf(T, "}\n");
        } else if (!strcmp(cmd, "pset")) { int v = atoi(b); size_t r = ZSTD_CCtxParams_setParameter(cpar, (ZSTD_cParameter)cid(a), v);
            fprintf(T, "{\"e\":\"pset\",\"q\":\"%s\",\"v\":%d,\"ok\":%s,\"err\":\"%s\",", a, v, ZSTD_isError(r) ? "false" : "true", ZSTD_isError(r) ? ZSTD_getErrorName(r) : ""); psnap(); fprintf(T, "}\n");
        } else if (!strcmp(cmd, "preset")) { size_t r = ZSTD_CCtxParams_reset(cpar);
            fprintf(T, "{\"e\":\"preset\",\"ok\":%s,", ZSTD_isError(r) ? "false" : "true"); psnap(); fprintf(T, "}\n");
        } else if (!strcmp(cmd, "papply")) { size_t r = ZSTD_CCtx_setParametersUsingCCtxParams(cctx, cpar);
            fprintf(T, "{\"e\":\"papply\",\"ok\":%s,", ZSTD_isError(r) ? "false" : "true"); csnap(); fprintf(T, "}\n");
        } else if (!strcmp(cmd, "dset")) { int v = atoi(b); size_t r = ZSTD_DCtx_setParameter(dctx, (ZSTD_dParameter)did(a), v);
            fprintf(T, "{\"e\":\"dset\",\"q\":\"%s\",\"v\":%d,\"ok\":%s,\"err\":\"%s\",", a, v, ZSTD_isError(r) ? "false" : "true", ZSTD_isError(r) ? ZSTD_getErrorName(r) : ""); dsnap(); fprintf(T, "}\n");
        } else if (!strcmp(cmd, "cbounds")) { ZSTD_bounds bd = ZSTD_cParam_getBounds((ZSTD_cParameter)cid(a));
            fprintf(T, "{\"e\":\"cbounds\",\"q\":\"%s\",\"ok\":%s,\"lo\":%d,\"hi\":%d}\n", a, ZSTD_isError(bd.error) ? "false" : "true", bd.lowerBound, bd.upperBound);
        } else if (!strcmp(cmd, "dbounds")) { ZSTD_bounds bd = ZSTD_dParam_getBounds((ZSTD_dParameter)did(a));
            fprintf(T, "{\"e\":\"dbounds\",\"q\":\"%s\",\"ok\":%s,\"lo\":%d,\"hi\":%d}\n", a, ZSTD_isError(bd.error) ? "false" : "true", bd.lowerBound, bd.upperBound);
        } else if (!strcmp(cmd, "creset")) { int k = atoi(a); size_t r = ZSTD_CCtx_reset(cctx, (ZSTD_ResetDirective)k);
            fprintf(T, "{\"e\":\"creset\",\"kind\":%d,\"ok\":%s,", k, ZSTD_isError(r) ? "false" : "true"); csnap(); fprintf(T, "}\n");
        } else if (!strcmp(cmd, "dreset")) { int k = atoi(a); size_t r = ZSTD_DCtx_reset(dctx, (ZSTD_ResetDirective)k);
            fprintf(T, "{\"e\":\"dreset\",\"kind\":%d,\"ok\":%s,", k, ZSTD_isError(r) ? "false" : "true"); dsnap(); fprintf(T, "}\n");
        } else if (!strcmp(cmd, "cload")) { size_t r = ZSTD_CCtx_loadDictionary(cctx, dictBuf, dictSize);
            fprintf(T, "{\"e\":\"cload\",\"id\":%u,\"ok\":%s,", dictID, ZSTD_isError(r) ? "false" : "true"); csnap(); fprintf(T, "}\n");
        } else if (!strcmp(cmd, "dload")) { size_t r = ZSTD_DCtx_loadDictionary(dctx, dictBuf, dictSize);
            fprintf(T, "{\"e\":\"dload\",\"id\":%u,\"ok\":%s,", dictID, ZSTD_isError(r) ? "false" : "true"); dsnap(); fprintf(T, "}\n");
        } else if (!strcmp(cmd, "cframe") || !strcmp(cmd, "csimple")) {      /* one whole frame: compress2 / compressCCtx(level) */
            size_t sz = (size_t)atoi(a); size_t r; int simple = cmd[1] == 's'; if (sz > sizeof(src)) sz = sizeof(src); fill(sz, (unsigned)lineno);
            r = simple ? ZSTD_compressCCtx(cctx, dst, sizeof(dst), src, sz, atoi(b)) : ZSTD_compress2(cctx, dst, sizeof(dst), src, sz);
            fprintf(T, "{\"e\":\"cframe\",\"api\":\"%s\",\"n\":%d,\"ok\":%s,\"err\":\"%s\",", simple ? "simple" : "compress2", (int)sz, ZSTD_isError(r) ? "false" : "true", ZSTD_isError(r) ? ZSTD_getErrorName(r) : "");
            if (!ZSTD_isError(r)) { hdr((unsigned char*)dst, r, simple ? 0 : fmtOf()); { unsigned fd = 0; /* keep dictionary frames for dframe */ memcpy(held, dst, r); heldSize = r; (void)fd; } }
            else fprintf(T, "\"hdr\":{\"magic\":-1,\"checksum\":-1,\"fcs\":-1,\"wlog\":-1,\"dictID\":0,\"reserved\":0,\"single\":0}");
            fprintf(T, ","); csnap(); fprintf(T, "}\n");
        } else if (!strcmp(cmd, "cfail")) {      /* a compress2 that fails: destination too small */
            size_t r; fill(5000, 7); { unsigned i; for (i = 0; i < 5000; i++) src[i] = (char)(i * 2654435761u >> 13); }
            r = ZSTD_compress2(cctx, dst, 20, src, 5000);
            fprintf(T, "{\"e\":\"cfail\",\"ok\":%s,", ZSTD_isError(r) ? "false" : "true"); csnap(); fprintf(T, "}\n");
        } else if (!strcmp(cmd, "cbegin")) {     /* start a streaming frame and stay inside it */
            ZSTD_inBuffer in; ZSTD_outBuffer out; size_t r; fill(3000, 11); in.src = src; in.size = 3000; in.pos = 0; out.dst = dst; out.size = sizeof(dst); out.pos = 0;
            r = ZSTD_compressStream2(cctx, &out, &in, ZSTD_e_continue); spos = out.pos;
            fprintf(T, "{\"e\":\"cbegin\",\"ok\":%s,", ZSTD_isError(r) ? "false" : "true"); csnap(); fprintf(T, "}\n");
        } else if (!strcmp(cmd, "cbeginp")) {    /* start a streaming frame and stay inside it WITH compressed data still pending (tiny output buffer) */
            ZSTD_inBuffer in; ZSTD_outBuffer out; size_t r; unsigned i; size_t n = sizeof(src) < 131072 ? sizeof(src) : 131072; for (i = 0; i < n; i++) src[i] = (char)((i * 2654435761u) >> 11 ^ (i * 40503u) >> 3);
            out.dst = dst; out.size = 64; out.pos = 0;
            in.src = src; in.size = n; in.pos = 0; r = ZSTD_compressStream2(cctx, &out, &in, ZSTD_e_continue);       /* fills the input buffer */
            if (!ZSTD_isError(r)) { in.src = src; in.size = n; in.pos = 0; r = ZSTD_compressStream2(cctx, &out, &in, ZSTD_e_continue); }   /* completes a block: 64 bytes taken, the rest pending */
            spos = out.pos;
            fprintf(T, "{\"e\":\"cbegin\",\"pending\":%zu,\"ok\":%s,", ZSTD_isError(r) ? (size_t)0 : r, ZSTD_isError(r) ? "false" : "true"); csnap(); fprintf(T, "}\n");
        } else if (!strcmp(cmd, "csetparams")) { /* ZSTD_CCtx_setParams: compression + frame parameters in one call; <bad> makes one compression parameter invalid */
            int bad = atoi(a); ZSTD_parameters zp = ZSTD_getParams(3, 0, 0); size_t r; int fl = atoi(b);
            zp.fParams.checksumFlag = fl & 1; zp.fParams.contentSizeFlag = (fl >> 1) & 1; zp.fParams.noDictIDFlag = (fl >> 2) & 1; if (bad) zp.cParams.windowLog = 1;
            r = ZSTD_CCtx_setParams(cctx, zp);
            fprintf(T, "{\"e\":\"csetparams\",\"bad\":%d,\"ok\":%s,", bad, ZSTD_isError(r) ? "false" : "true"); csnap(); fprintf(T, "}\n");
        } else if (!strcmp(cmd, "cend")) {       /* finish the streaming frame started by cbegin (new output buffer: header is at its start only if nothing was flushed before) */
            ZSTD_inBuffer in; ZSTD_outBuffer out; size_t r; int guard = 0; in.src = src; in.size = 0; in.pos = 0; out.dst = dst; out.size = sizeof(dst); out.pos = spos;   /* continue after what cbegin emitted: the frame starts at dst */
            do { r = ZSTD_compressStream2(cctx, &out, &in, ZSTD_e_end); } while (!ZSTD_isError(r) && r != 0 && ++guard < 100);
            fprintf(T, "{\"e\":\"cend\",\"n\":3000,\"ok\":%s,", ZSTD_isError(r) ? "false" : "true");
            if (!ZSTD_isError(r)) hdr((unsigned char*)dst, out.pos, fmtOf()); else fprintf(T, "\"hdr\":{\"magic\":-1,\"checksum\":-1,\"fcs\":-1,\"wlog\":-1,\"dictID\":0,\"reserved\":0,\"single\":0}");
            fprintf(T, ","); csnap(); fprintf(T, "}\n");
        } else if (!strcmp(cmd, "dframe")) {     /* decode the last frame produced by cframe with the decoder as configured */
            size_t r = heldSize ? ZSTD_decompressDCtx(dctx, rt, sizeof(rt), held, heldSize) : 0; unsigned fid = heldSize ? ZSTD_getDictID_fromFrame(held, heldSize) : 0;
            fprintf(T, "{\"e\":\"dframe\",\"fid\":%u,\"have\":%d,\"ok\":%s,\"err\":\"%s\",", fid, heldSize ? 1 : 0, ZSTD_isError(r) ? "false" : "true", ZSTD_isError(r) ? ZSTD_getErrorName(r) : ""); dsnap(); fprintf(T, "}\n");
        } else if (!strcmp(cmd, "dbegin")) {     /* feed the first bytes of a valid frame: decoder is now mid-frame */
            ZSTD_inBuffer in; ZSTD_outBuffer out; size_t r; size_t c; fill(20000, 3); c = ZSTD_compress(dst, sizeof(dst), src, 20000, 1);
            in.src = dst; in.size = c / 2; in.pos = 0; out.dst = rt; out.size = sizeof(rt); out.pos = 0; r = ZSTD_decompressStream(dctx, &out, &in);
            fprintf(T, "{\"e\":\"dbegin\",\"ok\":%s,", ZSTD_isError(r) ? "false" : "true"); dsnap(); fprintf(T, "}\n");
        } else if (!strcmp(cmd, "dfail")) {      /* feed garbage: decoder reports an error */
            ZSTD_inBuffer in; ZSTD_outBuffer out; size_t r; memset(dst, 0x5A, 64); in.src = dst; in.size = 64; in.pos = 0; out.dst = rt; out.size = sizeof(rt); out.pos = 0; r = ZSTD_decompressStream(dctx, &out, &in);
            fprintf(T, "{\"e\":\"dfail\",\"ok\":%s,", ZSTD_isError(r) ? "false" : "true"); dsnap(); fprintf(T, "}\n");
        } else { fprintf(stderr, "paramdrv: unknown command %s\n", cmd); return 2; }
    }
    fprintf(T, "{\"e\":\"end\"}\n"); fclose(T);
    ZSTD_freeCCtx(cctx); ZSTD_freeDCtx(dctx); ZSTD_freeCCtxParams(cpar);
    return 0;
}
