/* detdrv.c — determinism of compression (property C07).
 * A PROBE is a complete description of "the same sequence of compression calls": source bytes, parameters, dictionary, and the
 * calls (directive + input size) in order.  A RUN executes a probe on a context with some history, placement and output-capacity
 * sequence, and logs a digest of the bytes produced.  spec/DetTrace.tla requires all runs of a probe to have the same digest.
 * usage: detdrv <script> <trace.ndjson>
 *   PROBE <id> <kind> <size> <seed> <dict 0 none|1 load raw|2 refPrefix|3 refCDict|4 load formatted> <mode 0 compress2|1 stream> <np> {k v} <nc> {dir in}
 *   RUN <id> <ctx 0 heap|1 static> <srcoff> <dstoff> <outcap 0=all> <workers -1=as probe> H {op}
 *     ops (abstract history of spec/Determ.tla made concrete):
 *       F:<level>:<size>:<kind>:<seed>:<flags>   complete frame  (flags 1 checksum, 2 LDM, 4 wlog 17, 8 row finder on, 16 btopt strategy, 32 wlog 10)
 *       SAME                                      a complete frame identical to the probe
 *       PART:<num>:<den>                          a complete frame over the first num/den of the probe's input, probe's parameters
 *       TINY:<level>:<n>                          a frame of n bytes
 *       A:<level>:<size>:<n>                      a frame abandoned after n bytes were fed
 *       E:<level>:<size>                          a frame that fails (destination too small)
 *       RS / RP                                   ZSTD_CCtx_reset(session_only / session_and_parameters)
 *       D:<level>:<size>                          a frame with a dictionary
 *       MT:<workers>:<size>:<ldm>                 a multi-threaded frame
 *       MTA:<workers>:<size>:<n>                  a multi-threaded frame abandoned after n bytes were fed
 */
#define ZSTD_STATIC_LINKING_ONLY
#include "zstd.h"
#include "zstd_errors.h"
#define XXH_NAMESPACE ZSTD_
#include "../lib/common/xxhash.h"
#include "vgen.h"
#include <stdio.h>
#include <stdint.h>

#define MAXP 64
#define MAXSRC (1u << 23)
typedef struct { int used; char kind[16]; size_t size; unsigned seed; int dict, mode, np, nc; int pk[40], pv[40]; int cdir[64]; size_t cin[64]; } probe_t;
static probe_t P[MAXP];
static unsigned char *srcBase, *dstBase, *scratchSrc, *scratchDst, *dictRaw, *dictFmt; static size_t dictFmtSize; static FILE* T;
static void* staticMem; static size_t staticSize = (size_t)160 << 20;
#define DICTRAW 30000

static void load_fmt_dict(void) {
    FILE* f = fopen(getenv("DETDRV_DICT") ? getenv("DETDRV_DICT") : "/repo/tests/golden-dictionaries/http-dict-missing-symbols", "rb");
    dictFmt = malloc(1 << 20); dictFmtSize = f ? fread(dictFmt, 1, 1 << 20, f) : 0; if (f) fclose(f);
}

static size_t apply_probe(ZSTD_CCtx* c, const probe_t* p, int workers, ZSTD_CDict** cdOut) {
    int i; size_t r = 0;
    for (i = 0; i < p->np; i++) { int v = p->pv[i]; if (p->pk[i] == 400 && workers >= 0) v = workers; r = ZSTD_CCtx_setParameter(c, (ZSTD_cParameter)p->pk[i], v); if (ZSTD_isError(r)) return r; }
    if (p->dict == 1) r = ZSTD_CCtx_loadDictionary(c, dictRaw, DICTRAW);
    else if (p->dict == 2) r = ZSTD_CCtx_refPrefix(c, dictRaw, DICTRAW);
    else if (p->dict == 3) { *cdOut = ZSTD_createCDict(dictFmt, dictFmtSize, 3); r = ZSTD_CCtx_refCDict(c, *cdOut); }
    else if (p->dict == 4) r = ZSTD_CCtx_loadDictionary(c, dictFmt, dictFmtSize);
    return r;
}

/* the probe's calls; returns compressed size or error */
static size_t run_calls(ZSTD_CCtx* c, const probe_t* p, const unsigned char* src, unsigned char* dst, size_t dstCap, size_t outcap) {
    if (p->mode == 0) return ZSTD_compress2(c, dst, dstCap, src, p->size);
    {   size_t spos = 0, dpos = 0; int k;
        for (k = 0; k < p->nc; k++) { size_t n = p->cin[k]; ZSTD_inBuffer in; int guard = 0; if (spos + n > p->size) n = p->size - spos;
            in.src = src + spos; in.size = n; in.pos = 0;
            for (;;) { ZSTD_outBuffer ob; size_t r; size_t cap = dstCap - dpos; if (outcap && cap > outcap) cap = outcap;
                ob.dst = dst + dpos; ob.size = cap; ob.pos = 0;
                r = ZSTD_compressStream2(c, &ob, &in, (ZSTD_EndDirective)p->cdir[k]); if (ZSTD_isError(r)) return r; dpos += ob.pos;
                if (p->cdir[k] == 0 ? in.pos == in.size : r == 0) break;
                if (++guard > 4000000) return (size_t)-ZSTD_error_GENERIC; }
            spos += n; }
        return dpos; }
}

static void history_op(ZSTD_CCtx* c, const probe_t* p, const unsigned char* psrc, char* op, int isStatic) {
    char* f[8]; int nf = 0; char* q = op; size_t r = 0; f[nf++] = q; while ((q = strchr(q, ':')) && nf < 8) { *q++ = 0; f[nf++] = q; }
    if (!strcmp(f[0], "RS")) r = ZSTD_CCtx_reset(c, ZSTD_reset_session_only);
    else if (!strcmp(f[0], "RP")) r = ZSTD_CCtx_reset(c, ZSTD_reset_session_and_parameters);
    else if (!strcmp(f[0], "SAME")) { ZSTD_CDict* cd = NULL; ZSTD_CCtx_reset(c, ZSTD_reset_session_and_parameters); r = apply_probe(c, p, isStatic ? 0 : -1, &cd);
        if (!ZSTD_isError(r)) r = ZSTD_compress2(c, scratchDst, ZSTD_compressBound(p->size), psrc, p->size); ZSTD_CCtx_reset(c, ZSTD_reset_session_and_parameters); ZSTD_freeCDict(cd); }
    else if (!strcmp(f[0], "PART") && nf >= 3) { ZSTD_CDict* cd = NULL; size_t n = p->size * (size_t)atoi(f[1]) / (size_t)(atoi(f[2]) ? atoi(f[2]) : 1); if (n > p->size) n = p->size;
        ZSTD_CCtx_reset(c, ZSTD_reset_session_and_parameters); r = apply_probe(c, p, isStatic ? 0 : -1, &cd);
        if (!ZSTD_isError(r)) r = ZSTD_compress2(c, scratchDst, ZSTD_compressBound(n), psrc, n); ZSTD_CCtx_reset(c, ZSTD_reset_session_and_parameters); ZSTD_freeCDict(cd); }
    else if (!strcmp(f[0], "F") && nf >= 6) { int level = atoi(f[1]); size_t n = (size_t)atol(f[2]); int flags = atoi(f[5]);
        ZSTD_CCtx_reset(c, ZSTD_reset_session_and_parameters); ZSTD_CCtx_setParameter(c, ZSTD_c_compressionLevel, level);
        if (flags & 1) ZSTD_CCtx_setParameter(c, ZSTD_c_checksumFlag, 1);
        if (flags & 2) ZSTD_CCtx_setParameter(c, ZSTD_c_enableLongDistanceMatching, 1);
        if (flags & 4) ZSTD_CCtx_setParameter(c, ZSTD_c_windowLog, 17);
        if (flags & 8) ZSTD_CCtx_setParameter(c, ZSTD_c_useRowMatchFinder, 1);
        if (flags & 16) ZSTD_CCtx_setParameter(c, ZSTD_c_strategy, ZSTD_btopt);
        if (flags & 32) ZSTD_CCtx_setParameter(c, ZSTD_c_windowLog, 10);
        vgen(f[3], n, (unsigned)atoi(f[4]), scratchSrc); r = ZSTD_compress2(c, scratchDst, ZSTD_compressBound(n), scratchSrc, n); }
    else if (!strcmp(f[0], "TINY") && nf >= 3) { int level = atoi(f[1]); size_t n = (size_t)atol(f[2]);
        ZSTD_CCtx_reset(c, ZSTD_reset_session_and_parameters); ZSTD_CCtx_setParameter(c, ZSTD_c_compressionLevel, level); vgen("text", n, 3, scratchSrc); r = ZSTD_compress2(c, scratchDst, 200, scratchSrc, n); }
    else if (!strcmp(f[0], "A") && nf >= 4) { int level = atoi(f[1]); size_t n = (size_t)atol(f[2]), fed = (size_t)atol(f[3]); ZSTD_inBuffer in; ZSTD_outBuffer ob;
        ZSTD_CCtx_reset(c, ZSTD_reset_session_and_parameters); ZSTD_CCtx_setParameter(c, ZSTD_c_compressionLevel, level); vgen("mix", n, 17, scratchSrc);
        in.src = scratchSrc; in.size = fed < n ? fed : n; in.pos = 0; ob.dst = scratchDst; ob.size = ZSTD_compressBound(n); ob.pos = 0; r = ZSTD_compressStream2(c, &ob, &in, ZSTD_e_continue);
        if (fed & 1) { in.size = in.pos; r = ZSTD_compressStream2(c, &ob, &in, ZSTD_e_flush); } }
    else if (!strcmp(f[0], "E") && nf >= 3) { int level = atoi(f[1]); size_t n = (size_t)atol(f[2]);
        ZSTD_CCtx_reset(c, ZSTD_reset_session_and_parameters); ZSTD_CCtx_setParameter(c, ZSTD_c_compressionLevel, level); vgen("rand", n, 23, scratchSrc); r = ZSTD_compress2(c, scratchDst, n / 2 + 10, scratchSrc, n); r = 0; }
    else if (!strcmp(f[0], "D") && nf >= 3) { int level = atoi(f[1]); size_t n = (size_t)atol(f[2]);
        ZSTD_CCtx_reset(c, ZSTD_reset_session_and_parameters); ZSTD_CCtx_setParameter(c, ZSTD_c_compressionLevel, level); ZSTD_CCtx_loadDictionary(c, dictFmt, dictFmtSize);
        vgen("text", n, 29, scratchSrc); r = ZSTD_compress2(c, scratchDst, ZSTD_compressBound(n), scratchSrc, n); }
    else if (!strcmp(f[0], "MTA") && nf >= 4) { int w = atoi(f[1]); size_t n = (size_t)atol(f[2]), fed = (size_t)atol(f[3]); ZSTD_inBuffer in; ZSTD_outBuffer ob; if (isStatic) return;
        /* a multi-threaded frame abandoned after at least one job was posted */
        ZSTD_CCtx_reset(c, ZSTD_reset_session_and_parameters); ZSTD_CCtx_setParameter(c, ZSTD_c_compressionLevel, 2); ZSTD_CCtx_setParameter(c, ZSTD_c_nbWorkers, w); ZSTD_CCtx_setParameter(c, ZSTD_c_jobSize, 1);
        vgen("mix", n, 37, scratchSrc); in.src = scratchSrc; in.size = fed < n ? fed : n; in.pos = 0; ob.dst = scratchDst; ob.size = ZSTD_compressBound(n); ob.pos = 0;
        r = ZSTD_compressStream2(c, &ob, &in, ZSTD_e_continue); if (!ZSTD_isError(r) && (fed & 1)) r = ZSTD_compressStream2(c, &ob, &in, ZSTD_e_flush); if (ZSTD_isError(r)) r = 0; }
    else if (!strcmp(f[0], "MT") && nf >= 4) { int w = atoi(f[1]); size_t n = (size_t)atol(f[2]); if (isStatic) return;
        ZSTD_CCtx_reset(c, ZSTD_reset_session_and_parameters); ZSTD_CCtx_setParameter(c, ZSTD_c_compressionLevel, 2); ZSTD_CCtx_setParameter(c, ZSTD_c_nbWorkers, w); ZSTD_CCtx_setParameter(c, ZSTD_c_jobSize, 1);
        if (atoi(f[3])) { ZSTD_CCtx_setParameter(c, ZSTD_c_enableLongDistanceMatching, 1); ZSTD_CCtx_setParameter(c, ZSTD_c_windowLog, 20); }
        vgen("blockdup", n, 31, scratchSrc); r = ZSTD_compress2(c, scratchDst, ZSTD_compressBound(n), scratchSrc, n); }
    if (ZSTD_isError(r)) fprintf(T, "{\"e\":\"hop\",\"op\":\"%s\",\"ok\":false,\"err\":\"%s\"}\n", f[0], ZSTD_getErrorName(r));
}

int main(int argc, char** argv) {
    FILE* S; static char line[8192];
    if (argc < 3) return 2;
    S = fopen(argv[1], "r"); T = fopen(argv[2], "w"); if (!S || !T) return 2;
    if (getenv("STREAMDRV_LB")) setvbuf(T, NULL, _IOLBF, 0);
    srcBase = malloc(MAXSRC + 256); dstBase = malloc(ZSTD_compressBound(MAXSRC) + 256); scratchSrc = malloc(MAXSRC); scratchDst = malloc(ZSTD_compressBound(MAXSRC));
    dictRaw = malloc(DICTRAW); vgen("text", DICTRAW, 99, dictRaw); if (dictRaw[0] == 0x37) dictRaw[0] = 'x'; load_fmt_dict();
    while (fgets(line, sizeof(line), S)) {
        char cmd[16]; int off = 0; const char* q;
        if (sscanf(line, "%15s%n", cmd, &off) != 1) continue; q = line + off;
        if (!strcmp(cmd, "PROBE")) { int id, k, i; probe_t* p; long sz;
            if (sscanf(q, "%d%n", &id, &k) < 1 || id < 0 || id >= MAXP) continue; q += k; p = &P[id]; memset(p, 0, sizeof(*p));
            if (sscanf(q, "%15s %ld %u %d %d %d%n", p->kind, &sz, &p->seed, &p->dict, &p->mode, &p->np, &k) < 6 || p->np > 40) continue; q += k; p->size = (size_t)sz; if (p->size > MAXSRC) p->size = MAXSRC;
            for (i = 0; i < p->np; i++) { if (sscanf(q, "%d %d%n", &p->pk[i], &p->pv[i], &k) < 2) break; q += k; }
            if (sscanf(q, "%d%n", &p->nc, &k) < 1 || p->nc > 64) continue; q += k;
            for (i = 0; i < p->nc; i++) { long in; if (sscanf(q, "%d %ld%n", &p->cdir[i], &in, &k) < 2) break; p->cin[i] = (size_t)in; q += k; }
            p->used = 1;
        } else if (!strcmp(cmd, "RUN")) { int id, ctxm, srcoff, dstoff, workers, k; long outcap; probe_t* p; ZSTD_CCtx* c; unsigned char *src, *dst; size_t cs, r = 0; char hist[2048]; char op[128]; ZSTD_CDict* cd = NULL; int nh = 0; int bare; XXH64_hash_t h = 0;
            if (sscanf(q, "%d %d %d %d %ld %d%n", &id, &ctxm, &srcoff, &dstoff, &outcap, &workers, &k) < 6 || id < 0 || id >= MAXP || !P[id].used) continue; q += k; p = &P[id];
            { const char* hq = strstr(q, "H"); size_t hl; hq = hq ? hq + 1 : q + strlen(q); while (*hq == ' ') hq++; hl = strlen(hq); while (hl && (hq[hl - 1] == '\n' || hq[hl - 1] == ' ')) hl--; if (hl >= sizeof(hist)) hl = sizeof(hist) - 1; memcpy(hist, hq, hl); hist[hl] = 0; }
            if (ctxm == 1) { if (!staticMem) staticMem = malloc(staticSize); c = ZSTD_initStaticCCtx(staticMem, staticSize); workers = 0; } else c = ZSTD_createCCtx();
            if (!c) { fprintf(T, "{\"e\":\"run\",\"probe\":%d,\"ok\":false,\"err\":\"no context\"}\n", id); continue; }
            src = srcBase + (srcoff & 63); dst = dstBase + (dstoff & 63); vgen(p->kind, p->size, p->seed, src);
            { const char* hq = hist; while (sscanf(hq, " %127s%n", op, &k) == 1) { hq += k; nh++; history_op(c, p, src, op, ctxm == 1); } }
            bare = (nh == 0 && p->np == 0 && p->dict == 0);         /* a fresh context used without any parameter call */
            if (!bare) { r = ZSTD_CCtx_reset(c, ZSTD_reset_session_and_parameters); if (!ZSTD_isError(r)) r = apply_probe(c, p, workers, &cd); }
            cs = ZSTD_isError(r) ? r : run_calls(c, p, src, dst, ZSTD_compressBound(p->size) + 64, (size_t)outcap);
            if (!ZSTD_isError(cs)) h = ZSTD_XXH64(dst, cs, 0);
            fprintf(T, "{\"e\":\"run\",\"probe\":%d,\"ctx\":%d,\"srcoff\":%d,\"dstoff\":%d,\"outcap\":%ld,\"workers\":%d,\"nh\":%d,\"hist\":\"%s\",\"ok\":%s,\"err\":\"%s\",\"size\":%zu,\"h1\":%u,\"h2\":%u,\"h3\":%u}\n",
                    id, ctxm, srcoff, dstoff, outcap, workers, nh, hist, ZSTD_isError(cs) ? "false" : "true", ZSTD_isError(cs) ? ZSTD_getErrorName(cs) : "", ZSTD_isError(cs) ? 0 : cs,
                    (unsigned)(h & 0x1FFFFF), (unsigned)((h >> 21) & 0x1FFFFF), (unsigned)((h >> 42) & 0x3FFFFF));
            if (getenv("DETDRV_DUMP") && !ZSTD_isError(cs)) { char nm[256]; FILE* D; static int dn = 0; snprintf(nm, sizeof(nm), "%s.%d.zst", getenv("DETDRV_DUMP"), dn++); D = fopen(nm, "wb"); if (D) { fwrite(dst, 1, cs, D); fclose(D); } }
            ZSTD_freeCDict(cd); if (ctxm != 1) ZSTD_freeCCtx(c);
        }
    }
    fprintf(T, "{\"e\":\"end\"}\n"); fclose(T);
    return 0;
}
