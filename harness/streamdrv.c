/* streamdrv.c — executes streaming call histories (compression and decompression) on the real library and logs
 * one ndjson event per public call, after the call returned (the linearisation point of a sequential API),
 * with argument sizes, pos deltas, return value and cheap internal scalars.  StreamTrace.tla validates them.
 *
 * usage: streamdrv <script> <trace.ndjson>
 * script lines:
 *   CNEW                         fresh CCtx (and new source / compressed stream)
 *   P <id> <value>               ZSTD_CCtx_setParameter
 *   DP <id> <value>              ZSTD_DCtx_setParameter
 *   SRC <kind> <size> <seed>     source bytes of the next frame(s): kind = text|rand|rle|zero|mix|longrep
 *   PLEDGE <n>                   ZSTD_CCtx_setPledgedSrcSize
 *   API <2|legacy|zbuff>         which compression entry points the C lines use
 *   C <dir> <in> <cap> [*]       one call: dir 0 continue /1 flush /2 end, offering <in> bytes, <cap> output capacity;
 *                                with '*': repeat the same call until it reports completion (ret == 0), <= 100000 times
 *   MOVE <0|1>                   1: copy each offered input slice to a fresh heap buffer (non-contiguous user buffers)
 *   SKIP <n>                     append a skippable frame of n payload bytes to the compressed stream
 *   PREFIX                       decode the compressed bytes emitted so far with an independent fresh decoder run to quiescence
 *   LAYOUT                       independent walk of the compressed stream (frame / block headers only)
 *   DNEW                         fresh DCtx, rewind to the start of the compressed stream
 *   D <in> <cap> [*]             one ZSTD_decompressStream call offering <in> bytes / <cap> capacity ('*' = repeat until the
 *                                stream is exhausted and nothing more comes out)
 *   DHINT <cap>                  hint-following decode: feed exactly the number of bytes the previous call asked for
 *   DONE                         ZSTD_decompress (single call) of the whole stream, compared with the source
 *   CUTS <maxAll>                every proper prefix (all k when the stream is <= maxAll bytes, else section boundaries +-1):
 *                                single-call decode must fail, streaming decode must never return 0 for the last frame
 *   FLIPSUM                      each bit of the stored checksum of the last frame flipped: decoding must fail
 *   FCSLIE                       the content-size field of the last frame altered (smaller / larger): every decoder must fail
 */
#define ZSTD_STATIC_LINKING_ONLY
#define ZBUFF_STATIC_LINKING_ONLY
#include "zstd.h"
#include "zstd_errors.h"
#include "../lib/deprecated/zbuff.h"
#include <stdio.h>
#include <stdlib.h>
#include <string.h>

#define MAXSRC (1u << 23)
static unsigned char* src; static size_t srcSize, srcPos;        /* source of all frames of this CNEW; srcPos = consumed */
static size_t frameStart;                                        /* source offset at which the current frame began */
static unsigned char* comp; static size_t compSize, compCap;     /* everything emitted so far */
static ZSTD_CCtx* cctx; static ZSTD_DCtx* dctx; static ZBUFF_CCtx* zbc;
static size_t dIn, dOut;                                          /* decoder cursor into comp / regenerated count */
static int api = 2; static int move = 0; static FILE* T;
static int stableIn = 0, stableOut = 0; static unsigned char* sOut = NULL; static size_t sOutCap = 0, sOutPos = 0;   /* stable-buffer modes */
static size_t frameEnds[64]; static size_t frameSrcEnds[64]; static int nFrames;   /* as produced by the compressor */
static int endPending = 0; static size_t pendingSlice = 0;   /* e_end issued, not yet completed: the offered slice is frozen */
static long long c_ret; static size_t c_inDelta, c_outDelta;

/* ---- verification hooks of the library (-DZSTD_VERIF_TRACE): events of the multithreaded compressor, logged in the order
 * in which they happen (a spin lock orders concurrent callers; under vsched only one thread runs at a time) */
#ifdef ZSTD_VERIF_TRACE
#include "../lib/common/zstd_verif.h"
static volatile int g_hlock = 0;
static int g_hookWin = 0;      /* STREAMDRV_HOOKS=win : window events only (property C15); any other value: events of the MT compressor only */
static void hook_cb(const char* ev, const void* ctx, long long a, long long b, long long c, long long d, long long e, long long f) {
    (void)ctx;
    if (g_hookWin ? !(ev[0] == 'w' && ev[1] == 'i' && ev[2] == 'n') : !(ev[0] == 'm' && ev[1] == 't')) return;     /* other hook families (decoder, trainer) belong to other drivers */
    if (g_hookWin) { long long const lim = 0x7fffffffLL; if (a > lim || b > lim || c > lim || d > lim || e > lim || f > lim) { if (b > lim && ev[6] == 'M') b = lim; else ev = "winBig"; } }
    while (__atomic_exchange_n(&g_hlock, 1, __ATOMIC_ACQUIRE)) { }
    fprintf(T, "{\"e\":\"%s\",\"a\":%lld,\"b\":%lld,\"c\":%lld,\"d\":%lld,\"f\":%lld,\"g\":%lld}\n", ev, a, b, c, d, e, f);
    __atomic_store_n(&g_hlock, 0, __ATOMIC_RELEASE);
}
#endif

static void gen(const char* kind, size_t n, unsigned seed, unsigned char* d) {
    size_t i; unsigned x = seed * 2654435761u + 12345u;
#define RND (x = x * 1103515245u + 12345u, (x >> 16) & 0x7fff)
    if (!strcmp(kind, "rand")) { for (i = 0; i < n; i++) d[i] = (unsigned char)(RND >> 3); }
    else if (!strcmp(kind, "rle")) { memset(d, 'A' + (seed % 20), n); }
    else if (!strcmp(kind, "zero")) { memset(d, 0, n); }
    else if (!strcmp(kind, "longrep")) {   /* incompressible prefix repeated at long distance */
        size_t p = 1 + (seed % 7) * 997 + 1500; for (i = 0; i < n; i++) d[i] = (i < p) ? (unsigned char)(RND >> 3) : d[i - p]; }
    else if (!strcmp(kind, "mix")) {
        i = 0; while (i < n) { size_t run = 1 + RND % 700; unsigned m = RND % 4; size_t j;
            for (j = 0; j < run && i < n; j++, i++) {
                if (m == 0) d[i] = (unsigned char)(RND >> 3); else if (m == 1) d[i] = 'z';
                else if (m == 2 && i > 300) d[i] = d[i - 1 - (seed % 250)]; else d[i] = (unsigned char)("the quick brown fox \n"[RND % 21]); } } }
    else { /* text */
        static const char* w[] = {"alpha ", "beta ", "gamma ", "delta ", "compression ", "stream ", "zstd ", "frame ", "block ", "\n", "0123456789 ", "window "};
        i = 0; while (i < n) { const char* s = w[RND % 12]; size_t l = strlen(s); size_t j; for (j = 0; j < l && i < n; j++, i++) d[i] = (unsigned char)s[j]; } }
}

static void emit(const void* p, size_t n) {
    if (n == 0) return;
    if (compSize + n > compCap) { compCap = (compSize + n) * 2 + 4096; comp = (unsigned char*)realloc(comp, compCap); }
    memcpy(comp + compSize, p, n); compSize += n;
}

static unsigned h32(const unsigned char* p, size_t n) { unsigned h = 2166136261u; size_t i; for (i = 0; i < n; i++) { h ^= p[i]; h *= 16777619u; } return h; }

/* ---- independent frame walker (format document only; no library code) */
typedef struct { size_t start, hdr, end; int checksum; long long fcs; int nblocks; size_t regenKnown; int magicless; int skippable; } finfo;
static int walk(const unsigned char* f, size_t n, size_t at, finfo* o, int magicless) {
    size_t p = at; unsigned fhd; int single, fcsCode, dictCode; memset(o, 0, sizeof(*o)); o->start = at; o->fcs = -1; o->magicless = magicless;
    if (!magicless) { unsigned m; if (n < p + 4) return -1; m = f[p] | (f[p+1] << 8) | (f[p+2] << 16) | ((unsigned)f[p+3] << 24);
        if ((m & 0xFFFFFFF0u) == 0x184D2A50u) { unsigned sz; if (n < p + 8) return -1; sz = f[p+4] | (f[p+5] << 8) | (f[p+6] << 16) | ((unsigned)f[p+7] << 24);
            if (n < p + 8 + sz) return -1; o->skippable = 1; o->hdr = 8; o->end = p + 8 + sz; return 0; }
        if (m != 0xFD2FB528u) return -2; p += 4; }
    if (n < p + 1) return -1; fhd = f[p++]; fcsCode = fhd >> 6; single = (fhd >> 5) & 1; o->checksum = (fhd >> 2) & 1; dictCode = fhd & 3;
    if (fhd & 8) return -3;
    if (!single) { if (n < p + 1) return -1; p++; }
    p += (dictCode == 3) ? 4 : dictCode;
    { int fl = fcsCode == 0 ? (single ? 1 : 0) : fcsCode == 1 ? 2 : fcsCode == 2 ? 4 : 8; int i; unsigned long long v = 0; if (n < p + fl) return -1;
      for (i = 0; i < fl; i++) v |= (unsigned long long)f[p+i] << (8*i); if (fl == 2) v += 256; if (fl) o->fcs = (long long)v; p += fl; }
    o->hdr = p - at;
    for (;;) { unsigned bh; int last, type; unsigned bs; if (n < p + 3) return -1; bh = f[p] | (f[p+1] << 8) | (f[p+2] << 16); p += 3;
        last = bh & 1; type = (bh >> 1) & 3; bs = bh >> 3; if (type == 3) return -4; o->nblocks++;
        if (type == 1) { if (n < p + 1) return -1; p += 1; } else { if (n < p + bs) return -1; p += bs; }
        if (last) break; }
    if (o->checksum) { if (n < p + 4) return -1; p += 4; }
    o->end = p; return 0;
}

static int cFormat(void) { int v = 0; if (cctx) ZSTD_CCtx_getParameter(cctx, ZSTD_c_format, &v); return v; }
static int dFormat(void) { int v = 0; if (dctx) ZSTD_DCtx_getParameter(dctx, ZSTD_d_format, &v); return v; }

/* decode comp[0..n) with a fresh streaming decoder until it makes no progress; report regenerated count & equality */
static void prefix_event(size_t n, const char* why) {
    ZSTD_DCtx* d = ZSTD_createDCtx(); unsigned char* out = (unsigned char*)malloc(srcSize + 1024); size_t ip = 0, op = 0; size_t r = 1; int guard = 0, err = 0, lastZero = 0;
    ZSTD_DCtx_setParameter(d, ZSTD_d_format, cFormat()); ZSTD_DCtx_setParameter(d, ZSTD_d_windowLogMax, 31);
    while (guard++ < 1000000) { ZSTD_inBuffer in; ZSTD_outBuffer o; size_t ip0 = ip, op0 = op;
        in.src = comp; in.size = n; in.pos = ip; o.dst = out; o.size = srcSize + 1024; o.pos = op;
        r = ZSTD_decompressStream(d, &o, &in); ip = in.pos; op = o.pos;
        if (ZSTD_isError(r)) { err = 1; break; }
        lastZero = (r == 0);
        if (ip == ip0 && op == op0) break;
        if (ip == n && r == 0) break; }
    fprintf(T, "{\"e\":\"prefix\",\"why\":\"%s\",\"emitted\":%zu,\"regen\":%zu,\"consumedSrc\":%zu,\"match\":%s,\"err\":%s,\"atFrameEnd\":%s,\"allIn\":%s}\n",
            why, n, op, srcPos, (op <= srcSize && memcmp(out, src, op) == 0) ? "true" : "false", err ? "true" : "false", lastZero ? "true" : "false", ip == n ? "true" : "false");
    free(out); ZSTD_freeDCtx(d);
}

static void ccall(int dir, size_t inAvail, size_t cap) {
    unsigned char* out = (unsigned char*)malloc(cap ? cap : 1); unsigned char* inbuf = NULL; const unsigned char* ip;
    ZSTD_inBuffer in; ZSTD_outBuffer o; size_t r = 0, r2 = 0; size_t avail = inAvail; const char* fn = "compressStream2";
    /* Client rule (zstd.h): once ZSTD_e_end has been issued, keep calling with ZSTD_e_end and no new input until it returns 0 */
    if (endPending) { dir = 2; avail = pendingSlice; }
    if (srcPos + avail > srcSize) avail = srcSize - srcPos;
    ip = src + srcPos;
    if (move) { inbuf = (unsigned char*)malloc(avail ? avail : 1); memcpy(inbuf, ip, avail); ip = inbuf; }
    in.src = ip; in.size = avail; in.pos = 0; o.dst = out; o.size = cap; o.pos = 0;
    if (stableIn) { in.src = src; in.size = srcPos + avail; in.pos = srcPos; }          /* ZSTD_c_stableInBuffer: same buffer, growing */
    if (stableOut) { o.dst = sOut; o.size = sOutCap; o.pos = sOutPos; cap = sOutCap - sOutPos; }   /* dst and size never change, only pos evolves */   /* ZSTD_c_stableOutBuffer */
    if (api == 2) r = ZSTD_compressStream2(cctx, &o, &in, (ZSTD_EndDirective)dir);
    else if (api == 1) {      /* legacy entry points: compressStream, then flushStream / endStream once the input is consumed */
        fn = "compressStream"; r = 0;
        if (avail > 0) r = ZSTD_compressStream(cctx, &o, &in);
        if (!ZSTD_isError(r) && in.pos == in.size && dir == 1) { fn = "flushStream"; r = ZSTD_flushStream(cctx, &o); }
        else if (!ZSTD_isError(r) && in.pos == in.size && dir == 2) { fn = "endStream"; r = ZSTD_endStream(cctx, &o); }
        else if (!ZSTD_isError(r)) r = 1; /* compressStream's return value is only a hint */
    } else {                  /* ZBUFF */
        size_t dcap = cap, sz = avail; fn = "ZBUFF_compressContinue"; r = 0;
        if (avail > 0) { r = ZBUFF_compressContinue(zbc, out, &dcap, ip, &sz); in.pos = sz; o.pos = dcap; }
        if (!ZSTD_isError(r) && in.pos == in.size && dir == 1) { size_t c2 = cap - o.pos; fn = "ZBUFF_compressFlush"; r = ZBUFF_compressFlush(zbc, out + o.pos, &c2); o.pos += c2; }
        else if (!ZSTD_isError(r) && in.pos == in.size && dir == 2) { size_t c2 = cap - o.pos; fn = "ZBUFF_compressEnd"; r = ZBUFF_compressEnd(zbc, out + o.pos, &c2); o.pos += c2; }
        else if (!ZSTD_isError(r)) r = 1;
    }
    (void)r2;
    long long inDeltaSigned;
    /* stable-in mode: the library may have "pretended" to consume a small input earlier and takes that back now: pos can move backwards */
    if (stableIn) { inDeltaSigned = (long long)in.pos - (long long)srcPos; } else inDeltaSigned = (long long)in.pos;
    if (stableOut) { size_t produced = o.pos - sOutPos; emit(sOut + sOutPos, produced); sOutPos = o.pos; o.pos = produced; }
    else if (o.pos <= cap) emit(out, o.pos);
    srcPos = (size_t)((long long)srcPos + inDeltaSigned);
    if (stableIn) { in.pos = inDeltaSigned > 0 ? (size_t)inDeltaSigned : 0; in.size = avail; }
    fprintf(T, "{\"e\":\"ccall\",\"fn\":\"%s\",\"dir\":%d,\"inAvail\":%zu,\"outAvail\":%zu,\"inDelta\":%lld,\"outDelta\":%zu,\"ret\":%lld,\"err\":\"%s\",\"srcPos\":%zu,\"emitted\":%zu,\"srcLeft\":%zu}\n",
            fn, dir, avail, cap, inDeltaSigned, o.pos, ZSTD_isError(r) ? -1LL : (long long)r, ZSTD_isError(r) ? ZSTD_getErrorName(r) : "", srcPos, compSize, srcSize - srcPos);
    c_ret = ZSTD_isError(r) ? -1LL : (long long)r; c_inDelta = inDeltaSigned > 0 ? (size_t)inDeltaSigned : 0; c_outDelta = o.pos;
    if (dir == 2 && !ZSTD_isError(r)) { endPending = 1; pendingSlice = (size_t)((long long)avail - inDeltaSigned); }
    if (ZSTD_isError(r)) { endPending = 0; pendingSlice = 0; }
    if (!ZSTD_isError(r) && r == 0 && dir == 2 && inDeltaSigned == (long long)avail) {   /* frame completed */
        endPending = 0; pendingSlice = 0;
        if (nFrames < 64) { frameEnds[nFrames] = compSize; frameSrcEnds[nFrames] = srcPos; nFrames++; }
        frameStart = srcPos; }
    free(out); free(inbuf);
}

static long long g_lastRet = -2;
static int dcall(size_t inAvail, size_t cap, int quiet) {
    unsigned char* out = (unsigned char*)malloc(cap ? cap : 1); unsigned char* inbuf; ZSTD_inBuffer in; ZSTD_outBuffer o; size_t r; size_t avail = inAvail; int match;
    if (dIn + avail > compSize) avail = compSize - dIn;
    inbuf = (unsigned char*)malloc(avail ? avail : 1); if (avail) memcpy(inbuf, comp + dIn, avail);   /* exactly-sized heap copy: ASan sees over-reads */
    in.src = inbuf; in.size = avail; in.pos = 0; o.dst = out; o.size = cap; o.pos = 0;
    r = ZSTD_decompressStream(dctx, &o, &in);
    match = (o.pos <= cap) && (dOut + o.pos <= srcSize) && memcmp(out, src + dOut, o.pos) == 0;
    dIn += in.pos; dOut += (o.pos <= cap ? o.pos : 0);
    g_lastRet = ZSTD_isError(r) ? -1LL : (long long)r;
    if (!quiet)
    fprintf(T, "{\"e\":\"dcall\",\"inAvail\":%zu,\"outAvail\":%zu,\"inDelta\":%zu,\"outDelta\":%zu,\"ret\":%lld,\"err\":\"%s\",\"match\":%s,\"dIn\":%zu,\"dOut\":%zu}\n",
            avail, cap, in.pos, o.pos, g_lastRet, ZSTD_isError(r) ? ZSTD_getErrorName(r) : "", match ? "true" : "false", dIn, dOut);
    free(out); free(inbuf);
    return (in.pos > 0 || o.pos > 0);
}

static void layout_event(void) {
    size_t at = 0; int k = 0; finfo f; int rc = 0;
    fprintf(T, "{\"e\":\"layout\",\"size\":%zu,\"frames\":[", compSize);
    while (at < compSize) { rc = walk(comp, compSize, at, &f, cFormat()); if (rc) break;
        fprintf(T, "%s{\"start\":%zu,\"hdr\":%zu,\"end\":%zu,\"checksum\":%d,\"fcs\":%lld,\"nblocks\":%d,\"skippable\":%d}", k ? "," : "", f.start, f.hdr, f.end, f.checksum, f.fcs, f.nblocks, f.skippable);
        at = f.end; k++; }
    fprintf(T, "],\"srcEnds\":[");
    { int i; for (i = 0; i < nFrames; i++) fprintf(T, "%s%zu", i ? "," : "", frameSrcEnds[i]); }
    fprintf(T, "],\"walk\":%d,\"complete\":%s,\"nCompressorFrames\":%d}\n", rc, (rc == 0 && at == compSize) ? "true" : "false", nFrames);
}

/* one proper prefix comp[0..k): single-call and streaming verdicts */
static void cut_event(size_t k, size_t lastFrameStart) {
    unsigned char* in = (unsigned char*)malloc(k ? k : 1); unsigned char* out = (unsigned char*)malloc(srcSize + 64); size_t r; int sawZeroAtEnd = 0; size_t ip = 0, op = 0; int guard = 0, serr = 0;
    ZSTD_DCtx* d = ZSTD_createDCtx(); long long lastRet = -2;
    memcpy(in, comp, k);
    ZSTD_DCtx_setParameter(d, ZSTD_d_format, cFormat());
    r = ZSTD_decompressDCtx(d, out, srcSize + 64, in, k);
    ZSTD_DCtx_reset(d, ZSTD_reset_session_only);
    while (guard++ < 100000) { ZSTD_inBuffer ib; ZSTD_outBuffer ob; size_t ip0 = ip, op0 = op; size_t rr;
        ib.src = in; ib.size = k; ib.pos = ip; ob.dst = out; ob.size = srcSize + 64; ob.pos = op;
        rr = ZSTD_decompressStream(d, &ob, &ib); ip = ib.pos; op = ob.pos;
        if (ZSTD_isError(rr)) { serr = 1; lastRet = -1; break; }
        lastRet = (long long)rr;
        if (rr == 0 && ip > lastFrameStart) sawZeroAtEnd = 1;      /* completion reported inside/after the truncated last frame */
        if (ip == ip0 && op == op0) break; }
    fprintf(T, "{\"e\":\"cut\",\"k\":%zu,\"of\":%zu,\"lastFrameStart\":%zu,\"oneshotOK\":%s,\"streamZero\":%s,\"streamErr\":%s,\"lastRet\":%lld,\"regen\":%zu}\n",
            k, compSize, lastFrameStart, ZSTD_isError(r) ? "false" : "true", sawZeroAtEnd ? "true" : "false", serr ? "true" : "false", lastRet, op);
    free(in); free(out); ZSTD_freeDCtx(d);
}

int main(int argc, char** argv) {
    FILE* S; char line[256];
    if (argc < 3) return 2;
    S = fopen(argv[1], "r"); T = fopen(argv[2], "w"); if (!S || !T) return 2;
    if (getenv("STREAMDRV_LB")) setvbuf(T, NULL, _IOLBF, 0);   /* line-buffered: the trace survives an abort */
#ifdef ZSTD_VERIF_TRACE
    if (getenv("STREAMDRV_HOOKS")) { ZSTD_verif_hook = hook_cb; g_hookWin = !strcmp(getenv("STREAMDRV_HOOKS"), "win"); }
#endif
    src = (unsigned char*)malloc(MAXSRC); cctx = ZSTD_createCCtx(); dctx = ZSTD_createDCtx(); zbc = ZBUFF_createCCtx();
    while (fgets(line, sizeof(line), S)) {
        char cmd[32] = "", a[64] = "", b[64] = "", c[64] = "", d[64] = ""; int n = sscanf(line, "%31s %63s %63s %63s %63s", cmd, a, b, c, d);
        if (n < 1 || cmd[0] == '#') continue;
        if (!strcmp(cmd, "CNEW")) { endPending = 0; pendingSlice = 0; stableIn = stableOut = 0; sOutPos = 0; ZSTD_freeCCtx(cctx); cctx = ZSTD_createCCtx(); ZBUFF_freeCCtx(zbc); zbc = ZBUFF_createCCtx(); srcSize = srcPos = frameStart = 0; compSize = 0; nFrames = 0; api = 2; move = 0;
            ZSTD_freeDCtx(dctx); dctx = ZSTD_createDCtx(); dIn = dOut = 0; fprintf(T, "{\"e\":\"cnew\"}\n"); }
        else if (!strcmp(cmd, "P")) { size_t r = ZSTD_CCtx_setParameter(cctx, (ZSTD_cParameter)atoi(a), atoi(b)); fprintf(T, "{\"e\":\"cparam\",\"id\":%d,\"v\":%d,\"ok\":%s}\n", atoi(a), atoi(b), ZSTD_isError(r) ? "false" : "true"); }
        else if (!strcmp(cmd, "DP")) { size_t r = ZSTD_DCtx_setParameter(dctx, (ZSTD_dParameter)atoi(a), atoi(b)); fprintf(T, "{\"e\":\"dparam\",\"id\":%d,\"v\":%d,\"ok\":%s}\n", atoi(a), atoi(b), ZSTD_isError(r) ? "false" : "true"); }
        else if (!strcmp(cmd, "SRC")) { size_t sz = (size_t)atol(b); if (srcSize + sz > MAXSRC) sz = MAXSRC - srcSize; gen(a, sz, (unsigned)atoi(c), src + srcSize); srcSize += sz;
            fprintf(T, "{\"e\":\"src\",\"kind\":\"%s\",\"size\":%zu,\"total\":%zu}\n", a, sz, srcSize); }
        else if (!strcmp(cmd, "PLEDGE")) { size_t r = ZSTD_CCtx_setPledgedSrcSize(cctx, (unsigned long long)atoll(a)); fprintf(T, "{\"e\":\"pledge\",\"n\":%lld,\"ok\":%s}\n", atoll(a), ZSTD_isError(r) ? "false" : "true"); }
        else if (!strcmp(cmd, "API")) { api = !strcmp(a, "legacy") ? 1 : !strcmp(a, "zbuff") ? 3 : 2;
            if (api == 3) { int lvl = 3; ZBUFF_compressInit(zbc, lvl); }
            fprintf(T, "{\"e\":\"api\",\"api\":\"%s\"}\n", a); }
        else if (!strcmp(cmd, "STABLE")) { stableIn = atoi(a); stableOut = atoi(b);
            if (stableOut) { sOutCap = ZSTD_compressBound(MAXSRC) ; if (!sOut) sOut = (unsigned char*)malloc(sOutCap); sOutPos = 0; }
            fprintf(T, "{\"e\":\"move\",\"on\":%d}\n", 10 * stableIn + stableOut); }
        else if (!strcmp(cmd, "MOVE")) { move = atoi(a); fprintf(T, "{\"e\":\"move\",\"on\":%d}\n", move); }
        else if (!strcmp(cmd, "C")) { int dir = atoi(a); size_t in = (size_t)atol(b), cap = (size_t)atol(c); int rep = (d[0] == '*'); int guard = 0, idle = 0;
            if (!rep) ccall(dir, in, cap);
            else for (;;) {     /* cut the rest of the source into slices of <in> bytes, all with the same directive and capacity */
                ccall(dir, in, cap);
                if (c_ret < 0) break;
                if (c_inDelta == 0 && c_outDelta == 0) { if (++idle > 3) break; } else idle = 0;
                if (dir == 0 && srcPos == srcSize) break;
                if (dir == 1 && srcPos == srcSize && c_ret == 0) break;
                if (dir == 2 && !endPending) break;
                if (++guard > 4000000) break; } }
        else if (!strcmp(cmd, "CRESET")) {   /* abort the frame in progress (ZSTD_reset_session_only): what it emitted so far is discarded by the caller */
            size_t r = ZSTD_CCtx_reset(cctx, ZSTD_reset_session_only); size_t keep = nFrames ? frameEnds[nFrames - 1] : 0;
            compSize = keep; endPending = 0; pendingSlice = 0;
            /* the source of the aborted frame is dropped as well: following frames compress what comes next */
            if (srcPos > frameStart) { memmove(src + frameStart, src + srcPos, srcSize - srcPos); srcSize -= (srcPos - frameStart); srcPos = frameStart; }
            fprintf(T, "{\"e\":\"creset\",\"ok\":%s,\"emitted\":%zu,\"srcPos\":%zu}\n", ZSTD_isError(r) ? "false" : "true", compSize, srcPos); }
        else if (!strcmp(cmd, "SKIP")) { unsigned sz = (unsigned)atoi(a); unsigned char h[8] = {0x53, 0x2A, 0x4D, 0x18, 0, 0, 0, 0}; unsigned char* p = (unsigned char*)calloc(sz ? sz : 1, 1);
            h[4] = sz & 255; h[5] = (sz >> 8) & 255; h[6] = (sz >> 16) & 255; h[7] = (sz >> 24) & 255; emit(h, 8); emit(p, sz); free(p);
            fprintf(T, "{\"e\":\"skip\",\"n\":%u,\"emitted\":%zu}\n", sz, compSize); }
        else if (!strcmp(cmd, "PREFIX")) prefix_event(compSize, a[0] ? a : "manual");
        else if (!strcmp(cmd, "LAYOUT")) layout_event();
        else if (!strcmp(cmd, "DNEW")) { ZSTD_freeDCtx(dctx); dctx = ZSTD_createDCtx(); dIn = dOut = 0; g_lastRet = -2; fprintf(T, "{\"e\":\"dnew\",\"size\":%zu,\"srcSize\":%zu}\n", compSize, srcSize); }
        else if (!strcmp(cmd, "D")) { size_t in = (size_t)atol(a), cap = (size_t)atol(b); int rep = (c[0] == '*'); int drain = (d[0] == 'd'); int guard = 0, idle = 0;
            for (;;) { int prog = dcall(in, cap, 0); if (!rep) break; if (g_lastRet < 0) break;
                /* pull-style reader: before offering new input, drain pending output with empty-input calls */
                if (drain) { int g2 = 0; size_t before; do { before = dOut; if (g_lastRet <= 0) break; dcall(0, cap, 0); } while (dOut > before && g_lastRet > 0 && ++g2 < 100000); if (g_lastRet < 0) break; }
                if (!prog) { if (++idle > 2) break; } else idle = 0;
                if (dIn == compSize && g_lastRet == 0) break; if (++guard > 2000000) break; } }
        else if (!strcmp(cmd, "DHINT") && dIn >= compSize) { /* nothing left to decode */ }
        else if (!strcmp(cmd, "DHINT")) { size_t cap = (size_t)atol(a); size_t want = ZSTD_DStreamInSize() > 0 ? 0 : 0; int guard = 0; size_t fstart = dIn; size_t sum = 0; int over = 0;
            want = ZSTD_initDStream(dctx);     /* first hint: the recommended size of the first read */
            want = ZSTD_FRAMEHEADERSIZE_PREFIX(dFormat() ? ZSTD_f_zstd1_magicless : ZSTD_f_zstd1);
            while (guard++ < 2000000) { size_t before = dIn; int prog;
                if (want > compSize - dIn) over = 1;       /* asks for more than the stream holds */
                prog = dcall(want, cap, 1); sum += dIn - before;
                if (g_lastRet < 0) break; if (g_lastRet == 0) break;
                if (dIn - before == want) want = (size_t)g_lastRet; else want -= (dIn - before);   /* output was full: re-offer the rest */
                if (!prog && (want == 0 || dIn >= compSize)) break; }
            fprintf(T, "{\"e\":\"dhint\",\"from\":%zu,\"consumed\":%zu,\"lastRet\":%lld,\"askedBeyond\":%s,\"dOut\":%zu}\n", fstart, sum, g_lastRet, over ? "true" : "false", dOut); }
        else if (!strcmp(cmd, "DONE")) { unsigned char* out = (unsigned char*)malloc(srcSize + 64); ZSTD_DCtx* dd = ZSTD_createDCtx(); size_t r; ZSTD_DCtx_setParameter(dd, ZSTD_d_format, cFormat());
            r = ZSTD_decompressDCtx(dd, out, srcSize + 64, comp, compSize);
            fprintf(T, "{\"e\":\"oneshot\",\"ok\":%s,\"n\":%lld,\"srcSize\":%zu,\"match\":%s,\"complete\":%s}\n", ZSTD_isError(r) ? "false" : "true", ZSTD_isError(r) ? -1LL : (long long)r, srcSize,
                    (!ZSTD_isError(r) && r == srcPos && memcmp(out, src, r) == 0) ? "true" : "false", (nFrames > 0 && frameEnds[nFrames-1] == compSize) ? "true" : "false");
            free(out); ZSTD_freeDCtx(dd); }
        else if (!strcmp(cmd, "CUTS")) { size_t maxAll = (size_t)atol(a); size_t at = 0; finfo f; size_t lastStart = 0; size_t k;
            while (at < compSize && walk(comp, compSize, at, &f, cFormat()) == 0) { lastStart = f.start; at = f.end; }
            if (compSize <= maxAll) { for (k = (lastStart ? lastStart : 1); k < compSize; k++) if (k > lastStart || lastStart == 0) cut_event(k, lastStart); }
            else { size_t pts[64]; int np = 0, i; size_t p2; finfo g; walk(comp, compSize, lastStart, &g, cFormat());
                pts[np++] = lastStart + 1; pts[np++] = lastStart + g.hdr - 1; pts[np++] = lastStart + g.hdr; pts[np++] = lastStart + g.hdr + 1; pts[np++] = lastStart + g.hdr + 3;
                p2 = lastStart + g.hdr; { int bcount = 0; while (p2 + 3 <= compSize && bcount < 8) { unsigned bh = comp[p2] | (comp[p2+1] << 8) | (comp[p2+2] << 16); unsigned bs = bh >> 3; int type = (bh >> 1) & 3; size_t nx = p2 + 3 + (type == 1 ? 1 : bs);
                        if (nx > compSize) break; pts[np++] = nx - 1; pts[np++] = nx; pts[np++] = nx + 1; pts[np++] = nx + 2; p2 = nx; bcount++; if (bh & 1) break; } }
                pts[np++] = compSize - 5; pts[np++] = compSize - 4; pts[np++] = compSize - 3; pts[np++] = compSize - 1; pts[np++] = lastStart + (compSize - lastStart) / 2;
                for (i = 0; i < np; i++) if (pts[i] > lastStart && pts[i] < compSize) cut_event(pts[i], lastStart); } }
        else if (!strcmp(cmd, "FLIPSUM")) { size_t at = 0; finfo f, lastf; int have = 0; int bit;
            while (at < compSize && walk(comp, compSize, at, &f, cFormat()) == 0) { lastf = f; have = 1; at = f.end; }
            if (have && lastf.checksum && !lastf.skippable) for (bit = 0; bit < 32; bit++) { unsigned char* out = (unsigned char*)malloc(srcSize + 64); size_t r, r2 = 0; ZSTD_DCtx* dd = ZSTD_createDCtx(); size_t ip = 0, op = 0; int guard = 0; int serr = 0, sdone = 0;
                ZSTD_DCtx_setParameter(dd, ZSTD_d_format, cFormat());
                comp[lastf.end - 4 + bit / 8] ^= (unsigned char)(1 << (bit % 8));
                r = ZSTD_decompressDCtx(dd, out, srcSize + 64, comp, compSize);
                ZSTD_DCtx_reset(dd, ZSTD_reset_session_only);
                while (guard++ < 100000) { ZSTD_inBuffer ib; ZSTD_outBuffer ob; size_t i0 = ip, o0 = op; ib.src = comp; ib.size = compSize; ib.pos = ip; ob.dst = out; ob.size = srcSize + 64; ob.pos = op;
                    r2 = ZSTD_decompressStream(dd, &ob, &ib); ip = ib.pos; op = ob.pos; if (ZSTD_isError(r2)) { serr = 1; break; } if (r2 == 0 && ip == compSize) { sdone = 1; break; } if (ip == i0 && op == o0) break; }
                comp[lastf.end - 4 + bit / 8] ^= (unsigned char)(1 << (bit % 8));
                fprintf(T, "{\"e\":\"flipsum\",\"bit\":%d,\"oneshotOK\":%s,\"streamDone\":%s,\"streamErr\":%s}\n", bit, ZSTD_isError(r) ? "false" : "true", sdone ? "true" : "false", serr ? "true" : "false");
                if (bit % 8 == 0) {   /* history: validation explicitly disabled, then re-enabled by every kind of parameter reset */
                    int kind; for (kind = 2; kind <= 3; kind++) { ZSTD_DCtx* d3 = ZSTD_createDCtx(); size_t ra, rb;
                        comp[lastf.end - 4 + bit / 8] ^= (unsigned char)(1 << (bit % 8));
                        ZSTD_DCtx_setParameter(d3, ZSTD_d_forceIgnoreChecksum, 1); ZSTD_DCtx_setParameter(d3, ZSTD_d_format, cFormat());
                        ra = ZSTD_decompressDCtx(d3, out, srcSize + 64, comp, compSize);
                        ZSTD_DCtx_reset(d3, (ZSTD_ResetDirective)kind); ZSTD_DCtx_setParameter(d3, ZSTD_d_format, cFormat());
                        rb = ZSTD_decompressDCtx(d3, out, srcSize + 64, comp, compSize);
                        comp[lastf.end - 4 + bit / 8] ^= (unsigned char)(1 << (bit % 8));
                        fprintf(T, "{\"e\":\"flipsum\",\"bit\":%d,\"oneshotOK\":%s,\"streamDone\":false,\"streamErr\":true,\"afterIgnoreAndReset\":%d,\"ignoredOK\":%s}\n", bit, ZSTD_isError(rb) ? "false" : "true", kind, ZSTD_isError(ra) ? "false" : "true");
                        ZSTD_freeDCtx(d3); } }
                free(out); ZSTD_freeDCtx(dd); } }
        else if (!strcmp(cmd, "FCSLIE")) {   /* the content-size field of the last frame is made to announce another size: every decoder must report an error */
            size_t at = 0; finfo f, lastf; int have = 0; int di; static const long deltas[] = { -1, 1, -4096, 4096, -70000, 300000 };
            while (at < compSize && walk(comp, compSize, at, &f, cFormat()) == 0) { lastf = f; have = 1; at = f.end; }
            if (have && !lastf.skippable && lastf.fcs >= 0) { size_t p = lastf.start + (cFormat() ? 0 : 4); unsigned fhd = comp[p]; int fcsCode = fhd >> 6, single = (fhd >> 5) & 1, dictCode = fhd & 3; int fb = fcsCode == 0 ? (single ? 1 : 0) : fcsCode == 1 ? 2 : fcsCode == 2 ? 4 : 8;
                static const int db[4] = { 0, 1, 2, 4 }; size_t fpos = p + 1 + (single ? 0 : 1) + db[dictCode]; unsigned char saved[8]; memcpy(saved, comp + fpos, 8 < compSize - fpos ? 8 : compSize - fpos);
                for (di = 0; di < 6 && fb > 0; di++) { long long nv = lastf.fcs + deltas[di]; unsigned long long stored; int k; unsigned char* out; size_t cap, r, r2 = 0; ZSTD_DCtx* dd; size_t ip = lastf.start, op = 0; int guard = 0, serr = 0, sdone = 0, cdone = 0, cerr = 0;
                    if (nv < 0) continue; if (fb == 1 && nv > 255) continue; if (fb == 2 && (nv < 256 || nv > 65791)) continue; if (fb == 4 && nv > 0xFFFFFFFFLL) continue;
                    stored = (unsigned long long)nv - (fb == 2 ? 256 : 0); for (k = 0; k < fb; k++) comp[fpos + k] = (unsigned char)(stored >> (8 * k));
                    cap = (size_t)(lastf.fcs > nv ? lastf.fcs : nv) + 70000; out = (unsigned char*)malloc(cap); dd = ZSTD_createDCtx(); ZSTD_DCtx_setParameter(dd, ZSTD_d_format, cFormat()); ZSTD_DCtx_setParameter(dd, ZSTD_d_windowLogMax, 30);
                    r = ZSTD_decompressDCtx(dd, out, cap, comp + lastf.start, lastf.end - lastf.start);
                    /* streaming, whole frame offered, roomy output */
                    ZSTD_DCtx_reset(dd, ZSTD_reset_session_only);
                    while (guard++ < 100000) { ZSTD_inBuffer ib; ZSTD_outBuffer ob; size_t i0 = ip, o0 = op; ib.src = comp; ib.size = lastf.end; ib.pos = ip; ob.dst = out; ob.size = cap; ob.pos = op;
                        r2 = ZSTD_decompressStream(dd, &ob, &ib); ip = ib.pos; op = ob.pos; if (ZSTD_isError(r2)) { serr = 1; break; } if (r2 == 0 && ip == lastf.end) { sdone = 1; break; } if (ip == i0 && op == o0) break; }
                    /* streaming in pieces: input slices of 1000 bytes, output pieces of 3000 bytes (no single-pass shortcut, the internal buffers are used) */
                    ZSTD_DCtx_reset(dd, ZSTD_reset_session_only); ip = lastf.start; guard = 0;
                    while (guard++ < 4000000) { ZSTD_inBuffer ib; ZSTD_outBuffer ob; size_t lim = ip + 1000 > lastf.end ? lastf.end : ip + 1000; ib.src = comp; ib.size = lim; ib.pos = ip; ob.dst = out; ob.size = 3000; ob.pos = 0;
                        r2 = ZSTD_decompressStream(dd, &ob, &ib); if (ZSTD_isError(r2)) { cerr = 1; break; } if (r2 == 0 && ib.pos == lastf.end) { cdone = 1; break; } if (ib.pos == ip && ob.pos == 0 && lim == lastf.end) break; ip = ib.pos; }
                    fprintf(T, "{\"e\":\"fcslie\",\"delta\":%ld,\"fcs\":%lld,\"oneshotOK\":%s,\"streamDone\":%s,\"streamErr\":%s,\"chunkDone\":%s,\"chunkErr\":%s}\n", deltas[di], lastf.fcs, ZSTD_isError(r) ? "false" : "true", sdone ? "true" : "false", serr ? "true" : "false", cdone ? "true" : "false", cerr ? "true" : "false");
                    free(out); ZSTD_freeDCtx(dd); memcpy(comp + fpos, saved, 8 < compSize - fpos ? 8 : compSize - fpos); } } }
        else if (!strcmp(cmd, "TRAIL")) {   /* complete frames followed by n bytes that are not a frame: single-call decoding must fail */
            size_t nb = (size_t)atol(a); unsigned char* in = (unsigned char*)malloc(compSize + nb); unsigned char* out = (unsigned char*)malloc(srcSize + 64); size_t r; ZSTD_DCtx* dd = ZSTD_createDCtx(); size_t i;
            memcpy(in, comp, compSize); for (i = 0; i < nb; i++) in[compSize + i] = (unsigned char)(0xA5 + 31 * i + atoi(b));
            ZSTD_DCtx_setParameter(dd, ZSTD_d_format, cFormat()); r = ZSTD_decompressDCtx(dd, out, srcSize + 64, in, compSize + nb);
            fprintf(T, "{\"e\":\"trail\",\"n\":%zu,\"oneshotOK\":%s}\n", nb, ZSTD_isError(r) ? "false" : "true");
            free(in); free(out); ZSTD_freeDCtx(dd); }
        else if (!strcmp(cmd, "SIZES")) {   /* recommended buffer sizes: one full block per call */
            fprintf(T, "{\"e\":\"sizes\",\"cin\":%zu,\"cout\":%zu,\"din\":%zu,\"dout\":%zu,\"blockMax\":%d,\"bound\":%zu}\n", ZSTD_CStreamInSize(), ZSTD_CStreamOutSize(), ZSTD_DStreamInSize(), ZSTD_DStreamOutSize(), ZSTD_BLOCKSIZE_MAX, ZSTD_compressBound(ZSTD_BLOCKSIZE_MAX)); }
        else { fprintf(stderr, "streamdrv: unknown command %s\n", cmd); return 2; }
    }
    fprintf(T, "{\"e\":\"end\"}\n"); fclose(T);
    return 0;
}
