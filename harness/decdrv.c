/* decdrv.c — every decoding path on frames that are valid by an independent decoder (property C04), and the same paths on
 * damaged / adversarial variants of them (property C03).
 * Frames come from harness/fasm.h (assembled from descriptors; features the compressor never emits) and from the compressor.
 * The independent reference decoder (refdec.c, derived from doc/educational_decoder, shares no code with lib/) says whether a
 * frame is valid and what it contains; every path of the library must then succeed and produce exactly that.
 * usage: decdrv <script> <trace.ndjson>
 *   GEN <family> <seed> <count>          assembled frames: mixed | rletab | longlen | repeat | bigwin | headers | splitlit | comp
 *   MUT <family> <seed> <count> <nmut>   the same frames, each damaged nmut times (structure-aware + random), decoded by every path
 *        behind guard pages: only "returns, error or size <= capacity, progress" is required (C03)
 */
#include "fasm.h"
#include "zstd_errors.h"
#include "refdec.h"
#include "vgen.h"
#include <stdio.h>
#include <stdint.h>
#include <sys/mman.h>
#ifdef ZSTD_VERIF_TRACE
#include "../lib/common/zstd_verif.h"
#endif

static FILE* T;
#define MAXC ((size_t)40 << 20)          /* largest regenerated content */
#define MAXF ((size_t)6 << 20)           /* largest frame */
static unsigned char *frame, *content, *out, *lits, *blk; static size_t frameSize, contentSize;
static fa_t F;
static const unsigned char* g_dict = NULL; static size_t g_dictSize = 0; static ZSTD_DDict* g_ddict = NULL;     /* raw-content dictionary of the current frame (NULL: none) */
static unsigned char* dictBuf;
static fa_seq seqs[70000];
#define PAGE 4096
typedef struct { unsigned char* map; size_t mapSize; unsigned char* p; size_t size; } gbuf;
static gbuf galloc(size_t size) { gbuf g; size_t pages = (size + PAGE - 1) / PAGE + 1; g.mapSize = (pages + 1) * PAGE; g.map = mmap(NULL, g.mapSize, PROT_READ | PROT_WRITE, MAP_PRIVATE | MAP_ANONYMOUS, -1, 0);
    if (g.map == MAP_FAILED) { fprintf(stderr, "mmap failed\n"); exit(2); } mprotect(g.map + pages * PAGE, PAGE, PROT_NONE); g.p = g.map + pages * PAGE - size; g.size = size; return g; }
static void gfree(gbuf* g) { munmap(g->map, g->mapSize); }

/* ---- decode-path statistics from the guarded hook in ZSTD_decompressBlock_internal */
static unsigned hk_prefetch, hk_split, hk_litInDst, hk_litExtra, hk_blocks; static unsigned char hk_seen[128]; static int hk_mute;
#ifdef ZSTD_VERIF_TRACE
static void hook_cb(const char* ev, const void* ctx, long long a, long long b, long long c, long long d, long long e, long long f) {
    (void)ctx; (void)c; (void)d; (void)e; (void)f;
    if (strcmp(ev, "dBlock")) return;
    hk_blocks++; if (a) hk_prefetch++; if (b == 2) hk_split++; else if (b == 0) hk_litInDst++; else hk_litExtra++;
    /* distinct (prefetch, literal buffer location, nbSeq > 8, litSize > 64 KiB, history > 16 MiB, long offsets) tuples of this frame */
    /* (not for the context that is reused across frames: its cold-dictionary flag legitimately survives a frame without compressed blocks) */
    if (!hk_mute) { unsigned key = (unsigned)((a ? 1 : 0) | ((b & 3) << 1) | ((c > 8) << 3) | ((d > 65536) << 4) | ((e ? 1 : 0) << 5) | ((f ? 1 : 0) << 6)); hk_seen[key & 127] = 1; }
}
#endif

/* ------------------------------------------------------------------ frame construction */
typedef struct { const char* family; unsigned seed; int nblocks, fcsBytes, singleSeg, checksum; unsigned wexp, wmant; } finfo;

static int g_wantHufEq = 0; static unsigned g_hufEqHits = 0;
static int build_block(int last, size_t target, int litMode, int litFmt, int style, int modes[3], int nbFmt, unsigned cLL, unsigned cML, unsigned cOffLog, size_t maxSeq, size_t* pos) {
    size_t litTotal = 0, n, ls, ss; unsigned char* d = blk;
    n = fa_gen_seqs(&F, seqs, maxSeq, target, &litTotal, style, cLL, cML, cOffLog);
    fa_gen_literals(&F, lits, litTotal ? litTotal : 1, litMode == FA_LHUF || litMode == FA_LTREELESS);
    if (litMode == FA_LRLE && litTotal > 0) memset(lits, lits[0], litTotal);
    if (litTotal == 0 && litMode != FA_LRAW) litMode = FA_LRAW;
    ls = fa_literals(&F, d, 400000, lits, litTotal, litMode, litFmt);
    if (g_wantHufEq && litTotal >= 6 && litTotal < 1000) {     /* look for literals whose Huffman-compressed size (tree + stream) equals their own size */
        int tries; for (tries = 0; tries < 300; tries++) { size_t l2; fa_gen_literals(&F, lits, litTotal, tries & 1); { size_t j; unsigned a = 2 + fa_pick(&F, 6); for (j = 0; j < litTotal; j++) lits[j] = (unsigned char)(F.litBase + lits[j] % a); }
            l2 = fa_literals(&F, d, 400000, lits, litTotal, FA_LHUF, 0); if (l2 == 3 + litTotal) { ls = l2; g_hufEqHits++; break; } }
        if (tries == 300) ls = fa_literals(&F, d, 400000, lits, litTotal, litMode, litFmt); }
    if (ls == 0) { ls = fa_literals(&F, d, 400000, lits, litTotal, FA_LRAW, litFmt % 3); if (ls == 0) return 0; }
    ss = fa_sequences(&F, d + ls, 400000 - ls, seqs, n, modes, nbFmt);
    if (ss == 0) return 0;
    if (ls + ss >= (1u << 17) + 0 && ls + ss > F.blockMax) return 0;        /* Block_Size of a compressed block is bounded by Block_Maximum_Size */
    if (*pos + 3 + ls + ss > MAXF) return 0;
    fa_block_header(frame + *pos, last, 2, (unsigned)(ls + ss)); memcpy(frame + *pos + 3, d, ls + ss); *pos += 3 + ls + ss;
    F.produced += target; F.fCmpBlk++;
    return 1;
}

/* returns 1 and fills frame/frameSize; content is defined later by the reference decoder */
static int build_frame(const char* family, unsigned seed, finfo* fi) {
    static unsigned char body[1]; size_t pos = 0, hdrMax = 18, bodyStart; int nb, b; unsigned wexp, wmant; size_t window; int singleSeg = 0, checksum, fcsBytes; size_t total = 0; size_t sizes[400]; int types[400];
    int isTail = !strcmp(family, "rawtail"); int isHufEq = !strcmp(family, "hufeq");
    int isRle = !strcmp(family, "rletab") || isTail, isLong = !strcmp(family, "longlen"), isRep = !strcmp(family, "repeat"), isBig = !strcmp(family, "bigwin"), isHdr = !strcmp(family, "headers") || isHufEq, isSplit = !strcmp(family, "splitlit");
    (void)body;
    g_wantHufEq = isHufEq;
    memset(&F, 0, sizeof(F)); F.x = seed * 2654435761u + 99; F.rep[0] = 1; F.rep[1] = 4; F.rep[2] = 8; F.litBase = (seed * 37u) & 127;
    wexp = isBig ? 15 + fa_pick(&F, 3) : (isLong || isSplit) ? 7 + fa_pick(&F, 4) : fa_pick(&F, 9); wmant = fa_pick(&F, 3) ? 0 : fa_pick(&F, 8);
    window = ((size_t)1 << (10 + wexp)); window += (window >> 3) * wmant;
    checksum = isTail ? 0 : fa_pick(&F, 3) == 0;
    g_dict = NULL; g_dictSize = 0;
    if ((!strcmp(family, "mixed") || isRep || isSplit || !strcmp(family, "dict")) && (fa_pick(&F, isSplit ? 2 : 4) == 0 || !strcmp(family, "dict"))) { g_dictSize = 1 + fa_pick(&F, 3) * 997 + fa_pick(&F, 60000); fa_gen_literals(&F, dictBuf, g_dictSize, fa_rnd(&F) & 1); if (g_dictSize >= 4 && dictBuf[0] == 0x37 && dictBuf[1] == 0xA4) dictBuf[0] = 0; g_dict = dictBuf; F.dictContent = g_dictSize; }
    if (isTail) { wexp = 5 + fa_pick(&F, 3); wmant = 0; window = (size_t)1 << (10 + wexp); }
    nb = isTail ? 1 : isHdr ? 1 + (int)fa_pick(&F, 2) : isBig ? 0 : 1 + (int)fa_pick(&F, 6);
    F.windowSize = window; F.blockMax = window < 131072 ? window : 131072;
    /* plan block types and sizes */
    if (isBig) { size_t need = ((size_t)1 << 24) + ((size_t)1 << 20) * (1 + fa_pick(&F, 6)); nb = 0;
        /* > 16 MiB of history out of RLE / raw blocks (cheap to carry), then compressed blocks whose offsets reach far back */
        while (need > 0 && nb < 380) { size_t s = need > 131072 ? 131072 : need; types[nb] = (nb % 9 == 4) ? 0 : 1; sizes[nb] = s; need -= s; nb++; }
        { int k; for (k = 0; k < 3 && nb < 400; k++) { types[nb] = 2; sizes[nb] = 20000 + fa_pick(&F, 100000); nb++; } } }
    else for (b = 0; b < nb; b++) { unsigned r = fa_rnd(&F); types[b] = g_wantHufEq ? 2 : isHdr ? (int)(r % 3) : (isRle || isLong || isRep || isSplit) ? 2 : ((r % 8) == 0 ? 0 : (r % 8) == 1 ? 1 : 2);
        sizes[b] = g_wantHufEq ? 10 + fa_pick(&F, 70) : isHdr ? fa_pick(&F, 300) : (isLong || isSplit) ? F.blockMax - fa_pick(&F, 1000) : (r & 64) ? F.blockMax - fa_pick(&F, 3) : 1 + fa_pick(&F, (unsigned)F.blockMax);
        if (sizes[b] > F.blockMax) sizes[b] = F.blockMax; if (types[b] == 2 && sizes[b] < 8) sizes[b] = 8 < F.blockMax ? 8 : F.blockMax; }
    /* single segment: the window is the content size, and so is the block size limit: plan sizes first */
    for (b = 0; b < nb; b++) total += sizes[b];
    if (!isBig && fa_pick(&F, 4) == 0) { singleSeg = 1; F.windowSize = total; F.blockMax = total < 131072 ? total : 131072; for (b = 0; b < nb; b++) if (sizes[b] > F.blockMax) { return 0; } if (total == 0) singleSeg = 0; }
    /* content-size field width */
    {   int opts[5]; int no = 0; if (!singleSeg) opts[no++] = 0; if (singleSeg && total < 256) opts[no++] = 1; if (total >= 256 && total < 65792) opts[no++] = 2; opts[no++] = 4; opts[no++] = 8; fcsBytes = opts[fa_pick(&F, (unsigned)no)]; }
    pos = hdrMax; bodyStart = pos;
    for (b = 0; b < nb; b++) { int last = b == nb - 1; size_t s = sizes[b];
        if (types[b] == 0) { if (pos + 3 + s > MAXF) return 0; fa_block_header(frame + pos, last, 0, (unsigned)s); fa_gen_literals(&F, frame + pos + 3, s, fa_rnd(&F) & 1); pos += 3 + s; F.produced += s; F.fRawBlk++; }
        else if (types[b] == 1) { fa_block_header(frame + pos, last, 1, (unsigned)s); frame[pos + 3] = (unsigned char)fa_rnd(&F); pos += 4; F.produced += s; F.fRleBlk++; }
        else {  int modes[3]; int litMode, litFmt = (int)fa_pick(&F, 4), nbFmt = fa_pick(&F, 6) == 0 ? 1 : 0, style; unsigned cLL = 0, cML = 3, cOff = 2; size_t maxSeq = 1 + fa_pick(&F, 400);
            modes[0] = (int)fa_pick(&F, 4); modes[1] = (int)fa_pick(&F, 4); modes[2] = (int)fa_pick(&F, 4);
            litMode = (int)fa_pick(&F, 4); style = (int)fa_pick(&F, 2);
            if (isRle) { unsigned top = ZSTD_highbit32((unsigned)(F.windowSize < F.produced + s ? F.windowSize : F.produced + s) + 3); static const unsigned llB[] = { 0, 1, 15, 16, 17, 18, 19, 23, 24, 31, 32, 40, 64, 127, 128, 1000, 8192, 65535, 65536, 70000 };
                static const unsigned mlB[] = { 3, 4, 34, 35, 36, 37, 40, 66, 67, 130, 131, 258, 259, 1000, 32770, 32771, 65538, 65539, 65540, 70000 };
                style = 3; modes[0] = modes[1] = modes[2] = FA_RLE; if (fa_pick(&F, 4) == 0) modes[fa_pick(&F, 3)] = FA_PREDEF;
                cLL = llB[fa_pick(&F, 20)]; cML = mlB[fa_pick(&F, 20)]; cOff = 2 + fa_pick(&F, top > 2 ? top - 1 : 1); if (cOff > top) cOff = top;
                litMode = fa_pick(&F, 3) ? FA_LRAW : FA_LRLE; maxSeq = 1 + fa_pick(&F, 70);
                /* the block is exactly n sequences + 0..3 trailing literals */
                if (isTail) {     /* the boundary between literals referenced in place and literals copied to the context: raw literals followed by a
                                     sequences section of 26..34 bytes, last literal run of 16..48 bytes reaching 0..3 bytes before the end of the literals */
                    static const unsigned llT[] = { 15, 16, 17, 18, 31, 32, 33, 34, 35, 36, 47, 48, 49, 63, 64, 65, 66, 97, 98, 129 };      /* around the 16 / 32-byte strides of the literal copy */
                    unsigned bits, target; modes[0] = modes[1] = modes[2] = FA_RLE; cLL = llT[fa_pick(&F, 20)]; cML = 3 + fa_pick(&F, 6); cOff = 2 + fa_pick(&F, 3); litMode = FA_LRAW; litFmt = 1 + (int)fa_pick(&F, 2); nbFmt = 0;
                    bits = LL_bits[fa_llcode(cLL)] + ML_bits[fa_mlcode(cML)] + cOff; target = 27 + fa_pick(&F, 7);
                    maxSeq = ((target - 5) * 8 - 1) / bits; if (maxSeq < 1) maxSeq = 1; if (maxSeq > 120) maxSeq = 120; }
                { size_t per = (size_t)cLL + cML; size_t n = maxSeq; if (per * n + 3 > F.blockMax) n = (F.blockMax - 3) / per; if (n == 0) { cLL = 17; cML = 4; per = 21; n = (F.blockMax - 3) / per; if (n == 0) return 0; if (n > maxSeq) n = maxSeq; } maxSeq = n; s = per * n + (isTail ? (fa_pick(&F, 2) ? 0 : fa_pick(&F, 3)) : fa_pick(&F, 4)); } }
            if (isLong) { style = 2; maxSeq = 1 + fa_pick(&F, 12); litMode = fa_pick(&F, 2) ? FA_LRAW : FA_LHUF; }
            if (isRep) { if (b > 0) { modes[0] = fa_pick(&F, 2) ? FA_REPEAT : modes[0]; modes[1] = fa_pick(&F, 2) ? FA_REPEAT : modes[1]; modes[2] = fa_pick(&F, 2) ? FA_REPEAT : modes[2]; if (fa_pick(&F, 2)) litMode = FA_LTREELESS; } else litMode = FA_LHUF; style = (int)fa_pick(&F, 2); }
            if (isSplit) { style = fa_pick(&F, 2) ? 0 : 2; maxSeq = 1 + fa_pick(&F, fa_pick(&F, 2) ? 30 : 9); litMode = fa_pick(&F, 2) ? FA_LRAW : FA_LHUF; }
            if (isBig) { style = 0; maxSeq = 20 + fa_pick(&F, 200); }
            if (!isRle && !isLong && !isRep && !isBig && !isSplit && !isHdr && F.blockMax >= 120000 && fa_pick(&F, 8) == 0) { style = 4; maxSeq = 33000 + fa_pick(&F, 6000); s = F.blockMax - fa_pick(&F, 50); litMode = fa_pick(&F, 2) ? FA_LRAW : FA_LHUF; }
            if (!build_block(last, s, litMode, litFmt, style, modes, nbFmt, cLL, cML, cOff, maxSeq, &pos)) return 0; }
    }
    if (nb == 0) return 0;
    total = F.produced;
    if (singleSeg && total != F.windowSize) return 0;      /* (planned as single segment, sizes moved: discard) */
    if (fcsBytes == 2 && !(total >= 256 && total < 65792)) fcsBytes = 4;
    if (fcsBytes == 1 && !(singleSeg && total < 256)) fcsBytes = 4;
    if (checksum) { frame[pos++] = 0; frame[pos++] = 0; frame[pos++] = 0; frame[pos++] = 0; }
    {   unsigned char hdr[32]; size_t hs = fa_frame_header(hdr, total, fcsBytes, singleSeg, wexp, wmant, 0, 0, checksum, 0);
        memmove(frame + hs, frame + bodyStart, pos - bodyStart); memcpy(frame, hdr, hs); frameSize = hs + (pos - bodyStart); }
    fi->family = g_wantHufEq ? "hufeq" : family; fi->seed = seed; fi->nblocks = nb; fi->fcsBytes = fcsBytes; fi->singleSeg = singleSeg; fi->checksum = checksum; fi->wexp = wexp; fi->wmant = wmant;
    return 1;
}

/* a frame from the real compressor, with parameters off the beaten track */
static int build_comp_frame(unsigned seed, finfo* fi) {
    static const char* kinds[] = { "text", "mix", "records", "longrep", "blockdup", "tailmatch", "straddle", "longlit", "longmatch", "repheavy", "sparse", "rand", "rle", "edge" };
    ZSTD_CCtx* c = ZSTD_createCCtx(); size_t n, r; unsigned x = seed * 2654435761u + 5;
#define RX (x = x * 1103515245u + 12345u, (x >> 16) & 0x7fff)
    n = (RX % 4 == 0) ? RX % 3000 : (size_t)(RX % 40) * 20000 + RX; if (n > 2000000) n = 2000000;
    vgen(kinds[RX % 14], n, seed, content);
    ZSTD_CCtx_setParameter(c, ZSTD_c_compressionLevel, (int)(RX % 22) - 2); if (RX % 2) ZSTD_CCtx_setParameter(c, ZSTD_c_checksumFlag, 1);
    if (RX % 3 == 0) ZSTD_CCtx_setParameter(c, ZSTD_c_windowLog, 10 + RX % 10); if (RX % 4 == 0) ZSTD_CCtx_setParameter(c, ZSTD_c_targetCBlockSize, 1340 + RX % 4000);
    if (RX % 5 == 0) ZSTD_CCtx_setParameter(c, ZSTD_c_literalCompressionMode, 1 + RX % 2); if (RX % 6 == 0) ZSTD_CCtx_setParameter(c, ZSTD_c_maxBlockSize, 1024 << (RX % 7));
    if (RX % 7 == 0) ZSTD_CCtx_setParameter(c, ZSTD_c_enableLongDistanceMatching, 1); if (RX % 5 == 0) ZSTD_CCtx_setParameter(c, ZSTD_c_contentSizeFlag, 0);
    if ((int)(RX % 22) > 15 && n > 150000) n = 150000;
    r = ZSTD_compress2(c, frame, MAXF, content, n); ZSTD_freeCCtx(c); if (ZSTD_isError(r)) return 0; frameSize = r;
    g_dict = NULL; g_dictSize = 0; memset(&F, 0, sizeof(F)); fi->family = "comp"; fi->seed = seed; fi->nblocks = 0; fi->fcsBytes = -1; fi->singleSeg = -1; fi->checksum = -1; fi->wexp = 0; fi->wmant = 0; return 1;
}

/* frames of the legacy formats (v0.5 - v0.7 are decoded by this build), taken from the repository's own tests/legacy.c */
#define main legacy_c_main
#define DISPLAY(...) do { } while (0)
#include "../../repo/tests/legacy.c"
#undef main
static int build_legacy_frame(unsigned seed, finfo* fi) {
    static size_t starts[16], sizes[16]; static int nfr = -1;
    if (nfr < 0) { size_t pos; nfr = 0;      /* frames are located by their magic numbers (v0.5 .. v0.8 = 0xFD2FB525 .. 28) */
        for (pos = 0; pos + 8 < COMPRESSED_SIZE && nfr < 16; pos++) { const unsigned char* q = (const unsigned char*)COMPRESSED + pos;
            if (q[1] == 0xB5 && q[2] == 0x2F && q[3] == 0xFD && q[0] >= 0x25 && q[0] <= 0x28) { size_t fs = ZSTD_findFrameCompressedSize(q, COMPRESSED_SIZE - pos); if (!ZSTD_isError(fs) && fs > 0) { starts[nfr] = pos; sizes[nfr] = fs; nfr++; pos += fs - 1; } } } }
    if (nfr == 0) return 0;
    { int k = (int)(seed % (unsigned)nfr); memcpy(frame, COMPRESSED + starts[k], sizes[k]); frameSize = sizes[k]; }
    g_dict = NULL; g_dictSize = 0; memset(&F, 0, sizeof(F)); fi->family = "legacy"; fi->seed = seed; fi->nblocks = 0; fi->fcsBytes = -1; fi->singleSeg = -1; fi->checksum = -1; fi->wexp = 0; fi->wmant = 0; return 1;
}
/* legacy v0.7 frames assembled by hand: small windows, block headers announcing sizes around and beyond the window / the 128 KB
 * limit, bodies that may be shorter than announced - what the streaming path of the legacy decoder has to bound itself */
static int build_legacy7_frame(unsigned seed, finfo* fi) {
    unsigned x = seed * 2654435761u + 21; size_t pos = 0; unsigned wl, nb, b; size_t window;
#define RZ (x = x * 1103515245u + 12345u, (x >> 16) & 0x7fff)
    frame[pos++] = 0x27; frame[pos++] = 0xB5; frame[pos++] = 0x2F; frame[pos++] = 0xFD;
    wl = RZ % 8; window = (size_t)1 << (10 + wl);
    frame[pos++] = 0x00;                              /* frame header descriptor: no content size, window byte follows, no checksum, no dictID */
    frame[pos++] = (unsigned char)((wl << 3) | (RZ % 2 ? RZ % 8 : 0));
    nb = 1 + RZ % 3;
    for (b = 0; b < nb && pos + 8 < MAXF; b++) { unsigned type = RZ % 3; /* 0 compressed 1 raw 2 rle */ size_t sz, body;
        static const long off[] = { -1, 0, 1, 2, 1000 }; unsigned pick = RZ % 6;
        sz = pick == 0 ? window + (size_t)off[RZ % 5] : pick == 1 ? 131072 + (size_t)off[RZ % 5] : pick == 2 ? (window + RZ % (131072 - window + 1)) : pick == 3 ? 1 + RZ % (window < 4000 ? window : 4000) : pick == 4 ? 65536 : 0x7FFFF - RZ % 9;
        if (sz > 0x7FFFF) sz = 0x7FFFF;
        frame[pos++] = (unsigned char)((type << 6) | ((sz >> 16) & 7)); frame[pos++] = (unsigned char)(sz >> 8); frame[pos++] = (unsigned char)sz;
        body = type == 2 ? 1 : (RZ % 3 == 0 ? sz : RZ % (sz + 1)); if (body > 300000) body = 300000; if (pos + body + 8 > MAXF) body = 0;
        { size_t i; for (i = 0; i < body; i++) frame[pos + i] = (unsigned char)(RZ >> 3); } pos += body; }
    frame[pos++] = 0xC0; frame[pos++] = 0; frame[pos++] = 0;      /* end-of-frame block */
    frameSize = pos; g_dict = NULL; g_dictSize = 0; memset(&F, 0, sizeof(F)); fi->family = "legacy7"; fi->seed = seed; fi->nblocks = (int)nb; fi->fcsBytes = -1; fi->singleSeg = -1; fi->checksum = -1; fi->wexp = wl; fi->wmant = 0; return 1;
}
/* a few bytes of RLE blocks regenerating far more than the window: what a static streaming decoder must refuse or contain */
static int build_rlebig_frame(unsigned seed, finfo* fi) {
    unsigned x = seed * 2654435761u + 11; unsigned wexp, wmant; size_t window, total, pos; unsigned char hdr[32]; size_t hs; int nb = 0;
#define RY (x = x * 1103515245u + 12345u, (x >> 16) & 0x7fff)
    wexp = 4 + RY % 7; wmant = RY % 8; window = (size_t)1 << (10 + wexp); window += (window >> 3) * wmant;
    total = window + 131072 + RY % 400000; pos = 0;
    hs = fa_frame_header(hdr, total, (RY & 1) ? 0 : 8, 0, wexp, wmant, 0, 0, 0, 0); memcpy(frame, hdr, hs); pos = hs;
    { size_t left = total; size_t bmax = window < 131072 ? window : 131072; while (left > 0) { size_t s2 = left > bmax ? bmax : left; if (RY % 4 == 0 && s2 > 1) s2 = 1 + RY % s2; fa_block_header(frame + pos, left == s2, 1, (unsigned)s2); frame[pos + 3] = (unsigned char)RY; pos += 4; left -= s2; nb++; if (pos + 8 > MAXF) return 0; } }
    g_dict = NULL; g_dictSize = 0; frameSize = pos; memset(&F, 0, sizeof(F)); F.fRleBlk = (unsigned)nb; fi->family = "rlebig"; fi->seed = seed; fi->nblocks = nb; fi->fcsBytes = 0; fi->singleSeg = 0; fi->checksum = 0; fi->wexp = wexp; fi->wmant = wmant; return 1;
}

/* ------------------------------------------------------------------ decode paths */
static const char* g_badPath; static char g_badErr[96];
#define NPATH 13
static const char* pathNames[NPATH] = { "oneshot-exact", "oneshot-roomy", "stream-whole", "stream-1byte", "stream-segs", "stream-smallout", "stable-out", "bufferless", "inplace", "dctx-reused", "stream-hint", "oneshot-ddictless", "static-dstream" };
static int g_staticExact = 1;       /* 1: the static DStream is sized for the frame's own window (valid frames); 0: for some other window (damaged frames) */
static ZSTD_DCtx* g_reused;

/* runs path k on src[0..n) with capacity cap into dst; returns size or error; *calls = number of streaming calls; *stall = 1 if a streaming loop stopped making progress without error */
static size_t run_path(int k, const unsigned char* src, size_t n, unsigned char* dst, size_t cap, unsigned seed, int* stall, int* overcap) {
    ZSTD_DCtx* d; size_t r = 0; gbuf gws; int haveWs = 0; *stall = 0; *overcap = 0;
    if (k == 12) {      /* a static streaming decoder whose workspace ends at an inaccessible page */
        ZSTD_frameHeader fh; size_t w = 1 << 17, ws; if (ZSTD_getFrameHeader(&fh, src, n) == 0 && fh.windowSize >= 1024 && fh.windowSize <= ((size_t)1 << 27)) w = (size_t)fh.windowSize;
        if (g_staticExact) { size_t at = 0; w = 1024;      /* several frames: the workspace is sized for the largest window among them */
            while (at < n) { size_t fs = ZSTD_findFrameCompressedSize(src + at, n - at); if (ZSTD_isError(fs) || fs == 0) break;
                if (ZSTD_getFrameHeader(&fh, src + at, n - at) == 0 && fh.frameType == ZSTD_frame && fh.windowSize > w && fh.windowSize <= ((size_t)1 << 27)) w = (size_t)fh.windowSize; at += fs; } }
        if (!g_staticExact) { unsigned m = seed % 5; w = m == 0 ? w : m == 1 ? (w * 8) / (9 + seed % 7) : m == 2 ? (size_t)1 << 17 : m == 3 ? 1024 : w / 2; if (w < 1024) w = 1024; }
        ws = ZSTD_estimateDStreamSize(w); ws = (ws + 7) & ~(size_t)7; gws = galloc(ws); haveWs = 1; d = ZSTD_initStaticDStream(gws.p, ws);
        if (!d) { gfree(&gws); return (size_t)-ZSTD_error_memory_allocation; } }
    else d = (k == 9) ? g_reused : ZSTD_createDCtx();
    ZSTD_DCtx_reset(d, ZSTD_reset_session_only); ZSTD_DCtx_setParameter(d, ZSTD_d_windowLogMax, 30);
    if (g_dict && k != 7 && k != 8) { if (k == 0 || k == 11) { } else if (k & 1) ZSTD_DCtx_refDDict(d, g_ddict); else ZSTD_DCtx_loadDictionary(d, g_dict, g_dictSize); }   /* cold on first use, warm afterwards */
    else if (k == 9) ZSTD_DCtx_refDDict(d, NULL);
    if (g_dict && (k == 0 || k == 11)) r = (k == 0) ? ZSTD_decompress_usingDict(d, dst, cap, src, n, g_dict, g_dictSize) : ZSTD_decompress_usingDDict(d, dst, cap, src, n, g_ddict);
    else if (k == 0 || k == 1 || k == 9 || k == 11) r = ZSTD_decompressDCtx(d, dst, cap, src, n);
    else if ((k >= 2 && k <= 6) || k == 10 || k == 12) { ZSTD_inBuffer in; ZSTD_outBuffer ob; unsigned x = seed * 747796405u + 1; size_t fed = 0; int guard = 0; int idle = 0; size_t hint = 1;
        if (k == 6) ZSTD_DCtx_setParameter(d, ZSTD_d_stableOutBuffer, 1);
        in.src = src; in.size = 0; in.pos = 0; ob.dst = dst; ob.size = (k == 6) ? cap : 0; ob.pos = 0; r = 1;
        while (++guard < 80000000) { size_t seg, oc, before;
            x = x * 1103515245u + 12345u;
            seg = (k == 3) ? 1 : (k == 4) ? 1 + (x >> 16) % 5000 : (k == 5) ? 1 + (x >> 16) % 70000 : (k == 10) ? hint : n;
            if (in.pos == in.size) { fed = in.size + seg > n ? n : in.size + seg; in.size = fed; }
            oc = (k == 5) ? 1 + (x >> 20) % 300 : (k == 4) ? 1 + (x >> 18) % 40000 : cap;
            if (k != 6) { ob.size = ob.pos + oc > cap ? cap : ob.pos + oc; }
            before = in.pos + ob.pos;
            r = ZSTD_decompressStream(d, &ob, &in);
            if (ob.pos > ob.size) *overcap = 1;
            if (ZSTD_isError(r)) break;
            hint = r ? r : 1;
            if (r == 0 && in.pos == n) break;
            if (r == 0 && in.pos < n) { /* next frame follows */ }
            if (in.pos + ob.pos == before) {
                if (in.pos < in.size && ob.pos < ob.size) { if (++idle > 20) { *stall = 1; break; } }       /* input and room available, no progress, no error */
                else if (in.size == n && in.pos == in.size && ob.pos < ob.size) break;                          /* everything consumed, room available: the decoder waits for more (truncated input) */
                else if (in.size == n && ob.pos == cap) break;                                                  /* no room left at all */
            } else idle = 0;
        }
        if (!ZSTD_isError(r)) { if (*stall || r != 0) r = (size_t)-ZSTD_error_srcSize_wrong; else r = ob.pos; } }
    if (k == 12) { gfree(&gws); return r; }
    else if (k == 7) {      /* buffer-less: ZSTD_decompressBegin / nextSrcSizeToDecompress / decompressContinue; output must be contiguous */
        size_t ip = 0, op = 0; if (g_dict) ZSTD_decompressBegin_usingDict(d, g_dict, g_dictSize); else ZSTD_decompressBegin(d);
        for (;;) { size_t want = ZSTD_nextSrcSizeToDecompress(d); size_t w;
            if (want == 0) { if (ip < n) { ZSTD_decompressBegin(d); want = ZSTD_nextSrcSizeToDecompress(d); } else break; }
            if (ip + want > n) { r = (size_t)-ZSTD_error_srcSize_wrong; break; }
            w = ZSTD_decompressContinue(d, dst + op, cap - op, src + ip, want); if (ZSTD_isError(w)) { r = w; break; }
            ip += want; op += w; r = op; if (op > cap) { *overcap = 1; break; } } }
    else if (k == 8) {      /* in place: compressed bytes at the end of the output buffer */
        size_t margin = ZSTD_decompressionMargin(src, n); unsigned long long cs = ZSTD_findDecompressedSize(src, n);
        if (ZSTD_isError(margin) || cs == ZSTD_CONTENTSIZE_ERROR) r = (size_t)-ZSTD_error_GENERIC;
        else { size_t want = (cs == ZSTD_CONTENTSIZE_UNKNOWN) ? contentSize : (size_t)cs; size_t total = want + margin; unsigned char* b = malloc(total + 1); memcpy(b + total - n, src, n);
            r = g_dict ? ZSTD_decompress_usingDict(d, b, total, b + total - n, n, g_dict, g_dictSize) : ZSTD_decompressDCtx(d, b, total, b + total - n, n); if (!ZSTD_isError(r) && r <= cap) memcpy(dst, b, r); free(b); } }
    (void)haveWs; if (k != 9) ZSTD_freeDCtx(d);
    return r;
}

static void do_frame(const finfo* fi, int idx) {
    size_t ref; int k, bad = 0, npaths = 0; unsigned before[5] = { hk_prefetch, hk_split, hk_litInDst, hk_litExtra, hk_blocks };
    REF_set_verify_checksum(fi->checksum != 1); ref = REF_decode_all(content, MAXC, frame, frameSize, g_dict, g_dictSize); REF_set_verify_checksum(1);
    if (ref == (size_t)-1) { fprintf(T, "{\"e\":\"frame\",\"family\":\"%s\",\"seed\":%u,\"idx\":%d,\"accepted\":false,\"why\":\"%.80s\",\"csize\":%zu}\n", fi->family, fi->seed, idx, REF_last_error(), frameSize); return; }
    contentSize = ref;
    if (fi->checksum == 1) { uint64_t h = REF_xxh64(content, contentSize, 0); frame[frameSize - 4] = (unsigned char)h; frame[frameSize - 3] = (unsigned char)(h >> 8); frame[frameSize - 2] = (unsigned char)(h >> 16); frame[frameSize - 1] = (unsigned char)(h >> 24); }
    g_badPath = ""; g_badErr[0] = 0; memset(hk_seen, 0, sizeof(hk_seen));
    if (frameSize < 3000 && contentSize < 200000) { REF_set_trace(T, 1); REF_decode_all(content, MAXC, frame, frameSize, g_dict, g_dictSize); REF_set_trace(NULL, 0); }    /* R's own events, for the format model */
    for (k = 0; k < NPATH; k++) { size_t cap = (k == 0) ? contentSize : contentSize + 1 + (fi->seed % 300); size_t r; int stall, over;
        if (contentSize > ((size_t)8 << 20) && (k == 3 || k == 5)) continue;        /* (byte-wise feeding of very large frames: skipped) */
        if (k == 3 && frameSize > 300000) continue;
        if (k == 12 && contentSize > ((size_t)8 << 20)) continue;
        g_staticExact = 1; hk_mute = (k == 9);
        r = run_path(k, frame, frameSize, out, cap, fi->seed + (unsigned)k, &stall, &over); npaths++; hk_mute = 0;
        if (ZSTD_isError(r) || r != contentSize || memcmp(out, content, contentSize) || over) { if (!bad) { g_badPath = pathNames[k]; snprintf(g_badErr, sizeof(g_badErr), "%s", ZSTD_isError(r) ? ZSTD_getErrorName(r) : over ? "pos beyond size" : r != contentSize ? "wrong size" : "wrong bytes"); } bad++; } }
    { unsigned key; for (key = 0; key < 128; key++) if (hk_seen[key]) fprintf(T, "{\"e\":\"dblk\",\"prefetch\":%u,\"loc\":%u,\"nseqBig\":%u,\"litBig\":%u,\"histBig\":%u,\"longOff\":%u,\"dict\":%d}\n", key & 1, (key >> 1) & 3, (key >> 3) & 1, (key >> 4) & 1, (key >> 5) & 1, (key >> 6) & 1, g_dict != NULL); }
    fprintf(T, "{\"e\":\"frame\",\"family\":\"%s\",\"seed\":%u,\"idx\":%d,\"accepted\":true,\"size\":%zu,\"csize\":%zu,\"blocks\":%d,\"fcs\":%d,\"single\":%d,\"csum\":%d,\"wexp\":%u,\"wmant\":%u,\"npaths\":%d,\"bad\":%d,\"badPath\":\"%s\",\"badErr\":\"%s\","
            "\"litRaw\":%u,\"litRle\":%u,\"litHuf\":%u,\"litTreeless\":%u,\"mPredef\":%u,\"mRle\":%u,\"mFse\":%u,\"mRepeat\":%u,\"seq0\":%u,\"seqLong\":%u,\"nonMin\":%u,\"maxSym\":%u,\"longLL\":%u,\"longML\":%u,\"rawBlk\":%u,\"rleBlk\":%u,\"cmpBlk\":%u,"
            "\"dict\":%zu,\"hkBlocks\":%u,\"hkPrefetch\":%u,\"hkSplit\":%u,\"hkLitInDst\":%u,\"hkLitExtra\":%u}\n",
            fi->family, fi->seed, idx, contentSize, frameSize, fi->nblocks, fi->fcsBytes, fi->singleSeg, fi->checksum, fi->wexp, fi->wmant, npaths, bad, g_badPath, g_badErr,
            F.fLit[0], F.fLit[1], F.fLit[2], F.fLit[3], F.fMode[0][0] + F.fMode[1][0] + F.fMode[2][0], F.fMode[0][1] + F.fMode[1][1] + F.fMode[2][1], F.fMode[0][2] + F.fMode[1][2] + F.fMode[2][2], F.fMode[0][3] + F.fMode[1][3] + F.fMode[2][3],
            F.fSeq0, F.fSeqLong, F.fNonMin, F.fMaxSym, F.fLongLL, F.fLongML, F.fRawBlk, F.fRleBlk, F.fCmpBlk, g_dictSize,
            hk_blocks - before[4], hk_prefetch - before[0], hk_split - before[1], hk_litInDst - before[2], hk_litExtra - before[3]);
    if (bad && getenv("DECDRV_DUMP")) { char nm[300]; FILE* D; snprintf(nm, sizeof(nm), "%s.%s.%u.zst", getenv("DECDRV_DUMP"), fi->family, fi->seed); D = fopen(nm, "wb"); if (D) { fwrite(frame, 1, frameSize, D); fclose(D); } }
}

/* ------------------------------------------------------------------ C03: damaged frames, every path, guard pages */
static char g_op[256];
static void do_mutations(const finfo* fi, int idx, int nmut) {
    static unsigned char* orig = NULL; size_t osz = frameSize; int m; unsigned x = fi->seed * 2246822519u + 17; int nErr = 0, nOk = 0, nOver = 0, nStall = 0, nWrongOk = 0; size_t ref;
    if (!orig) orig = malloc(MAXF);
    REF_set_verify_checksum(fi->checksum != 1); ref = REF_decode_all(content, MAXC, frame, frameSize, g_dict, g_dictSize); REF_set_verify_checksum(1); contentSize = (ref == (size_t)-1) ? 0 : ref;
    if (fi->checksum == 1 && ref != (size_t)-1) { uint64_t h = REF_xxh64(content, contentSize, 0); frame[frameSize - 4] = (unsigned char)h; frame[frameSize - 3] = (unsigned char)(h >> 8); frame[frameSize - 2] = (unsigned char)(h >> 16); frame[frameSize - 1] = (unsigned char)(h >> 24); }
    memcpy(orig, frame, osz);
    if (osz > 400000) return;
    for (m = 0; m < nmut; m++) { size_t n = osz; gbuf gs; int k; unsigned kind;
#define MX (x = x * 1103515245u + 12345u, (x >> 16) & 0x7fff)
        memcpy(frame, orig, osz); kind = MX % 10;
        if (m == 0) kind = 99;                      /* the undamaged frame itself, flush against the guard page (over-reads of valid input) */
        else if (kind == 0 && n > 1) n = 1 + ((MX << 15 | MX) % (n - 1));                       /* truncation */
        else if (kind == 1) { frame[4 + MX % 3] ^= (unsigned char)(1u << (MX % 8)); }              /* frame header descriptor / window / first field */
        else if (kind == 2 && n > 12) { size_t p = 5 + MX % 8; frame[p] = (unsigned char)MX; }     /* header fields / first block header */
        else if (kind == 3) { size_t p = ((MX << 15 | MX) % n); frame[p] = (unsigned char)(frame[p] + 1 + MX % 255); }
        else if (kind == 4) { int f; for (f = 0; f < 3; f++) { size_t p = ((MX << 15 | MX) % n); frame[p] ^= (unsigned char)(1u << (MX % 8)); } }
        else if (kind == 5 && n > 30) { size_t p = 6 + MX % 24; frame[p] = (MX & 1) ? 0xFF : 0x00; }                                     /* literals / sequences headers of the first block */
        else if (kind == 6 && n > 40) { size_t a = ((MX << 15 | MX) % (n - 20)), b2 = ((MX << 15 | MX) % (n - 20)); memmove(frame + a, orig + b2, 16); }       /* splice */
        else if (kind == 7 && n > 8) { n -= 1 + MX % 4; }                                                                                    /* drop the checksum / last bytes */
        else if (kind == 8 && n + 8 < MAXF) { memmove(frame + n, orig, n < 64 ? n : 64); n += n < 64 ? n : 64; }                          /* trailing garbage / a second (partial) frame */
        else if (kind == 9) { size_t p = ((MX << 15 | MX) % n); size_t len = 1 + MX % 16; if (p + len > n) len = n - p; memset(frame + p, (MX & 1) ? 0xFF : 0, len); }
        gs = galloc(n); memcpy(gs.p, frame, n);
        for (k = 0; k < NPATH; k++) { size_t cap; gbuf gd; size_t r; int stall, over;
            if (k == 8 || k == 11) continue; if (k == 3 && n > 20000) continue;
            if (!strcmp(fi->family, "rlebig") && k != 12 && k != 2 && k != 0) continue;
            cap = (MX % 3 == 0) ? contentSize : (MX % 3 == 1) ? (size_t)(MX % 5000) : contentSize + 70000; if (cap > MAXC) cap = MAXC;
            gd = galloc(cap);
            snprintf(g_op, sizeof(g_op), "MUT %s %u idx=%d m=%d kind=%u path=%s cap=%zu n=%zu", fi->family, fi->seed, idx, m, kind, pathNames[k], cap, n);
            if (getenv("DECDRV_OPLOG")) { fprintf(T, "{\"e\":\"mop\",\"op\":\"%s\"}\n", g_op); fflush(T); }
            g_staticExact = 0;
            r = run_path(k, gs.p, n, gd.p, cap, x + (unsigned)k, &stall, &over);
            if (over) nOver++; if (stall && !ZSTD_isError(r)) nStall++;
            if (ZSTD_isError(r)) nErr++; else { nOk++; if (r > cap) nOver++; if (kind == 99 && ref != (size_t)-1 && (r != contentSize || memcmp(gd.p, content, contentSize))) nWrongOk++; }
            gfree(&gd); }
        /* frame inspectors, dictionary loaders and dictionary-using decoders on the same bytes */
        {   ZSTD_frameHeader fh; size_t a; unsigned long long u; unsigned mv = 0; gbuf gd = galloc(64); ZSTD_DDict* dd; ZSTD_DCtx* d2 = ZSTD_createDCtx();
            snprintf(g_op, sizeof(g_op), "MUT %s %u idx=%d m=%d kind=%u inspectors n=%zu", fi->family, fi->seed, idx, m, kind, n);
            a = ZSTD_getFrameHeader(&fh, gs.p, n); (void)a; a = ZSTD_findFrameCompressedSize(gs.p, n); if (!ZSTD_isError(a) && a > n) nOver++;
            u = ZSTD_getFrameContentSize(gs.p, n); u = ZSTD_decompressBound(gs.p, n); u = ZSTD_findDecompressedSize(gs.p, n); (void)u; a = ZSTD_decompressionMargin(gs.p, n);
            (void)ZSTD_getDictID_fromFrame(gs.p, n); (void)ZSTD_isFrame(gs.p, n); (void)ZSTD_isSkippableFrame(gs.p, n); a = ZSTD_readSkippableFrame(gd.p, 64, &mv, gs.p, n); if (!ZSTD_isError(a) && a > 64) nOver++;
            (void)ZSTD_getDictID_fromDict(gs.p, n); if (n >= 1) a = ZSTD_frameHeaderSize(gs.p, n);
            dd = ZSTD_createDDict(gs.p, n); if (dd) { size_t r2 = ZSTD_decompress_usingDDict(d2, out, 70000, orig, osz, dd); if (!ZSTD_isError(r2) && r2 > 70000) nOver++; ZSTD_freeDDict(dd); }
            { size_t r2 = ZSTD_decompress_usingDict(d2, out, 70000, orig, osz, gs.p, n); if (!ZSTD_isError(r2) && r2 > 70000) nOver++; }
            { size_t r2 = ZSTD_DCtx_loadDictionary(d2, gs.p, n); (void)r2; }
            if (m == 0) { size_t dsz; for (dsz = 0; dsz <= 9 && dsz <= n; dsz++) {      /* very short dictionaries (each in its own exactly-sized block) for every decoder, legacy ones included */
                    gbuf gdict = galloc(dsz); size_t r2; memcpy(gdict.p, gs.p, dsz);
                    r2 = ZSTD_decompress_usingDict(d2, out, 70000, orig, osz, gdict.p, dsz); if (!ZSTD_isError(r2) && r2 > 70000) nOver++;
                    dd = ZSTD_createDDict(gdict.p, dsz); if (dd) { r2 = ZSTD_decompress_usingDDict(d2, out, 70000, orig, osz, dd); if (!ZSTD_isError(r2) && r2 > 70000) nOver++; ZSTD_freeDDict(dd); }
                    gfree(&gdict); } }
            ZSTD_freeDCtx(d2); gfree(&gd); }
        gfree(&gs);
    }
    fprintf(T, "{\"e\":\"mut\",\"family\":\"%s\",\"seed\":%u,\"idx\":%d,\"nmut\":%d,\"csize\":%zu,\"nErr\":%d,\"nOk\":%d,\"over\":%d,\"stall\":%d,\"wrongOk\":%d}\n", fi->family, fi->seed, idx, nmut, osz, nErr, nOk, nOver, nStall, nWrongOk);
}

int main(int argc, char** argv) {
    FILE* S; static char line[512];
    if (argc < 3) return 2;
    S = fopen(argv[1], "r"); T = fopen(argv[2], "w"); if (!S || !T) return 2;
    setvbuf(T, NULL, _IOLBF, 0);
#ifdef ZSTD_VERIF_TRACE
    ZSTD_verif_hook = hook_cb;
#endif
    frame = malloc(MAXF + 4096); content = malloc(MAXC + 64); out = malloc(MAXC + 70000 + 4096); lits = malloc(300000); blk = malloc(500000); dictBuf = malloc(200000); g_reused = ZSTD_createDCtx();
    while (fgets(line, sizeof(line), S)) { char cmd[16], fam[24]; unsigned seed; int count, nmut = 0, i;
        if (sscanf(line, "%15s %23s %u %d %d", cmd, fam, &seed, &count, &nmut) < 4) continue;
        for (i = 0; i < count; i++) { finfo fi; int ok;
            if (!strcmp(fam, "concat")) {      /* frame A (large blocks) + optional skippable + frame B (small window) */
                static unsigned char* hold = NULL; size_t asz; if (!hold) hold = malloc(MAXF);
                ok = build_frame((seed + i) % 2 ? "longlen" : "splitlit", seed + (unsigned)i, &fi) && g_dict == NULL && fi.checksum == 0;
                if (ok) { asz = frameSize; memcpy(hold, frame, asz);
                    if ((seed + i) % 3 == 0) { hold[asz] = 0x50 + ((seed + i) % 16); hold[asz + 1] = 0x2A; hold[asz + 2] = 0x4D; hold[asz + 3] = 0x18; hold[asz + 4] = 5; hold[asz + 5] = hold[asz + 6] = hold[asz + 7] = 0; memcpy(hold + asz + 8, "skip!", 5); asz += 13; }
                    ok = build_frame("headers", seed + 7777u + (unsigned)i, &fi) && g_dict == NULL && fi.checksum == 0 && asz + frameSize < MAXF;
                    if (ok) { memmove(frame + asz, frame, frameSize); memcpy(frame, hold, asz); frameSize += asz; fi.family = "concat"; fi.seed = seed + (unsigned)i; fi.checksum = 0; } } }
            else ok = !strcmp(fam, "comp") ? build_comp_frame(seed + (unsigned)i, &fi) : !strcmp(fam, "legacy") ? build_legacy_frame(seed + (unsigned)i, &fi) : !strcmp(fam, "legacy7") ? build_legacy7_frame(seed + (unsigned)i, &fi) : !strcmp(fam, "rlebig") ? build_rlebig_frame(seed + (unsigned)i, &fi) : build_frame(fam, seed + (unsigned)i, &fi);
            if (!ok) { fprintf(T, "{\"e\":\"frame\",\"family\":\"%s\",\"seed\":%u,\"idx\":%d,\"accepted\":false,\"why\":\"not assembled\",\"csize\":0}\n", fam, seed + (unsigned)i, i); continue; }
            g_ddict = g_dict ? ZSTD_createDDict(g_dict, g_dictSize) : NULL;
            if (!strcmp(cmd, "GEN")) do_frame(&fi, i); else if (!strcmp(cmd, "MUT")) do_mutations(&fi, i, nmut);
            if (g_ddict && strcmp(cmd, "DUMP")) { ZSTD_freeDDict(g_ddict); g_ddict = NULL; }
            if (!strcmp(cmd, "DUMP")) { char nm[300]; FILE* D; snprintf(nm, sizeof(nm), "%s.%s.%u.zst", argv[2], fam, seed + (unsigned)i); D = fopen(nm, "wb"); if (D) { fwrite(frame, 1, frameSize, D); fclose(D); } } }
    }
    fprintf(T, "{\"e\":\"end\"}\n"); fclose(T);
    return 0;
}
