/* vsched.c — controlled-concurrency runtime.
 *
 * Linked with  -Wl,--wrap=pthread_create,--wrap=pthread_join,--wrap=pthread_mutex_lock,
 *   --wrap=pthread_mutex_unlock,--wrap=pthread_cond_wait,--wrap=pthread_cond_signal,
 *   --wrap=pthread_cond_broadcast,--wrap=pthread_mutex_destroy,--wrap=pthread_cond_destroy
 * so that every synchronisation operation of the code under test becomes one atomic,
 * logged step chosen by this scheduler.  Exactly one application thread runs at a time; every
 * thread is always parked at a *pending operation*; the scheduler repeatedly picks one thread
 * whose pending operation is enabled, lets it perform the operation's effect and run to its next
 * operation.  This is the same grain of atomicity as the TLA+ modules Pool / ZstdMT / CoverBest:
 * one spec step per pthread operation.
 *
 * Decisions (which enabled thread runs; which waiter a cond_signal wakes — POSIX allows any) come from
 *   VSCHED_SCHEDULE=<file>  explicit choices, one per line:  "i <index>" (index into the sorted option
 *                           list) or "t <tid>" (thread id); when exhausted, the default policy applies
 *   VSCHED_SEED=<n>         default policy = seeded random (n != 0), or non-preemptive lowest-tid (n = 0)
 *   VSCHED_PCT=<p>          with random policy: probability (percent) to keep running the current thread
 * Outputs
 *   VSCHED_TRACE=<file>     ndjson, one line per step
 *   VSCHED_DECISIONS=<file> one line per decision point with >1 option: "<nOptions> <chosenIndex> <kind>"
 * Deadlock (no enabled thread, some thread not finished) is logged as {"e":"deadlock"} and the process
 * exits with status 42.
 */
#define _GNU_SOURCE
#include <pthread.h>
#include <semaphore.h>
#include <stdio.h>
#include <stdlib.h>
#include <string.h>
#include <unistd.h>
#include "vsched.h"

int __real_pthread_create(pthread_t*, const pthread_attr_t*, void*(*)(void*), void*);
int __real_pthread_join(pthread_t, void**);
int __real_pthread_mutex_lock(pthread_mutex_t*);
int __real_pthread_mutex_unlock(pthread_mutex_t*);

#define MAXT 64
#define MAXO 512
#define MAXSTEPS_DEFAULT 2000000

typedef enum { OP_NONE, OP_START, OP_LOCK, OP_UNLOCK, OP_WAIT, OP_WAITING, OP_RELOCK, OP_SIGNAL, OP_BROADCAST,
               OP_CREATE, OP_JOIN, OP_EXIT, OP_DONE, OP_YIELD } opk;

typedef struct {
    int used; opk op; void* obj; void* mtx; int target;
    sem_t sem; pthread_t real; void* (*fn)(void*); void* arg; void* ret;
} th_t;

static th_t T[MAXT];
static int nT = 0;
static int cur = -1;            /* running thread */
static __thread int me = -1;
static pthread_mutex_t G = PTHREAD_MUTEX_INITIALIZER;  /* protects tables during thread start only */

typedef struct { void* addr; int owner; char name[24]; int iscond; } obj_t;
static obj_t O[MAXO];
static int nO = 0;
static int nMutex = 0, nCond = 0;

static FILE* ftrace = NULL; static FILE* fdec = NULL;
static unsigned long long rng = 88172645463325252ULL;
static int seeded = 0; static int pct = 0; static int strict = 0;
/* PCT (probabilistic concurrency testing, Burckhardt et al.): random thread priorities, the highest-priority enabled thread
 * runs, and at d-1 random steps the running thread drops to the lowest priority.  VSCHED_POLICY=pct VSCHED_PCT_D=<d> VSCHED_PCT_K=<k> */
static int pctmode = 0; static int pct_d = 2; static long pct_k = 300; static int prio[64]; static long chg[8]; static int nchg = 0; static int lowprio = -1;
static long nsteps = 0, maxsteps = MAXSTEPS_DEFAULT;
static int inited = 0;
static int active = 1;

/* explicit schedule */
typedef struct { char kind; int v; } choice_t;
static choice_t* sched = NULL; static int nsched = 0, psched = 0;

static unsigned rnd(void) { rng ^= rng << 13; rng ^= rng >> 7; rng ^= rng << 17; return (unsigned)(rng >> 11); }

void vsched_log(const char* fmt, ...);

static void vs_init(void) {
    const char* s;
    if (inited) return;
    inited = 1;
    if ((s = getenv("VSCHED_OFF")) && *s == '1') { active = 0; }
    if ((s = getenv("VSCHED_TRACE"))) ftrace = fopen(s, "w");
    if ((s = getenv("VSCHED_DECISIONS"))) fdec = fopen(s, "w");
    if ((s = getenv("VSCHED_SEED"))) { unsigned long long v = strtoull(s, 0, 10); if (v) { seeded = 1; rng ^= v * 0x9E3779B97F4A7C15ULL; rnd(); rnd(); } }
    if ((s = getenv("VSCHED_PCT"))) pct = atoi(s);
    if ((s = getenv("VSCHED_STRICT"))) strict = atoi(s);
    if ((s = getenv("VSCHED_POLICY")) && !strcmp(s, "pct")) pctmode = 1;
    if ((s = getenv("VSCHED_PCT_D"))) pct_d = atoi(s);
    if ((s = getenv("VSCHED_PCT_K"))) pct_k = atol(s);
    if (pctmode) { int i; if (pct_d > 8) pct_d = 8; for (i = 0; i < pct_d - 1; i++) chg[nchg++] = 1 + (long)(rnd() % (unsigned long)pct_k); prio[0] = 1000 + (int)(rnd() % 1000); }   /* consume one schedule entry per decision even with a single option */
    if ((s = getenv("VSCHED_MAXSTEPS"))) maxsteps = atol(s);
    if ((s = getenv("VSCHED_SCHEDULE"))) {
        FILE* f = fopen(s, "r");
        if (f) { char k; int v; int cap = 1024; sched = malloc(cap * sizeof(choice_t));
            while (fscanf(f, " %c %d", &k, &v) == 2) { if (nsched == cap) { cap *= 2; sched = realloc(sched, cap * sizeof(choice_t)); } sched[nsched].kind = k; sched[nsched].v = v; nsched++; }
            fclose(f); }
    }
    memset(T, 0, sizeof(T));
    T[0].used = 1; T[0].op = OP_NONE; sem_init(&T[0].sem, 0, 0); T[0].real = pthread_self();
    nT = 1; cur = 0; me = 0;
}

static obj_t* getobj(void* a, int iscond) {
    int i;
    for (i = 0; i < nO; i++) if (O[i].addr == a) return &O[i];
    if (nO == MAXO) { fprintf(stderr, "vsched: too many sync objects\n"); _exit(43); }
    O[nO].addr = a; O[nO].owner = -1; O[nO].iscond = iscond;
    snprintf(O[nO].name, sizeof(O[nO].name), "%s%d", iscond ? "c" : "m", iscond ? nCond++ : nMutex++);
    return &O[nO++];
}
static void dropobj(void* a) {
    int i;
    for (i = 0; i < nO; i++) if (O[i].addr == a) { O[i] = O[nO - 1]; nO--; return; }
}
void vsched_name(void* addr, int iscond, const char* name) {
    obj_t* o; vs_init(); o = getobj(addr, iscond); snprintf(o->name, sizeof(o->name), "%s", name);
}
int vsched_self(void) { vs_init(); return me; }
const char* vsched_objname(void* addr, int iscond) { vs_init(); return getobj(addr, iscond)->name; }
int vsched_active(void) { vs_init(); return active; }

static void tlog(const char* s) { if (ftrace) { fputs(s, ftrace); fputc('\n', ftrace); } }
void vsched_event(const char* json_fields) {   /* application-level event, attributed to the running thread */
    char b[512]; vs_init();
    snprintf(b, sizeof(b), "{\"t\":%d,%s}", me < 0 ? 0 : me, json_fields); tlog(b);
}
static void flushall(void) { if (ftrace) fflush(ftrace); if (fdec) fflush(fdec); }
void vsched_flush(void) { flushall(); }
/* report every created thread that has not terminated (e.g. workers surviving the destruction of their pool) */
int vsched_report_live(void) {
    int t, n = 0; char b[96];
    for (t = 1; t < nT; t++) if (T[t].used && T[t].op != OP_DONE) { snprintf(b, sizeof(b), "{\"t\":%d,\"e\":\"alive\",\"op\":%d}", t, (int)T[t].op); tlog(b); n++; }
    return n;
}

static int enabled(int t) {
    th_t* x = &T[t];
    if (!x->used) return 0;
    switch (x->op) {
    case OP_START: case OP_UNLOCK: case OP_WAIT: case OP_SIGNAL: case OP_BROADCAST: case OP_CREATE: case OP_EXIT: case OP_YIELD: return 1;
    case OP_LOCK: case OP_RELOCK: return getobj(x->mtx, 0)->owner == -1;
    case OP_JOIN: return T[x->target].op == OP_DONE;
    default: return 0;
    }
}

static int decide(int n, const int* opts, int keep, const char* kind) {
    /* opts: candidate values (tids); keep: index of the "no preemption" option or -1 */
    int idx = -1, i;
    if (n == 1 && !(strict && psched < nsched)) return 0;
    if (psched < nsched) {
        choice_t c = sched[psched++];
        if (c.kind == 'i') idx = c.v;
        else for (i = 0; i < n; i++) if (opts[i] == c.v) idx = i;
        if (idx < 0 || idx >= n) {
            char b[160]; snprintf(b, sizeof(b), "{\"e\":\"schedule_infeasible\",\"at\":%d,\"kind\":\"%s\",\"want\":%d}", psched - 1, kind, c.v); tlog(b);
            flushall(); _exit(44);
        }
    } else if (seeded && pctmode && kind[0] == 'r') {
        int best = -1;
        for (i = 0; i < nchg; i++) if (chg[i] == nsteps && keep >= 0) prio[opts[keep]] = lowprio--;   /* priority change point */
        for (i = 0; i < n; i++) if (best < 0 || prio[opts[i]] > prio[opts[best]]) best = i;
        idx = best;
        if (rnd() % 64 == 0) idx = (int)(rnd() % (unsigned)n);     /* a little fairness: busy-polling callers must not starve the workers forever */
    } else if (seeded) {
        if (keep >= 0 && pct > 0 && (int)(rnd() % 100) < pct) idx = keep; else idx = (int)(rnd() % (unsigned)n);
    } else {
        idx = keep >= 0 ? keep : 0;
    }
    if (fdec) fprintf(fdec, "%d %d %s %d\n", n, idx, kind, keep);
    return idx;
}

static void deadlock(void) {
    int t; char b[256];
    tlog("{\"e\":\"deadlock\"}");
    for (t = 0; t < nT; t++) if (T[t].used && T[t].op != OP_DONE) {
        snprintf(b, sizeof(b), "{\"e\":\"stuck\",\"t\":%d,\"op\":%d,\"o\":\"%s\"}", t, (int)T[t].op,
                 T[t].obj ? getobj(T[t].obj, T[t].op == OP_WAITING)->name : "-");
        tlog(b);
    }
    flushall();
    _exit(42);
}

/* Park the calling thread at its pending op (already stored in T[me]) and run the scheduler until this
 * thread is chosen; on return the caller performs the op's effect. */
static void park_and_schedule(void) {
    int opts[MAXT]; int n = 0, t, keep = -1, pick;
    if (++nsteps > maxsteps) { tlog("{\"e\":\"step_limit\"}"); flushall(); _exit(45); }
    for (t = 0; t < nT; t++) if (enabled(t)) { if (t == me) keep = n; opts[n++] = t; }
    if (n == 0) deadlock();
    pick = opts[decide(n, opts, keep, "run")];
    if (pick != me) {
        int self = me;
        cur = pick;
        sem_post(&T[pick].sem);
        sem_wait(&T[self].sem);
    }
    cur = me;
}

static void* trampoline(void* p) {
    th_t* x = (th_t*)p; void* r; char b[96];
    me = (int)(x - T);
    sem_wait(&x->sem);          /* wait until scheduled for START */
    cur = me;
    snprintf(b, sizeof(b), "{\"t\":%d,\"e\":\"start\"}", me); tlog(b);
    x->op = OP_NONE;
    r = x->fn(x->arg);
    x->ret = r;
    x->op = OP_EXIT;
    park_and_schedule();
    snprintf(b, sizeof(b), "{\"t\":%d,\"e\":\"exit\"}", me); tlog(b);
    x->op = OP_DONE;
    /* hand the baton to someone else; this thread is finished */
    {   int opts[MAXT]; int n = 0, t, pick;
        for (t = 0; t < nT; t++) if (enabled(t)) opts[n++] = t;
        if (n == 0) {
            int alldone = 1; for (t = 0; t < nT; t++) if (T[t].used && T[t].op != OP_DONE) alldone = 0;
            if (!alldone) deadlock();
            return r;
        }
        pick = opts[decide(n, opts, -1, "run")];
        cur = pick; sem_post(&T[pick].sem);
    }
    return r;
}

int __wrap_pthread_create(pthread_t* th, const pthread_attr_t* attr, void* (*fn)(void*), void* arg) {
    int c; char b[96];
    vs_init();
    if (!active) return __real_pthread_create(th, attr, fn, arg);
    T[me].op = OP_CREATE; park_and_schedule();
    if (nT == MAXT) { fprintf(stderr, "vsched: too many threads\n"); _exit(43); }
    c = nT++;
    T[c].used = 1; T[c].op = OP_START; T[c].fn = fn; T[c].arg = arg; sem_init(&T[c].sem, 0, 0);
    if (pctmode) prio[c] = 1000 + (int)(rnd() % 1000);
    snprintf(b, sizeof(b), "{\"t\":%d,\"e\":\"create\",\"c\":%d}", me, c); tlog(b);
    T[me].op = OP_NONE;
    {   int rc = __real_pthread_create(&T[c].real, attr, trampoline, &T[c]);
        if (rc) { T[c].used = 0; nT--; return rc; }
        *th = T[c].real; }
    return 0;
}

int __wrap_pthread_join(pthread_t th, void** ret) {
    int t, tgt = -1; char b[96];
    vs_init();
    if (!active) return __real_pthread_join(th, ret);
    for (t = 0; t < nT; t++) if (T[t].used && t != 0 && pthread_equal(T[t].real, th)) tgt = t;
    if (tgt < 0) return __real_pthread_join(th, ret);
    T[me].op = OP_JOIN; T[me].target = tgt; park_and_schedule();
    snprintf(b, sizeof(b), "{\"t\":%d,\"e\":\"join\",\"c\":%d}", me, tgt); tlog(b);
    T[me].op = OP_NONE;
    __real_pthread_join(th, ret);
    return 0;
}

int __wrap_pthread_mutex_lock(pthread_mutex_t* m) {
    obj_t* o; char b[96];
    vs_init();
    if (!active) return __real_pthread_mutex_lock(m);
    T[me].op = OP_LOCK; T[me].obj = m; T[me].mtx = m; park_and_schedule();
    o = getobj(m, 0); o->owner = me;
    snprintf(b, sizeof(b), "{\"t\":%d,\"e\":\"lock\",\"o\":\"%s\"}", me, o->name); tlog(b);
    T[me].op = OP_NONE;
    return 0;
}

int __wrap_pthread_mutex_unlock(pthread_mutex_t* m) {
    obj_t* o; char b[96];
    vs_init();
    if (!active) return __real_pthread_mutex_unlock(m);
    T[me].op = OP_UNLOCK; T[me].obj = m; park_and_schedule();
    o = getobj(m, 0);
    if (o->owner != me) { snprintf(b, sizeof(b), "{\"t\":%d,\"e\":\"bad_unlock\",\"o\":\"%s\"}", me, o->name); tlog(b); }
    o->owner = -1;
    snprintf(b, sizeof(b), "{\"t\":%d,\"e\":\"unlock\",\"o\":\"%s\"}", me, o->name); tlog(b);
    T[me].op = OP_NONE;
    return 0;
}

int __wrap_pthread_cond_wait(pthread_cond_t* c, pthread_mutex_t* m) {
    obj_t *oc, *om; char b[128];
    vs_init();
    if (!active) { extern int __real_pthread_cond_wait(pthread_cond_t*, pthread_mutex_t*); return __real_pthread_cond_wait(c, m); }
    T[me].op = OP_WAIT; T[me].obj = c; T[me].mtx = m; park_and_schedule();
    oc = getobj(c, 1); om = getobj(m, 0);
    om->owner = -1;
    snprintf(b, sizeof(b), "{\"t\":%d,\"e\":\"wait\",\"o\":\"%s\",\"m\":\"%s\"}", me, oc->name, om->name); tlog(b);
    T[me].op = OP_WAITING;          /* not enabled until signalled */
    park_and_schedule();            /* returns when woken *and* mutex free *and* chosen (op == OP_RELOCK) */
    om = getobj(m, 0); om->owner = me; oc = getobj(c, 1);
    snprintf(b, sizeof(b), "{\"t\":%d,\"e\":\"relock\",\"o\":\"%s\",\"m\":\"%s\"}", me, oc->name, om->name); tlog(b);
    T[me].op = OP_NONE;
    return 0;
}

static int wake(void* c, int all) {
    int w[MAXT]; int n = 0, t, k = -1;
    for (t = 0; t < nT; t++) if (T[t].used && T[t].op == OP_WAITING && T[t].obj == c) w[n++] = t;
    if (n == 0) return -1;
    if (all) { for (t = 0; t < n; t++) T[w[t]].op = OP_RELOCK; return n; }
    k = w[decide(n, w, -1, "wake")];
    T[k].op = OP_RELOCK;
    return k;
}

int __wrap_pthread_cond_signal(pthread_cond_t* c) {
    obj_t* oc; char b[128]; int k;
    vs_init();
    if (!active) { extern int __real_pthread_cond_signal(pthread_cond_t*); return __real_pthread_cond_signal(c); }
    T[me].op = OP_SIGNAL; T[me].obj = c; park_and_schedule();
    oc = getobj(c, 1);
    k = wake(c, 0);
    snprintf(b, sizeof(b), "{\"t\":%d,\"e\":\"signal\",\"o\":\"%s\",\"w\":%d}", me, oc->name, k); tlog(b);
    T[me].op = OP_NONE;
    return 0;
}

int __wrap_pthread_cond_broadcast(pthread_cond_t* c) {
    obj_t* oc; char b[128]; int k;
    vs_init();
    if (!active) { extern int __real_pthread_cond_broadcast(pthread_cond_t*); return __real_pthread_cond_broadcast(c); }
    T[me].op = OP_BROADCAST; T[me].obj = c; park_and_schedule();
    oc = getobj(c, 1);
    k = wake(c, 1);
    snprintf(b, sizeof(b), "{\"t\":%d,\"e\":\"broadcast\",\"o\":\"%s\",\"n\":%d}", me, oc->name, k < 0 ? 0 : k); tlog(b);
    T[me].op = OP_NONE;
    return 0;
}

int __wrap_pthread_mutex_destroy(pthread_mutex_t* m) { extern int __real_pthread_mutex_destroy(pthread_mutex_t*); vs_init(); if (active) dropobj(m); return __real_pthread_mutex_destroy(m); }
int __wrap_pthread_cond_destroy(pthread_cond_t* c) { extern int __real_pthread_cond_destroy(pthread_cond_t*); vs_init(); if (active) dropobj(c); return __real_pthread_cond_destroy(c); }

/* explicit scheduling point for application code (e.g. between unsynchronised accesses) */
void vsched_yield(void) {
    vs_init(); if (!active) return;
    T[me].op = OP_YIELD; park_and_schedule(); T[me].op = OP_NONE;
}
