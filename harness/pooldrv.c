/* pooldrv.c — runs a client program from the Pool.tla grammar against the real lib/common/pool.c under vsched.
 * usage: pooldrv <nThreads> <queueSize> "<main program>" "<job bodies>"
 *   main program: space separated ops  a<j> (POOL_add job j)  t<j> (POOL_tryAdd job j)  j (POOL_joinJobs)
 *                 r<n> (POOL_resize n)  f (POOL_free)
 *   job bodies  : comma separated  <j>:<op>[+<op>...]   ops a<k> / t<k>   (jobs that post work)
 * pool.c is included as a unity build so that the driver can name the pool's mutex / conditions. */
#include "pool.c"
#include <stdio.h>
#include <stdlib.h>
#include <string.h>
#include "vsched.h"

#define MAXJ 16
static POOL_ctx* g_ctx;
static int g_started[MAXJ], g_finished[MAXJ];
static char g_body[MAXJ][64];
static int g_ids[MAXJ];

static void job(void* p);
static void doop(const char* op) {
    char b[128];
    if (op[0] == 'a') { int j = atoi(op + 1);
        snprintf(b, sizeof(b), "\"e\":\"call\",\"op\":\"add\",\"j\":%d", j); vsched_event(b);
        POOL_add(g_ctx, job, &g_ids[j]);
        snprintf(b, sizeof(b), "\"e\":\"ret\",\"op\":\"add\",\"j\":%d,\"r\":0", j); vsched_event(b);
    } else if (op[0] == 't') { int j = atoi(op + 1); int r;
        snprintf(b, sizeof(b), "\"e\":\"call\",\"op\":\"tryAdd\",\"j\":%d", j); vsched_event(b);
        r = POOL_tryAdd(g_ctx, job, &g_ids[j]);
        snprintf(b, sizeof(b), "\"e\":\"ret\",\"op\":\"tryAdd\",\"j\":%d,\"r\":%d", j, r); vsched_event(b);
    } else if (op[0] == 'j') {
        vsched_event("\"e\":\"call\",\"op\":\"joinJobs\",\"j\":-1");
        POOL_joinJobs(g_ctx);
        vsched_event("\"e\":\"ret\",\"op\":\"joinJobs\",\"j\":-1,\"r\":0");
    } else if (op[0] == 'r') { int n = atoi(op + 1); int r;
        snprintf(b, sizeof(b), "\"e\":\"call\",\"op\":\"resize\",\"j\":%d", n); vsched_event(b);
        r = POOL_resize(g_ctx, (size_t)n);
        snprintf(b, sizeof(b), "\"e\":\"ret\",\"op\":\"resize\",\"j\":%d,\"r\":%d", n, r); vsched_event(b);
    } else if (op[0] == 'f') {
        vsched_event("\"e\":\"call\",\"op\":\"free\",\"j\":-1");
        POOL_free(g_ctx);
        vsched_event("\"e\":\"ret\",\"op\":\"free\",\"j\":-1,\"r\":0");
    }
}
static void job(void* p) {
    int j = *(int*)p; char b[96]; char body[64]; char* tok; char* save;
    g_started[j]++;
    snprintf(b, sizeof(b), "\"e\":\"jobStart\",\"j\":%d", j); vsched_event(b);
    strcpy(body, g_body[j]);
    for (tok = strtok_r(body, "+", &save); tok; tok = strtok_r(NULL, "+", &save)) doop(tok);
    g_finished[j]++;
    snprintf(b, sizeof(b), "\"e\":\"jobEnd\",\"j\":%d", j); vsched_event(b);
}
int main(int argc, char** argv) {
    int nt, qs, i; char prog[512]; char* tok; char* save; char b[256];
    if (argc < 4) { fprintf(stderr, "usage\n"); return 2; }
    nt = atoi(argv[1]); qs = atoi(argv[2]);
    for (i = 0; i < MAXJ; i++) g_ids[i] = i;
    if (argc > 4) { char bodies[512]; strncpy(bodies, argv[4], sizeof(bodies) - 1); bodies[sizeof(bodies)-1]=0;
        for (tok = strtok_r(bodies, ",", &save); tok; tok = strtok_r(NULL, ",", &save)) {
            int j = atoi(tok); char* c = strchr(tok, ':'); if (c && j >= 0 && j < MAXJ) strncpy(g_body[j], c + 1, 63); } }
    snprintf(b, sizeof(b), "\"e\":\"call\",\"op\":\"create\",\"j\":%d", nt); vsched_event(b);
    g_ctx = POOL_create((size_t)nt, (size_t)qs);
    if (!g_ctx) { fprintf(stderr, "POOL_create failed\n"); return 2; }
    snprintf(b, sizeof(b), "\"e\":\"names\",\"qm\":\"%s\",\"push\":\"%s\",\"pop\":\"%s\"",
             vsched_objname(&g_ctx->queueMutex, 0), vsched_objname(&g_ctx->queuePushCond, 1), vsched_objname(&g_ctx->queuePopCond, 1));
    vsched_event(b);
    snprintf(b, sizeof(b), "\"e\":\"ret\",\"op\":\"create\",\"j\":%d,\"r\":0", nt); vsched_event(b);
    strncpy(prog, argv[3], sizeof(prog) - 1); prog[sizeof(prog)-1] = 0;
    for (tok = strtok_r(prog, " ", &save); tok; tok = strtok_r(NULL, " ", &save)) doop(tok);
    /* final observation: execution counters (the scheduler serialises all threads, so plain reads are safe) */
    for (i = 0; i < MAXJ; i++) if (g_started[i] || g_finished[i]) {
        snprintf(b, sizeof(b), "\"e\":\"count\",\"j\":%d,\"started\":%d,\"finished\":%d", i, g_started[i], g_finished[i]); vsched_event(b); }
    vsched_report_live();
    vsched_event("\"e\":\"end\"");
    vsched_flush();
    return 0;
}
