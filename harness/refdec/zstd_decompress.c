/*
 * Copyright (c) Meta Platforms, Inc. and affiliates.
 * All rights reserved.
 *
 * This source code is licensed under both the BSD-style license (found in the
 * LICENSE file in the root directory of this source tree) and the GPLv2 (found
 * in the COPYING file in the root directory of this source tree).
 * You may select, at your option, one of the above-listed licenses.
 */

/// Zstandard educational decoder implementation
/// See https://github.com/facebook/zstd/blob/dev/doc/zstd_compression_format.md

#include <stdint.h>   // uint8_t, etc.
#include <stdlib.h>   // malloc, free, exit
#include <stdio.h>    // fprintf
#include <string.h>   // memset, memcpy
#include "zstd_decompress.h"


/******* IMPORTANT CONSTANTS *********************************************/

// Zstandard frame
// "Magic_Number
// 4 Bytes, little-endian format. Value : 0xFD2FB528"
#define ZSTD_MAGIC_NUMBER 0xFD2FB528U

// The size of `Block_Content` is limited by `Block_Maximum_Size`,
#define ZSTD_BLOCK_SIZE_MAX ((size_t)128 * 1024)

// literal blocks can't be larger than their block
#define MAX_LITERALS_SIZE ZSTD_BLOCK_SIZE_MAX


/******* UTILITY MACROS AND TYPES *********************************************/
#define MAX(a, b) ((a) > (b) ? (a) : (b))
#define MIN(a, b) ((a) < (b) ? (a) : (b))

#if defined(ZDEC_NO_MESSAGE)
#define MESSAGE(...)
#else
#define MESSAGE(...)  fprintf(stderr, "" __VA_ARGS__)
#endif

/// This decoder calls exit(1) when it encounters an error, however a production
/// library should propagate error codes
#define ERROR(s)                                                               \
    do {                                                                       \
        REF_fail(s);                                                           \
    } while (0)
#define INP_SIZE()                                                             \
    ERROR("Input buffer smaller than it should be or input is "                \
          "corrupted")
#define OUT_SIZE() ERROR("Output buffer too small for output")
#define CORRUPTION() ERROR("Corruption detected while decompressing")
#define BAD_ALLOC() ERROR("Memory allocation error")
#define IMPOSSIBLE() ERROR("An impossibility has occurred")

/* ---- verification vendoring: failure by longjmp, event hooks (defined in ../refdec.c which includes this file) ---- */
static void REF_fail(const char* why);
static unsigned ref_stored_checksum; static int ref_lit_mode, ref_lit_format, ref_seq_modes;
#define REF_EV_FRAME(ctx) REF_ev_frame(ctx)
#define REF_EV_FRAME_END(ctx, start, n, in) REF_ev_frame_end(ctx, start, n)
#define REF_EV_BLOCK(ctx, type, len, last, pos, regen) REF_ev_block(ctx, type, len, last, pos, regen)
#define REF_EV_SEQ(ctx, pos, ll, ml, ov, off) REF_ev_seq(ctx, pos, ll, ml, ov, off)
#define REF_EV_LASTLITS(ctx, nseq, len, hist) REF_ev_lastlits(ctx, nseq, len, hist)

typedef uint8_t  u8;
typedef uint16_t u16;
typedef uint32_t u32;
typedef uint64_t u64;

typedef int8_t  i8;
typedef int16_t i16;
typedef int32_t i32;
typedef int64_t i64;
/******* END UTILITY MACROS AND TYPES *****************************************/

/******* IMPLEMENTATION PRIMITIVE PROTOTYPES **********************************/
/// The implementations for these functions can be found at the bottom of this
/// file.  They implement low-level functionality needed for the higher level
/// decompression functions.

/*** IO STREAM OPERATIONS *************/

/// ostream_t/istream_t are used to wrap the pointers/length data passed into
/// ZSTD_decompress, so that all IO operations are safely bounds checked
/// They are written/read forward, and reads are treated as little-endian
/// They should be used opaquely to ensure safety
typedef struct {
    u8 *ptr;
    size_t len;
} ostream_t;

typedef struct {
    const u8 *ptr;
    size_t len;

    // Input often reads a few bits at a time, so maintain an internal offset
    int bit_offset;
} istream_t;

/// The following two functions are the only ones that allow the istream to be
/// non-byte aligned

/// Reads `num` bits from a bitstream, and updates the internal offset
static inline u64 IO_read_bits(istream_t *const in, const int num_bits);
/// Backs-up the stream by `num` bits so they can be read again
static inline void IO_rewind_bits(istream_t *const in, const int num_bits);
/// If the remaining bits in a byte will be unused, advance to the end of the
/// byte
static inline void IO_align_stream(istream_t *const in);

/// Write the given byte into the output stream
static inline void IO_write_byte(ostream_t *const out, u8 symb);

/// Returns the number of bytes left to be read in this stream.  The stream must
/// be byte aligned.
static inline size_t IO_istream_len(const istream_t *const in);

/// Advances the stream by `len` bytes, and returns a pointer to the chunk that
/// was skipped.  The stream must be byte aligned.
static inline const u8 *IO_get_read_ptr(istream_t *const in, size_t len);
/// Advances the stream by `len` bytes, and returns a pointer to the chunk that
/// was skipped so it can be written to.
static inline u8 *IO_get_write_ptr(ostream_t *const out, size_t len);

/// Advance the inner state by `len` bytes.  The stream must be byte aligned.
static inline void IO_advance_input(istream_t *const in, size_t len);

/// Returns an `ostream_t` constructed from the given pointer and length.
static inline ostream_t IO_make_ostream(u8 *out, size_t len);
/// Returns an `istream_t` constructed from the given pointer and length.
static inline istream_t IO_make_istream(const u8 *in, size_t len);

/// Returns an `istream_t` with the same base as `in`, and length `len`.
/// Then, advance `in` to account for the consumed bytes.
/// `in` must be byte aligned.
static inline istream_t IO_make_sub_istream(istream_t *const in, size_t len);
/*** END IO STREAM OPERATIONS *********/

/*** BITSTREAM OPERATIONS *************/
/// Read `num` bits (up to 64) from `src + offset`, where `offset` is in bits,
/// and return them interpreted as a little-endian unsigned integer.
static inline u64 read_bits_LE(const u8 *src, const int num_bits,
                               const size_t offset);

/// Read bits from the end of a HUF or FSE bitstream.  `offset` is in bits, so
/// it updates `offset` to `offset - bits`, and then reads `bits` bits from
/// `src + offset`.  If the offset becomes negative, the extra bits at the
/// bottom are filled in with `0` bits instead of reading from before `src`.
static inline u64 STREAM_read_bits(const u8 *src, const int bits,
                                   i64 *const offset);
/*** END BITSTREAM OPERATIONS *********/

/*** BIT COUNTING OPERATIONS **********/
/// Returns the index of the highest set bit in `num`, or `-1` if `num == 0`
static inline int highest_set_bit(const u64 num);
/*** END BIT COUNTING OPERATIONS ******/

/*** HUFFMAN PRIMITIVES ***************/
// Table decode method uses exponential memory, so we need to limit depth
#define HUF_MAX_BITS (16)

// Limit the maximum number of symbols to 256 so we can store a symbol in a byte
#define HUF_MAX_SYMBS (256)

/// Structure containing all tables necessary for efficient Huffman decoding
typedef struct {
    u8 *symbols;
    u8 *num_bits;
    int max_bits;
} HUF_dtable;

/// Decode a single symbol and read in enough bits to refresh the state
static inline u8 HUF_decode_symbol(const HUF_dtable *const dtable,
                                   u16 *const state, const u8 *const src,
                                   i64 *const offset);
/// Read in a full state's worth of bits to initialize it
static inline void HUF_init_state(const HUF_dtable *const dtable,
                                  u16 *const state, const u8 *const src,
                                  i64 *const offset);

/// Decompresses a single Huffman stream, returns the number of bytes decoded.
/// `src_len` must be the exact length of the Huffman-coded block.
static size_t HUF_decompress_1stream(const HUF_dtable *const dtable,
                                     ostream_t *const out, istream_t *const in);
/// Same as previous but decodes 4 streams, formatted as in the Zstandard
/// specification.
/// `src_len` must be the exact length of the Huffman-coded block.
static size_t HUF_decompress_4stream(const HUF_dtable *const dtable,
                                     ostream_t *const out, istream_t *const in);

/// Initialize a Huffman decoding table using the table of bit counts provided
static void HUF_init_dtable(HUF_dtable *const table, const u8 *const bits,
                            const int num_symbs);
/// Initialize a Huffman decoding table using the table of weights provided
/// Weights follow the definition provided in the Zstandard specification
static void HUF_init_dtable_usingweights(HUF_dtable *const table,
                                         const u8 *const weights,
                                         const int num_symbs);

/// Free the malloc'ed parts of a decoding table
static void HUF_free_dtable(HUF_dtable *const dtable);
/*** END HUFFMAN PRIMITIVES ***********/

/*** FSE PRIMITIVES *******************/
/// For more description of FSE see
/// https://github.com/Cyan4973/FiniteStateEntropy/

// FSE table decoding uses exponential memory, so limit the maximum accuracy
#define FSE_MAX_ACCURACY_LOG (15)
// Limit the maximum number of symbols so they can be stored in a single byte
#define FSE_MAX_SYMBS (256)

/// The tables needed to decode FSE encoded streams
typedef struct {
    u8 *symbols;
    u8 *num_bits;
    u16 *new_state_base;
    int accuracy_log;
} FSE_dtable;

/// Return the symbol for the current state
static inline u8 FSE_peek_symbol(const FSE_dtable *const dtable,
                                 const u16 state);
/// Read the number of bits necessary to update state, update, and shift offset
/// back to reflect the bits read
static inline void FSE_update_state(const FSE_dtable *const dtable,
                                    u16 *const state, const u8 *const src,
                                    i64 *const offset);

/// Combine peek and update: decode a symbol and update the state
static inline u8 FSE_decode_symbol(const FSE_dtable *const dtable,
                                   u16 *const state, const u8 *const src,
                                   i64 *const offset);

/// Read bits from the stream to initialize the state and shift offset back
static inline void FSE_init_state(const FSE_dtable *const dtable,
                                  u16 *const state, const u8 *const src,
                                  i64 *const offset);

/// Decompress two interleaved bitstreams (e.g. compressed Huffman weights)
/// using an FSE decoding table.  `src_len` must be the exact length of the
/// block.
static size_t FSE_decompress_interleaved2(const FSE_dtable *const dtable,
                                          ostream_t *const out,
                                          istream_t *const in);

/// Initialize a decoding table using normalized frequencies.
static void FSE_init_dtable(FSE_dtable *const dtable,
                            const i16 *const norm_freqs, const int num_symbs,
                            const int accuracy_log);

/// Decode an FSE header as defined in the Zstandard format specification and
/// use the decoded frequencies to initialize a decoding table.
static void FSE_decode_header(FSE_dtable *const dtable, istream_t *const in,
                                const int max_accuracy_log);

/// Initialize an FSE table that will always return the same symbol and consume
/// 0 bits per symbol, to be used for RLE mode in sequence commands
static void FSE_init_dtable_rle(FSE_dtable *const dtable, const u8 symb);

/// Free the malloc'ed parts of a decoding table
static void FSE_free_dtable(FSE_dtable *const dtable);
/*** END FSE PRIMITIVES ***************/

/******* END IMPLEMENTATION PRIMITIVE PROTOTYPES ******************************/

/******* ZSTD HELPER STRUCTS AND PROTOTYPES ***********************************/

/// A small structure that can be reused in various places that need to access
/// frame header information
typedef struct {
    // The size of window that we need to be able to contiguously store for
    // references
    size_t window_size;
    // The total output size of this compressed frame
    size_t frame_content_size;

    // The dictionary id if this frame uses one
    u32 dictionary_id;

    // Whether or not the content of this frame has a checksum
    int content_checksum_flag;
    // Whether or not the output for this frame is in a single segment
    int single_segment_flag;
    // (vendored copy) whether the Frame_Content_Size field is present
    int fcs_present;
} frame_header_t;

/// The context needed to decode blocks in a frame
typedef struct {
    frame_header_t header;

    // The total amount of data available for backreferences, to determine if an
    // offset too large to be correct
    size_t current_total_output;

    const u8 *dict_content;
    size_t dict_content_len;

    // Entropy encoding tables so they can be repeated by future blocks instead
    // of retransmitting
    HUF_dtable literals_dtable;
    FSE_dtable ll_dtable;
    FSE_dtable ml_dtable;
    FSE_dtable of_dtable;

    // The last 3 offsets for the special "repeat offsets".
    u64 previous_offsets[3];
} frame_context_t;
static void REF_ev_frame(frame_context_t* ctx);
static void REF_ev_frame_end(frame_context_t* ctx, const u8* start, size_t n);
static void REF_ev_block(frame_context_t* ctx, int type, size_t len, int last, size_t pos, size_t regen);
static void REF_ev_seq(frame_context_t* ctx, size_t pos, u32 ll, u32 ml, u32 ov, size_t off);
static void REF_ev_lastlits(frame_context_t* ctx, size_t nseq, size_t len, const u64* hist);

/// The decoded contents of a dictionary so that it doesn't have to be repeated
/// for each frame that uses it
struct dictionary_s {
    // Entropy tables
    HUF_dtable literals_dtable;
    FSE_dtable ll_dtable;
    FSE_dtable ml_dtable;
    FSE_dtable of_dtable;

    // Raw content for backreferences
    u8 *content;
    size_t content_size;

    // Offset history to prepopulate the frame's history
    u64 previous_offsets[3];

    u32 dictionary_id;
};

/// A tuple containing the parts necessary to decode and execute a ZSTD sequence
/// command
typedef struct {
    u32 literal_length;
    u32 match_length;
    u32 offset;
} sequence_command_t;

/// The decoder works top-down, starting at the high level like Zstd frames, and
/// working down to lower more technical levels such as blocks, literals, and
/// sequences.  The high-level functions roughly follow the outline of the
/// format specification:
/// https://github.com/facebook/zstd/blob/dev/doc/zstd_compression_format.md

/// Before the implementation of each high-level function declared here, the
/// prototypes for their helper functions are defined and explained

/// Decode a single Zstd frame, or error if the input is not a valid frame.
/// Accepts a dict argument, which may be NULL indicating no dictionary.
/// See
/// https://github.com/facebook/zstd/blob/dev/doc/zstd_compression_format.md#frame-concatenation
static void decode_frame(ostream_t *const out, istream_t *const in,
                         const dictionary_t *const dict);

// Decode data in a compressed block
static void decompress_block(frame_context_t *const ctx, ostream_t *const out,
                             istream_t *const in);

// Decode the literals section of a block
static size_t decode_literals(frame_context_t *const ctx, istream_t *const in,
                              u8 **const literals);

// Decode the sequences part of a block
static size_t decode_sequences(frame_context_t *const ctx, istream_t *const in,
                               sequence_command_t **const sequences);

// Execute the decoded sequences on the literals block
static void execute_sequences(frame_context_t *const ctx, ostream_t *const out,
                              const u8 *const literals,
                              const size_t literals_len,
                              const sequence_command_t *const sequences,
                              const size_t num_sequences);

// Copies literals and returns the total literal length that was copied
static u32 copy_literals(const size_t seq, istream_t *litstream,
                         ostream_t *const out);

// Given an offset code from a sequence command (either an actual offset value
// or an index for previous offset), computes the correct offset and updates
// the offset history
static size_t compute_offset(sequence_command_t seq, u64 *const offset_hist);

// Given an offset, match length, and total output, as well as the frame
// context for the dictionary, determines if the dictionary is used and
// executes the copy operation
static void execute_match_copy(frame_context_t *const ctx, size_t offset,
                              size_t match_length, size_t total_output,
                              ostream_t *const out);

/******* END ZSTD HELPER STRUCTS AND PROTOTYPES *******************************/

size_t ZSTD_decompress(void *const dst, const size_t dst_len,
                       const void *const src, const size_t src_len) {
    dictionary_t* const uninit_dict = create_dictionary();
    size_t const decomp_size = ZSTD_decompress_with_dict(dst, dst_len, src,
                                                         src_len, uninit_dict);
    free_dictionary(uninit_dict);
    return decomp_size;
}

size_t ZSTD_decompress_with_dict(void *const dst, const size_t dst_len,
                                 const void *const src, const size_t src_len,
                                 dictionary_t* parsed_dict) {

    istream_t in = IO_make_istream(src, src_len);
    ostream_t out = IO_make_ostream(dst, dst_len);

    // "A content compressed by Zstandard is transformed into a Zstandard frame.
    // Multiple frames can be appended into a single file or stream. A frame is
    // totally independent, has a defined beginning and end, and a set of
    // parameters which tells the decoder how to decompress it."

    /* this decoder assumes decompression of a single frame */
    decode_frame(&out, &in, parsed_dict);

    return (size_t)(out.ptr - (u8 *)dst);
}

/******* FRAME DECODING ******************************************************/

static void decode_data_frame(ostream_t *const out, istream_t *const in,
                              const dictionary_t *const dict);
static void init_frame_context(frame_context_t *const context,
                               istream_t *const in,
                               const dictionary_t *const dict);
static void free_frame_context(frame_context_t *const context);
static void parse_frame_header(frame_header_t *const header,
                               istream_t *const in);
static void frame_context_apply_dict(frame_context_t *const ctx,
                                     const dictionary_t *const dict);

static void decompress_data(frame_context_t *const ctx, ostream_t *const out,
                            istream_t *const in);

static void decode_frame(ostream_t *const out, istream_t *const in,
                         const dictionary_t *const dict) {
    const u32 magic_number = (u32)IO_read_bits(in, 32);
    if (magic_number == ZSTD_MAGIC_NUMBER) {
        // ZSTD frame
        decode_data_frame(out, in, dict);

        return;
    }

    // not a real frame or a skippable frame
    ERROR("Tried to decode non-ZSTD frame");
}

/// Decode a frame that contains compressed data.  Not all frames do as there
/// are skippable frames.
/// See
/// https://github.com/facebook/zstd/blob/dev/doc/zstd_compression_format.md#general-structure-of-zstandard-frame-format
static void decode_data_frame(ostream_t *const out, istream_t *const in,
                              const dictionary_t *const dict) {
    frame_context_t ctx;

    // Initialize the context that needs to be carried from block to block
    init_frame_context(&ctx, in, dict);

    if (ctx.header.frame_content_size != 0 &&
        ctx.header.frame_content_size > out->len) {
        OUT_SIZE();
    }

    REF_EV_FRAME(&ctx);
    {   u8 *const frame_out_start = out->ptr;
        decompress_data(&ctx, out, in);
        REF_EV_FRAME_END(&ctx, frame_out_start, (size_t)(out->ptr - frame_out_start), in);
    }

    free_frame_context(&ctx);
}

/// Takes the information provided in the header and dictionary, and initializes
/// the context for this frame
static void init_frame_context(frame_context_t *const context,
                               istream_t *const in,
                               const dictionary_t *const dict) {
    // Most fields in context are correct when initialized to 0
    memset(context, 0, sizeof(frame_context_t));

    // Parse data from the frame header
    parse_frame_header(&context->header, in);

    // Set up the offset history for the repeat offset commands
    context->previous_offsets[0] = 1;
    context->previous_offsets[1] = 4;
    context->previous_offsets[2] = 8;

    // Apply details from the dict if it exists
    frame_context_apply_dict(context, dict);
}

static void free_frame_context(frame_context_t *const context) {
    HUF_free_dtable(&context->literals_dtable);

    FSE_free_dtable(&context->ll_dtable);
    FSE_free_dtable(&context->ml_dtable);
    FSE_free_dtable(&context->of_dtable);

    memset(context, 0, sizeof(frame_context_t));
}

static void parse_frame_header(frame_header_t *const header,
                               istream_t *const in) {
    // "The first header's byte is called the Frame_Header_Descriptor. It tells
    // which other fields are present. Decoding this byte is enough to tell the
    // size of Frame_Header.
    //
    // Bit number   Field name
    // 7-6  Frame_Content_Size_flag
    // 5    Single_Segment_flag
    // 4    Unused_bit
    // 3    Reserved_bit
    // 2    Content_Checksum_flag
    // 1-0  Dictionary_ID_flag"
    const u8 descriptor = (u8)IO_read_bits(in, 8);

    // decode frame header descriptor into flags
    const u8 frame_content_size_flag = descriptor >> 6;
    const u8 single_segment_flag = (descriptor >> 5) & 1;
    const u8 reserved_bit = (descriptor >> 3) & 1;
    const u8 content_checksum_flag = (descriptor >> 2) & 1;
    const u8 dictionary_id_flag = descriptor & 3;

    if (reserved_bit != 0) {
        CORRUPTION();
    }

    header->single_segment_flag = single_segment_flag;
    header->content_checksum_flag = content_checksum_flag;

    // decode window size
    if (!single_segment_flag) {
        // "Provides guarantees on maximum back-reference distance that will be
        // used within compressed data. This information is important for
        // decoders to allocate enough memory.
        //
        // Bit numbers  7-3         2-0
        // Field name   Exponent    Mantissa"
        u8 window_descriptor = (u8)IO_read_bits(in, 8);
        u8 exponent = window_descriptor >> 3;
        u8 mantissa = window_descriptor & 7;

        // Use the algorithm from the specification to compute window size
        // https://github.com/facebook/zstd/blob/dev/doc/zstd_compression_format.md#window_descriptor
        size_t window_base = (size_t)1 << (10 + exponent);
        size_t window_add = (window_base / 8) * mantissa;
        header->window_size = window_base + window_add;
    }

    // decode dictionary id if it exists
    if (dictionary_id_flag) {
        // "This is a variable size field, which contains the ID of the
        // dictionary required to properly decode the frame. Note that this
        // field is optional. When it's not present, it's up to the caller to
        // make sure it uses the correct dictionary. Format is little-endian."
        const int bytes_array[] = {0, 1, 2, 4};
        const int bytes = bytes_array[dictionary_id_flag];

        header->dictionary_id = (u32)IO_read_bits(in, bytes * 8);
    } else {
        header->dictionary_id = 0;
    }

    // decode frame content size if it exists
    if (single_segment_flag || frame_content_size_flag) {
        // "This is the original (uncompressed) size. This information is
        // optional. The Field_Size is provided according to value of
        // Frame_Content_Size_flag. The Field_Size can be equal to 0 (not
        // present), 1, 2, 4 or 8 bytes. Format is little-endian."
        //
        // if frame_content_size_flag == 0 but single_segment_flag is set, we
        // still have a 1 byte field
        const int bytes_array[] = {1, 2, 4, 8};
        const int bytes = bytes_array[frame_content_size_flag];

        header->fcs_present = 1;
        header->frame_content_size = IO_read_bits(in, bytes * 8);
        if (bytes == 2) {
            // "When Field_Size is 2, the offset of 256 is added."
            header->frame_content_size += 256;
        }
    } else {
        header->frame_content_size = 0;
        header->fcs_present = 0;
    }

    if (single_segment_flag) {
        // "The Window_Descriptor byte is optional. It is absent when
        // Single_Segment_flag is set. In this case, the maximum back-reference
        // distance is the content size itself, which can be any value from 1 to
        // 2^64-1 bytes (16 EB)."
        header->window_size = header->frame_content_size;
    }
}

/// Decompress the data from a frame block by block
static void decompress_data(frame_context_t *const ctx, ostream_t *const out,
                            istream_t *const in) {
    // "A frame encapsulates one or multiple blocks. Each block can be
    // compressed or not, and has a guaranteed maximum content size, which
    // depends on frame parameters. Unlike frames, each block depends on
    // previous blocks for proper decoding. However, each block can be
    // decompressed without waiting for its successor, allowing streaming
    // operations."
    int last_block = 0;
    do {
        // "Last_Block
        //
        // The lowest bit signals if this block is the last one. Frame ends
        // right after this block.
        //
        // Block_Type and Block_Size
        //
        // The next 2 bits represent the Block_Type, while the remaining 21 bits
        // represent the Block_Size. Format is little-endian."
        last_block = (int)IO_read_bits(in, 1);
        const int block_type = (int)IO_read_bits(in, 2);
        const size_t block_len = IO_read_bits(in, 21);
        const size_t ref_out_before = ctx->current_total_output;

        switch (block_type) {
        case 0: {
            // "Raw_Block - this is an uncompressed block. Block_Size is the
            // number of bytes to read and copy."
            const u8 *const read_ptr = IO_get_read_ptr(in, block_len);
            u8 *const write_ptr = IO_get_write_ptr(out, block_len);

            // Copy the raw data into the output
            memcpy(write_ptr, read_ptr, block_len);

            ctx->current_total_output += block_len;
            break;
        }
        case 1: {
            // "RLE_Block - this is a single byte, repeated N times. In which
            // case, Block_Size is the size to regenerate, while the
            // "compressed" block is just 1 byte (the byte to repeat)."
            const u8 *const read_ptr = IO_get_read_ptr(in, 1);
            u8 *const write_ptr = IO_get_write_ptr(out, block_len);

            // Copy `block_len` copies of `read_ptr[0]` to the output
            memset(write_ptr, read_ptr[0], block_len);

            ctx->current_total_output += block_len;
            break;
        }
        case 2: {
            // "Compressed_Block - this is a Zstandard compressed block,
            // detailed in another section of this specification. Block_Size is
            // the compressed size.

            // Create a sub-stream for the block
            istream_t block_stream = IO_make_sub_istream(in, block_len);
            decompress_block(ctx, out, &block_stream);
            break;
        }
        case 3:
            // "Reserved - this is not a block. This value cannot be used with
            // current version of this specification."
            CORRUPTION();
            break;
        default:
            IMPOSSIBLE();
        }
        REF_EV_BLOCK(ctx, block_type, block_len, last_block, ref_out_before, ctx->current_total_output - ref_out_before);
    } while (!last_block);

    if (ctx->header.content_checksum_flag) {
        // (vendored copy) the stored checksum is read here and verified by the caller hook REF_EV_FRAME_END
        ref_stored_checksum = (u32)IO_read_bits(in, 32);
    }
}
/******* END FRAME DECODING ***************************************************/

/******* BLOCK DECOMPRESSION **************************************************/
static void decompress_block(frame_context_t *const ctx, ostream_t *const out,
                             istream_t *const in) {
    // "A compressed block consists of 2 sections :
    //
    // Literals_Section
    // Sequences_Section"


    // Part 1: decode the literals block
    u8 *literals = NULL;
    const size_t literals_size = decode_literals(ctx, in, &literals);

    // Part 2: decode the sequences block
    sequence_command_t *sequences = NULL;
    const size_t num_sequences =
        decode_sequences(ctx, in, &sequences);

    // Part 3: combine literals and sequence commands to generate output
    execute_sequences(ctx, out, literals, literals_size, sequences,
                      num_sequences);
    free(literals);
    free(sequences);
}
/******* END BLOCK DECOMPRESSION **********************************************/

/******* LITERALS DECODING ****************************************************/
static size_t decode_literals_simple(istream_t *const in, u8 **const literals,
                                     const int block_type,
                                     const int size_format);
static size_t decode_literals_compressed(frame_context_t *const ctx,
                                         istream_t *const in,
                                         u8 **const literals,
                                         const int block_type,
                                         const int size_format);
static void decode_huf_table(HUF_dtable *const dtable, istream_t *const in);
static void fse_decode_hufweights(ostream_t *weights, istream_t *const in,
                                    int *const num_symbs);

static size_t decode_literals(frame_context_t *const ctx, istream_t *const in,
                              u8 **const literals) {
    // "Literals can be stored uncompressed or compressed using Huffman prefix
    // codes. When compressed, an optional tree description can be present,
    // followed by 1 or 4 streams."
    //
    // "Literals_Section_Header
    //
    // Header is in charge of describing how literals are packed. It's a
    // byte-aligned variable-size bitfield, ranging from 1 to 5 bytes, using
    // little-endian convention."
    //
    // "Literals_Block_Type
    //
    // This field uses 2 lowest bits of first byte, describing 4 different block
    // types"
    //
    // size_format takes between 1 and 2 bits
    int block_type = (int)IO_read_bits(in, 2);
    int size_format = (int)IO_read_bits(in, 2);
    ref_lit_mode = block_type; ref_lit_format = size_format;

    if (block_type <= 1) {
        // Raw or RLE literals block
        return decode_literals_simple(in, literals, block_type,
                                      size_format);
    } else {
        // Huffman compressed literals
        return decode_literals_compressed(ctx, in, literals, block_type,
                                          size_format);
    }
}

/// Decodes literals blocks in raw or RLE form
static size_t decode_literals_simple(istream_t *const in, u8 **const literals,
                                     const int block_type,
                                     const int size_format) {
    size_t size;
    switch (size_format) {
    // These cases are in the form ?0
    // In this case, the ? bit is actually part of the size field
    case 0:
    case 2:
        // "Size_Format uses 1 bit. Regenerated_Size uses 5 bits (0-31)."
        IO_rewind_bits(in, 1);
        size = IO_read_bits(in, 5);
        break;
    case 1:
        // "Size_Format uses 2 bits. Regenerated_Size uses 12 bits (0-4095)."
        size = IO_read_bits(in, 12);
        break;
    case 3:
        // "Size_Format uses 2 bits. Regenerated_Size uses 20 bits (0-1048575)."
        size = IO_read_bits(in, 20);
        break;
    default:
        // Size format is in range 0-3
        IMPOSSIBLE();
    }

    if (size > MAX_LITERALS_SIZE) {
        CORRUPTION();
    }

    *literals = malloc(size);
    if (!*literals) {
        BAD_ALLOC();
    }

    switch (block_type) {
    case 0: {
        // "Raw_Literals_Block - Literals are stored uncompressed."
        const u8 *const read_ptr = IO_get_read_ptr(in, size);
        memcpy(*literals, read_ptr, size);
        break;
    }
    case 1: {
        // "RLE_Literals_Block - Literals consist of a single byte value repeated N times."
        const u8 *const read_ptr = IO_get_read_ptr(in, 1);
        memset(*literals, read_ptr[0], size);
        break;
    }
    default:
        IMPOSSIBLE();
    }

    return size;
}

/// Decodes Huffman compressed literals
static size_t decode_literals_compressed(frame_context_t *const ctx,
                                         istream_t *const in,
                                         u8 **const literals,
                                         const int block_type,
                                         const int size_format) {
    size_t regenerated_size, compressed_size;
    // Only size_format=0 has 1 stream, so default to 4
    int num_streams = 4;
    switch (size_format) {
    case 0:
        // "A single stream. Both Compressed_Size and Regenerated_Size use 10
        // bits (0-1023)."
        num_streams = 1;
    // Fall through as it has the same size format
        /* fallthrough */
    case 1:
        // "4 streams. Both Compressed_Size and Regenerated_Size use 10 bits
        // (0-1023)."
        regenerated_size = IO_read_bits(in, 10);
        compressed_size = IO_read_bits(in, 10);
        break;
    case 2:
        // "4 streams. Both Compressed_Size and Regenerated_Size use 14 bits
        // (0-16383)."
        regenerated_size = IO_read_bits(in, 14);
        compressed_size = IO_read_bits(in, 14);
        break;
    case 3:
        // "4 streams. Both Compressed_Size and Regenerated_Size use 18 bits
        // (0-262143)."
        regenerated_size = IO_read_bits(in, 18);
        compressed_size = IO_read_bits(in, 18);
        break;
    default:
        // Impossible
        IMPOSSIBLE();
    }
    if (regenerated_size > MAX_LITERALS_SIZE) {
        CORRUPTION();
    }

    *literals = malloc(regenerated_size);
    if (!*literals) {
        BAD_ALLOC();
    }

    ostream_t lit_stream = IO_make_ostream(*literals, regenerated_size);
    istream_t huf_stream = IO_make_sub_istream(in, compressed_size);

    if (block_type == 2) {
        // Decode the provided Huffman table
        // "This section is only present when Literals_Block_Type type is
        // Compressed_Literals_Block (2)."

        HUF_free_dtable(&ctx->literals_dtable);
        decode_huf_table(&ctx->literals_dtable, &huf_stream);
    } else {
        // If the previous Huffman table is being repeated, ensure it exists
        if (!ctx->literals_dtable.symbols) {
            CORRUPTION();
        }
    }

    size_t symbols_decoded;
    if (num_streams == 1) {
        symbols_decoded = HUF_decompress_1stream(&ctx->literals_dtable, &lit_stream, &huf_stream);
    } else {
        symbols_decoded = HUF_decompress_4stream(&ctx->literals_dtable, &lit_stream, &huf_stream);
    }

    if (symbols_decoded != regenerated_size) {
        CORRUPTION();
    }

    return regenerated_size;
}

// Decode the Huffman table description
static void decode_huf_table(HUF_dtable *const dtable, istream_t *const in) {
    // "All literal values from zero (included) to last present one (excluded)
    // are represented by Weight with values from 0 to Max_Number_of_Bits."

    // "This is a single byte value (0-255), which describes how to decode the list of weights."
    const u8 header = IO_read_bits(in, 8);

    u8 weights[HUF_MAX_SYMBS];
    memset(weights, 0, sizeof(weights));

    int num_symbs;

    if (header >= 128) {
        // "This is a direct representation, where each Weight is written
        // directly as a 4 bits field (0-15). The full representation occupies
        // ((Number_of_Symbols+1)/2) bytes, meaning it uses a last full byte
        // even if Number_of_Symbols is odd. Number_of_Symbols = headerByte -
        // 127"
        num_symbs = header - 127;
        const size_t bytes = (num_symbs + 1) / 2;

        const u8 *const weight_src = IO_get_read_ptr(in, bytes);

        for (int i = 0; i < num_symbs; i++) {
            // "They are encoded forward, 2
            // weights to a byte with the first weight taking the top four bits
            // and the second taking the bottom four (e.g. the following
            // operations could be used to read the weights: Weight[0] =
            // (Byte[0] >> 4), Weight[1] = (Byte[0] & 0xf), etc.)."
            if (i % 2 == 0) {
                weights[i] = weight_src[i / 2] >> 4;
            } else {
                weights[i] = weight_src[i / 2] & 0xf;
            }
        }
    } else {
        // The weights are FSE encoded, decode them before we can construct the
        // table
        istream_t fse_stream = IO_make_sub_istream(in, header);
        ostream_t weight_stream = IO_make_ostream(weights, HUF_MAX_SYMBS);
        fse_decode_hufweights(&weight_stream, &fse_stream, &num_symbs);
    }

    // Construct the table using the decoded weights
    HUF_init_dtable_usingweights(dtable, weights, num_symbs);
}

static void fse_decode_hufweights(ostream_t *weights, istream_t *const in,
                                    int *const num_symbs) {
    const int MAX_ACCURACY_LOG = 7;

    FSE_dtable dtable;

    // "An FSE bitstream starts by a header, describing probabilities
    // distribution. It will create a Decoding Table. For a list of Huffman
    // weights, maximum accuracy is 7 bits."
    FSE_decode_header(&dtable, in, MAX_ACCURACY_LOG);

    // Decode the weights
    *num_symbs = FSE_decompress_interleaved2(&dtable, weights, in);

    FSE_free_dtable(&dtable);
}
/******* END LITERALS DECODING ************************************************/

/******* SEQUENCE DECODING ****************************************************/
/// The combination of FSE states needed to decode sequences
typedef struct {
    FSE_dtable ll_table;
    FSE_dtable of_table;
    FSE_dtable ml_table;

    u16 ll_state;
    u16 of_state;
    u16 ml_state;
} sequence_states_t;

/// Different modes to signal to decode_seq_tables what to do
typedef enum {
    seq_literal_length = 0,
    seq_offset = 1,
    seq_match_length = 2,
} seq_part_t;

typedef enum {
    seq_predefined = 0,
    seq_rle = 1,
    seq_fse = 2,
    seq_repeat = 3,
} seq_mode_t;

/// The predefined FSE distribution tables for `seq_predefined` mode
static const i16 SEQ_LITERAL_LENGTH_DEFAULT_DIST[36] = {
    4, 3, 2, 2, 2, 2, 2, 2, 2, 2, 2, 2, 2, 1, 1,  1,  2,  2,
    2, 2, 2, 2, 2, 2, 2, 3, 2, 1, 1, 1, 1, 1, -1, -1, -1, -1};
static const i16 SEQ_OFFSET_DEFAULT_DIST[29] = {
    1, 1, 1, 1, 1, 1, 2, 2, 2, 1,  1,  1,  1,  1, 1,
    1, 1, 1, 1, 1, 1, 1, 1, 1, -1, -1, -1, -1, -1};
static const i16 SEQ_MATCH_LENGTH_DEFAULT_DIST[53] = {
    1, 4, 3, 2, 2, 2, 2, 2, 2, 1, 1,  1,  1,  1,  1,  1,  1, 1,
    1, 1, 1, 1, 1, 1, 1, 1, 1, 1, 1,  1,  1,  1,  1,  1,  1, 1,
    1, 1, 1, 1, 1, 1, 1, 1, 1, 1, -1, -1, -1, -1, -1, -1, -1};

/// The sequence decoding baseline and number of additional bits to read/add
/// https://github.com/facebook/zstd/blob/dev/doc/zstd_compression_format.md#the-codes-for-literals-lengths-match-lengths-and-offsets
static const u32 SEQ_LITERAL_LENGTH_BASELINES[36] = {
    0,  1,  2,   3,   4,   5,    6,    7,    8,    9,     10,    11,
    12, 13, 14,  15,  16,  18,   20,   22,   24,   28,    32,    40,
    48, 64, 128, 256, 512, 1024, 2048, 4096, 8192, 16384, 32768, 65536};
static const u8 SEQ_LITERAL_LENGTH_EXTRA_BITS[36] = {
    0, 0, 0, 0, 0, 0, 0, 0, 0, 0, 0, 0,  0,  0,  0,  0,  1,  1,
    1, 1, 2, 2, 3, 3, 4, 6, 7, 8, 9, 10, 11, 12, 13, 14, 15, 16};

static const u32 SEQ_MATCH_LENGTH_BASELINES[53] = {
    3,  4,   5,   6,   7,    8,    9,    10,   11,    12,    13,   14, 15, 16,
    17, 18,  19,  20,  21,   22,   23,   24,   25,    26,    27,   28, 29, 30,
    31, 32,  33,  34,  35,   37,   39,   41,   43,    47,    51,   59, 67, 83,
    99, 131, 259, 515, 1027, 2051, 4099, 8195, 16387, 32771, 65539};
static const u8 SEQ_MATCH_LENGTH_EXTRA_BITS[53] = {
    0, 0, 0, 0, 0, 0, 0, 0, 0, 0, 0,  0,  0,  0,  0,  0,  0, 0,
    0, 0, 0, 0, 0, 0, 0, 0, 0, 0, 0,  0,  0,  0,  1,  1,  1, 1,
    2, 2, 3, 3, 4, 4, 5, 7, 8, 9, 10, 11, 12, 13, 14, 15, 16};

/// Offset decoding is simpler so we just need a maximum code value
static const u8 SEQ_MAX_CODES[3] = {35, (u8)-1, 52};

static void decompress_sequences(frame_context_t *const ctx,
                                 istream_t *const in,
                                 sequence_command_t *const sequences,
                                 const size_t num_sequences);
static sequence_command_t decode_sequence(sequence_states_t *const state,
                                          const u8 *const src,
                                          i64 *const offset,
                                          int lastSequence);
static void decode_seq_table(FSE_dtable *const table, istream_t *const in,
                               const seq_part_t type, const seq_mode_t mode);

static size_t decode_sequences(frame_context_t *const ctx, istream_t *in,
                               sequence_command_t **const sequences) {
    // "A compressed block is a succession of sequences . A sequence is a
    // literal copy command, followed by a match copy command. A literal copy
    // command specifies a length. It is the number of bytes to be copied (or
    // extracted) from the literal section. A match copy command specifies an
    // offset and a length. The offset gives the position to copy from, which
    // can be within a previous block."

    size_t num_sequences;

    // "Number_of_Sequences
    //
    // This is a variable size field using between 1 and 3 bytes. Let's call its
    // first byte byte0."
    u8 header = IO_read_bits(in, 8);
    if (header < 128) {
        // "Number_of_Sequences = byte0 . Uses 1 byte."
        num_sequences = header;
    } else if (header < 255) {
        // "Number_of_Sequences = ((byte0-128) << 8) + byte1 . Uses 2 bytes."
        num_sequences = ((header - 128) << 8) + IO_read_bits(in, 8);
    } else {
        // "Number_of_Sequences = byte1 + (byte2<<8) + 0x7F00 . Uses 3 bytes."
        num_sequences = IO_read_bits(in, 16) + 0x7F00;
    }

    if (num_sequences == 0) {
        // "There are no sequences. The sequence section stops there."
        *sequences = NULL;
        return 0;
    }

    *sequences = malloc(num_sequences * sizeof(sequence_command_t));
    if (!*sequences) {
        BAD_ALLOC();
    }

    decompress_sequences(ctx, in, *sequences, num_sequences);
    return num_sequences;
}

/// Decompress the FSE encoded sequence commands
static void decompress_sequences(frame_context_t *const ctx, istream_t *in,
                                 sequence_command_t *const sequences,
                                 const size_t num_sequences) {
    // "The Sequences_Section regroup all symbols required to decode commands.
    // There are 3 symbol types : literals lengths, offsets and match lengths.
    // They are encoded together, interleaved, in a single bitstream."

    // "Symbol compression modes
    //
    // This is a single byte, defining the compression mode of each symbol
    // type."
    //
    // Bit number : Field name
    // 7-6        : Literals_Lengths_Mode
    // 5-4        : Offsets_Mode
    // 3-2        : Match_Lengths_Mode
    // 1-0        : Reserved
    u8 compression_modes = IO_read_bits(in, 8);
    ref_seq_modes = compression_modes;

    if ((compression_modes & 3) != 0) {
        // Reserved bits set
        CORRUPTION();
    }

    // "Following the header, up to 3 distribution tables can be described. When
    // present, they are in this order :
    //
    // Literals lengths
    // Offsets
    // Match Lengths"
    // Update the tables we have stored in the context
    decode_seq_table(&ctx->ll_dtable, in, seq_literal_length,
                     (compression_modes >> 6) & 3);

    decode_seq_table(&ctx->of_dtable, in, seq_offset,
                     (compression_modes >> 4) & 3);

    decode_seq_table(&ctx->ml_dtable, in, seq_match_length,
                     (compression_modes >> 2) & 3);


    sequence_states_t states;

    // Initialize the decoding tables
    {
        states.ll_table = ctx->ll_dtable;
        states.of_table = ctx->of_dtable;
        states.ml_table = ctx->ml_dtable;
    }

    const size_t len = IO_istream_len(in);
    const u8 *const src = IO_get_read_ptr(in, len);

    // "After writing the last bit containing information, the compressor writes
    // a single 1-bit and then fills the byte with 0-7 0 bits of padding."
    const int padding = 8 - highest_set_bit(src[len - 1]);
    // The offset starts at the end because FSE streams are read backwards
    i64 bit_offset = (i64)(len * 8 - (size_t)padding);

    // "The bitstream starts with initial state values, each using the required
    // number of bits in their respective accuracy, decoded previously from
    // their normalized distribution.
    //
    // It starts by Literals_Length_State, followed by Offset_State, and finally
    // Match_Length_State."
    FSE_init_state(&states.ll_table, &states.ll_state, src, &bit_offset);
    FSE_init_state(&states.of_table, &states.of_state, src, &bit_offset);
    FSE_init_state(&states.ml_table, &states.ml_state, src, &bit_offset);

    for (size_t i = 0; i < num_sequences; i++) {
        // Decode sequences one by one
        sequences[i] = decode_sequence(&states, src, &bit_offset, i==num_sequences-1);
    }

    if (bit_offset != 0) {
        CORRUPTION();
    }
}

// Decode a single sequence and update the state
static sequence_command_t decode_sequence(sequence_states_t *const states,
                                          const u8 *const src,
                                          i64 *const offset,
                                          int lastSequence) {
    // "Each symbol is a code in its own context, which specifies Baseline and
    // Number_of_Bits to add. Codes are FSE compressed, and interleaved with raw
    // additional bits in the same bitstream."

    // Decode symbols, but don't update states
    const u8 of_code = FSE_peek_symbol(&states->of_table, states->of_state);
    const u8 ll_code = FSE_peek_symbol(&states->ll_table, states->ll_state);
    const u8 ml_code = FSE_peek_symbol(&states->ml_table, states->ml_state);

    // Offset doesn't need a max value as it's not decoded using a table
    if (ll_code > SEQ_MAX_CODES[seq_literal_length] ||
        ml_code > SEQ_MAX_CODES[seq_match_length]) {
        CORRUPTION();
    }

    // Read the interleaved bits
    sequence_command_t seq;
    // "Decoding starts by reading the Number_of_Bits required to decode Offset.
    // It then does the same for Match_Length, and then for Literals_Length."
    seq.offset = ((u32)1 << of_code) + STREAM_read_bits(src, of_code, offset);

    seq.match_length =
        SEQ_MATCH_LENGTH_BASELINES[ml_code] +
        STREAM_read_bits(src, SEQ_MATCH_LENGTH_EXTRA_BITS[ml_code], offset);

    seq.literal_length =
        SEQ_LITERAL_LENGTH_BASELINES[ll_code] +
        STREAM_read_bits(src, SEQ_LITERAL_LENGTH_EXTRA_BITS[ll_code], offset);

    // "If it is not the last sequence in the block, the next operation is to
    // update states. Using the rules pre-calculated in the decoding tables,
    // Literals_Length_State is updated, followed by Match_Length_State, and
    // then Offset_State."
    // If the stream is complete don't read bits to update state
    if (!lastSequence) {
        FSE_update_state(&states->ll_table, &states->ll_state, src, offset);
        FSE_update_state(&states->ml_table, &states->ml_state, src, offset);
        FSE_update_state(&states->of_table, &states->of_state, src, offset);
    }

    return seq;
}

/// Given a sequence part and table mode, decode the FSE distribution
/// Errors if the mode is `seq_repeat` without a pre-existing table in `table`
static void decode_seq_table(FSE_dtable *const table, istream_t *const in,
                             const seq_part_t type, const seq_mode_t mode) {
    // Constant arrays indexed by seq_part_t
    const i16 *const default_distributions[] = {SEQ_LITERAL_LENGTH_DEFAULT_DIST,
                                                SEQ_OFFSET_DEFAULT_DIST,
                                                SEQ_MATCH_LENGTH_DEFAULT_DIST};
    const size_t default_distribution_lengths[] = {36, 29, 53};
    const size_t default_distribution_accuracies[] = {6, 5, 6};

    const size_t max_accuracies[] = {9, 8, 9};

    if (mode != seq_repeat) {
        // Free old one before overwriting
        FSE_free_dtable(table);
    }

    switch (mode) {
    case seq_predefined: {
        // "Predefined_Mode : uses a predefined distribution table."
        const i16 *distribution = default_distributions[type];
        const size_t symbs = default_distribution_lengths[type];
        const size_t accuracy_log = default_distribution_accuracies[type];

        FSE_init_dtable(table, distribution, symbs, accuracy_log);
        break;
    }
    case seq_rle: {
        // "RLE_Mode : it's a single code, repeated Number_of_Sequences times."
        const u8 symb = IO_get_read_ptr(in, 1)[0];
        FSE_init_dtable_rle(table, symb);
        break;
    }
    case seq_fse: {
        // "FSE_Compressed_Mode : standard FSE compression. A distribution table
        // will be present "
        FSE_decode_header(table, in, max_accuracies[type]);
        break;
    }
    case seq_repeat:
        // "Repeat_Mode : reuse distribution table from previous compressed
        // block."
        // Nothing to do here, table will be unchanged
        if (!table->symbols) {
            // This mode is invalid if we don't already have a table
            CORRUPTION();
        }
        break;
    default:
        // Impossible, as mode is from 0-3
        IMPOSSIBLE();
        break;
    }

}
/******* END SEQUENCE DECODING ************************************************/

/******* SEQUENCE EXECUTION ***************************************************/
static void execute_sequences(frame_context_t *const ctx, ostream_t *const out,
                              const u8 *const literals,
                              const size_t literals_len,
                              const sequence_command_t *const sequences,
                              const size_t num_sequences) {
    istream_t litstream = IO_make_istream(literals, literals_len);

    u64 *const offset_hist = ctx->previous_offsets;
    size_t total_output = ctx->current_total_output;

    for (size_t i = 0; i < num_sequences; i++) {
        const sequence_command_t seq = sequences[i];
        {
            const u32 literals_size = copy_literals(seq.literal_length, &litstream, out);
            total_output += literals_size;
        }

        size_t const offset = compute_offset(seq, offset_hist);

        size_t const match_length = seq.match_length;
        REF_EV_SEQ(ctx, total_output, seq.literal_length, seq.match_length, seq.offset, offset);

        execute_match_copy(ctx, offset, match_length, total_output, out);

        total_output += match_length;
    }

    // Copy any leftover literals
    {
        size_t len = IO_istream_len(&litstream);
        REF_EV_LASTLITS(ctx, num_sequences, len, offset_hist);
        copy_literals(len, &litstream, out);
        total_output += len;
    }

    ctx->current_total_output = total_output;
}

static u32 copy_literals(const size_t literal_length, istream_t *litstream,
                         ostream_t *const out) {
    // If the sequence asks for more literals than are left, the
    // sequence must be corrupted
    if (literal_length > IO_istream_len(litstream)) {
        CORRUPTION();
    }

    u8 *const write_ptr = IO_get_write_ptr(out, literal_length);
    const u8 *const read_ptr =
         IO_get_read_ptr(litstream, literal_length);
    // Copy literals to output
    memcpy(write_ptr, read_ptr, literal_length);

    return literal_length;
}

static size_t compute_offset(sequence_command_t seq, u64 *const offset_hist) {
    size_t offset;
    // Offsets are special, we need to handle the repeat offsets
    if (seq.offset <= 3) {
        // "The first 3 values define a repeated offset and we will call
        // them Repeated_Offset1, Repeated_Offset2, and Repeated_Offset3.
        // They are sorted in recency order, with Repeated_Offset1 meaning
        // 'most recent one'".

        // Use 0 indexing for the array
        u32 idx = seq.offset - 1;
        if (seq.literal_length == 0) {
            // "There is an exception though, when current sequence's
            // literals length is 0. In this case, repeated offsets are
            // shifted by one, so Repeated_Offset1 becomes Repeated_Offset2,
            // Repeated_Offset2 becomes Repeated_Offset3, and
            // Repeated_Offset3 becomes Repeated_Offset1 - 1_byte."
            idx++;
        }

        if (idx == 0) {
            offset = offset_hist[0];
        } else {
            // If idx == 3 then literal length was 0 and the offset was 3,
            // as per the exception listed above
            offset = idx < 3 ? offset_hist[idx] : offset_hist[0] - 1;

            // If idx == 1 we don't need to modify offset_hist[2], since
            // we're using the second-most recent code
            if (idx > 1) {
                offset_hist[2] = offset_hist[1];
            }
            offset_hist[1] = offset_hist[0];
            offset_hist[0] = offset;
        }
    } else {
        // When it's not a repeat offset:
        // "if (Offset_Value > 3) offset = Offset_Value - 3;"
        offset = seq.offset - 3;

        // Shift back history
        offset_hist[2] = offset_hist[1];
        offset_hist[1] = offset_hist[0];
        offset_hist[0] = offset;
    }
    return offset;
}

static void execute_match_copy(frame_context_t *const ctx, size_t offset,
                              size_t match_length, size_t total_output,
                              ostream_t *const out) {
    u8 *write_ptr = IO_get_write_ptr(out, match_length);
    if (total_output <= ctx->header.window_size) {
        // In this case offset might go back into the dictionary
        if (offset > total_output + ctx->dict_content_len) {
            // The offset goes beyond even the dictionary
            CORRUPTION();
        }

        if (offset > total_output) {
            // "The rest of the dictionary is its content. The content act
            // as a "past" in front of data to compress or decompress, so it
            // can be referenced in sequence commands."
            const size_t dict_copy =
                MIN(offset - total_output, match_length);
            const size_t dict_offset =
                ctx->dict_content_len - (offset - total_output);

            memcpy(write_ptr, ctx->dict_content + dict_offset, dict_copy);
            write_ptr += dict_copy;
            match_length -= dict_copy;
        }
    } else if (offset > ctx->header.window_size) {
        CORRUPTION();
    }

    // We must copy byte by byte because the match length might be larger
    // than the offset
    // ex: if the output so far was "abc", a command with offset=3 and
    // match_length=6 would produce "abcabcabc" as the new output
    for (size_t j = 0; j < match_length; j++) {
        *write_ptr = *(write_ptr - offset);
        write_ptr++;
    }
}
/******* END SEQUENCE EXECUTION ***********************************************/

/******* OUTPUT SIZE COUNTING *************************************************/
/// Get the decompressed size of an input stream so memory can be allocated in
/// advance.
/// This implementation assumes `src` points to a single ZSTD-compressed frame
size_t ZSTD_get_decompressed_size(const void *src, const size_t src_len) {
    istream_t in = IO_make_istream(src, src_len);

    // get decompressed size from ZSTD frame header
    {
        const u32 magic_number = (u32)IO_read_bits(&in, 32);

        if (magic_number == ZSTD_MAGIC_NUMBER) {
            // ZSTD frame
            frame_header_t header;
            parse_frame_header(&header, &in);

            if (header.frame_content_size == 0 && !header.single_segment_flag) {
                // Content size not provided, we can't tell
                return (size_t)-1;
            }

            return header.frame_content_size;
        } else {
            // not a real frame or skippable frame
            ERROR("ZSTD frame magic number did not match");
        }
    }
}
/******* END OUTPUT SIZE COUNTING *********************************************/

/******* DICTIONARY PARSING ***************************************************/
dictionary_t* create_dictionary(void) {
    dictionary_t* const dict = calloc(1, sizeof(dictionary_t));
    if (!dict) {
        BAD_ALLOC();
    }
    return dict;
}

/// Free an allocated dictionary
void free_dictionary(dictionary_t *const dict) {
    HUF_free_dtable(&dict->literals_dtable);
    FSE_free_dtable(&dict->ll_dtable);
    FSE_free_dtable(&dict->of_dtable);
    FSE_free_dtable(&dict->ml_dtable);

    free(dict->content);

    memset(dict, 0, sizeof(dictionary_t));

    free(dict);
}


#if !defined(ZDEC_NO_DICTIONARY)
#define DICT_SIZE_ERROR() ERROR("Dictionary size cannot be less than 8 bytes")
#define NULL_SRC() ERROR("Tried to create dictionary with pointer to null src");

static void init_dictionary_content(dictionary_t *const dict,
                                    istream_t *const in);

void parse_dictionary(dictionary_t *const dict, const void *src,
                             size_t src_len) {
    const u8 *byte_src = (const u8 *)src;
    memset(dict, 0, sizeof(dictionary_t));
    if (src == NULL) { /* cannot initialize dictionary with null src */
        NULL_SRC();
    }
    if (src_len < 8) {
        DICT_SIZE_ERROR();
    }

    istream_t in = IO_make_istream(byte_src, src_len);

    const u32 magic_number = IO_read_bits(&in, 32);
    if (magic_number != 0xEC30A437) {
        // raw content dict
        IO_rewind_bits(&in, 32);
        init_dictionary_content(dict, &in);
        return;
    }

    dict->dictionary_id = IO_read_bits(&in, 32);

    // "Entropy_Tables : following the same format as the tables in compressed
    // blocks. They are stored in following order : Huffman tables for literals,
    // FSE table for offsets, FSE table for match lengths, and FSE table for
    // literals lengths. It's finally followed by 3 offset values, populating
    // recent offsets (instead of using {1,4,8}), stored in order, 4-bytes
    // little-endian each, for a total of 12 bytes. Each recent offset must have
    // a value < dictionary size."
    decode_huf_table(&dict->literals_dtable, &in);
    decode_seq_table(&dict->of_dtable, &in, seq_offset, seq_fse);
    decode_seq_table(&dict->ml_dtable, &in, seq_match_length, seq_fse);
    decode_seq_table(&dict->ll_dtable, &in, seq_literal_length, seq_fse);

    // Read in the previous offset history
    dict->previous_offsets[0] = IO_read_bits(&in, 32);
    dict->previous_offsets[1] = IO_read_bits(&in, 32);
    dict->previous_offsets[2] = IO_read_bits(&in, 32);

    // Ensure the provided offsets aren't too large
    // "Each recent offset must have a value < dictionary size."
    for (int i = 0; i < 3; i++) {
        if (dict->previous_offsets[i] > src_len) {
            ERROR("Dictionary corrupted");
        }
    }

    // "Content : The rest of the dictionary is its content. The content act as
    // a "past" in front of data to compress or decompress, so it can be
    // referenced in sequence commands."
    init_dictionary_content(dict, &in);
}

static void init_dictionary_content(dictionary_t *const dict,
                                    istream_t *const in) {
    // Copy in the content
    dict->content_size = IO_istream_len(in);
    dict->content = malloc(dict->content_size);
    if (!dict->content) {
        BAD_ALLOC();
    }

    const u8 *const content = IO_get_read_ptr(in, dict->content_size);

    memcpy(dict->content, content, dict->content_size);
}

static void HUF_copy_dtable(HUF_dtable *const dst,
                            const HUF_dtable *const src) {
    if (src->max_bits == 0) {
        memset(dst, 0, sizeof(HUF_dtable));
        return;
    }

    const size_t size = (size_t)1 << src->max_bits;
    dst->max_bits = src->max_bits;

    dst->symbols = malloc(size);
    dst->num_bits = malloc(size);
    if (!dst->symbols || !dst->num_bits) {
        BAD_ALLOC();
    }

    memcpy(dst->symbols, src->symbols, size);
    memcpy(dst->num_bits, src->num_bits, size);
}

static void FSE_copy_dtable(FSE_dtable *const dst, const FSE_dtable *const src) {
    if (src->accuracy_log == 0) {
        memset(dst, 0, sizeof(FSE_dtable));
        return;
    }

    size_t size = (size_t)1 << src->accuracy_log;
    dst->accuracy_log = src->accuracy_log;

    dst->symbols = malloc(size);
    dst->num_bits = malloc(size);
    dst->new_state_base = malloc(size * sizeof(u16));
    if (!dst->symbols || !dst->num_bits || !dst->new_state_base) {
        BAD_ALLOC();
    }

    memcpy(dst->symbols, src->symbols, size);
    memcpy(dst->num_bits, src->num_bits, size);
    memcpy(dst->new_state_base, src->new_state_base, size * sizeof(u16));
}

/// A dictionary acts as initializing values for the frame context before
/// decompression, so we implement it by applying it's predetermined
/// tables and content to the context before beginning decompression
static void frame_context_apply_dict(frame_context_t *const ctx,
                                     const dictionary_t *const dict) {
    // If the content pointer is NULL then it must be an empty dict
    if (!dict || !dict->content)
        return;

    // If the requested dictionary_id is non-zero, the correct dictionary must
    // be present
    if (ctx->header.dictionary_id != 0 &&
        ctx->header.dictionary_id != dict->dictionary_id) {
        ERROR("Wrong dictionary provided");
    }

    // Copy the dict content to the context for references during sequence
    // execution
    ctx->dict_content = dict->content;
    ctx->dict_content_len = dict->content_size;

    // If it's a formatted dict copy the precomputed tables in so they can
    // be used in the table repeat modes
    if (dict->dictionary_id != 0) {
        // Deep copy the entropy tables so they can be freed independently of
        // the dictionary struct
        HUF_copy_dtable(&ctx->literals_dtable, &dict->literals_dtable);
        FSE_copy_dtable(&ctx->ll_dtable, &dict->ll_dtable);
        FSE_copy_dtable(&ctx->of_dtable, &dict->of_dtable);
        FSE_copy_dtable(&ctx->ml_dtable, &dict->ml_dtable);

        // Copy the repeated offsets
        memcpy(ctx->previous_offsets, dict->previous_offsets,
               sizeof(ctx->previous_offsets));
    }
}

#else  // ZDEC_NO_DICTIONARY is defined

static void frame_context_apply_dict(frame_context_t *const ctx,
                                     const dictionary_t *const dict) {
    (void)ctx;
    if (dict && dict->content) ERROR("dictionary not supported");
}

#endif
/******* END DICTIONARY PARSING ***********************************************/

/******* IO STREAM OPERATIONS *************************************************/

/// Reads `num` bits from a bitstream, and updates the internal offset
static inline u64 IO_read_bits(istream_t *const in, const int num_bits) {
    if (num_bits > 64 || num_bits <= 0) {
        ERROR("Attempt to read an invalid number of bits");
    }

    const size_t bytes = (num_bits + in->bit_offset + 7) / 8;
    const size_t full_bytes = (num_bits + in->bit_offset) / 8;
    if (bytes > in->len) {
        INP_SIZE();
    }

    const u64 result = read_bits_LE(in->ptr, num_bits, in->bit_offset);

    in->bit_offset = (num_bits + in->bit_offset) % 8;
    in->ptr += full_bytes;
    in->len -= full_bytes;

    return result;
}

/// If a non-zero number of bits have been read from the current byte, advance
/// the offset to the next byte
static inline void IO_rewind_bits(istream_t *const in, int num_bits) {
    if (num_bits < 0) {
        ERROR("Attempting to rewind stream by a negative number of bits");
    }

    // move the offset back by `num_bits` bits
    const int new_offset = in->bit_offset - num_bits;
    // determine the number of whole bytes we have to rewind, rounding up to an
    // integer number (e.g. if `new_offset == -5`, `bytes == 1`)
    const i64 bytes = -(new_offset - 7) / 8;

    in->ptr -= bytes;
    in->len += bytes;
    // make sure the resulting `bit_offset` is positive, as mod in C does not
    // convert numbers from negative to positive (e.g. -22 % 8 == -6)
    in->bit_offset = ((new_offset % 8) + 8) % 8;
}

/// If the remaining bits in a byte will be unused, advance to the end of the
/// byte
static inline void IO_align_stream(istream_t *const in) {
    if (in->bit_offset != 0) {
        if (in->len == 0) {
            INP_SIZE();
        }
        in->ptr++;
        in->len--;
        in->bit_offset = 0;
    }
}

/// Write the given byte into the output stream
static inline void IO_write_byte(ostream_t *const out, u8 symb) {
    if (out->len == 0) {
        OUT_SIZE();
    }

    out->ptr[0] = symb;
    out->ptr++;
    out->len--;
}

/// Returns the number of bytes left to be read in this stream.  The stream must
/// be byte aligned.
static inline size_t IO_istream_len(const istream_t *const in) {
    return in->len;
}

/// Returns a pointer where `len` bytes can be read, and advances the internal
/// state.  The stream must be byte aligned.
static inline const u8 *IO_get_read_ptr(istream_t *const in, size_t len) {
    if (len > in->len) {
        INP_SIZE();
    }
    if (in->bit_offset != 0) {
        ERROR("Attempting to operate on a non-byte aligned stream");
    }
    const u8 *const ptr = in->ptr;
    in->ptr += len;
    in->len -= len;

    return ptr;
}
/// Returns a pointer to write `len` bytes to, and advances the internal state
static inline u8 *IO_get_write_ptr(ostream_t *const out, size_t len) {
    if (len > out->len) {
        OUT_SIZE();
    }
    u8 *const ptr = out->ptr;
    out->ptr += len;
    out->len -= len;

    return ptr;
}

/// Advance the inner state by `len` bytes
static inline void IO_advance_input(istream_t *const in, size_t len) {
    if (len > in->len) {
         INP_SIZE();
    }
    if (in->bit_offset != 0) {
        ERROR("Attempting to operate on a non-byte aligned stream");
    }

    in->ptr += len;
    in->len -= len;
}

/// Returns an `ostream_t` constructed from the given pointer and length
static inline ostream_t IO_make_ostream(u8 *out, size_t len) {
    return (ostream_t) { out, len };
}

/// Returns an `istream_t` constructed from the given pointer and length
static inline istream_t IO_make_istream(const u8 *in, size_t len) {
    return (istream_t) { in, len, 0 };
}

/// Returns an `istream_t` with the same base as `in`, and length `len`
/// Then, advance `in` to account for the consumed bytes
/// `in` must be byte aligned
static inline istream_t IO_make_sub_istream(istream_t *const in, size_t len) {
    // Consume `len` bytes of the parent stream
    const u8 *const ptr = IO_get_read_ptr(in, len);

    // Make a substream using the pointer to those `len` bytes
    return IO_make_istream(ptr, len);
}
/******* END IO STREAM OPERATIONS *********************************************/

/******* BITSTREAM OPERATIONS *************************************************/
/// Read `num` bits (up to 64) from `src + offset`, where `offset` is in bits
static inline u64 read_bits_LE(const u8 *src, const int num_bits,
                               const size_t offset) {
    if (num_bits > 64) {
        ERROR("Attempt to read an invalid number of bits");
    }

    // Skip over bytes that aren't in range
    src += offset / 8;
    size_t bit_offset = offset % 8;
    u64 res = 0;

    int shift = 0;
    int left = num_bits;
    while (left > 0) {
        u64 mask = left >= 8 ? 0xff : (((u64)1 << left) - 1);
        // Read the next byte, shift it to account for the offset, and then mask
        // out the top part if we don't need all the bits
        res += (((u64)*src++ >> bit_offset) & mask) << shift;
        shift += 8 - bit_offset;
        left -= 8 - bit_offset;
        bit_offset = 0;
    }

    return res;
}

/// Read bits from the end of a HUF or FSE bitstream.  `offset` is in bits, so
/// it updates `offset` to `offset - bits`, and then reads `bits` bits from
/// `src + offset`.  If the offset becomes negative, the extra bits at the
/// bottom are filled in with `0` bits instead of reading from before `src`.
static inline u64 STREAM_read_bits(const u8 *const src, const int bits,
                                   i64 *const offset) {
    *offset = *offset - bits;
    size_t actual_off = *offset;
    size_t actual_bits = bits;
    // Don't actually read bits from before the start of src, so if `*offset <
    // 0` fix actual_off and actual_bits to reflect the quantity to read
    if (*offset < 0) {
        actual_bits += *offset;
        actual_off = 0;
    }
    u64 res = read_bits_LE(src, actual_bits, actual_off);

    if (*offset < 0) {
        // Fill in the bottom "overflowed" bits with 0's
        res = -*offset >= 64 ? 0 : (res << -*offset);
    }
    return res;
}
/******* END BITSTREAM OPERATIONS *********************************************/

/******* BIT COUNTING OPERATIONS **********************************************/
/// Returns `x`, where `2^x` is the largest power of 2 less than or equal to
/// `num`, or `-1` if `num == 0`.
static inline int highest_set_bit(const u64 num) {
    for (int i = 63; i >= 0; i--) {
        if (((u64)1 << i) <= num) {
            return i;
        }
    }
    return -1;
}
/******* END BIT COUNTING OPERATIONS ******************************************/

/******* HUFFMAN PRIMITIVES ***************************************************/
static inline u8 HUF_decode_symbol(const HUF_dtable *const dtable,
                                   u16 *const state, const u8 *const src,
                                   i64 *const offset) {
    // Look up the symbol and number of bits to read
    const u8 symb = dtable->symbols[*state];
    const u8 bits = dtable->num_bits[*state];
    const u16 rest = STREAM_read_bits(src, bits, offset);
    // Shift `bits` bits out of the state, keeping the low order bits that
    // weren't necessary to determine this symbol.  Then add in the new bits
    // read from the stream.
    *state = ((*state << bits) + rest) & (((u16)1 << dtable->max_bits) - 1);

    return symb;
}

static inline void HUF_init_state(const HUF_dtable *const dtable,
                                  u16 *const state, const u8 *const src,
                                  i64 *const offset) {
    // Read in a full `dtable->max_bits` bits to initialize the state
    const u8 bits = dtable->max_bits;
    *state = STREAM_read_bits(src, bits, offset);
}

static size_t HUF_decompress_1stream(const HUF_dtable *const dtable,
                                     ostream_t *const out,
                                     istream_t *const in) {
    const size_t len = IO_istream_len(in);
    if (len == 0) {
        INP_SIZE();
    }
    const u8 *const src = IO_get_read_ptr(in, len);

    // "Each bitstream must be read backward, that is starting from the end down
    // to the beginning. Therefore it's necessary to know the size of each
    // bitstream.
    //
    // It's also necessary to know exactly which bit is the latest. This is
    // detected by a final bit flag : the highest bit of latest byte is a
    // final-bit-flag. Consequently, a last byte of 0 is not possible. And the
    // final-bit-flag itself is not part of the useful bitstream. Hence, the
    // last byte contains between 0 and 7 useful bits."
    const int padding = 8 - highest_set_bit(src[len - 1]);

    // Offset starts at the end because HUF streams are read backwards
    i64 bit_offset = len * 8 - padding;
    u16 state;

    HUF_init_state(dtable, &state, src, &bit_offset);

    size_t symbols_written = 0;
    while (bit_offset > -dtable->max_bits) {
        // Iterate over the stream, decoding one symbol at a time
        IO_write_byte(out, HUF_decode_symbol(dtable, &state, src, &bit_offset));
        symbols_written++;
    }
    // "The process continues up to reading the required number of symbols per
    // stream. If a bitstream is not entirely and exactly consumed, hence
    // reaching exactly its beginning position with all bits consumed, the
    // decoding process is considered faulty."

    // When all symbols have been decoded, the final state value shouldn't have
    // any data from the stream, so it should have "read" dtable->max_bits from
    // before the start of `src`
    // Therefore `offset`, the edge to start reading new bits at, should be
    // dtable->max_bits before the start of the stream
    if (bit_offset != -dtable->max_bits) {
        CORRUPTION();
    }

    return symbols_written;
}

static size_t HUF_decompress_4stream(const HUF_dtable *const dtable,
                                     ostream_t *const out, istream_t *const in) {
    // "Compressed size is provided explicitly : in the 4-streams variant,
    // bitstreams are preceded by 3 unsigned little-endian 16-bits values. Each
    // value represents the compressed size of one stream, in order. The last
    // stream size is deducted from total compressed size and from previously
    // decoded stream sizes"
    const size_t csize1 = IO_read_bits(in, 16);
    const size_t csize2 = IO_read_bits(in, 16);
    const size_t csize3 = IO_read_bits(in, 16);

    istream_t in1 = IO_make_sub_istream(in, csize1);
    istream_t in2 = IO_make_sub_istream(in, csize2);
    istream_t in3 = IO_make_sub_istream(in, csize3);
    istream_t in4 = IO_make_sub_istream(in, IO_istream_len(in));

    size_t total_output = 0;
    // Decode each stream independently for simplicity
    // If we wanted to we could decode all 4 at the same time for speed,
    // utilizing more execution units
    total_output += HUF_decompress_1stream(dtable, out, &in1);
    total_output += HUF_decompress_1stream(dtable, out, &in2);
    total_output += HUF_decompress_1stream(dtable, out, &in3);
    total_output += HUF_decompress_1stream(dtable, out, &in4);

    return total_output;
}

/// Initializes a Huffman table using canonical Huffman codes
/// For more explanation on canonical Huffman codes see
/// https://www.cs.scranton.edu/~mccloske/courses/cmps340/huff_canonical_dec2015.html
/// Codes within a level are allocated in symbol order (i.e. smaller symbols get
/// earlier codes)
static void HUF_init_dtable(HUF_dtable *const table, const u8 *const bits,
                            const int num_symbs) {
    memset(table, 0, sizeof(HUF_dtable));
    if (num_symbs > HUF_MAX_SYMBS) {
        ERROR("Too many symbols for Huffman");
    }

    u8 max_bits = 0;
    u16 rank_count[HUF_MAX_BITS + 1];
    memset(rank_count, 0, sizeof(rank_count));

    // Count the number of symbols for each number of bits, and determine the
    // depth of the tree
    for (int i = 0; i < num_symbs; i++) {
        if (bits[i] > HUF_MAX_BITS) {
            ERROR("Huffman table depth too large");
        }
        max_bits = MAX(max_bits, bits[i]);
        rank_count[bits[i]]++;
    }

    const size_t table_size = 1 << max_bits;
    table->max_bits = max_bits;
    table->symbols = malloc(table_size);
    table->num_bits = malloc(table_size);

    if (!table->symbols || !table->num_bits) {
        free(table->symbols);
        free(table->num_bits);
        BAD_ALLOC();
    }

    // "Symbols are sorted by Weight. Within same Weight, symbols keep natural
    // order. Symbols with a Weight of zero are removed. Then, starting from
    // lowest weight, prefix codes are distributed in order."

    u32 rank_idx[HUF_MAX_BITS + 1];
    // Initialize the starting codes for each rank (number of bits)
    rank_idx[max_bits] = 0;
    for (int i = max_bits; i >= 1; i--) {
        rank_idx[i - 1] = rank_idx[i] + rank_count[i] * (1 << (max_bits - i));
        // The entire range takes the same number of bits so we can memset it
        memset(&table->num_bits[rank_idx[i]], i, rank_idx[i - 1] - rank_idx[i]);
    }

    if (rank_idx[0] != table_size) {
        CORRUPTION();
    }

    // Allocate codes and fill in the table
    for (int i = 0; i < num_symbs; i++) {
        if (bits[i] != 0) {
            // Allocate a code for this symbol and set its range in the table
            const u16 code = rank_idx[bits[i]];
            // Since the code doesn't care about the bottom `max_bits - bits[i]`
            // bits of state, it gets a range that spans all possible values of
            // the lower bits
            const u16 len = 1 << (max_bits - bits[i]);
            memset(&table->symbols[code], i, len);
            rank_idx[bits[i]] += len;
        }
    }
}

static void HUF_init_dtable_usingweights(HUF_dtable *const table,
                                         const u8 *const weights,
                                         const int num_symbs) {
    // +1 because the last weight is not transmitted in the header
    if (num_symbs + 1 > HUF_MAX_SYMBS) {
        ERROR("Too many symbols for Huffman");
    }

    u8 bits[HUF_MAX_SYMBS];

    u64 weight_sum = 0;
    for (int i = 0; i < num_symbs; i++) {
        // Weights are in the same range as bit count
        if (weights[i] > HUF_MAX_BITS) {
            CORRUPTION();
        }
        weight_sum += weights[i] > 0 ? (u64)1 << (weights[i] - 1) : 0;
    }

    // Find the first power of 2 larger than the sum
    const int max_bits = highest_set_bit(weight_sum) + 1;
    const u64 left_over = ((u64)1 << max_bits) - weight_sum;
    // If the left over isn't a power of 2, the weights are invalid
    if (left_over & (left_over - 1)) {
        CORRUPTION();
    }

    // left_over is used to find the last weight as it's not transmitted
    // by inverting 2^(weight - 1) we can determine the value of last_weight
    const int last_weight = highest_set_bit(left_over) + 1;

    for (int i = 0; i < num_symbs; i++) {
        // "Number_of_Bits = Number_of_Bits ? Max_Number_of_Bits + 1 - Weight : 0"
        bits[i] = weights[i] > 0 ? (max_bits + 1 - weights[i]) : 0;
    }
    bits[num_symbs] =
        max_bits + 1 - last_weight; // Last weight is always non-zero

    HUF_init_dtable(table, bits, num_symbs + 1);
}

static void HUF_free_dtable(HUF_dtable *const dtable) {
    free(dtable->symbols);
    free(dtable->num_bits);
    memset(dtable, 0, sizeof(HUF_dtable));
}
/******* END HUFFMAN PRIMITIVES ***********************************************/

/******* FSE PRIMITIVES *******************************************************/
/// For more description of FSE see
/// https://github.com/Cyan4973/FiniteStateEntropy/

/// Allow a symbol to be decoded without updating state
static inline u8 FSE_peek_symbol(const FSE_dtable *const dtable,
                                 const u16 state) {
    return dtable->symbols[state];
}

/// Consumes bits from the input and uses the current state to determine the
/// next state
static inline void FSE_update_state(const FSE_dtable *const dtable,
                                    u16 *const state, const u8 *const src,
                                    i64 *const offset) {
    const u8 bits = dtable->num_bits[*state];
    const u16 rest = STREAM_read_bits(src, bits, offset);
    *state = dtable->new_state_base[*state] + rest;
}

/// Decodes a single FSE symbol and updates the offset
static inline u8 FSE_decode_symbol(const FSE_dtable *const dtable,
                                   u16 *const state, const u8 *const src,
                                   i64 *const offset) {
    const u8 symb = FSE_peek_symbol(dtable, *state);
    FSE_update_state(dtable, state, src, offset);
    return symb;
}

static inline void FSE_init_state(const FSE_dtable *const dtable,
                                  u16 *const state, const u8 *const src,
                                  i64 *const offset) {
    // Read in a full `accuracy_log` bits to initialize the state
    const u8 bits = dtable->accuracy_log;
    *state = STREAM_read_bits(src, bits, offset);
}

static size_t FSE_decompress_interleaved2(const FSE_dtable *const dtable,
                                          ostream_t *const out,
                                          istream_t *const in) {
    const size_t len = IO_istream_len(in);
    if (len == 0) {
        INP_SIZE();
    }
    const u8 *const src = IO_get_read_ptr(in, len);

    // "Each bitstream must be read backward, that is starting from the end down
    // to the beginning. Therefore it's necessary to know the size of each
    // bitstream.
    //
    // It's also necessary to know exactly which bit is the latest. This is
    // detected by a final bit flag : the highest bit of latest byte is a
    // final-bit-flag. Consequently, a last byte of 0 is not possible. And the
    // final-bit-flag itself is not part of the useful bitstream. Hence, the
    // last byte contains between 0 and 7 useful bits."
    const int padding = 8 - highest_set_bit(src[len - 1]);
    i64 offset = len * 8 - padding;

    u16 state1, state2;
    // "The first state (State1) encodes the even indexed symbols, and the
    // second (State2) encodes the odd indexes. State1 is initialized first, and
    // then State2, and they take turns decoding a single symbol and updating
    // their state."
    FSE_init_state(dtable, &state1, src, &offset);
    FSE_init_state(dtable, &state2, src, &offset);

    // Decode until we overflow the stream
    // Since we decode in reverse order, overflowing the stream is offset going
    // negative
    size_t symbols_written = 0;
    while (1) {
        // "The number of symbols to decode is determined by tracking bitStream
        // overflow condition: If updating state after decoding a symbol would
        // require more bits than remain in the stream, it is assumed the extra
        // bits are 0. Then, the symbols for each of the final states are
        // decoded and the process is complete."
        IO_write_byte(out, FSE_decode_symbol(dtable, &state1, src, &offset));
        symbols_written++;
        if (offset < 0) {
            // There's still a symbol to decode in state2
            IO_write_byte(out, FSE_peek_symbol(dtable, state2));
            symbols_written++;
            break;
        }

        IO_write_byte(out, FSE_decode_symbol(dtable, &state2, src, &offset));
        symbols_written++;
        if (offset < 0) {
            // There's still a symbol to decode in state1
            IO_write_byte(out, FSE_peek_symbol(dtable, state1));
            symbols_written++;
            break;
        }
    }

    return symbols_written;
}

static void FSE_init_dtable(FSE_dtable *const dtable,
                            const i16 *const norm_freqs, const int num_symbs,
                            const int accuracy_log) {
    if (accuracy_log > FSE_MAX_ACCURACY_LOG) {
        ERROR("FSE accuracy too large");
    }
    if (num_symbs > FSE_MAX_SYMBS) {
        ERROR("Too many symbols for FSE");
    }

    dtable->accuracy_log = accuracy_log;

    const size_t size = (size_t)1 << accuracy_log;
    dtable->symbols = malloc(size * sizeof(u8));
    dtable->num_bits = malloc(size * sizeof(u8));
    dtable->new_state_base = malloc(size * sizeof(u16));

    if (!dtable->symbols || !dtable->num_bits || !dtable->new_state_base) {
        BAD_ALLOC();
    }

    // Used to determine how many bits need to be read for each state,
    // and where the destination range should start
    // Needs to be u16 because max value is 2 * max number of symbols,
    // which can be larger than a byte can store
    u16 state_desc[FSE_MAX_SYMBS];

    // "Symbols are scanned in their natural order for "less than 1"
    // probabilities. Symbols with this probability are being attributed a
    // single cell, starting from the end of the table. These symbols define a
    // full state reset, reading Accuracy_Log bits."
    int high_threshold = size;
    for (int s = 0; s < num_symbs; s++) {
        // Scan for low probability symbols to put at the top
        if (norm_freqs[s] == -1) {
            dtable->symbols[--high_threshold] = s;
            state_desc[s] = 1;
        }
    }

    // "All remaining symbols are sorted in their natural order. Starting from
    // symbol 0 and table position 0, each symbol gets attributed as many cells
    // as its probability. Cell allocation is spread, not linear."
    // Place the rest in the table
    const u16 step = (size >> 1) + (size >> 3) + 3;
    const u16 mask = size - 1;
    u16 pos = 0;
    for (int s = 0; s < num_symbs; s++) {
        if (norm_freqs[s] <= 0) {
            continue;
        }

        state_desc[s] = norm_freqs[s];

        for (int i = 0; i < norm_freqs[s]; i++) {
            // Give `norm_freqs[s]` states to symbol s
            dtable->symbols[pos] = s;
            // "A position is skipped if already occupied, typically by a "less
            // than 1" probability symbol."
            do {
                pos = (pos + step) & mask;
            } while (pos >=
                     high_threshold);
            // Note: no other collision checking is necessary as `step` is
            // coprime to `size`, so the cycle will visit each position exactly
            // once
        }
    }
    if (pos != 0) {
        CORRUPTION();
    }

    // Now we can fill baseline and num bits
    for (size_t i = 0; i < size; i++) {
        u8 symbol = dtable->symbols[i];
        u16 next_state_desc = state_desc[symbol]++;
        // Fills in the table appropriately, next_state_desc increases by symbol
        // over time, decreasing number of bits
        dtable->num_bits[i] = (u8)(accuracy_log - highest_set_bit(next_state_desc));
        // Baseline increases until the bit threshold is passed, at which point
        // it resets to 0
        dtable->new_state_base[i] =
            ((u16)next_state_desc << dtable->num_bits[i]) - size;
    }
}

/// Decode an FSE header as defined in the Zstandard format specification and
/// use the decoded frequencies to initialize a decoding table.
static void FSE_decode_header(FSE_dtable *const dtable, istream_t *const in,
                                const int max_accuracy_log) {
    // "An FSE distribution table describes the probabilities of all symbols
    // from 0 to the last present one (included) on a normalized scale of 1 <<
    // Accuracy_Log .
    //
    // It's a bitstream which is read forward, in little-endian fashion. It's
    // not necessary to know its exact size, since it will be discovered and
    // reported by the decoding process.
    if (max_accuracy_log > FSE_MAX_ACCURACY_LOG) {
        ERROR("FSE accuracy too large");
    }

    // The bitstream starts by reporting on which scale it operates.
    // Accuracy_Log = low4bits + 5. Note that maximum Accuracy_Log for literal
    // and match lengths is 9, and for offsets is 8. Higher values are
    // considered errors."
    const int accuracy_log = 5 + IO_read_bits(in, 4);
    if (accuracy_log > max_accuracy_log) {
        ERROR("FSE accuracy too large");
    }

    // "Then follows each symbol value, from 0 to last present one. The number
    // of bits used by each field is variable. It depends on :
    //
    // Remaining probabilities + 1 : example : Presuming an Accuracy_Log of 8,
    // and presuming 100 probabilities points have already been distributed, the
    // decoder may read any value from 0 to 255 - 100 + 1 == 156 (inclusive).
    // Therefore, it must read log2sup(156) == 8 bits.
    //
    // Value decoded : small values use 1 less bit : example : Presuming values
    // from 0 to 156 (inclusive) are possible, 255-156 = 99 values are remaining
    // in an 8-bits field. They are used this way : first 99 values (hence from
    // 0 to 98) use only 7 bits, values from 99 to 156 use 8 bits. "

    i32 remaining = 1 << accuracy_log;
    i16 frequencies[FSE_MAX_SYMBS];

    int symb = 0;
    while (remaining > 0 && symb < FSE_MAX_SYMBS) {
        // Log of the number of possible values we could read
        int bits = highest_set_bit(remaining + 1) + 1;

        u16 val = IO_read_bits(in, bits);

        // Try to mask out the lower bits to see if it qualifies for the "small
        // value" threshold
        const u16 lower_mask = ((u16)1 << (bits - 1)) - 1;
        const u16 threshold = ((u16)1 << bits) - 1 - (remaining + 1);

        if ((val & lower_mask) < threshold) {
            IO_rewind_bits(in, 1);
            val = val & lower_mask;
        } else if (val > lower_mask) {
            val = val - threshold;
        }

        // "Probability is obtained from Value decoded by following formula :
        // Proba = value - 1"
        const i16 proba = (i16)val - 1;

        // "It means value 0 becomes negative probability -1. -1 is a special
        // probability, which means "less than 1". Its effect on distribution
        // table is described in next paragraph. For the purpose of calculating
        // cumulated distribution, it counts as one."
        remaining -= proba < 0 ? -proba : proba;

        frequencies[symb] = proba;
        symb++;

        // "When a symbol has a probability of zero, it is followed by a 2-bits
        // repeat flag. This repeat flag tells how many probabilities of zeroes
        // follow the current one. It provides a number ranging from 0 to 3. If
        // it is a 3, another 2-bits repeat flag follows, and so on."
        if (proba == 0) {
            // Read the next two bits to see how many more 0s
            int repeat = IO_read_bits(in, 2);

            while (1) {
                for (int i = 0; i < repeat && symb < FSE_MAX_SYMBS; i++) {
                    frequencies[symb++] = 0;
                }
                if (repeat == 3) {
                    repeat = IO_read_bits(in, 2);
                } else {
                    break;
                }
            }
        }
    }
    IO_align_stream(in);

    // "When last symbol reaches cumulated total of 1 << Accuracy_Log, decoding
    // is complete. If the last symbol makes cumulated total go above 1 <<
    // Accuracy_Log, distribution is considered corrupted."
    if (remaining != 0 || symb >= FSE_MAX_SYMBS) {
        CORRUPTION();
    }

    // Initialize the decoding table using the determined weights
    FSE_init_dtable(dtable, frequencies, symb, accuracy_log);
}

static void FSE_init_dtable_rle(FSE_dtable *const dtable, const u8 symb) {
    dtable->symbols = malloc(sizeof(u8));
    dtable->num_bits = malloc(sizeof(u8));
    dtable->new_state_base = malloc(sizeof(u16));

    if (!dtable->symbols || !dtable->num_bits || !dtable->new_state_base) {
        BAD_ALLOC();
    }

    // This setup will always have a state of 0, always return symbol `symb`,
    // and never consume any bits
    dtable->symbols[0] = symb;
    dtable->num_bits[0] = 0;
    dtable->new_state_base[0] = 0;
    dtable->accuracy_log = 0;
}

static void FSE_free_dtable(FSE_dtable *const dtable) {
    free(dtable->symbols);
    free(dtable->num_bits);
    free(dtable->new_state_base);
    memset(dtable, 0, sizeof(FSE_dtable));
}
/******* END FSE PRIMITIVES ***************************************************/
