/*
 * Copyright (c) Meta Platforms, Inc. and affiliates.
 * All rights reserved.
 *
 * This source code is licensed under both the BSD-style license (found in the
 * LICENSE file in the root directory of this source tree) and the GPLv2 (found
 * in the COPYING file in the root directory of this source tree).
 * You may select, at your option, one of the above-listed licenses.
 */

#include <stddef.h>   /* size_t */

/******* EXPOSED TYPES ********************************************************/
/*
* Contains the parsed contents of a dictionary
* This includes Huffman and FSE tables used for decoding and data on offsets
*/
typedef struct dictionary_s dictionary_t;
/******* END EXPOSED TYPES ****************************************************/

/******* DECOMPRESSION FUNCTIONS **********************************************/
/// Zstandard decompression functions.
/// `dst` must point to a space at least as large as the reconstructed output.
size_t ZSTD_decompress(void *const dst, const size_t dst_len,
                    const void *const src, const size_t src_len);

/// If `dict != NULL` and `dict_len >= 8`, does the same thing as
/// `ZSTD_decompress` but uses the provided dict
size_t ZSTD_decompress_with_dict(void *const dst, const size_t dst_len,
                              const void *const src, const size_t src_len,
                              dictionary_t* parsed_dict);

/// Get the decompressed size of an input stream so memory can be allocated in
/// advance
/// Returns -1 if the size can't be determined
/// Assumes decompression of a single frame
size_t ZSTD_get_decompressed_size(const void *const src, const size_t src_len);
/******* END DECOMPRESSION FUNCTIONS ******************************************/

/******* DICTIONARY MANAGEMENT ***********************************************/
/*
 * Return a valid dictionary_t pointer for use with dictionary initialization
 * or decompression
 */
dictionary_t* create_dictionary(void);

/*
 * Parse a provided dictionary blob for use in decompression
 * `src` -- must point to memory space representing the dictionary
 * `src_len` -- must provide the dictionary size
 * `dict` -- will contain the parsed contents of the dictionary and
 *        can be used for decompression
 */
void parse_dictionary(dictionary_t *const dict, const void *src,
                             size_t src_len);

/*
 * Free internal Huffman tables, FSE tables, and dictionary content
 */
void free_dictionary(dictionary_t *const dict);
/******* END DICTIONARY MANAGEMENT *******************************************/
