"""C14 — memory budgets: estimates suffice, static contexts, decoder window limit.

  M  Cwksp.tla (bump allocator of the compression workspace): TLC checks that reservations are disjoint, inside the block and
     phase-ordered, and that running out of room only sets allocFailed (a static workspace never grows).
  V  harness/budgetdrv.c places contexts in caller memory of exactly the estimated size (guard zones + ASan), drives them over
     the (estimate level L, use level l <= L) grid, cParams / CCtx_params corners (minMatch 3, row finder, btopt, LDM, maxBlockSize),
     >128 reuses of one static context, static decoders for window limits W vs frames with windows below / at / just above W,
     heap decoders under ZSTD_d_windowLogMax with a counting allocator, static dictionaries and sizeof_*; BudgetTrace.tla (TLC)
     evaluates the contract on every event.
"""
import os, re, json
from vlib import core

PID = "C14"
KINDS = ["text", "rand", "mix", "records", "blockdup", "longrep", "zero"]


def gen(rng, tier):
    L = []
    levels = [-5, 1, 3, 5, 7, 9, 12, 15, 16, 19] + ([22] if tier != "quick" else [])
    # (L, l<=L) grid for one-shot and streaming
    for Lv in levels:
        for l in [x for x in levels if x <= Lv]:
            if tier == "quick" and rng.random() < 0.5 and l != Lv:
                continue
            size = rng.choice([0, 1, 1000, 70000, 200000]) if l < 16 else rng.choice([1000, 60000])
            L.append("SC %d %d %s %d %d %d" % (Lv, l, rng.choice(KINDS), size, rng.randint(1, 9999), rng.choice([1, 2])))
            L.append("SS %d %d %s %d %d %d %d" % (Lv, l, rng.choice(KINDS), size, rng.randint(1, 9999), rng.choice([0, 1]), rng.choice([1000, 30000, 200000])))
    # memory is not monotonic in the level: budgets taken at L must cover every l < L (streaming, source size unknown / large)
    for Lv, l in [(13, 12), (16, 14), (16, 15), (17, 15), (18, 12), (18, 15), (14, 12), (17, 14)]:
        L.append("SS %d %d %s %d %d 0 %d" % (Lv, l, rng.choice(["text", "mix"]), 60000, rng.randint(1, 9999), rng.choice([30000, 200000])))
    # one static context reused many times with small jobs (far below the budget)
    for Lv, l in [(3, 1), (19, 1), (7, 3), (12, 1)]:
        L.append("SC %d %d text %d %d %d" % (Lv, l, rng.choice([100, 2000]), rng.randint(1, 999), 140 if tier == "quick" else 400))
    # parameter corners
    def corner():
        p = {101: rng.choice([10, 14, 17, 20]), 102: rng.choice([6, 12, 17, 18]), 103: rng.choice([6, 10, 16]), 104: rng.choice([1, 3, 6]),
             105: rng.choice([3, 4, 5, 6, 7]), 106: rng.choice([0, 16, 999]), 107: rng.choice([1, 2, 3, 4, 5, 6, 7, 8, 9])}
        if p[107] >= 6:
            p[101] = min(p[101], 17)
        return p
    for _ in range(40 if tier == "quick" else 600):
        p = corner()
        stream = rng.choice([0, 1])
        size = rng.choice([0, 1000, 70000, 200000]) if p[107] < 7 else rng.choice([1000, 50000])
        L.append("SP cp %s %d %d %d %s" % (rng.choice(KINDS), size, rng.randint(1, 9999), stream, " ".join("%d:%d" % kv for kv in sorted(p.items()))))
    for _ in range(60 if tier == "quick" else 900):
        p = {}
        if rng.random() < 0.8:
            p[100] = rng.choice([1, 3, 5, 6, 7, 9, 12, 13, 16])
        for k, vs in [(101, [10, 14, 17, 20]), (102, [6, 17, 18, 24]), (103, [6, 10, 16]), (105, [3, 4, 7]), (107, [1, 2, 3, 4, 5, 6, 7]), (1011, [1, 2]), (160, [1]),
                      (161, [10, 20]), (162, [4, 64]), (163, [1, 4]), (1015, [1024, 4096, 131072]), (130, [1340, 5000]), (1010, [1, 2]), (1002, [1, 2])]:
            if rng.random() < 0.25:
                p[k] = rng.choice(vs)
        if p.get(102, 0) == 24 and rng.random() < 0.7:
            p[102] = 18
        stream = rng.choice([0, 1])
        size = rng.choice([0, 1000, 70000, 200000])
        if p.get(100, 3) >= 13 or p.get(107, 0) >= 7:
            size = min(size, 50000)
        L.append("SP pp %s %d %d %d %s" % (rng.choice(KINDS), size, rng.randint(1, 9999), stream, " ".join("%d:%d" % kv for kv in sorted(p.items()))))
    # directed: a level whose small-source tier selects a costlier strategy than its unknown-size tier, with a table log pinned small
    for lvl, extra in ((12, "102:6"), (12, "102:6 105:3"), (11, "102:6"), (10, "102:6 103:6"), (9, "102:6")):
        for size in (70000, 100000, 15000):
            L.append("SP pp %s %d %d %d 100:%d %s" % (rng.choice(KINDS), size, rng.randint(1, 9999), rng.choice([0, 1]), lvl, extra))
    # decoders
    for W in [1024, 4096, 16384, 131072, 1 << 20]:
        wl = W.bit_length() - 1
        for wlog in sorted(set([max(10, wl - 1), wl, wl + 1, wl + 2, 10])):
            for fcs in (0, 1):
                size = rng.choice([3 * (1 << wlog) + 777, 5 * (1 << wlog), 300000]) if wlog <= 17 else 2500000
                size = min(size, 3000000)
                L.append("SD %d %d %d %d %d %d" % (W, wlog, size, rng.randint(1, 9999), fcs, rng.choice([100, 1000, 4096, 140000])))
    for wmax in [10, 12, 17, 20, 23]:
        for wlog in sorted(set([max(10, wmax - 2), wmax, wmax + 1, 10])):
            L.append("HD %d %d %d %d 0" % (wmax, wlog, min(3 * (1 << wlog) + 99, 3000000), rng.randint(1, 9999)))
    for lv in [1, 3, 9, 19]:
        for ds in [8, 1000, 50000, 300000]:
            L.append("DD %d %d" % (lv, ds))
    for lv, nw in [(1, 0), (3, 0), (9, 0), (19, 0), (3, 2)]:
        L.append("SZ %d %d %d" % (lv, 1500000 if nw else 300000, nw))
    return L


def run(tier):
    ck = core.Check(PID, tier, "model_checking")
    od = ck.outdir
    r = core.run_tlc("Cwksp", "Cwksp.cfg", tag="c14-cwksp", timeout=900)
    ck.model("Cwksp (bump allocator)", r, {"Size": 8, "MaxReq": 3, "MaxOps": 6})
    if r.violated:
        ck.warn("Cwksp.tla violates %s (design model)" % r.invariant_violated)
    exe = core.build_exe("budgetdrv", ["budgetdrv.c"], "san")
    lines = gen(ck.rng, tier)
    core.log("[C14] %d driver lines" % len(lines))
    per = 60
    bi = 0
    while bi < len(lines):
        batch = lines[bi:bi + per]
        sp = os.path.join(od, "b.script"); tp = os.path.join(od, "b.ndjson")
        open(sp, "w").write("\n".join(batch) + "\n")
        rc, out = core.sh([exe, sp, tp], timeout=1200, env={"ASAN_OPTIONS": "detect_leaks=0", "STREAMDRV_LB": "1"})
        evs = core.read_ndjson(tp) if os.path.exists(tp) else []
        done = len([e for e in evs if e["e"] != "end"])
        # SZ lines emit 3 events each; recount by walking
        consumed = 0; cnt = 0
        for ln in batch:
            need = 3 if ln.startswith("SZ") else 1
            if cnt + need <= done:
                cnt += need; consumed += 1
            else:
                break
        for e in evs:
            ck.case(key=(e["e"], e.get("L"), e.get("l"), e.get("W"), e.get("window"), e.get("mode"), e.get("line", "")[:120], e.get("ok"), e.get("what"), e.get("level")))
        if rc != 0:
            culprit = batch[consumed] if consumed < len(batch) else batch[-1]
            san = re.search(r"(ERROR: AddressSanitizer: [\w-]+[^\n]*|runtime error: [^\n]*)", out)
            why = san.group(1)[:220] if san else "driver died rc=%d" % rc
            sp1 = os.path.join(od, "b1.script"); open(sp1, "w").write(culprit + "\n")
            rc1, out1 = core.sh([exe, sp1, os.path.join(od, "b1.ndjson")], timeout=600, env={"ASAN_OPTIONS": "detect_leaks=0"})
            if rc1 != 0:
                rp = ck.replay_path("budget-crash-%d.script" % (bi + consumed), culprit + "\n")
                loc = re.search(r"(zstd_\w+\.[ch]:\d+)", out1)
                ck.violation("%s on: %s" % (why, culprit), rp, ident="crash|%s|%s" % (culprit.split()[0], loc.group(1) if loc else why[:40]))
            else:
                ck.warn("driver failure not reproduced on: " + culprit)
            lines[bi + per:bi + per] = batch[consumed + 1:]
            # validate what was produced before the crash too
            if evs and evs[-1].get("e") != "end":
                evs.append({"e": "end"}); core.write_ndjson(tp, evs)
        if evs:
            ok, tr = core.validate_trace("BudgetTrace", "BudgetTrace.cfg", tp, tag="c14", timeout=900)
            ck.model("BudgetTrace(batch %d)" % bi, tr, {"lines": len(evs)})
            guard = 0
            cur = evs
            while not ok and guard < 30:
                guard += 1
                m = re.search(r"TRACE-REJECT matched[^\d]*(\d+)", tr.out.replace("\n", " "))
                pos = int(m.group(1)) if m else 0
                bad = cur[pos] if pos < len(cur) else {}
                small = {k: v for k, v in bad.items()}
                ident = "%s|%s" % (bad.get("e"), bad.get("err", ""))
                if bad.get("e") == "staticParams":
                    ident += "|" + bad.get("mode", "") + "|stream=%s" % bad.get("stream")
                if bad.get("e") in ("staticCCtx", "staticCStream"):
                    ident += "|reuses>128" if bad.get("reuses", 0) > 128 else ""
                if bad.get("e") in ("staticDStream", "heapDStream"):
                    ident += "|window%sW" % (">" if bad.get("window", 0) > bad.get("W", bad.get("limit", 0)) else "<=")
                rp = ck.replay_path("budget-%d-%d.json" % (bi, pos), {"property": PID, "event": small, "script_line": bad.get("line", "")})
                ck.violation("BudgetTrace rejected %s" % json.dumps(small)[:420], rp, ident=ident)
                cur = cur[pos + 1:]
                if not cur:
                    break
                core.write_ndjson(tp + ".rest", cur)
                ok, tr = core.validate_trace("BudgetTrace", "BudgetTrace.cfg", tp + ".rest", tag="c14", timeout=900)
            if ok:
                ck.traces(1)
        bi += per
    for l in lines[:3] + lines[-3:]:
        ck.sample(l)
    ck.assumptions += ["'operations the estimate covers': compression at any level l <= L for estimate*(L); exactly the estimated parameters for the usingCParams / usingCCtxParams forms; single-threaded (static contexts do not support MT)",
                       "guard zones of 4 KiB around the block + ASan red zones; frames for the decoder cases declare exactly the stated window (streamed, not single-segment)"]
    return ck.finish(rule="one case per driver line; distinct by (event kind, levels / window / parameters, verdict)")


def replay(path):
    exe = core.build_exe("budgetdrv", ["budgetdrv.c"], "san")
    od = os.path.join(core.OUT, PID); os.makedirs(od, exist_ok=True)
    if path.endswith(".json"):
        d = json.load(open(path)); line = d.get("script_line") or ""
        if not line:
            print(json.dumps(d, indent=1)); return 1
        sp = os.path.join(od, "replay.script"); open(sp, "w").write(line + "\n")
    else:
        sp = path
    tp = os.path.join(od, "replay.ndjson")
    rc, out = core.sh([exe, sp, tp], timeout=600, env={"ASAN_OPTIONS": "detect_leaks=0"})
    if rc != 0:
        print(out[-1500:]); return 1
    ok, tr = core.validate_trace("BudgetTrace", "BudgetTrace.cfg", tp, tag="c14-replay")
    print("BudgetTrace %s" % ("accepted" if ok else "REJECTED")); print("\n".join(core.trace_diag(tr))[:1500])
    return 0 if ok else 1
