"""C06 — capacity discipline: no overrun for any buffer size, and the size bounds hold.

  M  Capacity.tla: (1) ZSTD_compressBound covers the raw-block worst case for every n <= 300000 and every selectable block
     size (TLC evaluates the assumption); (2) the write-cursor model of frame emission (header / blocks / epilogue with
     optional empty last block and checksum) never writes beyond any capacity 0..40 under any order of writes; the mutation
     "epilogue forgets to charge the empty block" must be rejected.
  R  harness/capdrv.c: every buffer ends at an inaccessible page; compression entry points (compress2, compressCCtx,
     usingDict, streaming with per-call buffers, buffer-less begin/continue/end, stable output buffer, compressSequences,
     skippable frames, multi-threaded) are swept over boundary capacities; decompression entry points over capacities on
     valid frames and damaged copies; frame inspectors are compared with what the decoder does (multi-frame inputs with
     skippable frames, unknown content sizes, different windows; in-place decoding with the advertised margin).
  V  CapTrace.tla (TLC) checks the contract on every sweep.
"""
import os, re, json
from vlib import core

PID = "C06"
KINDS = ["text", "rand", "mix", "rle", "zero", "longrep", "records", "tailmatch", "straddle", "blockdup", "longlit", "sparse", "tworegime"]
CAPIS = ["compress2", "compressCCtx", "usingDict", "stream", "bufferlessEnd", "bufferlessEnd0", "stableOut", "sequences", "skippable", "mt"]
DAPIS = ["decompress", "dctx", "stream", "stableOut", "usingDict"]


def gen_script(rng, tier):
    L = []
    nC = 26 if tier == "quick" else 60
    for _ in range(nC):
        api = rng.choice(CAPIS)
        lvl = rng.choice([1, 1, 2, 3, 3, 4, 5, 7, 9, 12, 13, 16, 19, -1, -7])
        n = rng.choice([0, 1, 2, 7, 8, 9, 100, 255, 256, 257, 1000, 5000, 20000, 65535, 65791, 65792, 131071, 131072, 131073, 200000, 300000])
        if lvl >= 13:
            n = min(n, 20000)
        if api == "mt":
            n = rng.choice([1000, 524288, 600000, 1100000]); lvl = rng.choice([1, 3])
        if api == "skippable":
            n = rng.choice([0, 1, 7, 200, 70000])
        if api == "stream" and n > 70000:
            n = rng.choice([20000, 70000])      # (per-call output buffers of 1..24 bytes: keep the number of calls bounded)
        ps = [(100, lvl)]
        if rng.random() < 0.6 or api in ("stableOut", "bufferlessEnd0", "bufferlessEnd"):
            ps.append((201, 1))
        if rng.random() < 0.3:
            ps.append((101, rng.choice([10, 12, 14, 17])))
        if rng.random() < 0.2 and api in ("compress2", "stream", "stableOut"):
            ps.append((130, rng.choice([1340, 2000, 5000])))      # targetCBlockSize: sub-blocks
        if rng.random() < 0.2 and api in ("compress2", "stream", "mt"):
            ps.append((1015, rng.choice([1024, 4096, 65536])))    # maxBlockSize
        if rng.random() < 0.15 and api in ("compress2", "stream"):
            ps.append((160, 1))
        if rng.random() < 0.2 and api in ("compress2", "stream", "stableOut"):
            ps.append((200, 0))
        if rng.random() < 0.2 and api in ("compress2",):
            ps.append((1002, rng.choice([1, 2])))                 # literal compression mode
        if rng.random() < 0.35 and api in ("compress2", "compressCCtx", "stream", "bufferlessEnd") and lvl < 13:
            ps.append((1010, 1)); n = max(n, rng.choice([60000, 140000, 300000]))     # block splitter on, a block that really splits
        if api == "mt":
            ps += [(400, rng.choice([1, 2, 3])), (401, 1)]
        L.append("CSWEEP %s %s %d %d %d %s" % (api, rng.choice(KINDS), n, rng.randint(1, 9999), len(ps), " ".join("%d %d" % kv for kv in ps)))
    # directed: sub-block writers with very little room (targetCBlockSize, optimal parser, stable output / short one-shot destination)
    for api in ("stableOut", "compress2"):
        L.append("CSWEEP %s %s %d %d 4 100 %d 201 1 101 17 130 %d" % (api, rng.choice(["sparse", "text", "mix"]), rng.choice([20000, 60000]), rng.randint(1, 9999), rng.choice([19, 13, 5]), rng.choice([1340, 2000, 5000])))
    L.append("CSWEEP sequences text 1 %d 1 100 3" % rng.randint(1, 9999))
    # directed: a block that the post-splitter really splits (two regimes inside one block), short one-shot destinations
    L.append("CSWEEP %s tworegime %d %d 2 100 %d 1010 1" % (rng.choice(["compress2", "compressCCtx"]) if False else "compress2", rng.choice([100000, 131072, 200000]), rng.randint(1, 9999), rng.choice([1, 3, 5])))
    L.append("CSWEEP compress2 tworegime %d %d 1 100 %d" % (rng.choice([100000, 131072]), rng.randint(1, 9999), rng.choice([16, 17])))
    for _ in range(10 if tier == "quick" else 24):
        api = rng.choice(DAPIS)
        n = rng.choice([0, 1, 100, 1023, 1024, 5000, 131071, 131072, 131073, 200000, 400000])
        ps = [(100, rng.choice([1, 3, 5, 9]))]
        if rng.random() < 0.5:
            ps.append((201, 1))
        if rng.random() < 0.3:
            ps.append((101, rng.choice([10, 12, 17])))
        if rng.random() < 0.3:
            ps.append((200, 0))
        L.append("DSWEEP %s %s %d %d %d %s" % (api, rng.choice(KINDS), n, rng.randint(1, 9999), len(ps), " ".join("%d %d" % kv for kv in ps)))
    for _ in range(12 if tier == "quick" else 40):
        nf = rng.choice([1, 2, 2, 3, 4, 5])
        fr = []
        for i in range(nf):
            n = rng.choice([0, 1, 100, 5000, 131072, 131073, 200000, 300000, 500000])
            wl = rng.choice([0, 0, 10, 12, 14, 17, 19])
            fr.append("%s %d %d %d %d %d" % (rng.choice(KINDS), n, rng.randint(1, 9999), rng.choice([1, 3, 5]), wl, rng.choice([0, 1, 2, 3, 4, 5, 6])))
        L.append("INSPECT %d %s" % (nf, " ".join(fr)))
    return L


def run(tier):
    ck = core.Check(PID, tier, "model_checking")
    od = ck.outdir
    r = core.run_tlc("Capacity", "Capacity.cfg", tag="c06-mc", timeout=1800)
    ck.model("Capacity (bound arithmetic n <= 300000 x 6 block sizes; write cursor, capacities 0..40)", r, {})
    if r.violated:
        ck.warn("Capacity.tla violates %s (design model)" % r.invariant_violated)
    rm = core.run_tlc("Capacity", "Capacity_mutEpilogue.cfg", tag="c06-mut", timeout=600)
    ck.model("Capacity mutation (epilogue keeps room; expected to violate NeverBeyond)", rm, {"violated": rm.invariant_violated})
    if rm.invariant_violated != "NeverBeyond":
        ck.warn("mutation config was not rejected: NeverBeyond is vacuous")
    exe = core.build_exe("capdrv", ["capdrv.c"], "san")
    nb = 3 if tier == "quick" else 30
    for bi in range(nb):
        L = gen_script(ck.rng, tier)
        pending = L
        part = 0
        while pending and part < 40:
            part += 1
            sp = os.path.join(od, "cap.script"); tp = os.path.join(od, "cap.ndjson")
            open(sp, "w").write("\n".join(pending) + "\n")
            if os.path.exists(tp):
                os.remove(tp)
            rc, out = core.sh([exe, sp, tp], timeout=2400, env={"ASAN_OPTIONS": "detect_leaks=0:allocator_may_return_null=1"})
            evs = core.read_ndjson(tp) if os.path.exists(tp) else []
            done = len([e for e in evs if e["e"] in ("csweep", "dsweep", "inspect")])
            for e in evs:
                if e["e"] == "csweep":
                    ck.case(key=("c", e["api"], e.get("kind"), e.get("level"), min(e.get("n", 0), 131074), e.get("nOk", 0) > 0))
                    ck.cov["capacities_tried"] = ck.cov.get("capacities_tried", 0) + e.get("ncaps", 0)
                elif e["e"] == "dsweep":
                    ck.case(key=("d", e["api"], e.get("kind"), min(e.get("n", 0), 131074)))
                    ck.cov["capacities_tried"] = ck.cov.get("capacities_tried", 0) + e.get("ncaps", 0) + 24
                elif e["e"] == "inspect":
                    ck.case(key=("i", e["frames"], e["anyUnknown"], e["margin"] % 1000))
            if rc != 0:
                culprit = pending[done] if done < len(pending) else pending[-1]
                san = re.search(r"(ERROR: AddressSanitizer: [\w-]+[^\n]*|runtime error: [^\n]*|Assertion[^\n]*failed)", out)
                why = san.group(1)[:240] if san else "driver died rc=%d %s" % (rc, (out.strip().splitlines() or [""])[-1][:160])
                sp1 = os.path.join(od, "cap1.script"); open(sp1, "w").write(culprit + "\n")
                rc1, out1 = core.sh([exe, sp1, os.path.join(od, "cap1.ndjson")], timeout=1200, env={"ASAN_OPTIONS": "detect_leaks=0:allocator_may_return_null=1"})
                if rc1 != 0:
                    frames = re.findall(r"#\d+ 0x[0-9a-f]+ in (\w+) [^\n]*?((?:zstd|huf|fse|hist)\w*\.[ch]:\d+)", out1)
                    loc = frames[0][1] if frames else why[:60]
                    rp = ck.replay_path("cap-crash-%d-%d.script" % (bi, part), culprit + "\n")
                    ck.violation("access outside a declared buffer or undefined behaviour: %s (in %s) on: %s" % (why, " <- ".join(f[0] for f in frames[:4]), culprit[:200]), rp, ident="crash|%s" % loc)
                else:
                    ck.warn("driver failure not reproduced alone: " + culprit[:120])
                pending = pending[done + 1:]
                evs.append({"e": "end"}); core.write_ndjson(tp, evs)
            else:
                pending = []
            if not evs:
                continue
            cur = evs; guard = 0
            try:
                ok, tr = core.validate_trace("CapTrace", "CapTrace.cfg", tp, tag="c06", timeout=900)
            except core.InfraError as ex:
                ck.warn("CapTrace could not evaluate batch %d: %s" % (bi, str(ex)[-300:])); continue
            ck.model("CapTrace(batch %d.%d)" % (bi, part), tr, {"lines": len(evs)})
            while not ok and guard < 12:
                guard += 1
                m = re.search(r"TRACE-REJECT matched[^\d]*(\d+)", tr.out.replace("\n", " "))
                pos = int(m.group(1)) if m else 0
                bad = cur[pos] if pos < len(cur) else {}
                opline = ""
                for e in reversed(cur[:pos]):
                    if e["e"] == "op":
                        opline = e["line"]; break
                full = [l for l in L if l.startswith(opline)] if opline else []
                if bad.get("e") == "inspect":
                    full = [l for l in L if l.startswith("INSPECT")]
                    k = len([e for e in cur[:pos] if e["e"] == "inspect"]) + (len([l for l in L if l.startswith("INSPECT")]) - len([e for e in cur if e["e"] == "inspect"]))
                    full = full[k:k + 1] if k < len(full) else full[:1]
                flags = [k for k in ("okOverCap", "posOver", "canary", "okWrong", "errAtBound", "otherErr", "okBelow", "errAtFinal", "dmgOver") if bad.get(k)]
                flags += [k for k in ("findOk", "consumedOk", "shortFail", "fcsOk", "boundOk", "inplaceOk") if bad.get(k) is False]
                rp = ck.replay_path("cap-%d-%d.script" % (bi, pos), "\n".join(full or [opline]) + "\n")
                ck.violation("CapTrace contract rejected %s [%s] (%s)" % (json.dumps(bad)[:420], ",".join(flags), (full or [opline])[0][:160]), rp,
                             ident="%s|%s|%s" % (bad.get("e"), bad.get("api", ""), ",".join(flags)))
                rest = cur[pos + 1:]
                if not rest:
                    break
                cur = rest
                core.write_ndjson(tp + ".rest", cur)
                ok, tr = core.validate_trace("CapTrace", "CapTrace.cfg", tp + ".rest", tag="c06", timeout=900)
            if ok:
                ck.traces(1)
        if bi < 1:
            ck.sample(L[:4] + L[-3:])
    ck.assumptions += ["an access beyond a buffer is observed through the inaccessible page that follows every buffer (and a canary in front of it)",
                       "ZSTD_compressBound is required to suffice for the single-pass entry points (compress2, compressCCtx, usingDict, compressSequences, multi-threaded compress2); streaming must work with any per-call capacity >= 1",
                       "capacities: 0..24, every block boundary of the unconstrained output -1..+4 (first blocks and the last), final-8..final+2, bound-1..bound+1, 8 random"]
    return ck.finish(rule="one case per sweep (entry point x input class x level x size class); capacities_tried counts the individual calls")


def replay(path):
    exe = core.build_exe("capdrv", ["capdrv.c"], "san")
    od = os.path.join(core.OUT, PID); os.makedirs(od, exist_ok=True)
    tp = os.path.join(od, "replay.ndjson")
    rc, out = core.sh([exe, path, tp], timeout=1200, env={"ASAN_OPTIONS": "detect_leaks=0"})
    print("driver rc=%d" % rc); print(out[-2500:])
    if os.path.exists(tp):
        print(open(tp).read()[-1500:])
        ok, tr = core.validate_trace("CapTrace", "CapTrace.cfg", tp, tag="c06-replay", timeout=600)
        print("\n".join(core.trace_diag(tr)))
        return 0 if (ok and rc == 0) else 1
    return 1
