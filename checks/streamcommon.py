"""Shared machinery of the streaming checks (C02, C09, C10): history generation for harness/streamdrv.c,
execution, and validation of the recorded traces against spec/StreamTrace.tla."""
import os, re, json
from vlib import core

KINDS = ["text", "rand", "rle", "zero", "mix", "longrep"]
# parameter ids (zstd.h)
P_LEVEL, P_WLOG, P_HLOG, P_CLOG, P_STRAT, P_TCBS, P_LDM, P_CSIZE, P_CSUM, P_WORKERS, P_JOB, P_OVL, P_FORMAT, P_MAXBLK, P_LITMODE, P_STIN, P_STOUT = \
    100, 101, 102, 103, 107, 130, 160, 200, 201, 400, 401, 402, 10, 1015, 1002, 1006, 1007
D_WLOGMAX, D_FORMAT = 100, 1000


def build():
    return core.build_exe("streamdrv", ["streamdrv.c"], "san")


def blocksize(params):
    w = params.get(P_WLOG, 0)
    mb = params.get(P_MAXBLK, 0) or 131072
    bs = min(131072, mb)
    if w:
        bs = min(bs, 1 << w)
    return bs


def gen_params(rng, small=True, mt_ok=True):
    p = {}
    p[P_LEVEL] = rng.choice([1, 1, 2, 3, 3, 4, 5, 6, 7, 9, 12, 15, 16, 19, -1, -5])
    if rng.random() < 0.8:
        p[P_WLOG] = rng.choice([10, 10, 11, 12, 13, 17] if small else [10, 12, 17, 20, 22])
    if rng.random() < 0.5:
        p[P_CSUM] = 1
    if rng.random() < 0.2:
        p[P_CSIZE] = 0
    if rng.random() < 0.35:
        p[P_MAXBLK] = rng.choice([1024, 1024, 2048, 4096, 65536])
    if rng.random() < 0.2:
        p[P_TCBS] = rng.choice([1340, 2000, 5000])
    if rng.random() < 0.15:
        p[P_LDM] = 1
    if rng.random() < 0.15:
        p[P_FORMAT] = 1
    if rng.random() < 0.15:
        p[P_LITMODE] = rng.choice([1, 2])
    if rng.random() < 0.15:
        p[P_STRAT] = rng.choice([1, 2, 3, 4, 5, 6, 7, 8, 9])
    if mt_ok and rng.random() < 0.2:
        p[P_WORKERS] = rng.choice([1, 2, 3])
        if rng.random() < 0.7:
            p[P_JOB] = 1   # clamped up to the 512 KiB minimum
        if rng.random() < 0.5:
            p[P_OVL] = rng.choice([0, 1, 5, 9])
    return p


def boundary_sizes(bs):
    return [1, 2, 3, 5, 7, 18, 100, bs - 1, bs, bs + 1, 2 * bs + 3, 4096, 70000]


BUDGET = 1500   # max calls one '*' line may expand to


def fit(total, step):
    """smallest step >= given one such that total/step stays within the call budget"""
    if step <= 0:
        step = 1
    if total // step > BUDGET:
        step = total // BUDGET + 1
    return step


def gen_history(rng, tier, focus):
    """Returns script lines for one CNEW...decode scenario.  focus in {'c02','c09','c10'} biases the mix."""
    L = ["CNEW"]
    tiny_caps = rng.random() < (0.35 if focus != "c09" else 0.1)
    p = gen_params(rng, small=True, mt_ok=(focus != "c09"))
    mt = p.get(P_WORKERS, 0) > 0
    for k, v in p.items():
        L.append("P %d %d" % (k, v))
    if p.get(P_FORMAT):
        L.append("DP %d 1" % D_FORMAT)
    bs = blocksize(p)
    api = "2"
    if not mt and rng.random() < 0.2 and not p.get(P_FORMAT):
        api = rng.choice(["legacy", "zbuff"])
    if api == "zbuff":
        L = ["CNEW", "API zbuff"]       # ZBUFF has its own parameters (level 3)
        p = {}; bs = 131072
    elif api == "legacy":
        L.append("API legacy")
    stable = False
    if api == "2" and rng.random() < 0.2:
        # stable-buffer modes: the caller promises not to move the buffers between calls
        si, so = rng.choice([(1, 0), (0, 1), (1, 1)])
        if si:
            L.append("P %d 1" % P_STIN)
        if so:
            L.append("P %d 1" % P_STOUT)
        L.append("STABLE %d %d" % (si, so))
        stable = True
    elif rng.random() < 0.25:
        L.append("MOVE 1")
    nframes = rng.choice([1, 1, 1, 2, 3])
    maxsrc = 3000 if tiny_caps else (rng.choice([0, 1, 50, bs - 1, bs, bs + 1, 3 * bs + 1, 20000, 70000, 200000]) if tier == "quick"
                                      else rng.choice([0, 1, bs, 5 * bs + 7, 70000, 300000, 1500000]))
    if mt and rng.random() < 0.6:
        maxsrc = rng.choice([600000, 1200000, 2500000]) if not tiny_caps else maxsrc
    caps_small = [1, 2, 3, 5, 18, 64]
    caps_big = [100, 1000, bs, bs + 20, 140000, 300000]
    for f in range(nframes):
        if f > 0 and rng.random() < 0.4 and api != "zbuff" and not p.get(P_FORMAT):   # (no skippable frames in magicless format)
            L.append("SKIP %d" % rng.choice([0, 1, 7, 300]))
        nseg = rng.choice([1, 1, 2, 3])
        for s in range(nseg):
            size = rng.randint(0, max(0, maxsrc // nseg)) if rng.random() < 0.5 else maxsrc // nseg
            L.append("SRC %s %d %d" % (rng.choice(KINDS), size, rng.randint(1, 9999)))
            # a few explicit calls then a bulk '*' line
            for _ in range(rng.randint(0, 4)):
                d = rng.choice([0, 0, 0, 1]) if s < nseg - 1 or rng.random() < 0.7 else 2
                if d == 2:
                    break
                cap = rng.choice(caps_small if tiny_caps else caps_small + caps_big)
                L.append("C %d %d %d" % (d, rng.choice(boundary_sizes(bs)), cap))
            last = (s == nseg - 1)
            d = 2 if last else rng.choice([0, 1, 1])
            insz = rng.choice(boundary_sizes(bs)) if not tiny_caps else rng.choice([1, 2, 7, 100, 1000])
            cap = rng.choice(caps_small) if tiny_caps else rng.choice(caps_big + [18, 64])
            insz = fit(size, insz); cap = fit(size, cap)
            if d == 2 and rng.random() < 0.5:
                # consume the rest with continue/flush slices first, then end with no new input
                d0 = rng.choice([0, 1])
                L.append("C %d %d %d *" % (d0, insz, cap))
                if d0 == 1:
                    L.append("PREFIX flush")
                L.append("C 2 0 %d *" % cap)
            else:
                L.append("C %d %d %d *" % (d, insz, cap))
            if d == 1:
                L.append("PREFIX flush")
            if d == 2:
                L.append("PREFIX end")
    if stable and any(l.startswith("STABLE") and l.endswith(" 1") for l in L):
        # ZSTD_c_stableOutBuffer: a too small destination is a documented error, so give every call ample room
        L = [(" ".join(l.split()[:3] + ["2097152"] + l.split()[4:]) if l.startswith("C ") else l) for l in L]
    L.append("LAYOUT")
    # decoding histories
    dcaps = [1, 2, 3, 7, 100, bs, bs + 1, 140000, 1 << 20]
    dins = [1, 2, 3, 5, 6, 17, 100, bs, bs + 3, 1 << 20]
    nd = 1 if tier == "quick" else 2
    for _ in range(nd):
        L.append("DNEW")
        if p.get(P_FORMAT):
            L.append("DP %d 1" % D_FORMAT)
        if rng.random() < 0.25:
            L.append("DP 1002 1")      # ZSTD_d_forceIgnoreChecksum: framing must not change
        if rng.random() < 0.15:
            L.append("DP 1005 %d" % max(1024, min(131072, bs)))   # ZSTD_d_maxBlockSize >= the frame's block size
        a = rng.choice(dins); b = rng.choice(dcaps)
        total = maxsrc * nframes
        L.append("D %d %d *%s" % (fit(total, a), fit(total, b), " d" if rng.random() < 0.4 else ""))
    if api != "zbuff" or True:
        L.append("DNEW")
        if p.get(P_FORMAT):
            L.append("DP %d 1" % D_FORMAT)
        # hint-following decode of each frame in turn
        if rng.random() < 0.3:
            L.append("DP 1002 1")
        for f in range(nframes * 2):
            L.append("DHINT %d" % rng.choice([1 << 20, 140000] + ([bs] if not tiny_caps else [])))
    L.append("DONE")
    if focus == "c09":
        L.append("CUTS %d" % (600 if tier == "quick" else 3000))
        L.append("FLIPSUM")
        L.append("FCSLIE")
        L.append("TRAIL %d %d" % (rng.choice([1, 3, 4, 8, 100]), rng.randint(0, 200)))
    elif rng.random() < 0.15:
        L.append("CUTS 300")
        L.append("TRAIL %d %d" % (rng.choice([1, 4, 9]), rng.randint(0, 200)))
    return L


def gen_pledge_history(rng):
    """pledged-size scenarios: exact, too few, too many bytes; with/without content size in the header; ST and MT."""
    L = ["CNEW"]
    n = rng.choice([0, 1, 100, 5000, 70000, 140000])
    delta = rng.choice([0, 0, -1, 1, -50, 50, 7000])
    actual = max(0, n + delta)
    if rng.random() < 0.5:
        L.append("P %d 0" % P_CSIZE)
    if rng.random() < 0.4:
        L.append("P %d %d" % (P_WLOG, rng.choice([10, 12, 17])))
    if rng.random() < 0.3:
        L.append("P %d %d" % (P_WORKERS, rng.choice([1, 2])))
    L.append("P %d %d" % (P_LEVEL, rng.choice([1, 3, 6])))
    L.append("PLEDGE %d" % n)
    L.append("SRC %s %d %d" % (rng.choice(KINDS), actual, rng.randint(1, 999)))
    style = rng.choice(["cont-end", "end-only", "flush-end"])
    cap = rng.choice([1000, 140000, 300000])
    if style == "cont-end" and actual > 0:
        L.append("C 0 %d %d *" % (rng.choice([1000, 4096, 70000]), cap))
        L.append("C 2 0 %d *" % cap)
    elif style == "flush-end" and actual > 0:
        L.append("C 1 %d %d *" % (rng.choice([1000, 4096, 70000]), cap))
        L.append("C 2 0 %d *" % cap)
    else:
        # first call already ZSTD_e_end: the library overrides the pledge by the input size only when all input is given at once
        L.append("C 0 %d %d" % (min(actual, 10), cap))
        L.append("C 2 %d %d *" % (max(actual, 1), cap))
    L.append("LAYOUT")
    return L


def run_script(exe, od, name, lines, timeout=240):
    sp = os.path.join(od, name + ".script")
    tp = os.path.join(od, name + ".ndjson")
    open(sp, "w").write("\n".join(lines) + "\n")
    if os.path.exists(tp):
        os.remove(tp)
    rc, out = core.sh([exe, sp, tp], timeout=timeout, env={"ASAN_OPTIONS": "detect_leaks=0:allocator_may_return_null=1", "STREAMDRV_LB": "1"})
    return rc, out, sp, tp


def split_scenarios(lines):
    sc, cur = [], []
    for l in lines:
        if l == "CNEW" and cur:
            sc.append(cur); cur = []
        cur.append(l)
    if cur:
        sc.append(cur)
    return sc


def validate_and_report(ck, exe, name, scenarios, per_batch=40):
    """Runs scenarios in batches through the driver and TLC; reports each rejected scenario once (re-validated alone)."""
    od = ck.outdir
    total_events = 0
    batches = [scenarios[bi:bi + per_batch] for bi in range(0, len(scenarios), per_batch)]
    bno = -1
    while batches:
        batch = batches.pop(0)
        bno += 1
        bi = bno * per_batch
        lines = [l for s in batch for l in s]
        bname = "%s-b%d" % (name, bi // per_batch)
        rc, out, sp, tp = run_script(exe, od, bname, lines)
        bad = []   # indices of scenarios to examine individually
        if rc != 0 or not os.path.exists(tp):
            # the driver died or hung: the (line-buffered) partial trace tells in which scenario
            idx = -1
            try:
                for e in core.read_ndjson(tp):
                    if e.get("e") == "cnew":
                        idx += 1
            except Exception:
                pass
            idx = max(idx, 0)
            bad = [idx]
            if rc == 124 and getattr(ck, "_hang_reported", False):
                bad = []          # one blocked call already reported in this run: do not spend minutes re-confirming more of them
                ck.warn("another scenario blocked (not re-confirmed): " + " ; ".join(batch[idx][:8]))
            if idx + 1 < len(batch):      # the scenarios after it have not run yet: queue them as a further batch
                batches.insert(0, batch[idx + 1:])
            if idx > 0:
                batches.insert(0, batch[:idx])   # and those before it are re-run without it (their trace was cut short)
        else:
            evs = core.read_ndjson(tp)
            total_events += len(evs)
            ok, tr = core.validate_trace("StreamTrace", "StreamTrace.cfg", tp, tag="st-" + bname, timeout=1800)
            ck.model("StreamTrace(%s)" % bname, tr, {"lines": len(evs), "scenarios": len(batch)})
            for e in evs:
                if e["e"] in ("ccall", "dcall"):
                    ck.case(key=(e["e"], e.get("dir"), min(e["inAvail"], 9), min(e["outAvail"], 9), min(e["inDelta"], 9), min(e["outDelta"], 9), e["ret"] == 0, e["ret"] < 0))
                elif e["e"] in ("cut", "flipsum", "fcslie", "prefix", "dhint", "oneshot", "trail"):
                    ck.case(key=(e["e"], e.get("k", 0) % 97, e.get("bit"), e.get("why")))
            if ok:
                ck.traces(len(batch))
            else:
                # locate the scenario containing the first rejected line
                m = re.search(r"TRACE-REJECT matched[^\d]*(\d+)", tr.out.replace("\n", " "))
                pos = int(m.group(1)) if m else 0
                idx = -1
                for i, e in enumerate(evs[:pos + 1]):
                    if e["e"] == "cnew":
                        idx += 1
                bad = list(range(max(idx, 0), len(batch)))
        for i in bad:
            s = batch[i]
            rc1, out1, sp1, tp1 = run_script(exe, od, "%s-one" % name, s, timeout=60)
            ident_base = None
            if rc1 != 0:
                why = "driver died rc=%d: %s" % (rc1, (out1.strip().splitlines() or [""])[-1][:300])
                if rc1 == 124:
                    why = "call did not return within 60 s (no progress / blocked forever)"
                    ck._hang_reported = True
                san = re.search(r"(ERROR: AddressSanitizer: [\w-]+|runtime error: [^\n]*)", out1)
                if san:
                    why = san.group(1)[:200]
                # confirm by re-running once
                rc2, out2, _, _ = run_script(exe, od, "%s-one" % name, s, timeout=60)
                if rc2 == 0:
                    ck.warn("non-reproducible driver failure in %s scenario %d" % (name, bi + i))
                    continue
                rp = ck.replay_path("%s-%d.script" % (name, bi + i), "\n".join(s) + "\n")
                ck.violation(why + " in scenario " + " ; ".join(s[:12]), rp, ident="crash|" + why[:60])
                continue
            ok1, tr1 = core.validate_trace("StreamTrace", "StreamTrace.cfg", tp1, tag="st-one")
            if ok1:
                if i == bad[0] and rc == 0:
                    pass
                ck.traces(1)
                continue
            ok2, tr2 = core.validate_trace("StreamTrace", "StreamTrace.cfg", tp1, tag="st-one")   # re-validation
            if ok2:
                ck.warn("non-reproducible rejection"); continue
            diag = " ".join(core.trace_diag(tr1)).replace("\n", " ")
            m = re.search(r"TRACE-REJECT matched[^\d]*(\d+)", tr1.out.replace("\n", " "))
            pos = int(m.group(1)) if m else 0
            evs1 = core.read_ndjson(tp1)
            badev = evs1[pos] if pos < len(evs1) else {}
            kind = badev.get("e", "?")
            ident = "%s|%s" % (kind, badev.get("fn", badev.get("why", "")))
            rp = ck.replay_path("%s-%d.script" % (name, bi + i), "\n".join(s) + "\n")
            ck.violation("StreamTrace contract rejected event #%d %s in scenario: %s" % (pos, json.dumps(badev)[:400], " ; ".join(s[:14])), rp, ident=ident + "|" + str(bi + i))
    ck.cov["events_validated"] = ck.cov.get("events_validated", 0) + total_events
    return total_events


def replay_script(path):
    exe = build()
    od = os.path.join(core.OUT, "stream-replay"); os.makedirs(od, exist_ok=True)
    lines = [l for l in open(path).read().split("\n") if l.strip()]
    rc, out, sp, tp = run_script(exe, od, "replay", lines)
    if rc != 0:
        print("driver rc=%d\n%s" % (rc, out[-1500:]))
        return 1
    ok, tr = core.validate_trace("StreamTrace", "StreamTrace.cfg", tp, tag="st-replay")
    print("contract %s" % ("accepted" if ok else "REJECTED"))
    print("\n".join(core.trace_diag(tr))[:2000])
    return 0 if ok else 1
