"""C15 — correctness does not wear out: unbounded stream length and context reuse.

  M  Window.tla: the index space of a match finder fed from a ring buffer that wraps (ZSTD_window_update, enforceMaxDist,
     correctOverflow + reduceIndex), 32-bit indices scaled down; TLC: every index a search may follow still resolves to the
     bytes it indexed, limits ordered, corrections preserve cycle bits and keep the window. A mutation config (overwritten
     extDict bytes retired only on a segment switch) must be rejected.
  H  guarded hooks in zstd_compress_internal.h log the inputs and results of every ZSTD_window_update and
     ZSTD_window_correctOverflow; WinTrace.tla (TLC) requires them to be the values of the model's functions.
  W  the library is built with ZSTD_WINDOW_OVERFLOW_CORRECT_FREQUENTLY so that corrections happen every few hundred KiB:
     harness/streamdrv.c drives many frames through one context (small windows, unaligned flushes, LDM, all strategies),
     every stream is decoded and compared (StreamTrace.tla); harness/detdrv.c compares reused contexts with fresh ones
     (DetTrace.tla) on the same build; thorough: harness/weardrv.c pushes > 4 GiB through one context pair for real.
"""
import os, re, json
from vlib import core
from checks import streamcommon as sc
from checks import c07

PID = "C15"
P_SLOG, P_MML = 104, 105


def gen_wear(rng, tier):
    L = ["CNEW"]
    lvl = rng.choice([1, 2, 3, 4, 5, 6, 7, 9, 12, 13, 15, 16, 17, 19])
    slow = lvl >= 13
    wlog = rng.choice([10, 11, 12, 13, 14, 15, 17, 18])
    L.append("P %d %d" % (sc.P_LEVEL, lvl)); L.append("P %d %d" % (sc.P_WLOG, wlog))
    if rng.random() < 0.5:
        L.append("P %d %d" % (sc.P_HLOG, rng.choice([6, 8, 10, 12])))
    if rng.random() < 0.5:
        L.append("P %d %d" % (sc.P_CLOG, rng.choice([6, 8, 10, 12])))
    if rng.random() < 0.3:
        L.append("P %d 1" % sc.P_LDM)
        if wlog < 12:
            L[2] = "P %d 17" % sc.P_WLOG; wlog = 17
    if rng.random() < 0.5:
        L.append("P %d 1" % sc.P_CSUM)
    if rng.random() < 0.5:
        L.append("P %d %d" % (sc.P_MAXBLK, rng.choice([1024, 2048, 4096, 32768])))
    if rng.random() < 0.2:
        L.append("P 1011 %d" % rng.choice([1, 2]))     # row match finder on / off
    if rng.random() < 0.25:      # binary-tree finders with chainLog - 1 > hashLog: the correction must preserve the chain's cycle, not the hash table's
        strat = rng.choice([6, 7]); L = [x for x in L if not x.startswith("P %d " % sc.P_HLOG) and not x.startswith("P %d " % sc.P_CLOG)]
        hl = rng.choice([8, 10, 12]); L += ["P %d %d" % (sc.P_STRAT, strat), "P %d %d" % (sc.P_HLOG, hl), "P %d %d" % (sc.P_CLOG, hl + rng.choice([3, 4, 5]))]
        if wlog < 14:
            L[2] = "P %d %d" % (sc.P_WLOG, rng.choice([15, 17])); wlog = 15
        slow = True
    budget = (600000 if slow else 6000000) if tier == "quick" else (1500000 if slow else 7500000)
    nfr = rng.choice([1, 2, 3, 5])
    per = budget // nfr
    for f in range(nfr):
        nseg = rng.choice([1, 2, 4, 8])
        for s in range(nseg):
            size = per // nseg
            if rng.random() < 0.5:
                size = rng.randint(size // 2, size)
            L.append("SRC %s %d %d" % (rng.choice(["text", "mix", "longrep", "rle", "text", "mix"]), size, rng.randint(1, 9999)))
            last = s == nseg - 1
            # unaligned flushes: a few odd-sized flushed pieces, then the bulk
            for _ in range(rng.randint(0, 3)):
                L.append("C 1 %d %d" % (rng.choice([1, 7, 100, 333, 1000, 5000, 70001]), 140000))
            L.append("C %d %d %d *" % (2 if last else rng.choice([0, 1]), rng.choice([4096, 70000, 1 << 20]), rng.choice([140000, 1 << 20])))
    L += ["LAYOUT", "DNEW", "DP 100 27", "D %d %d *" % (rng.choice([70000, 1 << 20]), rng.choice([131072, 1 << 20])), "DONE"]
    return L


def wear_probes(rng):
    probes = []

    def add(cls, kind, size, mode, params, nc=None):
        if mode == 0:
            cl = [(2, size)]
        else:
            cl = []; left = size
            while left > 0 and len(cl) < 20:
                n = min(left, rng.choice([333, 5000, 70001, 131072, 300000])); cl.append((rng.choice([0, 0, 1]), n)); left -= n
            cl.append((2, left))
        txt = "%s %d %d 0 %d %d %s %d %s" % (kind, size, rng.randint(1, 9999), mode, len(params), " ".join("%d %d" % kv for kv in params), len(cl), " ".join("%d %d" % c for c in cl))
        probes.append((cls, txt, {"mt": False, "dict": 0, "level": dict(params).get(100), "size": size, "bare": False}))
    for _ in range(3):
        lvl = rng.choice([1, 3, 5, 7, 9, 12])
        add("wear-l%d" % lvl, rng.choice(["text", "mix", "longrep", "records"]), rng.choice([300000, 900000]), 1, [(100, lvl), (101, rng.choice([10, 12, 14, 17]))] + ([(102, 8), (103, 8)] if rng.random() < 0.5 else []))
    add("wear-opt", rng.choice(["text", "mix"]), 120000, rng.choice([0, 1]), [(100, rng.choice([13, 16, 19])), (101, rng.choice([10, 12, 14]))])
    add("wear-ldm", rng.choice(["longrep", "copies", "blockdup"]), 1200000, 1, [(100, rng.choice([1, 3])), (160, 1), (101, rng.choice([14, 17]))])
    return probes


def run(tier):
    ck = core.Check(PID, tier, "model_checking")
    od = ck.outdir; rng = ck.rng
    cfgs = ["Window.cfg"] + (["Window_big.cfg"] if tier != "quick" else [])
    for cfg in cfgs:
        r = core.run_tlc("Window", cfg, tag="c15-" + cfg, timeout=3000, jvm="-Xmx16g")
        ck.model("Window(%s)" % cfg, r, {"cfg": cfg})
        if r.violated:
            ck.warn("Window.tla (%s) violates %s (design model)" % (cfg, r.invariant_violated))
    rm = core.run_tlc("Window", "Window_mutOverlap.cfg", tag="c15-mut", timeout=600)
    ck.model("Window mutation (overlap rule only on segment switch; expected to violate ReachableFresh)", rm, {"violated": rm.invariant_violated})
    if rm.invariant_violated != "ReachableFresh":
        ck.warn("mutation config was not rejected: ReachableFresh is vacuous")
    # ---- W + H: wear scenarios on the frequent-correction build, hooks on
    exe = core.build_exe("streamdrv_ocf", ["streamdrv.c"], "ocfsan")
    n = 24 if tier == "quick" else 300
    scen = [gen_wear(rng, tier) for _ in range(n)]
    ck.sample(scen[0][:14]); ck.sample(scen[1][:14])
    per_batch = 6
    stats = [0, 0, 0, 0]
    for bi in range(0, len(scen), per_batch):
        batch = scen[bi:bi + per_batch]
        lines = [l for s in batch for l in s]
        sp = os.path.join(od, "wear.script"); tp = os.path.join(od, "wear.ndjson")
        open(sp, "w").write("\n".join(lines) + "\n")
        if os.path.exists(tp):
            os.remove(tp)
        rc, out = core.sh([exe, sp, tp], timeout=1500, env={"ASAN_OPTIONS": "detect_leaks=0:allocator_may_return_null=1", "STREAMDRV_LB": "1", "STREAMDRV_HOOKS": "win"})
        evs = core.read_ndjson(tp) if os.path.exists(tp) else []
        if rc != 0:
            idx = max(0, len([e for e in evs if e.get("e") == "cnew"]) - 1)
            s = batch[min(idx, len(batch) - 1)]
            san = re.search(r"(ERROR: AddressSanitizer: [\w-]+[^\n]*|runtime error: [^\n]*|Assertion[^\n]*)", out)
            why = san.group(1)[:220] if san else "driver died rc=%d %s" % (rc, (out.strip().splitlines() or [""])[-1][:160])
            sp1 = os.path.join(od, "wear1.script"); open(sp1, "w").write("\n".join(s) + "\n")
            rc1, out1 = core.sh([exe, sp1, os.path.join(od, "wear1.ndjson")], timeout=900, env={"ASAN_OPTIONS": "detect_leaks=0:allocator_may_return_null=1"})
            if rc1 != 0:
                loc = re.search(r"((?:zstd|huf|fse)\w*\.[ch]:\d+)", out1)
                rp = ck.replay_path("wear-crash-%d.script" % bi, "\n".join(s) + "\n")
                ck.violation("%s in wear scenario: %s" % (why, " ; ".join(s[:10])), rp, ident="crash|%s" % (loc.group(1) if loc else why[:60]))
            else:
                ck.warn("driver failure not reproduced alone: " + " ; ".join(s[:8]))
            continue
        win = [e for e in evs if e["e"].startswith("win")]
        rest = [e for e in evs if not e["e"].startswith("win")]
        for e in win:
            if e["e"] == "winCorrect":
                ck.case(key=("correct", e["a"], e["b"], e["c"] % 7))
            elif e["e"] == "winUpd1":
                ck.case(key=("upd", e["a"], e["b"] == e["c"]), nontrivial=False)
        # tight: hooks vs Window.tla
        try:
            ok, tr = core.validate_trace("WinTrace", "WinTrace.cfg", tp, tag="c15w", timeout=1800)
        except core.InfraError as ex:
            ck.warn("WinTrace could not evaluate batch %d: %s" % (bi, str(ex)[-300:])); ok = True; tr = None
        if tr is not None:
            ck.model("WinTrace(batch %d)" % (bi // per_batch), tr, {"lines": len(evs), "window_events": len(win)})
            m = re.findall(r'"WIN-STATS", (\d+), (\d+), (\d+), (\d+)', tr.out)
            if m:
                for i in range(4):
                    stats[i] += int(m[-1][i])
        if not ok:
            ok2, tr2 = core.validate_trace("WinTrace", "WinTrace.cfg", tp, tag="c15w", timeout=1800)
            if not ok2:
                m = re.search(r"TRACE-REJECT matched[^\d]*(\d+)", tr2.out.replace("\n", " "))
                pos = int(m.group(1)) if m else 0
                bad = evs[pos] if pos < len(evs) else {}
                ctx = [e for e in evs[max(0, pos - 6):pos] if e["e"].startswith("win")]
                idx = max(0, len([e for e in evs[:pos + 1] if e.get("e") == "cnew"]) - 1)
                s = batch[min(idx, len(batch) - 1)]
                rp = ck.replay_path("wear-win-%d.json" % bi, {"property": PID, "script": s, "rejected": bad, "before": ctx})
                ck.violation("window event is not a step of Window.tla: %s after %s (scenario: %s)" % (json.dumps(bad), json.dumps(ctx[-2:])[:300], " ; ".join(s[:9])), rp,
                             ident="win|%s" % bad.get("e"))
        else:
            ck.traces(1)
        # contract: every stream round-trips (StreamTrace on the driver's own events)
        tp2 = os.path.join(od, "wear.calls.ndjson"); core.write_ndjson(tp2, rest)
        ok, tr = core.validate_trace("StreamTrace", "StreamTrace.cfg", tp2, tag="c15s", timeout=1800)
        ck.model("StreamTrace(wear batch %d)" % (bi // per_batch), tr, {"lines": len(rest)})
        for e in rest:
            if e["e"] in ("oneshot", "layout", "dcall") and e["e"] != "dcall":
                ck.case(key=(e["e"], e.get("ok"), e.get("match"), bi))
        if not ok:
            ok2, tr2 = core.validate_trace("StreamTrace", "StreamTrace.cfg", tp2, tag="c15s", timeout=1800)
            if not ok2:
                m = re.search(r"TRACE-REJECT matched[^\d]*(\d+)", tr2.out.replace("\n", " "))
                pos = int(m.group(1)) if m else 0
                bad = rest[pos] if pos < len(rest) else {}
                idx = max(0, len([e for e in rest[:pos + 1] if e.get("e") == "cnew"]) - 1)
                s = batch[min(idx, len(batch) - 1)]
                rp = ck.replay_path("wear-%d.script" % bi, "\n".join(s) + "\n")
                ck.violation("stream through a context with rebased indices does not round-trip: %s (scenario: %s)" % (json.dumps(bad)[:300], " ; ".join(s[:10])), rp,
                             ident="rt|%s|%s" % (bad.get("e"), s[1]))
        else:
            ck.traces(1)
    ck.cov["window_updates"] = stats[0]; ck.cov["overflow_corrections"] = stats[1]; ck.cov["contiguous_overlaps"] = stats[2]; ck.cov["segment_switches"] = stats[3]
    if stats[1] == 0:
        ck.warn("no overflow correction was observed: the wear scenarios did not reach the rebasing code")
    # ---- reused == fresh on the frequent-correction build (DetTrace)
    exed = core.build_exe("detdrv_ocf", ["detdrv.c"], "ocfsan")
    for bi in range(2 if tier == "quick" else 20):
        probes = wear_probes(rng)
        L = []
        for pid, (cls, txt, meta) in enumerate(probes):
            L.append("PROBE %d %s" % (pid, txt))
            L.append("RUN %d 0 0 0 0 -1 H" % pid)
            lvl = meta["level"]
            big = 150000 if lvl >= 13 else 2500000
            hs = [["SAME", "SAME", "SAME"], ["F:%d:%d:mix:%d:32" % (lvl, big, rng.randint(1, 99)), "SAME"], ["F:%d:%d:text:%d:32" % (lvl, big, rng.randint(1, 99)), "F:%d:%d:longrep:%d:32" % (lvl, big, rng.randint(1, 99))],
                  ["PART:1:2", "A:%d:300000:150001" % lvl, "SAME", "PART:3:4"], ["F:%d:%d:mix:7:4" % (lvl, big), "F:%d:%d:mix:8:4" % (lvl, big), "F:%d:%d:mix:9:4" % (lvl, big)]]
            for h in hs:
                L.append("RUN %d 0 %d %d %d -1 H %s" % (pid, rng.choice([0, 3]), rng.choice([0, 5]), rng.choice([0, 0, 5000]), " ".join(h)))
        sp = os.path.join(od, "weardet.script"); tp = os.path.join(od, "weardet.ndjson")
        open(sp, "w").write("\n".join(L) + "\n")
        rc, out = core.sh([exed, sp, tp], timeout=3000, env={"ASAN_OPTIONS": "detect_leaks=0", "STREAMDRV_LB": "1"})
        evs = core.read_ndjson(tp) if os.path.exists(tp) else []
        if rc != 0:
            runs_seen = [e for e in evs if e["e"] == "run"]
            runlines = [l for l in L if l.startswith("RUN")]
            culprit = runlines[len(runs_seen)] if len(runs_seen) < len(runlines) else "?"
            san = re.search(r"(ERROR: AddressSanitizer: [\w-]+[^\n]*|runtime error: [^\n]*|Assertion[^\n]*)", out)
            why = san.group(1)[:220] if san else "driver died rc=%d" % rc
            pl = [l for l in L if culprit != "?" and l.startswith("PROBE %s " % culprit.split()[1])]
            rp = ck.replay_path("weardet-crash-%d.script" % bi, "\n".join(pl + [culprit]) + "\n")
            ck.violation("%s on: %s" % (why, culprit[:200]), rp, ident="detcrash|" + why[:60])
            continue
        for e in evs:
            if e["e"] == "run":
                ck.case(key=("fresh-eq", probes[e["probe"]][0], e["hist"].split(":")[0], e["nh"]))
        ok, tr = core.validate_trace("DetTrace", "DetTrace.cfg", tp, tag="c15d", timeout=900)
        ck.model("DetTrace(wear batch %d)" % bi, tr, {"lines": len(evs)})
        if not ok:
            ok2, tr2 = core.validate_trace("DetTrace", "DetTrace.cfg", tp, tag="c15d", timeout=900)
            if not ok2:
                m = re.search(r"TRACE-REJECT matched[^\d]*(\d+)", tr2.out.replace("\n", " "))
                pos = int(m.group(1)) if m else 0
                bad = evs[pos] if pos < len(evs) else {}
                pl = [l for l in L if l.startswith("PROBE %s " % bad.get("probe"))]
                rl = "RUN %s 0 %s %s %s -1 H %s" % (bad.get("probe"), bad.get("srcoff"), bad.get("dstoff"), bad.get("outcap"), bad.get("hist", ""))
                rp = ck.replay_path("weardet-%d.script" % bi, "\n".join(pl + ["RUN %s 0 0 0 0 -1 H" % bad.get("probe"), rl]) + "\n")
                ck.violation("a context with rebased indices does not behave as a fresh one: %s (history %s)" % ("output differs" if bad.get("ok") else bad.get("err"), bad.get("hist", "")[:200]), rp,
                             ident="freq|%s" % (probes[bad["probe"]][0] if isinstance(bad.get("probe"), int) else "?"))
        else:
            ck.traces(1)
    # ---- for real: more than 4 GiB through one context (pair). quick: one context reused for > 4 GiB of frames (about 15 s);
    # thorough: also single streams of 4.1-4.5 GiB
    if True:
        exw = core.build_exe("weardrv", ["weardrv.c"], "opt")
        cfgs = [(41, 1, 0, 0, 0, "frames")] + ([(45, 1, 20, 0, 0, ""), (41, 3, 22, 1, 0, ""), (41, 1, 21, 1, 2, ""), (42, -3, 17, 0, 0, ""), (41, 3, 0, 0, 0, "frames")] if tier != "quick" else [])
        for (gib10, lvl, wlog, ldm, w, mode) in cfgs:
            tp = os.path.join(od, "wear4g.ndjson")
            rc, out = core.sh([exw, str(gib10), str(lvl), str(wlog), str(ldm), str(w), tp] + ([mode] if mode else []), timeout=3000)
            evs = core.read_ndjson(tp) if os.path.exists(tp) else []
            if rc != 0 or not evs:
                rp = ck.replay_path("wear4g-%d-%d.txt" % (lvl, wlog), "weardrv %d %d %d %d %d\n%s" % (gib10, lvl, wlog, ldm, w, out[-500:]))
                ck.violation("weardrv died rc=%d on a %.1f GiB stream (level %d wlog %d ldm %d workers %d)" % (rc, gib10 / 10.0, lvl, wlog, ldm, w), rp, ident="wear4g-crash")
                continue
            ck.case(key=("wear4g", lvl, wlog, ldm, w))
            ok, tr = core.validate_trace("WinTrace", "WinTrace.cfg", tp, tag="c15g", timeout=300)
            ck.model("WinTrace(4GiB level %d wlog %d)" % (lvl, wlog), tr, {})
            if not ok:
                rp = ck.replay_path("wear4g-%d-%d.txt" % (lvl, wlog), "weardrv %d %d %d %d %d\n%s" % (gib10, lvl, wlog, ldm, w, json.dumps(evs)))
                ck.violation("a %.1f GiB stream does not round-trip: %s" % (gib10 / 10.0, evs[0].get("why")), rp, ident="wear4g|%s" % evs[0].get("why"))
            else:
                ck.traces(1)
    ck.assumptions += ["index rebasing is reached by building the library with ZSTD_WINDOW_OVERFLOW_CORRECT_FREQUENTLY=1 (the repository's own knob); the thorough tier also reaches it for real with > 4 GiB streams",
                       "window events are validated for single-threaded compression (events of one call are contiguous)"]
    return ck.finish(rule="one case per overflow correction / window update class / stream / fresh-equivalence run")


def replay(path):
    if path.endswith(".json"):
        print(open(path).read()[:3000]); return 1
    if "weardet" in path:
        exed = core.build_exe("detdrv_ocf", ["detdrv.c"], "ocfsan")
        od = os.path.join(core.OUT, PID); os.makedirs(od, exist_ok=True); tp = os.path.join(od, "replay.ndjson")
        rc, out = core.sh([exed, path, tp], timeout=900, env={"ASAN_OPTIONS": "detect_leaks=0"})
        ok, tr = core.validate_trace("DetTrace", "DetTrace.cfg", tp, tag="c15-replay", timeout=600)
        print("\n".join(core.trace_diag(tr))); return 0 if (ok and rc == 0) else 1
    if path.endswith(".txt"):
        print(open(path).read()[:2000]); return 1
    exe = core.build_exe("streamdrv_ocf", ["streamdrv.c"], "ocfsan")
    od = os.path.join(core.OUT, PID); os.makedirs(od, exist_ok=True); tp = os.path.join(od, "replay.ndjson")
    rc, out = core.sh([exe, path, tp], timeout=900, env={"ASAN_OPTIONS": "detect_leaks=0", "STREAMDRV_HOOKS": "win"})
    print("driver rc=%d" % rc); print(out[-1500:])
    ok, tr = core.validate_trace("WinTrace", "WinTrace.cfg", tp, tag="c15-replay", timeout=900)
    print("\n".join(core.trace_diag(tr)))
    return 0 if (rc == 0 and ok) else 1
