"""C08 — dictionary compression round-trips for every dictionary, mode and input.

  M  DictLife.tla: which dictionary is in force on each side under any history of load / refCDict / refPrefix / reset /
     compress / decode (TLC, all histories of 5 actions over 3 dictionaries): IDs truthful, wrong-ID never decoded silently.
  G  dictionaries from an abstract descriptor (harness/dictdrv.c gen): Huffman table shapes, zero-probability offset codes
     around the largest offset the dictionary can require, partial match/literal-length tables, table logs at the limits,
     repeat offsets at the boundaries, content sizes; plus raw content of any length, a trained dictionary, arbitrary bytes.
  V  both loaders' verdicts, every supply mode x attach preference x decode mode x level round trip, ID queries, wrong-ID
     refusal and DictLife histories are trace lines validated by TLC against DictTrace.tla (which EXTENDS DictLife).
"""
import os, re, json
from vlib import core

PID = "C08"
MC = ["usingDict", "cdictCopy", "cdictRef", "load", "loadRef", "refCDict", "refPrefix", "dds", "cdictRaw", "cdictFull", "loadRaw", "loadFull"]
MD = ["usingDict", "ddict", "load", "refDDict", "refPrefix", "multi", "rawDDict", "loadRaw"]
RAWC = ("refPrefix", "cdictRaw", "loadRaw")
RAWD = ("refPrefix", "rawDDict", "loadRaw")
GOLD = os.path.join(core.REPO, "tests", "golden-dictionaries", "http-dict-missing-symbols")


def highbit(x):
    return x.bit_length() - 1


def gen_descriptor(rng, did):
    cs = rng.choice([0, 1, 8, 300, 5000, 40000, 131072, 200000, 400000])
    ocm = min(31, highbit(cs + 131072))
    huf = rng.choice([0, 0, 1, 2, 3])
    ofzero = rng.choice([-1, -1, ocm, ocm - 1, ocm + 1, 0, 5, ocm, ocm])
    ofmax = rng.choice([31, 31, max(ocm, 10), min(31, ocm + 1), 28])
    if ofzero > ofmax:
        ofzero = ofmax
    mlmax = rng.choice([52, 52, 40, 20, 9])
    llmax = rng.choice([35, 35, 30, 16, 9])
    oflog = rng.choice([5, 6, 8]); mllog = rng.choice([6, 9]); lllog = rng.choice([6, 9])
    reps = rng.choice([(1, 4, 8), (1, 4, 8), (cs, cs, cs), (1, 1, 1), (cs + 1, 4, 8), (0, 4, 8), (8, 4, max(cs, 1))])
    valid_reps = all(1 <= r <= cs for r in reps)
    return "gen %d %d %d %d %d %d %d %d %d %d %d %d %d %d" % (did, cs, rng.randint(1, 9999), huf, ofzero, ofmax, mlmax, llmax, oflog, mllog, lllog, reps[0], reps[1], reps[2])


def gen_batch(rng, tier):
    L = []
    L.append("DICT 0 raw %d %d" % (rng.choice([1, 7, 8, 9, 100, 5000, 131072, 300000]), rng.randint(1, 999)))
    L.append("DICT 1 file %s" % GOLD)
    L.append("DICT 2 " + gen_descriptor(rng, 777))
    L.append("DICT 3 " + gen_descriptor(rng, 778))
    L.append("DICT 4 bytes %d %d %d" % (rng.choice([0, 1, 7, 8, 9, 50, 3000, 70000]), rng.randint(1, 999), rng.choice([0, 1, 1])))
    L.append("DICT 5 " + gen_descriptor(rng, 779))
    L.append("DICT 6 copy 1 %d" % rng.choice([5, 70000, 4000000000]))
    for s in range(7):
        L.append("LOADERS %d" % s)
    levels = [-3, 1, 2, 3, 4, 5, 6, 9, 12, 13] + ([16, 19] if tier != "quick" else [16])
    for _ in range(40 if tier == "quick" else 120):
        s = rng.choice([0, 1, 2, 2, 3, 3, 4, 5, 5])
        lvl = rng.choice(levels)
        n = rng.choice([0, 1, 700, 20000, 140000, 200000])
        if lvl >= 13:
            n = min(n, 60000)
        mc = rng.choice(MC); md = rng.choice(MD)
        # a prefix is raw content: for a formatted dictionary it must be used as a prefix on both sides or on neither
        # (the same holds for the explicit raw-content loaders)
        if s != 0 and (mc in RAWC) != (md in RAWD):
            md = rng.choice(RAWD) if mc in RAWC else rng.choice([m for m in MD if m not in RAWD])
        L.append("RT %d %s %d %s %d %s %d %d %d" % (s, mc, rng.choice([0, 1, 2, 3]), md, lvl,
                 rng.choice(["text", "mix", "records", "rand", "longrep", "zero"]), n, rng.randint(1, 9999), rng.choice([1, 1, 0])))
    for a, b in [(1, 2), (2, 3), (2, 0), (1, 0), (3, 5), (0, 1)]:
        L.append("WRONG %d %d %d" % (a, b, rng.choice([1, 3, 5])))
    for n, col in [(rng.choice([1, 2, 3, 5]), 1), (rng.choice([8, 15, 16, 17, 40]), rng.choice([0, 1])), (rng.choice([63, 64, 65, 200]), rng.choice([0, 1]))][:3 if tier != "quick" else 2]:
        L.append("MULTI 1 %d %d" % (n, col))
    # directed DictLife histories: a reset with parameters drops the multi-DDict set as well
    L.append("HIST dmulti dref:1 dref:6 dreset dmulti dref:%d cload:%d comp:1 dec" % (rng.choice([1, 6]), rng.choice([1, 6])))
    # ... and a frame may name any dictionary of the set, not only the most recently referenced one (single-call decoding included)
    a, b = rng.choice([(1, 6), (6, 1)])
    L.append("HIST dmulti dref:%d dref:%d dref:0 cload:%d comp:1 dec cload:%d comp:1 dec" % (a, b, a, b))
    # DictLife histories over slots {0 (raw), 1 (golden), 2/5 (generated)} — only accepted dictionaries are used (checked at replay)
    ops = ["cload", "cref", "cprefix", "creset", "comp", "dload", "dref", "dprefix", "dmulti", "dreset", "dec"]
    for _ in range(8 if tier == "quick" else 30):
        h = []
        # "compression parameters can no longer be changed after loading a dictionary" (zstd.h): the dictID flag is fixed per history
        idf = rng.choice([1, 1, 0])
        for _ in range(rng.randint(4, 14)):
            o = rng.choice(ops + ["comp", "dec", "dec"])
            if o in ("cload", "cref", "dload", "dref"):
                h.append("%s:%d" % (o, rng.choice([0, 1, 1, 6])))
            elif o in ("cprefix", "dprefix"):
                h.append("%s:0" % o)
            elif o == "comp":
                h.append("comp:%d" % idf)
            else:
                h.append(o)
        L.append("HIST " + " ".join(h))
    return L


def run(tier):
    ck = core.Check(PID, tier, "model_checking")
    od = ck.outdir
    r = core.run_tlc("DictLife", "DictLife.cfg", tag="c08-mc", timeout=900)
    ck.model("DictLife (3 dictionaries, histories of 5 actions)", r, {})
    if r.violated:
        ck.warn("DictLife.tla violates %s (design model)" % r.invariant_violated)
    exe = core.build_exe("dictdrv", ["dictdrv.c"], "san")
    nb = 14 if tier == "quick" else 160
    for bi in range(nb):
        lines = gen_batch(ck.rng, tier)
        sp = os.path.join(od, "d.script"); tp = os.path.join(od, "d.ndjson")
        open(sp, "w").write("\n".join(lines) + "\n")
        rc, out = core.sh([exe, sp, tp], timeout=900, env={"ASAN_OPTIONS": "detect_leaks=0:allocator_may_return_null=1", "STREAMDRV_LB": "1"})
        evs = core.read_ndjson(tp) if os.path.exists(tp) else []
        for e in evs:
            ck.case(key=(e["e"], e.get("dkind", e.get("kind")), e.get("mc"), e.get("md"), e.get("attach"), e.get("level"), e.get("cok"), e.get("dok"), e.get("op"), e.get("cdict"), min(e.get("n", 0), 3)))
        if rc != 0:
            # which script line was running: count events
            nd = len([e for e in evs if e["e"] in ("dict", "loaders", "rt", "wrong", "histend")])
            nonhist = [l for l in lines]
            done = 0; idx = 0
            for i, ln in enumerate(lines):
                if done >= nd:
                    idx = i; break
                done += 1
            culprit = lines[idx] if idx < len(lines) else lines[-1]
            dicts = [l for l in lines if l.startswith("DICT")]
            san = re.search(r"(ERROR: AddressSanitizer: [\w-]+[^\n]*|runtime error: [^\n]*)", out)
            why = san.group(1)[:220] if san else "driver died rc=%d %s" % (rc, (out.strip().splitlines() or [""])[-1][:160])
            sp1 = os.path.join(od, "d1.script"); open(sp1, "w").write("\n".join(dicts + [culprit]) + "\n")
            rc1, out1 = core.sh([exe, sp1, os.path.join(od, "d1.ndjson")], timeout=600, env={"ASAN_OPTIONS": "detect_leaks=0:allocator_may_return_null=1"})
            if rc1 != 0:
                loc = re.search(r"((?:zstd|huf|fse)_\w+\.[ch]:\d+)", out1)
                rp = ck.replay_path("dict-crash-%d.script" % bi, "\n".join(dicts + [culprit]) + "\n")
                ck.violation("%s on: %s" % (why, culprit[:200]), rp, ident="crash|%s" % (loc.group(1) if loc else why[:60]))
            else:
                ck.warn("driver failure not reproduced: " + culprit[:100])
            if evs and evs[-1]["e"] != "end":
                # close an interrupted history for the monitor
                evs = [e for e in evs]; evs.append({"e": "end"}); core.write_ndjson(tp, evs)
        if not evs:
            continue
        try:
            ok, tr = core.validate_trace("DictTrace", "DictTrace.cfg", tp, tag="c08", timeout=900)
        except core.InfraError as ex:
            ck.warn("DictTrace could not evaluate batch %d: %s" % (bi, str(ex)[-200:])); continue
        ck.model("DictTrace(batch %d)" % bi, tr, {"lines": len(evs)})
        cur = evs; guard = 0
        while not ok and guard < 12:
            guard += 1
            m = re.search(r"TRACE-REJECT matched[^\d]*(\d+)", tr.out.replace("\n", " "))
            pos = int(m.group(1)) if m else 0
            bad = cur[pos] if pos < len(cur) else {}
            dicts = [l for l in lines if l.startswith("DICT")]
            ident = "%s|%s|%s|%s" % (bad.get("e"), bad.get("dkind", bad.get("kind", "")), bad.get("mc", bad.get("op", "")), bad.get("md", ""))
            if bad.get("e") == "rt":
                ident = "rt|%s|mc=%s|md=%s|cok=%s|dok=%s" % (bad.get("dkind"), bad.get("mc"), bad.get("md"), bad.get("cok"), bad.get("dok"))
            ctx = []
            if bad.get("e") == "hist":
                k = pos
                while k > 0 and cur[k]["e"] != "histbegin":
                    k -= 1
                ctx = cur[k:pos]
            # the script line that produced the event (events of a kind are in script order)
            srcline = ""
            kindmap = {"rt": "RT", "wrong": "WRONG", "loaders": "LOADERS", "multiN": "MULTI"}
            if bad.get("e") in kindmap and bad in evs:
                k = len([e for e in evs[:evs.index(bad)] if e["e"] == bad["e"]])
                cand = [l for l in lines if l.startswith(kindmap[bad["e"]] + " ")]
                srcline = cand[k] if k < len(cand) else ""
            elif bad.get("e") == "hist" and bad in evs:
                k = len([e for e in evs[:evs.index(bad)] if e["e"] == "histbegin"]) - 1
                cand = [l for l in lines if l.startswith("HIST ")]
                srcline = cand[k] if 0 <= k < len(cand) else ""
            batch = ck.replay_path("dict-%d-%d.batch.script" % (bi, pos), "\n".join(lines) + "\n")      # the whole batch: reproduces the process state as well
            diag = [e for e in evs[max(0, evs.index(bad) - 1):evs.index(bad)] if e.get("e") == "rtdiag"] if bad in evs else []
            rp = ck.replay_path("dict-%d-%d.json" % (bi, pos), {"property": PID, "dictionaries": dicts, "script_line": srcline, "batch_script": batch, "diagnosis": diag, "history": ctx, "event": bad})
            ck.violation("DictTrace rejected %s (dictionaries: %s)" % (json.dumps(bad)[:300], " ; ".join(d[:90] for d in dicts)), rp, ident=ident)
            # skip this event (and, inside a history, the rest of the history)
            nxt = pos + 1
            if bad.get("e") == "hist":
                while nxt < len(cur) and cur[nxt]["e"] != "histend":
                    nxt += 1
                nxt += 1
            rest = [e for e in cur[:pos] if e["e"] in ("dict", "loaders")] + cur[nxt:]
            if not cur[nxt:]:
                break
            cur = rest
            core.write_ndjson(tp + ".rest", cur)
            ok, tr = core.validate_trace("DictTrace", "DictTrace.cfg", tp + ".rest", tag="c08", timeout=900)
        if ok:
            ck.traces(1)
        if bi < 2:
            ck.sample(lines[:8] + lines[12:16])
    # U: the same driver under MemorySanitizer: a result that depends on uninitialised memory (what the heap held before) is not a
    # function of dictionary, input and calls
    exem = core.build_exe("dictdrv_msan", ["dictdrv.c"], "msan")
    for bi in range(1 if tier == "quick" else 6):
        lines = gen_batch(ck.rng, tier)
        sp = os.path.join(od, "dm.script"); tp = os.path.join(od, "dm.ndjson")
        open(sp, "w").write("\n".join(lines) + "\n")
        rc, out = core.sh([exem, sp, tp], timeout=1800, env={"MSAN_OPTIONS": "halt_on_error=1"})
        nrt = len([1 for l in (open(tp).read().splitlines() if os.path.exists(tp) else []) if '"e":"rt"' in l])
        ck.cov["msan_round_trips"] = ck.cov.get("msan_round_trips", 0) + nrt
        if rc != 0 and "MemorySanitizer" in out:
            fr = re.findall(r"#\d+ 0x[0-9a-f]+ in (\w+) [^\n]*?((?:zstd|huf|fse|entropy)\w*\.[ch]:\d+)", out)
            rp = ck.replay_path("dict-msan-%d.script" % bi, "\n".join(lines) + "\n")
            ck.violation("use of uninitialised memory (MemorySanitizer) in %s — the outcome depends on what the heap held" % " <- ".join(f[0] for f in fr[:5]), rp, ident="msan|%s" % (fr[0][1] if fr else "?"))
        elif rc != 0:
            ck.warn("MSan driver run failed rc=%d: %s" % (rc, (out.strip().splitlines() or [""])[-1][:160]))
    ck.assumptions += ["generated dictionaries are serialised with the library's table writers (FSE_writeNCount, HUF_writeCTable); the loaders and every consumer of the loaded tables are what is checked",
                       "frames are produced with a checksum in histories, so decoding with a different ID-less dictionary is detected rather than silently wrong"]
    return ck.finish(rule="one case per driver event; distinct by (event, dictionary kind, supply mode, decode mode, attach preference, level, verdicts)")


def replay(path):
    d = json.load(open(path)) if path.endswith(".json") else None
    exe = core.build_exe("dictdrv", ["dictdrv.c"], "san")
    od = os.path.join(core.OUT, PID); os.makedirs(od, exist_ok=True)
    if d:
        print(json.dumps(d, indent=1)[:2500]); return 1
    tp = os.path.join(od, "replay.ndjson")
    rc, out = core.sh([exe, path, tp], timeout=600, env={"ASAN_OPTIONS": "detect_leaks=0"})
    print("driver rc=%d" % rc); print(out[-1500:])
    return 0 if rc == 0 else 1
