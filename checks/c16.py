"""C16 — parameter interface contract (bounds, read-back, stickiness, reset, stage rules).

  M  Params.tla: TLC checks Design => Contract exhaustively over a representative parameter of each shape x the
     boundary value grid x stages x resets (MCParams.cfg), and generates histories (-simulate, ParamsGen).
  G  the (parameter, value, stage, object) grid is enumerated from the specification's own table (ParamsExport).
  V  harness/paramdrv.c executes grid + histories + sticky-parameter frame sequences on the real library;
     every call is one ndjson line with the full read-back snapshot; ParamsTrace.tla evaluates the contract on it.
"""
import os, json, re
from vlib import core

PID = "C16"
DICT = os.path.join(core.REPO, "tests", "golden-dictionaries", "http-dict-missing-symbols")


def export_table(od):
    out = os.path.join(od, "table.json")
    core.run_tlc("ParamsExport", "ParamsExport.cfg", workers=1, env={"OUT": out}, tag="c16-export", timeout=120)
    return json.load(open(out))


def grid_script(tab, rng, tier):
    L = ["new"]
    cn = [r["name"] for r in tab["c"]]
    dn = [r["name"] for r in tab["d"]]
    G = tab["grids"]; DG = tab["dgrids"]
    # stage: init, CCtx + CCtxParams + bounds
    for n in cn:
        L.append("cbounds %s" % n)
        for v in sorted(G[n]):
            L.append("cset %s %d" % (n, v))
        L.append("creset 3")
        for v in sorted(G[n]):
            L.append("pset %s %d" % (n, v))
        L.append("preset")
    # random extra values between the bounds
    for n in cn:
        r = [x for x in tab["c"] if x["name"] == n][0]
        for _ in range(4 if tier == "quick" else 20):
            L.append("cset %s %d" % (n, rng.randint(max(r["lo"] - 3, -2**31), min(r["hi"] + 3, 2**31 - 1))))
        L.append("creset 3")
    # stage: mid-frame
    L += ["new", "cbegin"]
    for n in cn:
        for v in sorted(G[n]):
            L.append("cset %s %d" % (n, v))
    L += ["papply", "csetparams 0 3", "creset 2", "creset 1", "creset 3"]
    # stage: mid-frame with compressed data still pending (the output buffer was too small to take it)
    L += ["new", "cbeginp"]
    for n in cn:
        for v in sorted(G[n])[::2]:
            L.append("cset %s %d" % (n, v))
    L += ["papply", "creset 2", "creset 1", "creset 3"]
    # all-or-nothing batch setter: rejected calls change nothing, whatever frame parameters they carried
    for fl in (1, 2, 4, 7, 0):
        L += ["new", "cset checksumFlag %d" % (1 - (fl & 1)), "cset contentSizeFlag %d" % (1 - ((fl >> 1) & 1)), "csetparams 1 %d" % fl, "cframe 2000", "csetparams 0 %d" % fl, "cframe 2000"]
    # stage: after error
    L += ["new", "cfail"]
    for n in cn:
        for v in sorted(G[n])[::2]:
            L.append("cset %s %d" % (n, v))
    L += ["creset 1", "creset 2"]
    # after each reset kind, then sets again
    for k in (1, 2, 3):
        L += ["new", "cset checksumFlag 1", "cset windowLog 12", "cset compressionLevel 7", "creset %d" % k]
        for n in cn[::3]:
            for v in sorted(G[n])[::3]:
                L.append("cset %s %d" % (n, v))
    # params object applied in init stage
    L += ["new", "pset checksumFlag 1", "pset windowLog 11", "pset compressionLevel -3", "papply", "cframe 3000", "preset", "papply", "cframe 3000"]
    # decoder
    L += ["new"]
    for n in dn:
        L.append("dbounds %s" % n)
        for v in sorted(DG[n]):
            L.append("dset %s %d" % (n, v))
        L.append("dreset 3")
    L += ["new", "dbegin"]
    for n in dn:
        for v in sorted(DG[n]):
            L.append("dset %s %d" % (n, v))
    L += ["dreset 2", "dreset 1", "dset forceIgnoreChecksum 1", "dreset 2", "dbegin", "dreset 3"]
    L += ["new", "dfail"]
    for n in dn:
        for v in sorted(DG[n])[::2]:
            L.append("dset %s %d" % (n, v))
    L += ["dreset 1", "dreset 2", "dfail", "dreset 3", "dset windowLogMax 12", "dfail", "dreset 3"]
    return L


CHEAP = {"compressionLevel": [-5, -1, 1, 2, 3, 4, 5, 6], "windowLog": [0, 10, 11, 12, 14, 17, 20], "hashLog": [0, 6, 10, 14, 17],
         "chainLog": [0, 6, 10, 16], "searchLog": [0, 1, 3], "minMatch": [0, 3, 4, 5, 6, 7], "targetLength": [0, 16, 999],
         "strategy": [0, 1, 2, 3, 4, 5, 6, 7], "targetCBlockSize": [0, 1340, 4000], "enableLongDistanceMatching": [0, 1, 2],
         "contentSizeFlag": [0, 1], "checksumFlag": [0, 1], "dictIDFlag": [0, 1], "nbWorkers": [0, 0, 1, 2], "format": [0, 1],
         "literalCompressionMode": [0, 1, 2], "useBlockSplitter": [0, 1, 2], "useRowMatchFinder": [0, 1, 2], "maxBlockSize": [0, 1024, 4096, 131072],
         "forceMaxWindow": [0, 1], "overlapLog": [0, 3, 9], "jobSize": [0, 1048576]}


def sticky_script(rng, n_sets):
    L = []
    for _ in range(n_sets):
        L.append("new")
        names = rng.sample(sorted(CHEAP), rng.randint(2, 7))
        for n in names:
            L.append("cset %s %d" % (n, rng.choice(CHEAP[n])))
        usedict = rng.random() < 0.5
        if usedict:
            # zstd.h: "compression parameters can no longer be changed after loading a dictionary":
            # every parameter is chosen before the dictionary is loaded
            L.append("cset format 0")
            L.append("cset dictIDFlag %d" % rng.choice([0, 1, 1]))
            L.append("cload")
        for k in range(rng.randint(2, 3)):
            L.append("cframe %d" % rng.choice([0, 1, 300, 5000, 40000, 66000]))
        L.append("csimple %d %d" % (rng.choice([100, 5000]), rng.choice([1, 3, 5])))
        L.append("cframe %d" % rng.choice([700, 20000]))          # advanced parameters still in force after the simple API
        if rng.random() < 0.5:
            L += ["cbegin", "cend"]
        if usedict:
            L += ["cframe 2000", "dframe", "dload", "dframe", "dreset 1", "dframe",
                  "dreset %d" % rng.choice([2, 3]), "dframe"]
        L.append("cfail")
        L.append("creset 1")
        L.append("cframe 1500")
        L.append("creset %d" % rng.choice([2, 3]))
        L.append("cframe 1500")                                   # defaults again, dictionary dropped
    return L


def hist_to_script(h):
    L = ["new"]
    for a in h:
        k = a["a"]
        if k == "set":
            L.append("cset %s %d" % (a["q"], a["v"]))
        elif k == "begin":
            L.append("cbegin")
        elif k == "end":
            L.append("cend")
        elif k == "fail":
            L.append("cfail")
        elif k == "loadDict":
            L.append("cload")
        elif k == "reset":
            L.append("creset %d" % a["v"])
    return L


def run_script(exe, od, name, lines):
    sp = os.path.join(od, name + ".script")
    tp = os.path.join(od, name + ".ndjson")
    open(sp, "w").write("\n".join(lines) + "\n")
    rc, out = core.sh([exe, sp, tp, DICT], timeout=600, env={"ASAN_OPTIONS": "detect_leaks=0:allocator_may_return_null=1"})
    return rc, out, sp, tp


def run(tier):
    ck = core.Check(PID, tier, "model_checking")
    od = ck.outdir
    exe = core.build_exe("paramdrv", ["paramdrv.c"], "san")
    tab = export_table(od)

    # ---- M: exhaustive model check, Design => Contract
    r = core.run_tlc("ParamsModel", "MCParams.cfg", tag="c16-mc", timeout=900, deadlock=False)
    ck.model("Params (MCParams.cfg)", r, {"MaxOps": 3, "params": 8})
    if r.violated:
        ck.warn("Params.tla: the design layer violates the contract (%s) — specification inconsistency, not a code verdict" % r.invariant_violated)

    # ---- G: histories generated by TLC (model -> code)
    nsim = 150 if tier == "quick" else 1500
    g = core.run_tlc("ParamsGen", "ParamsGen.cfg", workers=4, simulate=nsim, depth=7, tag="c16-gen", timeout=600, seed=ck.seed, deadlock=False)
    hists = []
    for m in re.finditer(r'HIST (\[.*\])"?', g.out):
        try:
            h = json.loads(m.group(1).replace('\\"', '"'))
            if h not in hists:
                hists.append(h)
        except Exception:
            pass
    ck.cov["tlc_generated_histories"] = len(hists)

    scripts = [("grid", grid_script(tab, ck.rng, tier)), ("sticky", sticky_script(ck.rng, 25 if tier == "quick" else 300))]
    hl = []
    for h in hists:
        hl += hist_to_script(h)
    scripts.append(("histories", hl))

    total_events = 0
    for name, lines in scripts:
        if not lines:
            continue
        rc, out, sp, tp = run_script(exe, od, name, lines)
        if rc != 0:
            rp = ck.replay_path("%s.script" % name, "\n".join(lines) + "\n")
            ck.violation("paramdrv died (rc=%d) on script %s: %s" % (rc, name, out[-400:]), rp, ident="crash|" + name)
            continue
        evs = core.read_ndjson(tp)
        total_events += len(evs)
        for e in evs:
            if "q" in e:
                ck.case(key=(e["e"], e["q"], e.get("v"), e.get("ok")))
            else:
                ck.case(key=(e["e"], e.get("kind"), e.get("ok"), e.get("api")))
        ok, tr = core.validate_trace("ParamsTrace", "ParamsTrace.cfg", tp, tag="c16-" + name, timeout=1200)
        ck.model("ParamsTrace(%s)" % name, tr, {"lines": len(evs)})
        # report every rejection in the script: cut the trace after the offending line's predecessor and continue
        guard = 0
        while not ok and guard < 25:
            guard += 1
            m = re.search(r"TRACE-REJECT matched[^\d]*(\d+)", tr.out.replace("\n", " "))
            pos = int(m.group(1)) if m else 0
            bad = evs[pos] if pos < len(evs) else {}
            small = {k: v for k, v in bad.items() if k not in ("snap", "dsnap")}
            if "q" in bad and "snap" in bad:
                small["readback"] = bad["snap"].get(bad["q"])
            ident = "%s|%s|%s|%s" % (bad.get("e"), bad.get("q", bad.get("kind", bad.get("api", ""))), bad.get("v", ""), name if bad.get("e") in ("cframe", "cend", "dframe") else "")
            # context: the script lines leading to it (from the last 'new')
            start = pos
            while start > 0 and evs[start].get("e") != "new":
                start -= 1
            ctx_lines = lines[start:pos + 1] if name != "histories" else lines[start:pos + 1]
            rp = ck.replay_path("%s-%d.json" % (name, pos), {"property": PID, "script": lines[start:pos + 1], "event": small})
            ck.violation("contract rejected event #%d of %s: %s" % (pos, name, json.dumps(small)[:300]), rp, ident=ident)
            # continue after the bad line: re-base the monitor by starting from the next 'new'
            nxt = pos + 1
            while nxt < len(evs) and evs[nxt].get("e") != "new":
                nxt += 1
            if nxt >= len(evs):
                break
            evs = evs[nxt:]
            lines = lines[nxt:] if len(lines) >= nxt else lines
            tp2 = os.path.join(od, name + ".rest.ndjson")
            core.write_ndjson(tp2, evs)
            ok, tr = core.validate_trace("ParamsTrace", "ParamsTrace.cfg", tp2, tag="c16-" + name, timeout=1200)
        if ok:
            ck.traces(1)
        for e in evs[1:4]:
            ck.sample({k: v for k, v in e.items() if k not in ("snap", "dsnap")})
    ck.cov["events_validated"] = total_events
    ck.assumptions += ["bounds oracle = constants documented in lib/zstd.h (64-bit build), typed into spec/Params.tla",
                       "frames are produced only under cheap parameter sets (windowLog<=20, hashLog<=17); extreme values are set and read back but not compressed with",
                       "grid script lines map 1:1 to trace events; script line index = event index"]
    return ck.finish(rule="one case per API call; distinct = distinct (event kind, parameter, value, verdict) tuples", exhaustive=False)


def replay(path):
    d = json.load(open(path)) if path.endswith(".json") else {"script": open(path).read().split("\n")}
    exe = core.build_exe("paramdrv", ["paramdrv.c"], "san")
    od = os.path.join(core.OUT, PID); os.makedirs(od, exist_ok=True)
    lines = d["script"]
    if not lines or lines[0] != "new":
        lines = ["new"] + lines
    rc, out, sp, tp = run_script(exe, od, "replay", lines)
    ok, tr = core.validate_trace("ParamsTrace", "ParamsTrace.cfg", tp, tag="c16-replay")
    print("replay: driver rc=%d, contract %s" % (rc, "accepted" if ok else "REJECTED"))
    print("\n".join(core.trace_diag(tr)))
    return 0 if (ok and rc == 0) else 1
