"""C02 — streaming round trip under any call history and buffer segmentation."""
import os
from vlib import core
from checks import streamcommon as sc

PID = "C02"


def gen_split_header(rng):
    """a frame header that arrives in two calls (1..5 bytes, then the rest) while the output buffer could hold the whole content:
    the decoder must not take the single-pass shortcut from the middle of the header; both formats, also following the hints"""
    L = ["CNEW", "P %d %d" % (sc.P_LEVEL, rng.choice([1, 3, 6]))]
    magicless = rng.random() < 0.7
    if magicless:
        L += ["P %d 1" % sc.P_FORMAT, "DP %d 1" % sc.D_FORMAT]
    if rng.random() < 0.5:
        L.append("P %d %d" % (sc.P_WLOG, rng.choice([10, 12, 17])))
    if rng.random() < 0.3:
        L.append("P %d 1" % sc.P_CSUM)
    size = rng.choice([1, 300, 1025, 3000, 70000])
    L.append("SRC %s %d %d" % (rng.choice(sc.KINDS), size, rng.randint(1, 9999)))
    L.append("C 2 %d %d *" % (size, 1 << 20))            # one call: the content size is known and written
    if rng.random() < 0.5:
        L.append("SRC %s %d %d" % (rng.choice(sc.KINDS), 1500, rng.randint(1, 9999))); L.append("C 2 1500 1048576 *")
    L += ["PREFIX end", "LAYOUT"]
    for first in rng.sample([1, 2, 3, 4, 5, 6], 3):
        L += ["DNEW"] + (["DP %d 1" % sc.D_FORMAT] if magicless else []) + ["D %d 1048576" % first, "D 1048576 1048576 *"]
    L += ["DNEW"] + (["DP %d 1" % sc.D_FORMAT] if magicless else []) + ["DHINT 1048576", "DHINT 1048576", "DONE"]
    return L


def run(tier):
    ck = core.Check(PID, tier, "model_checking")
    exe = sc.build()
    # M: the design model of the two stream machines (spec/Stream.tla), every segmentation of a small frame
    for cfg in ['Stream_quick', 'Stream_quickE'] + (['Stream'] if tier != "quick" else []):
        r = core.run_tlc("Stream", cfg + ".cfg", tag="c02-" + cfg, timeout=2400, jvm="-Xmx16g")
        ck.model("Stream(" + cfg + ")", r, {"cfg": cfg})
        if r.violated:
            ck.warn("Stream.tla (%s): %s violated in the design model — specification-level finding, examined before any code verdict" % (cfg, r.invariant_violated))
    n = 300 if tier == "quick" else 3000
    scen = [sc.gen_history(ck.rng, tier, "c02") for _ in range(n)]
    scen += [gen_split_header(ck.rng) for _ in range(24 if tier == "quick" else 300)]
    # directed: multi-threaded long-distance matching on empty inputs / empty last pieces
    for w in (1, 2):
        scen.append(["CNEW", "P %d %d" % (sc.P_WORKERS, w), "P %d 1" % sc.P_JOB, "P %d 1" % sc.P_LDM, "P %d %d" % (sc.P_WLOG, ck.rng.choice([12, 20])), "SRC text 0 1", "C 1 0 64 *", "PREFIX flush",
                     "SRC mix 0 2", "C 2 0 1000 *", "PREFIX end", "SRC text 600000 3", "C 1 600000 1048576 *", "SRC text 0 4", "C 2 0 1048576 *", "PREFIX end", "LAYOUT", "DNEW", "D 1048576 1048576 *", "DONE"])
    sc.validate_and_report(ck, exe, "c02", scen)
    for s in scen[:3]:
        ck.sample(s[:30])
    ck.assumptions += ["call histories follow the documented client rules (after ZSTD_e_end only ZSTD_e_end without new input)",
                       "content equality is byte comparison inside harness/streamdrv.c; frame boundaries come from its independent frame walker"]
    return ck.finish(rule="one case per streaming call / observation; distinct = distinct (call kind, directive, size classes, verdict) tuples")


def replay(path):
    return sc.replay_script(path)
