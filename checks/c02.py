"""C02 — streaming round trip under any call history and buffer segmentation."""
import os
from vlib import core
from checks import streamcommon as sc

PID = "C02"


def run(tier):
    ck = core.Check(PID, tier, "model_checking")
    exe = sc.build()
    # M: the design model of the two stream machines (spec/Stream.tla), every segmentation of a small frame
    for cfg in ['Stream_quick', 'Stream_quickE'] + (['Stream'] if tier != "quick" else []):
        r = core.run_tlc("Stream", cfg + ".cfg", tag="c02-" + cfg, timeout=2400, jvm="-Xmx16g")
        ck.model("Stream(" + cfg + ")", r, {"cfg": cfg})
        if r.violated:
            ck.warn("Stream.tla (%s): %s violated in the design model — specification-level finding, examined before any code verdict" % (cfg, r.invariant_violated))
    n = 300 if tier == "quick" else 3000
    scen = [sc.gen_history(ck.rng, tier, "c02") for _ in range(n)]
    sc.validate_and_report(ck, exe, "c02", scen)
    for s in scen[:3]:
        ck.sample(s[:30])
    ck.assumptions += ["call histories follow the documented client rules (after ZSTD_e_end only ZSTD_e_end without new input)",
                       "content equality is byte comparison inside harness/streamdrv.c; frame boundaries come from its independent frame walker"]
    return ck.finish(rule="one case per streaming call / observation; distinct = distinct (call kind, directive, size classes, verdict) tuples")


def replay(path):
    return sc.replay_script(path)
