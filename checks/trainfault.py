"""Allocation failures inside the dictionary trainers (C13, C18).

The trainers allocate with malloc/calloc directly, so the custom-allocator arena of harness/allocdrv.c never sees them.
harness/traindrv.c built with -DTRAINDRV_FAULT and -Wl,--wrap=malloc,--wrap=calloc makes the n-th allocation inside one
training call return NULL.  n is enumerated (1..allocations of the healthy call, or a sample of them); every call must come
back (error, or a dictionary that TrainTrace accepts), with every optimiser job accounted for before its context goes
(TrainTrace: CtxDestroy only with live = 0), no sanitizer report and no leak.
"""
import os, re, json
from vlib import core

LD = "-Wl,--wrap=malloc,--wrap=calloc"
LEAKS = [True]

CATALOGUE = [  # (name, TRAIN line, multi-threaded?)
    ("cover", "TRAIN cover 4096 200 8 0 0 0 100 0 0 3", False),
    ("fastcover", "TRAIN fastcover 4096 200 8 12 1 0 100 0 0 3", False),
    ("default", "TRAIN default 4096 0 0 0 0 0 100 0 0 3", False),
    ("legacy", "TRAIN legacy 4096 9 0 0 0 0 100 0 0 3", False),
    ("finalize", "TRAIN finalize 4096 0 0 0 0 0 100 0 0 3", False),
    ("addentropy", "TRAIN addentropy 4096 0 0 0 0 0 100 0 0 3", False),
    ("optcover-1t", "TRAIN optcover 4096 0 0 0 0 3 100 0 0 3", False),
    ("optfast-1t", "TRAIN optfast 4096 0 0 12 1 3 75 1 1 3", False),
    ("optcover-mt", "TRAIN optcover 4096 0 0 0 0 4 75 0 3 3", True),
    ("optfast-mt", "TRAIN optfast 4096 0 0 12 1 4 75 1 4 3", True),
]


def build():
    return core.build_exe("traindrv_fault", ["traindrv.c"], "sanq", extra_cflags="-DTRAINDRV_FAULT", extra_ldflags=LD)


def _run(exe, od, lines, name):
    sp = os.path.join(od, "fault-%s.script" % name); tp = os.path.join(od, "fault-%s.ndjson" % name)
    open(sp, "w").write("\n".join(lines) + "\n")
    env = {"ASAN_OPTIONS": "detect_leaks=%d:allocator_may_return_null=1" % (1 if LEAKS[0] else 0), "TRAINDRV_HOOKS": "1"}
    rc, out = core.sh([exe, sp, tp], timeout=1800, env=env)
    if LEAKS[0] and ("LeakSanitizer has encountered a fatal error" in out or "does not work under ptrace" in out):
        LEAKS[0] = False        # the leak checker cannot run here (tracing restrictions): an infrastructure limit, not a finding
        core.log("[trainfault] LeakSanitizer cannot run in this environment; continuing without leak detection")
        return _run(exe, od, lines, name)
    evs = core.read_ndjson(tp) if os.path.exists(tp) else []
    return rc, out, evs, tp, env


def sweep(ck, pid, tier, names=None, sample=None):
    """returns the number of fault positions run"""
    exe = build()
    od = ck.outdir
    total = 0
    for name, line, mt in CATALOGUE:
        if names and name not in names:
            continue
        samples = "SAMPLES text 60 100 800 %d" % (5 + ck.seed % 50)
        rc, out, evs, tp, env = _run(exe, od, [samples, "FAILAT 0", line], name + "-count")
        cnt = [e for e in evs if e["e"] == "fault"]
        if rc != 0 or not cnt:
            ck.warn("fault sweep %s: the healthy call did not complete (rc=%d)" % (name, rc)); continue
        allocs = cnt[0]["allocs"] + (12 if mt else 0)       # (thread interleaving moves the count a little)
        ns = list(range(1, allocs + 1))
        if sample and len(ns) > sample:
            ns = sorted(set(ns[:12] + ck.rng.sample(ns, sample - 12)))
        pending = ns
        while pending:
            L = [samples]
            for n in pending:
                L += ["FAILAT %d" % n, line]
            rc, out, evs, tp, env = _run(exe, od, L, name)
            faults = [e for e in evs if e["e"] == "fault"]
            for e in faults:
                ck.case(key=("train-fault", name, e["failAt"], bool(e["failed"]), e["isErr"]))
            total += len(faults)
            leak = "LeakSanitizer" in out
            if rc != 0:
                n = pending[len(faults)] if len(faults) < len(pending) else pending[-1]
                san = re.search(r"(ERROR: AddressSanitizer: [\w-]+[^\n]*|ERROR: LeakSanitizer[^\n]*|runtime error: [^\n]*)", out)
                why = "the call did not return within the time limit" if rc == 124 else (san.group(1)[:200] if san else "driver died rc=%d" % rc)
                fr = re.findall(r"#\d+ 0x[0-9a-f]+ in (\w+) [^\n]*?((?:cover|fastcover|zdict|divsufsort|pool|threading|zstd|huf|fse)\w*\.[ch]:\d+)", out)
                if leak and len(faults) >= len(pending):
                    # leaks are reported at exit, for the whole script: find the first n that leaks on its own
                    n = None
                    for cand in pending:
                        rc1, out1, _, _, _ = _run(exe, od, [samples, "FAILAT %d" % cand, line], name + "-one")
                        if rc1 != 0:
                            n = cand; out = out1; fr = re.findall(r"#\d+ 0x[0-9a-f]+ in (\w+) [^\n]*?((?:cover|fastcover|zdict|divsufsort|pool|threading|zstd|huf|fse)\w*\.[ch]:\d+)", out1); break
                    if n is None:
                        ck.warn("fault sweep %s: leak report of the whole script not reproduced by any single fault" % name); break
                    pending = [x for x in pending if x > n]
                else:
                    pending = pending[len(faults) + 1:] if len(faults) < len(pending) else []
                script = [samples, "FAILAT %d" % n, line]
                rc2, out2, _, _, _ = _run(exe, od, script, name + "-re")
                if rc2 != 0 or not mt:
                    rp = ck.replay_path("train-fault-%s-%d.script" % (name, n), "\n".join(script) + "\n# build: traindrv.c -DTRAINDRV_FAULT %s\n" % LD)
                    site = fr[0][1] if fr else why[:60]
                    ck.violation("dictionary training (%s), %d-th allocation of the call failing: %s (in %s)" % (name, n, why, " <- ".join(f[0] for f in fr[:4])), rp,
                                 ident="train-fault|%s|%s" % (name.split("-")[0], site))
                else:
                    ck.warn("fault sweep %s n=%d: failure not reproduced on re-run (schedule dependent): %s" % (name, n, why[:120]))
                continue
            ok, tr = core.validate_trace("TrainTrace", "TrainTrace.cfg", tp, tag="%s-fault" % pid.lower(), timeout=1200)
            ck.model("TrainTrace(fault sweep %s)" % name, tr, {"lines": len(evs), "faults": len(faults)})
            if ok:
                ck.traces(len(faults)); break
            m = re.search(r"TRACE-REJECT matched[^\d]*(\d+)", tr.out.replace("\n", " "))
            pos = int(m.group(1)) if m else 0
            bad = evs[pos] if pos < len(evs) else {}
            done = len([e for e in evs[:pos + 1] if e["e"] == "fault"])
            n = pending[min(done, len(pending) - 1)]
            script = [samples, "FAILAT %d" % n, line]
            rp = ck.replay_path("train-fault-%s-%d.script" % (name, n), "\n".join(script) + "\n# build: traindrv.c -DTRAINDRV_FAULT %s\n" % LD)
            ck.violation("dictionary training (%s), %d-th allocation failing: TrainTrace rejected %s" % (name, n, json.dumps(bad)[:240]), rp,
                         ident="train-fault|%s|trace|%s" % (name.split("-")[0], bad.get("e")))
            pending = [x for x in pending if x > n]
    ck.cov["train_fault_positions"] = ck.cov.get("train_fault_positions", 0) + total
    ck.cov["train_fault_leak_detection"] = bool(LEAKS[0])
    if not LEAKS[0]:
        ck.warn("trainer fault sweep ran without leak detection (LeakSanitizer unavailable in this environment)")
    return total


def replay(path):
    exe = build()
    od = os.path.join(core.OUT, "trainfault"); os.makedirs(od, exist_ok=True)
    tp = os.path.join(od, "replay.ndjson")
    rc, out = core.sh([exe, path, tp], timeout=900, env={"ASAN_OPTIONS": "detect_leaks=1:allocator_may_return_null=1", "TRAINDRV_HOOKS": "1"})
    if rc != 0:
        print(out[-1500:]); return 1
    ok, tr = core.validate_trace("TrainTrace", "TrainTrace.cfg", tp, tag="trainfault-replay")
    print("TrainTrace %s" % ("accepted" if ok else "REJECTED")); print("\n".join(core.trace_diag(tr))[:1500])
    return 0 if ok else 1
