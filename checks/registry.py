"""Registry of the property checks: the single source from which bin/mkmanifest writes MANIFEST.json."""
HOOK_COMMITS = []
NOTES = ("Model-based verification with explicit TLA+ specifications (spec/*.tla) checked by TLC and bound to the code by "
         "conformance: traces recorded from the real code are validated by TLC against trace specifications, and TLC "
         "counterexamples / behaviours are replayed on the real code. See DESIGN.md. known_findings.json lists repaired "
         "and recorded defects of the pinned tree.")
ENGINES = [
    {"name": "tlc", "path": "/opt/veriftools/tla/tla2tools.jar", "serves_properties": [], "kind_free_text": "TLC 1.8 explicit-state model checker: exhaustive runs of spec/*.tla, trace validation (Json/IOUtils), behaviour generation"},
    {"name": "vsched", "path": "harness/vsched.c", "serves_properties": ["C11", "C12", "C18"], "kind_free_text": "deterministic scheduler interposed on pthread_* at link time: records, replays and systematically explores schedules of the real code"},
]
NOT_APPLICABLE = {}
CHECKS = {
 "C12": {
  "level": "model_checking",
  "technique": "TLA+ spec of pool.c at pthread-operation grain, TLC exhaustive over client grammar x all schedules; skeleton inferred by TLC from real traces; trace validation + counterexample replay on the real code under a deterministic scheduler",
  "text": "Pool.tla is checked exhaustively by TLC (all interleavings, adversarial choice of the waiter a cond_signal wakes) for every client program of the grammar (threads 1..3, queue 0..2, <=3-4 operations + free, jobs that post) against exactly-once, tryAdd honesty, joinJobs/free postconditions and deadlock freedom. The model is bound to the code: the wake-up primitive at each site is inferred by TLC from executions of the real pool.c recorded under harness/vsched.c, every recorded execution (non-preemptive, seeded random, bounded systematic exploration) is validated line by line against Pool.tla and against the caller-level contract PoolContract.tla, and a TLC counterexample is reported only after its schedule reproduces the failure on the real code.",
  "note": "Trusted: TLC, vsched's serialisation (one step per pthread operation; no spurious wake-ups; data races between sync points not explored here), ASan/UBSan for memory errors on explored schedules. Bounded: configurations and schedule budgets are listed in the evidence; exhaustiveness is per configuration within Pool.tla, not for unbounded client programs.",
 },
 "C16": {
  "level": "model_checking",
  "technique": "TLA+ contract + design spec of the parameter interface (bounds table typed from zstd.h), TLC exhaustive Design=>Contract, TLC-generated histories replayed on the library, every API call monitored by a TLC trace specification",
  "text": "Params.tla states the contract of set/get/bounds/reset/stage rules over a bounds table written from the documentation constants of zstd.h; ParamsModel.tla is checked exhaustively (8 representative parameters x 10 boundary values x stages x resets, histories of 3 calls). The code is bound to it by executing the complete (parameter x boundary value x stage x object) grid for all 38 compression and 7 decompression parameters on CCtx, CCtx_params and DCtx, TLC-generated histories, and sticky-parameter frame sequences (headers parsed by an independent reader), each call logged with the full read-back snapshot and validated step by step by TLC against ParamsTrace.tla.",
  "note": "Trusted: TLC; the bounds table in Params.tla (64-bit constants of lib/zstd.h); harness/paramdrv.c's independent frame-header reader. Frames are produced only under cheap parameter sets; extreme values are set/read back but not compressed with. Client rule honoured: no parameter change after a dictionary was loaded (zstd.h).",
 },
}
