"""Registry of the property checks: the single source from which bin/mkmanifest writes MANIFEST.json."""
HOOK_COMMITS = []
NOTES = ("Model-based verification with explicit TLA+ specifications (spec/*.tla) checked by TLC and bound to the code by "
         "conformance: traces recorded from the real code are validated by TLC against trace specifications, and TLC "
         "counterexamples / behaviours are replayed on the real code. See DESIGN.md. known_findings.json lists repaired "
         "and recorded defects of the pinned tree.")
ENGINES = [
    {"name": "tlc", "path": "/opt/veriftools/tla/tla2tools.jar", "serves_properties": [], "kind_free_text": "TLC 1.8 explicit-state model checker: exhaustive runs of spec/*.tla, trace validation (Json/IOUtils), behaviour generation"},
    {"name": "vsched", "path": "harness/vsched.c", "serves_properties": ["C11", "C12", "C18"], "kind_free_text": "deterministic scheduler interposed on pthread_* at link time: records, replays and systematically explores schedules of the real code"},
]
NOT_APPLICABLE = {}
CHECKS = {
 "C12": {
  "level": "model_checking",
  "technique": "TLA+ spec of pool.c at pthread-operation grain, TLC exhaustive over client grammar x all schedules; skeleton inferred by TLC from real traces; trace validation + counterexample replay on the real code under a deterministic scheduler",
  "text": "Pool.tla is checked exhaustively by TLC (all interleavings, adversarial choice of the waiter a cond_signal wakes) for every client program of the grammar (threads 1..3, queue 0..2, <=3-4 operations + free, jobs that post) against exactly-once, tryAdd honesty, joinJobs/free postconditions and deadlock freedom. The model is bound to the code: the wake-up primitive at each site is inferred by TLC from executions of the real pool.c recorded under harness/vsched.c, every recorded execution (non-preemptive, seeded random, bounded systematic exploration) is validated line by line against Pool.tla and against the caller-level contract PoolContract.tla, and a TLC counterexample is reported only after its schedule reproduces the failure on the real code.",
  "note": "Trusted: TLC, vsched's serialisation (one step per pthread operation; no spurious wake-ups; data races between sync points not explored here), ASan/UBSan for memory errors on explored schedules. Bounded: configurations and schedule budgets are listed in the evidence; exhaustiveness is per configuration within Pool.tla, not for unbounded client programs.",
 },
 "C16": {
  "level": "model_checking",
  "technique": "TLA+ contract + design spec of the parameter interface (bounds table typed from zstd.h), TLC exhaustive Design=>Contract, TLC-generated histories replayed on the library, every API call monitored by a TLC trace specification",
  "text": "Params.tla states the contract of set/get/bounds/reset/stage rules over a bounds table written from the documentation constants of zstd.h; ParamsModel.tla is checked exhaustively (8 representative parameters x 10 boundary values x stages x resets, histories of 3 calls). The code is bound to it by executing the complete (parameter x boundary value x stage x object) grid for all 38 compression and 7 decompression parameters on CCtx, CCtx_params and DCtx, TLC-generated histories, and sticky-parameter frame sequences (headers parsed by an independent reader), each call logged with the full read-back snapshot and validated step by step by TLC against ParamsTrace.tla.",
  "note": "Trusted: TLC; the bounds table in Params.tla (64-bit constants of lib/zstd.h); harness/paramdrv.c's independent frame-header reader. Frames are produced only under cheap parameter sets; extreme values are set/read back but not compressed with. Client rule honoured: no parameter change after a dictionary was loaded (zstd.h).",
 },
 "C02": {
  "level": "model_checking",
  "technique": "TLA+ design model of the compression/decompression stream machines (Stream.tla) checked exhaustively by TLC for every segmentation; every real streaming call recorded and validated by TLC against the contract specification StreamTrace.tla",
  "text": "Stream.tla models ZSTD_compressStream_generic and ZSTD_decompressStream (load/compress/flush, read/decode/flush, hostage byte) on byte counts; TLC explores every interleaving of caller slice sizes, output capacities and directives for small frames and checks decoder soundness, exact completion, flush decodability and progress. The code is bound by call histories (seeded random over the boundary sizes of the block/window/header, all three directives, legacy and ZBUFF entry points, moving input buffers, several frames and skippable frames, ST and MT): each ZSTD_compressStream2 / ZSTD_decompressStream call is one trace line (offered sizes, pos deltas, return value) and TLC evaluates the contract on every line: bytes match, completion reported exactly at frame ends with output flushed, nothing regenerated from unread bytes, emitted stream = complete frames.",
  "note": "Trusted: TLC; harness/streamdrv.c (byte comparison, independent frame/block-header walker); ASan/UBSan on explored histories. Histories follow the documented client rules. Bit-level entropy fidelity is observed (round trip), not modelled. Sizes: sources up to 200 KB (quick) / 2.5 MB (MT, thorough), buffers down to 1 byte.",
 },
 "C09": {
  "level": "model_checking",
  "technique": "Stream.tla invariants NeverDoneOnPrefix/DoneExact by TLC; every cut point / checksum bit / pledge scenario executed on the library and validated by TLC against StreamTrace.tla",
  "text": "Model: in Stream.tla the decoder reports completion only at the end of the frame with output flushed, for every cut of the compressed stream between calls. Code: for frames produced under random parameters and histories, every proper prefix (all k for streams <= 600/3000 bytes, section boundaries +-1 otherwise) is decoded single-call and streaming; every bit of the stored checksum is flipped (also after validation was disabled and re-enabled by each parameter-reset kind); trailing garbage; pledged-size scenarios (exact / fewer / more bytes, with and without content size in the header, ST and MT). Each observation is a trace line validated by TLC: cut => error and never 0; flipped checksum => error; pledge mismatch => error by end of frame.",
  "note": "Trusted: TLC; harness/streamdrv.c (byte comparison, independent frame/block-header walker); ASan/UBSan on explored histories. Histories follow the documented client rules. Bit-level entropy fidelity is observed (round trip), not modelled. Sizes: sources up to 200 KB (quick) / 2.5 MB (MT, thorough), buffers down to 1 byte.",
 },
 "C10": {
  "level": "model_checking",
  "technique": "Stream.tla progress invariants + liveness under fair callers by TLC; per-call progress, flush decodability and hint discipline validated by TLC on recorded histories (ST and MT)",
  "text": "Model: CProgress/DProgress/FlushDecodable hold in every state of Stream.tla and (thorough) every finite stream finishes under strongly fair callers. Code: every recorded call is checked for progress; at every flush that reported completion an independent decoder run to quiescence must regenerate exactly the bytes consumed; a hint-following decode must consume exactly each frame and never ask beyond it; MT + LDM histories with flushed pieces straddling the job size make the round buffer wrap; a call that does not return within 60 s is a blocked call (re-run to confirm).",
  "note": "Trusted: TLC; harness/streamdrv.c (byte comparison, independent frame/block-header walker); ASan/UBSan on explored histories. Histories follow the documented client rules. Bit-level entropy fidelity is observed (round trip), not modelled. Sizes: sources up to 200 KB (quick) / 2.5 MB (MT, thorough), buffers down to 1 byte.",
 },
 "C19": {
  "level": "model_checking",
  "technique": "TLA+ model of the CLI's file-system protocol with a Crash step after every step (Cli.tla, TLC, all flag combinations); strace system-call traces of the real CLI validated by TLC against CliTrace.tla after every system call; real kills at every k-th system call by fault injection",
  "text": "Cli.tla gives the order of open/unlink/create/write/close/remove steps of one (source, destination) pair and TLC checks DataSafe, NoClobber, CleanFail and Verdict in every state including every crash point, for all flag combinations; the wrong order (remove source before closing destination) is shown to violate DataSafe. The real CLI built from the tree runs under strace for the invocation grammar (compress/decompress/test x --rm x -f x file/-o/-c x 1-2 inputs x pre-existing destination x corrupt, truncated, trailing-garbage and junk inputs x -T/--long/--sparse/--no-sparse); its system calls on the user's files are trace lines on which TLC evaluates the contract after each call (= at each kill point; only bytes seen in write calls are credited). Selected --rm runs are really killed before each k-th system call and the directory is inspected with a library-level oracle. Sparse and non-sparse (and -f over an existing file) decoding of zero-run layouts around the 32 KiB / 8-byte boundaries must give identical bytes; exit status must equal the library's verdict.",
  "note": "Trusted: TLC, strace (tracing and SIGKILL injection at syscall entry), harness/zfile.c as library-level oracle. Not covered: gzip/xz/lz4 formats, interactive prompts, --output-dir-* naming, signals other than SIGKILL, power loss (no fsync reasoning).",
 },
}
