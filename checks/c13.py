"""C13 — allocation failure anywhere: clean error, no crash, no leak, context reusable.

  M  AllocLife.tla: the constructor/unwind pattern with a failing allocation at any position: contract holds iff the caller's
     allocator is recorded before the first sub-allocation and the zero-filling helper checks for NULL (TLC, 3 variants).
  F  harness/allocdrv.c: scenario catalogue (contexts, dictionaries by copy/ref, CDict, one-shot, streaming, workspace resize
     after earlier success, MT with 1-2 workers +- LDM, streaming decoder with window growth and history, DDict / multi-DDict);
     for each scenario the number N of allocations after the ARM mark is counted, then k = 1..N is enumerated exhaustively with
     the k-th allocation failing; every alloc/free/op is a trace line; AllocTrace.tla (TLC) checks pairing, reporting, emptiness
     of the live set after the frees and the success of the post-reset retries.  Memory comes from a private arena: a free()
     through the wrong deallocator or a use after free is caught by ASan.
"""
import os, re, json
from vlib import core

PID = "C13"
SCENARIOS = ["cctx-l3", "cctx-l1-then-l7", "cctx-l19", "history-then-resize", "dict-copy", "dict-ref", "cstream-l3", "cstream-l13",
             "mt-1", "mt-2", "mt-2-ldm", "dstream-fresh", "dstream-after-small", "dstream-retry-small-first", "ddict", "ddict-set-grows", "mt-more-workers"]


def run(tier):
    ck = core.Check(PID, tier, "fault_enumeration")
    od = ck.outdir
    # ---- M
    for (assign, nullcheck, expect) in [(1, "TRUE", False), (3, "TRUE", True), (1, "FALSE", True)]:
        cfgp = os.path.join(core.SPEC, "AllocLife_gen.cfg")
        open(cfgp, "w").write("SPECIFICATION Spec\nCONSTANTS\n N = 3\n AssignAt = %d\n NullCheck = %s\nINVARIANTS NoCrash PairedFrees NoLeak FaultReported\n" % (assign, nullcheck))
        r = core.run_tlc("AllocLife", "AllocLife_gen.cfg", workers=2, tag="c13-mc", timeout=120)
        os.remove(cfgp)
        ck.model("AllocLife(AssignAt=%d, NullCheck=%s)" % (assign, nullcheck), r, {"expected_violation": expect})
        if r.violated != expect:
            ck.warn("AllocLife.tla variant (AssignAt=%d NullCheck=%s): expected violation=%s, got %s" % (assign, nullcheck, expect, r.violated))
    # ---- F
    exe = core.build_exe("allocdrv", ["allocdrv.c"], "san")
    # multithreaded scenarios allocate from several threads: which allocation is the k-th depends on the schedule, so they are repeated
    reps = 3 if tier == "quick" else 12
    scen = SCENARIOS + [s for s in SCENARIOS if s.startswith("mt-")] * (reps - 1)
    total_k = 0
    for s in scen:
        tp = os.path.join(od, "alloc-%s-%d.ndjson" % (s, scen.index(s) if scen.count(s) == 1 else len(os.listdir(od))))
        if os.path.exists(tp):
            os.remove(tp)
        rc, out = core.sh([exe, tp, s], timeout=1500, env={"ASAN_OPTIONS": "detect_leaks=0:abort_on_error=1:allocator_may_return_null=1"})
        if rc != 0 or not os.path.exists(tp):
            raise core.InfraError("allocdrv failed on %s: %s" % (s, out[-500:]))
        evs = core.read_ndjson(tp)
        ks = [e["k"] for e in evs if e["e"] == "scn"]
        total_k += len([k for k in ks if k > 0])
        for e in evs:
            if e["e"] == "op":
                ck.case(key=(s, e["name"], e["ok"], e["faulted"]))
        ok, tr = core.validate_trace("AllocTrace", "AllocTrace.cfg", tp, tag="c13-" + s, timeout=1200)
        ck.model("AllocTrace(%s)" % s, tr, {"lines": len(evs), "k_values": len(ks)})
        guard = 0
        while not ok and guard < 40:
            guard += 1
            m = re.search(r"TRACE-REJECT matched[^\d]*(\d+)", tr.out.replace("\n", " "))
            pos = int(m.group(1)) if m else 0
            bad = evs[pos] if pos < len(evs) else {}
            si = pos
            while si > 0 and evs[si]["e"] != "scn":
                si -= 1
            k = evs[si].get("k")
            # what the fault hit: the sizes of the failed allocation and the operation in progress
            failed = [e for e in evs[si:pos + 1] if e["e"] == "alloc" and not e["ok"]]
            lastop = [e for e in evs[si:pos + 1] if e["e"] == "op"]
            kind = bad.get("e")
            detail = bad.get("state", bad.get("name", ""))
            if kind == "crash":
                detail = "sig%s" % bad.get("sig")
            ident = "%s|%s|%s" % (s, kind, detail)
            rp = ck.replay_path("alloc-%s-k%s.json" % (s, k), {"property": PID, "scenario": s, "k": k, "rejected": bad, "failed_alloc": failed[-1:] , "ops_so_far": lastop[-4:],
                                                                  "replay": "build/exe/allocdrv-san-* <trace> %s  (fault index %s)" % (s, k)})
            ck.violation("scenario %s, %s-th allocation failing (size %s): %s" % (s, k, failed[-1]["n"] if failed else "?", json.dumps(bad)[:200]), rp, ident=ident)
            nxt = pos + 1
            while nxt < len(evs) and evs[nxt]["e"] != "scn":
                nxt += 1
            if nxt >= len(evs):
                break
            evs = evs[nxt:]
            core.write_ndjson(tp + ".rest", evs)
            ok, tr = core.validate_trace("AllocTrace", "AllocTrace.cfg", tp + ".rest", tag="c13-" + s, timeout=1200)
        if ok:
            ck.traces(1)
        if len(ck.cov["samples"]) < 4:
            ck.sample({"scenario": s, "k_values": len(ks), "events": [e for e in evs[:12]]})
    # ---- the dictionary trainers allocate with malloc/calloc directly: link-time interposition, same enumeration
    from checks import trainfault
    total_k += trainfault.sweep(ck, PID, tier)
    ck.cov["fault_positions_enumerated"] = total_k
    ck.cov["exhaustive"] = True
    ck.assumptions += ["single faults (one failing allocation per run), enumerated exhaustively per scenario; the dictionary trainers allocate with malloc/calloc directly and are reached by link-time interposition (checks/trainfault.py), where leaks are decided by LeakSanitizer instead of the arena",
                       "the arena never reuses memory; use after free is detected by ASan poisoning, foreign frees by ASan's invalid-free check"]
    return ck.finish(rule="one case per (scenario, operation, verdict, fault-in-operation); every k in 1..allocs(scenario) is run", exhaustive=True)


def replay(path):
    if os.path.basename(path).startswith("train-fault-"):
        from checks import trainfault
        return trainfault.replay(path)
    d = json.load(open(path))
    exe = core.build_exe("allocdrv", ["allocdrv.c"], "san")
    od = os.path.join(core.OUT, PID); os.makedirs(od, exist_ok=True)
    tp = os.path.join(od, "replay.ndjson")
    core.sh([exe, tp, d["scenario"]], timeout=900, env={"ASAN_OPTIONS": "detect_leaks=0:abort_on_error=1"})
    ok, tr = core.validate_trace("AllocTrace", "AllocTrace.cfg", tp, tag="c13-replay")
    print("AllocTrace %s" % ("accepted" if ok else "REJECTED")); print("\n".join(core.trace_diag(tr))[:1500])
    return 0 if ok else 1
