"""C10 — streaming calls always progress; a completed flush is decodable; hint discipline."""
from vlib import core
from checks import streamcommon as sc

PID = "C10"


def gen_flush_history(rng, tier):
    """flush-heavy histories, single- and multi-threaded, with the decodability of the emitted prefix checked at every completed flush"""
    L = ["CNEW"]
    p = sc.gen_params(rng, small=True, mt_ok=True)
    if rng.random() < 0.5:
        p[sc.P_WORKERS] = rng.choice([1, 2, 4]); p[sc.P_JOB] = 1
        if rng.random() < 0.5:
            p[sc.P_LDM] = 1; p[sc.P_WLOG] = rng.choice([17, 20])
    p.pop(sc.P_FORMAT, None)
    for k, v in p.items():
        L.append("P %d %d" % (k, v))
    mt = p.get(sc.P_WORKERS, 0) > 0
    nseg = rng.randint(2, 6)
    for s in range(nseg):
        size = rng.choice([0, 1, 100, 5000, 70000] + ([300000, 470000, 480000, 520000, 1000000] if mt else []))
        L.append("SRC %s %d %d" % (rng.choice(sc.KINDS), size, rng.randint(1, 9999)))
        cap = rng.choice([64, 1000, 140000, 300000, 1 << 20])
        insz = rng.choice([1000, 4096, 70000, 1 << 20])
        insz = sc.fit(size, insz); cap = sc.fit(size, cap)
        d = 1 if s < nseg - 1 else 2
        L.append("C %d %d %d *" % (d, insz, cap))
        L.append("PREFIX %s" % ("flush" if d == 1 else "end"))
    L += ["LAYOUT", "DNEW", "DHINT 1048576", "DNEW", "D %d %d *" % (rng.choice([1000, 70000, 1 << 20]), rng.choice([1000, 131072, 1 << 20])), "DONE"]
    return L


def gen_mt_wrap_history(rng, tier):
    """multi-threaded + long-distance matching, flushed pieces whose sizes straddle the job size, stream long enough for the
    round input buffer to wrap several times (the corner where the caller waits for the LDM window / for unfinished jobs)"""
    L = ["CNEW", "P %d %d" % (sc.P_WORKERS, rng.choice([1, 2, 3])), "P %d 1" % sc.P_JOB, "P %d %d" % (sc.P_LEVEL, rng.choice([1, 2, 3]))]
    wlog = rng.choice([17, 18, 19, 20, 21])
    L.append("P %d %d" % (sc.P_WLOG, wlog))
    if rng.random() < 0.8:
        L.append("P %d 1" % sc.P_LDM)
    if rng.random() < 0.3:
        L.append("P 500 1")     # rsyncable
    if rng.random() < 0.5:
        L.append("P %d %d" % (sc.P_OVL, rng.choice([0, 3, 6, 9])))
    if rng.random() < 0.5:
        L.append("P %d 1" % sc.P_CSUM)
    total = 0
    target = rng.choice([3, 5, 8]) << 20
    J = 524288
    while total < target:
        size = rng.choice([J - 70000, J - 60000, J - 44288, J - 40000, J - 30000, J - 4288, J - 1, J, J + 1, J + 8000, 307200, 440000, 1000, 2 * J - 50000])
        L.append("SRC %s %d %d" % (rng.choice(["text", "mix", "longrep", "rand"]), size, rng.randint(1, 9999)))
        L.append("C 1 %d %d *" % (rng.choice([size, 1 << 20, 100000]), rng.choice([1 << 20, 300000])))
        if rng.random() < 0.3:
            L.append("PREFIX flush")
        total += size
    L += ["C 2 0 1048576 *", "PREFIX end", "LAYOUT", "DNEW", "DP 100 27", "D 1048576 2097152 *", "DONE"]
    return L


def run(tier):
    ck = core.Check(PID, tier, "model_checking")
    exe = sc.build()
    # M: the design model of the two stream machines (spec/Stream.tla), every segmentation of a small frame
    for cfg in ['Stream_quick'] + (['Stream', 'StreamLive'] if tier != "quick" else []):
        r = core.run_tlc("Stream", cfg + ".cfg", tag="c10-" + cfg, timeout=2400, jvm="-Xmx16g")
        ck.model("Stream(" + cfg + ")", r, {"cfg": cfg})
        if r.violated:
            ck.warn("Stream.tla (%s): %s violated in the design model — specification-level finding, examined before any code verdict" % (cfg, r.invariant_violated))
    n = 120 if tier == "quick" else 1200
    scen = [["CNEW", "SIZES"]] + [sc.gen_history(ck.rng, tier, "c10") for _ in range(n)]
    scen += [gen_flush_history(ck.rng, tier) for _ in range(60 if tier == "quick" else 600)]
    scen += [gen_mt_wrap_history(ck.rng, tier) for _ in range(10 if tier == "quick" else 120)]
    sc.validate_and_report(ck, exe, "c10", scen, per_batch=30)
    for s in scen[1:3] + scen[-2:]:
        ck.sample(s[:30])
    ck.assumptions += ["progress is judged per call on (inAvail>0 and outAvail>0); blocking forever is detected by the driver timeout (reported as a violation after a re-run)",
                       "decodability of a flushed prefix = a fresh streaming decoder driven to quiescence regenerates exactly the bytes consumed"]
    return ck.finish(rule="one case per call / flush point / hint-following decode; distinct = distinct (event kind, directive, size classes, verdict) tuples")


def replay(path):
    return sc.replay_script(path)
