"""Shared by C01 / C05 / C08: case generation for harness/fmtdrv.c and validation against spec/FrameTrace.tla."""
import os, re, json
from vlib import core

KINDS = ["text", "rand", "rle", "zero", "mix", "longrep", "blockdup", "tailmatch", "straddle", "edge", "longlit", "longmatch", "period", "repheavy", "records", "sparse"]
GOLDEN = ["http-dict-missing-symbols"]


def build():
    return core.build_exe("fmtdrv", ["fmtdrv.c", "refdec.c"], "san")


def gen_params(rng, heavy_ok=False):
    p = {}
    lv = rng.choice([-5, -1, 1, 1, 2, 3, 3, 4, 5, 6, 7, 8, 9, 10, 12, 13, 15, 16, 17, 18, 19] + ([20, 21, 22] if heavy_ok else []))
    p[100] = lv
    if rng.random() < 0.7:
        p[101] = rng.choice([10, 10, 11, 12, 14, 17, 17, 20, 22] + ([25, 27] if heavy_ok else []))
    if rng.random() < 0.3:
        p[107] = rng.randint(1, 9)
        if p[107] >= 7 and p.get(101, 17) > 22:
            p[101] = 17
    if rng.random() < 0.25:
        p[1011] = rng.choice([1, 2])
    if rng.random() < 0.3:
        p[105] = rng.randint(3, 7)
    if rng.random() < 0.2:
        p[102] = rng.choice([6, 10, 14, 17]); p[103] = rng.choice([6, 10, 14, 16])
    if rng.random() < 0.2:
        p[160] = 1
    if rng.random() < 0.25:
        p[1010] = rng.choice([1, 2])
    if rng.random() < 0.3:
        p[130] = rng.choice([1340, 1340, 2000, 4096, 20000])
    if rng.random() < 0.3:
        p[1015] = rng.choice([1024, 1024, 2048, 4096, 16384, 131072])
    if rng.random() < 0.2:
        p[1002] = rng.choice([1, 2])
    if rng.random() < 0.5:
        p[201] = 1
    if rng.random() < 0.15:
        p[200] = 0
    if rng.random() < 0.12:
        p[10] = 1
    if rng.random() < 0.1:
        p[400] = rng.choice([1, 2])
    if rng.random() < 0.1:
        p[106] = rng.choice([0, 8, 999, 131072])
    if rng.random() < 0.1:
        p[104] = rng.choice([1, 3, 7])
    return p


def blocksize(p):
    bs = 131072
    if p.get(1015):
        bs = min(bs, p[1015])
    if p.get(101):
        bs = min(bs, 1 << p[101])
    return bs


def gen_size(rng, p, tier):
    bs = blocksize(p)
    w = 1 << p.get(101, 17)
    choices = [0, 1, 2, 7, 50, 300, bs - 1, bs, bs + 1, 2 * bs, 3 * bs + 1, 5000, 20000, 66000, 131071, 131072, 131073, 200000, 300000]
    if w <= 4096:
        choices += [w + 1, 8 * w + 3, 40 * w]
    if tier != "quick":
        choices += [524289, 1048576 + 7, 2000000]
    s = rng.choice(choices)
    lv = p.get(100, 3)
    if (lv >= 16 or p.get(107, 0) >= 7) and s > 150000:
        s = rng.choice([66000, 131073, 150000])
    return max(0, s)


def case_line(api, kind, size, seed, seqlog, dictspec, p):
    return "CASE %s %s %d %d %d %s %s" % (api, kind, size, seed, seqlog, dictspec, " ".join("%d:%d" % (k, v) for k, v in sorted(p.items())))


def gen_case(rng, tier, focus):
    p = gen_params(rng, heavy_ok=(tier != "quick" and rng.random() < 0.1))
    api = rng.choice(["compress2"] * 5 + ["stream", "streamflush", "compress", "cctx", "advanced"])
    dictspec = "none"
    if focus in ("c05", "c08") and rng.random() < (0.35 if focus == "c05" else 0.9):
        dictspec = rng.choice(["raw:%d:%d" % (rng.choice([8, 100, 5000, 70000, 200000]), rng.randint(1, 99)),
                               "file:%s" % os.path.join(core.REPO, "tests", "golden-dictionaries", rng.choice(GOLDEN))])
        api = rng.choice(["compress2", "compress2", "stream", "usingDict", "usingCDict", "advanced"])
    if api in ("compress", "cctx", "usingDict", "usingCDict"):
        p = {100: p[100]}
    if api == "advanced":
        p = {k: v for k, v in p.items() if k in (100, 101, 200, 201)}
        if p.get(201) and rng.random() < 0.5:
            p[201] = rng.choice([2, 3, 4, 8, 256])      # the struct field is an int: any non-zero value means "with checksum"
    kind = rng.choice(KINDS)
    size = gen_size(rng, p, tier)
    if focus == "c05" and rng.random() < 0.4:       # inputs much longer than the window, long-range repetition
        p[101] = 10; size = rng.choice([8192, 20000, 66000]); kind = rng.choice(["longrep", "period", "records", "mix", "blockdup"])
    seqlog = 1 if size <= 6000 else 0
    if p.get(400) and size < 600000 and rng.random() < 0.5:
        size = 1300000 if tier != "quick" else 700000; p[401] = 1; p[100] = min(p[100], 3)
        seqlog = 0
    return case_line(api, kind, size, rng.randint(1, 99999), seqlog, dictspec, p)


def gen_superblock_case(rng, tier):
    """targetCBlockSize (super-block writer) on inputs whose blocks end with an incompressible tail and matches around the block edge"""
    p = {100: rng.choice([1, 2, 3, 4, 5, 6, 8, 10, 12]), 130: rng.choice([1340, 2000, 4096, 8192, 20000])}
    if rng.random() < 0.3:
        p[201] = 1
    if rng.random() < 0.2:
        p[1015] = rng.choice([4096, 131072])
    kind = rng.choice(["straddle", "straddle", "tailmatch", "blockdup", "edge"])
    size = rng.choice([160000, 270000, 400000]) if p.get(1015, 131072) > 4096 else rng.choice([9000, 20000, 70000])
    return case_line("compress2", kind, size, rng.randint(1, 99999), 0, "none", p)


def gen_splitter_case(rng, tier):
    """block splitter (post-splitter of btopt and above, or forced on) over blocks one partition of which ends up raw, with repeat codes behind it"""
    if rng.random() < 0.6:
        p = {100: rng.choice([13, 14, 15, 16, 17, 19])}
    else:
        p = {100: rng.choice([1, 3, 5, 7, 9, 12]), 1010: 1}
        if rng.random() < 0.5:
            p[107] = rng.choice([3, 4, 5, 6])
    if rng.random() < 0.3:
        p[201] = 1
    if rng.random() < 0.2:
        p[101] = rng.choice([17, 18, 20])
    kind = rng.choice(["rawpart", "rawpart", "rawpart", "tworegime", "straddle"])
    size = rng.choice([140000, 151072, 270000, 400000])
    if p[100] >= 16:
        size = min(size, 151072)
    api = rng.choice(["compress2", "compress2", "stream", "compress"])
    if api == "compress":
        p = {100: p[100]}
    return case_line(api, kind, size, rng.randint(1, 99999), 0, "none", p)


def run_cases(ck, exe, name, cases, per_batch=60):
    od = ck.outdir
    nev = 0
    for bi in range(0, len(cases), per_batch):
        batch = cases[bi:bi + per_batch]
        sp = os.path.join(od, "%s-b%d.script" % (name, bi)); tp = os.path.join(od, "%s-b%d.ndjson" % (name, bi))
        open(sp, "w").write("\n".join(batch) + "\n")
        rc, out = core.sh([exe, sp, tp], timeout=900, env={"ASAN_OPTIONS": "detect_leaks=0:allocator_may_return_null=1", "STREAMDRV_LB": "1"})
        evs = core.read_ndjson(tp) if os.path.exists(tp) else []
        if rc != 0:
            ncase = sum(1 for e in evs if e.get("e") == "case")
            culprit = batch[ncase] if ncase < len(batch) else batch[-1]
            san = re.search(r"(ERROR: AddressSanitizer: [\w-]+|runtime error: [^\n]*)", out)
            why = san.group(1)[:200] if san else "driver died rc=%d %s" % (rc, (out.strip().splitlines() or [""])[-1][:200])
            # confirm on the single case
            sp1 = os.path.join(od, "%s-one.script" % name); tp1 = os.path.join(od, "%s-one.ndjson" % name)
            open(sp1, "w").write(culprit + "\n")
            rc1, out1 = core.sh([exe, sp1, tp1], timeout=600, env={"ASAN_OPTIONS": "detect_leaks=0:allocator_may_return_null=1"})
            if rc1 != 0:
                rp = ck.replay_path("%s-%d.script" % (name, bi + ncase), culprit + "\n")
                ck.violation(why + " in " + culprit, rp, ident="crash|" + why[:50])
            else:
                ck.warn("driver failure not reproduced on the single case: " + culprit[:120])
            cases[bi + per_batch:bi + per_batch] = batch[ncase + 1:]     # run the rest later
            evs_ok = evs
        nev += len(evs)
        for e in evs:
            if e["e"] == "case":
                ck.case(key=(e["api"], e["kind"], min(e["srcSize"], 7), e["level"], e["usedDict"], json.dumps(e["p"], sort_keys=True)))
            elif e["e"] == "rBlock":
                ck.case(key=("blk", e["type"], e["litMode"], e["seqModes"], e["last"]), nontrivial=True)
        if not evs or rc != 0:
            continue
        ok, tr = core.validate_trace("FrameTrace", "FrameTrace.cfg", tp, tag="ft-" + name, timeout=1800)
        ck.model("FrameTrace(%s batch %d)" % (name, bi), tr, {"lines": len(evs), "cases": len(batch)})
        guard = 0
        while not ok and guard < 10:
            guard += 1
            m = re.search(r"TRACE-REJECT matched[^\d]*(\d+)", tr.out.replace("\n", " "))
            pos = int(m.group(1)) if m else 0
            bad = evs[pos] if pos < len(evs) else {}
            ci = sum(1 for e in evs[:pos + 1] if e.get("e") == "case") - 1
            culprit = batch[ci] if 0 <= ci < len(batch) else "?"
            cev = [e for e in evs[:pos + 1] if e.get("e") == "case"][-1] if ci >= 0 else {}
            ident = "%s|%s|%s" % (bad.get("e"), cev.get("api"), "dict" if cev.get("usedDict") else "nodict")
            rp = ck.replay_path("%s-%d.script" % (name, bi + ci), culprit + "\n")
            ck.violation("FrameTrace rejected %s for case: %s" % (json.dumps(bad)[:260], culprit), rp, ident=ident + "|" + culprit[:80])
            # continue with the cases after the culprit
            nxt = pos + 1
            while nxt < len(evs) and evs[nxt].get("e") != "case":
                nxt += 1
            if nxt >= len(evs):
                break
            evs = evs[nxt:]; batch = batch[ci + 1:]
            core.write_ndjson(tp + ".rest", evs)
            ok, tr = core.validate_trace("FrameTrace", "FrameTrace.cfg", tp + ".rest", tag="ft-" + name, timeout=1800)
        if ok:
            ck.traces(len(batch))
    ck.cov["events_validated"] = ck.cov.get("events_validated", 0) + nev


def replay(path):
    exe = build()
    od = os.path.join(core.OUT, "fmt-replay"); os.makedirs(od, exist_ok=True)
    tp = os.path.join(od, "replay.ndjson")
    rc, out = core.sh([exe, path, tp], timeout=600, env={"ASAN_OPTIONS": "detect_leaks=0"})
    if rc != 0:
        print("driver rc=%d\n%s" % (rc, out[-1500:])); return 1
    ok, tr = core.validate_trace("FrameTrace", "FrameTrace.cfg", tp, tag="ft-replay")
    print("FrameTrace %s" % ("accepted" if ok else "REJECTED")); print("\n".join(core.trace_diag(tr))[:1500])
    return 0 if ok else 1
