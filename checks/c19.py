"""C19 — the command-line tool never loses or silently damages user data.

  M  Cli.tla: the file-system protocol of one (source, destination) pair with a Crash step after every step, checked by TLC
     for every flag combination (DataSafe, NoClobber, CleanFail, Verdict); a deliberately wrong variant (source removed before
     the destination is closed) must violate DataSafe (non-vacuity).
  V  the real CLI (built from /repo's programs/ + lib) runs under strace -f for invocations from the grammar
     {compress, decompress, test} x --rm x -f x {file, -o, -c} x 1-2 inputs x pre-existing destination x corrupt/truncated input
     x sparse flags x -T/--long; the system calls touching the user's files become trace lines and CliTrace.tla evaluates the
     contract after every system call (= at every kill point).  The process tree is also really killed before its k-th system
     call for every k of selected runs (strace fault injection) and the directory inspected with the library-level oracle.
"""
import os, re, json, shutil, subprocess, hashlib, itertools, glob
from vlib import core

PID = "C19"
SYSCALLS = "openat,open,creat,write,pwrite64,lseek,close,unlink,unlinkat,rename,renameat,renameat2,ftruncate,exit_group"
KILLSET = "openat,read,write,pwrite64,lseek,close,unlink,unlinkat,fchmod,fchmodat,fchown,utimensat,newfstatat,futex,mmap,munmap,brk,mprotect,clone3,clone,rt_sigaction,rt_sigprocmask,exit_group,getrandom,sysinfo,sched_getaffinity"


def build_cli():
    ar, cc, cflags = core.build_lib("opt")
    srcs = sorted(glob.glob(os.path.join(core.REPO, "programs", "*.c")))
    hdrs = sorted(glob.glob(os.path.join(core.REPO, "programs", "*.h")))
    key = core._tree_hash(srcs + hdrs) + hashlib.sha256(ar.encode()).hexdigest()[:8]
    exe = os.path.join(core.BUILD, "exe", "zstdcli-%s" % key)
    if os.path.exists(exe):
        return exe
    os.makedirs(os.path.dirname(exe), exist_ok=True)
    for old in glob.glob(os.path.join(core.BUILD, "exe", "zstdcli-*")):
        os.remove(old)
    cmd = "gcc -O1 -w -DZSTD_MULTITHREAD -DZSTD_LEGACY_SUPPORT=5 %s -I%s %s %s -lpthread -o %s" % (
        core.lib_includes(), os.path.join(core.REPO, "programs"), " ".join(srcs), ar, exe + ".tmp")
    rc, out = core.sh(cmd)
    if rc != 0:
        raise core.InfraError("CLI build failed:\n" + out[-3000:])
    os.rename(exe + ".tmp", exe)
    return exe


def gen_content(rng, kind, size):
    if kind == "text":
        words = [b"alpha ", b"beta ", b"gamma\n", b"delta ", b"zstd ", b"0123456789 "]
        out = bytearray()
        while len(out) < size:
            out += rng.choice(words)
        return bytes(out[:size])
    if kind == "rand":
        return bytes(rng.getrandbits(8) for _ in range(size))
    if kind == "zeros":
        return bytes(size)
    # "holes": zero runs and data runs with lengths around the sparse writer's boundaries (32 KiB segments, 8-byte words)
    out = bytearray()
    lens = [1, 2, 3, 5, 7, 8, 9, 15, 16, 17, 4095, 4096, 32767, 32768, 32769, 65536 + 3, 100000]
    while len(out) < size:
        n = rng.choice(lens)
        if rng.random() < 0.55:
            out += bytes(n)
        else:
            out += bytes(rng.randrange(1, 256) for _ in range(min(n, 2000)))
        if rng.random() < 0.2:
            out += bytes(rng.randint(1, 7)) + bytes([rng.randrange(1, 256)])
    out = out[:size]
    if size >= 4 and rng.random() < 0.6:      # a tail of zero bytes followed by one non-zero byte, not word aligned
        k = rng.randint(1, min(6, size - 1))
        out[-k - 1:] = bytes(k) + bytes([rng.randrange(1, 256)])
    return bytes(out)


def corrupt(rng, data, how):
    b = bytearray(data)
    if how == "flip" and len(b) > 12:
        i = rng.randrange(8, len(b)); b[i] ^= 1 << rng.randrange(8)
    elif how == "trunc" and len(b) > 6:
        b = b[:rng.randrange(5, len(b) - 1)]
    elif how == "garbage":
        b += bytes(rng.getrandbits(8) for _ in range(rng.randint(1, 9)))
    elif how == "junk":
        b = bytearray(rng.getrandbits(8) for _ in range(rng.randint(1, 60)))
    return bytes(b)


class Scenario:
    def __init__(self, op, rm, force, out, n, kinds, corr, dstPre, extra):
        self.op, self.rm, self.force, self.out, self.n = op, rm, force, out, n
        self.kinds, self.corr, self.dstPre, self.extra = kinds, corr, dstPre, extra

    def key(self):
        return "%s rm=%d f=%d out=%s n=%d corr=%s pre=%s extra=%s" % (self.op, self.rm, self.force, self.out, self.n, ",".join(self.corr), self.dstPre, " ".join(self.extra))


def gen_scenarios(rng, tier):
    S = []
    # the full flag grid on one file
    for op in ("c", "d", "t"):
        for rm in (False, True):
            for force in (False, True):
                for out in (("file", "stdout") if op != "t" else ("test",)):
                    for pre in (False, True):
                        if op == "t" and pre:
                            continue
                        for corr in (("none",) if op == "c" else ("none", "flip", "trunc", "garbage", "junk")):
                            if tier == "quick" and corr in ("garbage", "junk") and (rm, force, pre) != (True, False, False):
                                continue
                            S.append(Scenario(op, rm, force, out, 1, [rng.choice(["text", "holes", "rand"])], [corr], [pre, False], []))
    # two inputs, one bad
    for op in ("d", "t"):
        for rm in (False, True):
            for corr in (["flip", "none"], ["none", "trunc"], ["junk", "none"], ["none", "none"]):
                S.append(Scenario(op, rm, rng.random() < 0.5, "file" if op == "d" else "test", 2, ["text", "holes"], corr, [False, False], []))
    S.append(Scenario("c", True, False, "file", 2, ["text", "rand"], ["none", "none"], [False, True], []))
    S.append(Scenario("d", True, False, "stdout", 2, ["text", "text"], ["none", "flip"], [False, False], []))
    # output device full: several inputs into one stdout / one input; the error may only surface when the output is flushed at close
    for op, n in (("d", 2), ("d", 1), ("c", 2), ("c", 1)):
        S.append(Scenario(op, False, rng.random() < 0.5, "stdout", n, ["text", "holes"][:n], ["none"] * n, [False, False], [">full"]))
    # threads / long / levels / explicit -o
    for extra in (["-T2"], ["--long=20"], ["-19"], ["-T2", "--long"], ["--sparse"], ["--no-sparse"], ["-o"]):
        for op in ("c", "d"):
            S.append(Scenario(op, True, True, "file", 1, ["holes"], ["none"], [rng.random() < 0.5, False], extra))
    return S


def materialise(rng, sc, d, zfile, sizes):
    """creates the input files of a scenario in directory d; returns names and the library verdicts"""
    shutil.rmtree(d, ignore_errors=True)
    os.makedirs(d)
    srcs, dsts, oks, orig = [], [], [], []
    for i in range(sc.n):
        content = gen_content(rng, sc.kinds[i], rng.choice(sizes))
        plain = os.path.join(d, "f%d.txt" % (i + 1))
        if sc.op == "c":
            open(plain, "wb").write(content)
            srcs.append("f%d.txt" % (i + 1)); dsts.append("f%d.txt.zst" % (i + 1)); oks.append(True)
        else:
            tmp = os.path.join(d, "tmp.raw")
            open(tmp, "wb").write(content)
            z = os.path.join(d, "f%d.txt.zst" % (i + 1))
            core.sh([zfile, "c", tmp, z, str(rng.choice([1, 3, 9]))], check=True)
            if rng.random() < 0.3 and sc.corr[i] == "none":      # two concatenated frames
                content2 = gen_content(rng, "holes", rng.choice(sizes))
                open(tmp, "wb").write(content2)
                core.sh([zfile, "c", tmp, z + ".2", "3"], check=True)
                open(z, "ab").write(open(z + ".2", "rb").read()); os.remove(z + ".2")
                content = content + content2
            data = open(z, "rb").read()
            if sc.corr[i] != "none":
                open(z, "wb").write(corrupt(rng, data, sc.corr[i]))
            os.remove(tmp)
            rcv, _ = core.sh([zfile, "d", z, os.path.join(d, "oracle%d.out" % (i + 1))])
            # zstd(1), --pass-through: "enabled by default when -f and -c are both used" — with -d -f -c an input that is not in a
            # supported format is copied to stdout unchanged and the exit status is 0 (zcat -f behaviour); that is a success
            head = open(z, "rb").read(4)
            known = (head[1:4] == b"\xb5\x2f\xfd" and head[:1] and 0x22 <= head[0] <= 0x28) or (head[1:4] == b"\x2a\x4d\x18" and head[:1] and (head[0] & 0xF0) == 0x50) \
                or head[:2] == b"\x1f\x8b" or head[:3] == b"\xfd\x37\x7a" or head[:4] == b"\x04\x22\x4d\x18" or head[:1] == b"\x5d"
            # (the same holds for unrecognised bytes that follow a valid frame: corr "garbage")
            passthru = sc.op == "d" and sc.force and sc.out == "stdout" and rcv != 0 and ((sc.corr[i] == "junk" and not known) or sc.corr[i] == "garbage")
            oks.append(rcv == 0 or passthru)
            if rcv == 0:
                content = open(os.path.join(d, "oracle%d.out" % (i + 1)), "rb").read()
            os.remove(os.path.join(d, "oracle%d.out" % (i + 1)))
            srcs.append("f%d.txt.zst" % (i + 1)); dsts.append("f%d.txt" % (i + 1))
        orig.append(content)
    if "-o" in sc.extra:
        dsts[0] = "custom.out"
    pre_content = b"PRE-EXISTING USER DATA\n" * 3
    for i in range(sc.n):
        if sc.dstPre[i]:
            open(os.path.join(d, dsts[i]), "wb").write(pre_content)
    return srcs, dsts, oks, orig, pre_content


def cmdline(cli, sc, srcs, dsts):
    a = [cli, "-q"]
    if sc.op == "d":
        a.append("-d")
    if sc.op == "t":
        a.append("-t")
    if sc.rm:
        a.append("--rm")
    if sc.force:
        a.append("-f")
    if sc.out == "stdout":
        a.append("-c")
    for e in sc.extra:
        if e == ">full":
            continue
        if e == "-o":
            a += ["-o", dsts[0]]
        else:
            a.append(e)
    return a + srcs


LINE = re.compile(r"^(\d+)\s+(\w+)\((.*)\)\s+=\s+(-?\d+|\?)")


def parse_strace(path, srcs, dsts):
    """projects an strace -f log on the scenario's files: list of event dicts"""
    evs = []
    fds = {}
    pending = {}
    roles = {}
    for i, n in enumerate(srcs):
        roles[n] = ("src", i + 1)
    for i, n in enumerate(dsts):
        roles[n] = ("dst", i + 1)
    for raw in open(path, errors="replace"):
        raw = raw.rstrip("\n")
        m = re.match(r"^(\d+)\s+(.*)<unfinished \.\.\.>$", raw)
        if m:
            pending[m.group(1)] = m.group(2); continue
        m = re.match(r"^(\d+)\s+<\.\.\. (\w+) resumed>(.*)$", raw)
        if m and m.group(1) in pending:
            raw = "%s %s%s" % (m.group(1), pending.pop(m.group(1)), m.group(3))
        m = LINE.match(raw)
        if not m:
            m2 = re.match(r"^(\d+)\s+exit_group\((\d+)\)", raw)
            if m2:
                evs.append({"e": "exit", "rc": int(m2.group(2))})
            continue
        pid, call, args, ret = m.groups()
        ret = int(ret) if ret != "?" else 0
        if call in ("openat", "open", "creat"):
            pm = re.search(r'"([^"]*)"', args)
            if not pm or ret < 0:
                continue
            name = os.path.basename(pm.group(1))
            if name in roles:
                role, pair = roles[name]
                wr = ("O_WRONLY" in args or "O_RDWR" in args or call == "creat")
                fds[ret] = (role, pair)
                evs.append({"e": "open", "role": role, "pair": pair, "wr": wr, "trunc": "O_TRUNC" in args, "creat": "O_CREAT" in args})
        elif call in ("write", "pwrite64"):
            fd = int(args.split(",")[0])
            if fd in fds and ret > 0:
                evs.append({"e": "write", "role": fds[fd][0], "pair": fds[fd][1], "n": ret})
        elif call == "lseek":
            fd = int(args.split(",")[0])
            if fd in fds:
                evs.append({"e": "seek", "role": fds[fd][0], "pair": fds[fd][1], "off": min(ret, 2**31 - 1)})
        elif call == "close":
            fd = int(args.split(",")[0])
            if fd in fds:
                evs.append({"e": "close", "role": fds[fd][0], "pair": fds[fd][1]})
                del fds[fd]
        elif call in ("unlink", "unlinkat"):
            pm = re.search(r'"([^"]*)"', args)
            if pm and ret == 0 and os.path.basename(pm.group(1)) in roles:
                role, pair = roles[os.path.basename(pm.group(1))]
                evs.append({"e": "unlink", "role": role, "pair": pair})
        elif call in ("rename", "renameat", "renameat2"):
            evs.append({"e": "rename", "args": args[:80]})     # not part of the protocol: unmatched => rejected
    return evs


def final_state(d, sc, srcs, dsts, orig, pre_content, zfile, srcdata):
    out = []
    for i in range(sc.n):
        sp, dp = os.path.join(d, srcs[i]), os.path.join(d, dsts[i])
        se = os.path.exists(sp)
        de = os.path.exists(dp)
        matches = False
        untouched = de and open(dp, "rb").read() == pre_content
        if de and not untouched:
            if sc.op == "c":
                rcv, _ = core.sh([zfile, "d", dp, os.path.join(d, "chk.out")])
                matches = rcv == 0 and open(os.path.join(d, "chk.out"), "rb").read() == orig[i]
                if os.path.exists(os.path.join(d, "chk.out")):
                    os.remove(os.path.join(d, "chk.out"))
            else:
                matches = open(dp, "rb").read() == orig[i]
        out.append({"pair": i + 1, "srcExists": se, "srcIntact": se and open(sp, "rb").read() == srcdata[i],
                    "dstExists": de, "dstMatches": matches, "dstUntouched": bool(untouched)})
    return out


def run_scenario(ck, cli, zfile, sc, d, sizes, kill=False, maxkill=0):
    srcs, dsts, oks, orig, pre = materialise(ck.rng, sc, d, zfile, sizes)
    srcdata = [open(os.path.join(d, s), "rb").read() for s in srcs]
    snap = os.path.join(os.path.dirname(d), "snap")
    shutil.rmtree(snap, ignore_errors=True)
    shutil.copytree(d, snap)
    cmd = cmdline(cli, sc, srcs, dsts)
    st = os.path.join(os.path.dirname(d), "strace.txt")
    full = ">full" in sc.extra
    sink = open("/dev/full", "wb") if full else subprocess.DEVNULL
    p = subprocess.run(["strace", "-f", "-o", st, "-e", "trace=" + SYSCALLS, "-s", "0"] + cmd, cwd=d, stdin=subprocess.DEVNULL,
                       stdout=sink, stderr=subprocess.PIPE, timeout=120)
    if full:
        sink.close()
    evs = [{"e": "scenario", "op": {"c": "compress", "d": "decompress", "t": "test"}[sc.op], "rm": sc.rm, "force": sc.force, "out": sc.out,
            "ok": oks + [True] * (2 - len(oks)), "dstPre": list(sc.dstPre[:2]), "n": sc.n, "full": full, "cmd": " ".join(cmd[1:])}]
    evs += parse_strace(st, srcs, dsts)
    if not any(e["e"] == "exit" for e in evs):
        evs.append({"e": "exit", "rc": p.returncode if p.returncode >= 0 else 128 - p.returncode})
    for f in final_state(d, sc, srcs, dsts, orig, pre, zfile, srcdata):
        f["e"] = "final"
        evs.append(f)
    kills = []
    if kill:
        # count the system calls of the kill set, then kill before each of them in turn
        shutil.rmtree(d); shutil.copytree(snap, d)
        cnt = os.path.join(os.path.dirname(d), "count.txt")
        subprocess.run(["strace", "-f", "-o", cnt, "-e", "trace=" + KILLSET] + cmd, cwd=d, stdin=subprocess.DEVNULL, stdout=subprocess.DEVNULL, stderr=subprocess.DEVNULL, timeout=120)
        total = sum(1 for _ in open(cnt))
        ks = list(range(1, total + 1))
        if maxkill and len(ks) > maxkill:
            step = len(ks) / float(maxkill)
            ks = sorted(set(int(i * step) + 1 for i in range(maxkill)))
        for k in ks:
            shutil.rmtree(d); shutil.copytree(snap, d)
            subprocess.run(["strace", "-f", "-o", "/dev/null", "-e", "trace=" + KILLSET, "-e", "inject=%s:signal=SIGKILL:when=%d" % (KILLSET, k)] + cmd,
                           cwd=d, stdin=subprocess.DEVNULL, stdout=subprocess.DEVNULL, stderr=subprocess.DEVNULL, timeout=120)
            for f in final_state(d, sc, srcs, dsts, orig, pre, zfile, srcdata):
                kills.append({"e": "killed", "k": k, "of": total, "pair": f["pair"], "srcIntact": f["srcIntact"], "dstComplete": bool(f["dstExists"] and f["dstMatches"]),
                              "dstPre": bool(sc.dstPre[f["pair"] - 1]), "force": sc.force, "dstUntouched": f["dstUntouched"]})
    return evs + kills


def sparse_cases(ck, cli, zfile, d, n):
    """the same compressed file decoded with --sparse and --no-sparse (and -f over an existing file): identical bytes"""
    evs = []
    for i in range(n):
        shutil.rmtree(d, ignore_errors=True); os.makedirs(d)
        parts = ck.rng.choice([1, 1, 2, 3])
        content = b""
        z = os.path.join(d, "s.zst")
        for pz in range(parts):
            c = gen_content(ck.rng, "holes", ck.rng.choice([11, 100, 4099, 32768 + 5, 70001, 200003, 1048581]))
            open(os.path.join(d, "raw"), "wb").write(c)
            core.sh([zfile, "c", os.path.join(d, "raw"), z + ".p", "1"], check=True)
            open(z, "ab").write(open(z + ".p", "rb").read())
            content += c
        res = {}
        for mode in ("--sparse", "--no-sparse", "-f-existing"):
            outp = os.path.join(d, "out" + mode.strip("-"))
            if mode == "-f-existing":
                open(outp, "wb").write(b"old")
                a = [cli, "-q", "-d", "-f", z, "-o", outp]
            else:
                a = [cli, "-q", "-d", mode, z, "-o", outp]
            p = subprocess.run(a, cwd=d, stdin=subprocess.DEVNULL, stdout=subprocess.DEVNULL, stderr=subprocess.DEVNULL, timeout=120)
            res[mode] = (p.returncode, open(outp, "rb").read() if os.path.exists(outp) else None)
        eq = res["--sparse"][1] == content and res["--no-sparse"][1] == content and res["-f-existing"][1] == content
        evs.append({"e": "sparse", "equal": bool(eq), "rcSparse": res["--sparse"][0], "rcPlain": res["--no-sparse"][0], "size": len(content),
                    "sizes": [len(v[1]) if v[1] is not None else -1 for v in res.values()], "parts": parts, "tail": list(content[-8:])})
    return evs


def model_check(ck, tier):
    combos = list(itertools.product([False, True], [False, True], ["file", "stdout", "test"], [False, True], [False, True]))
    od = os.path.join(ck.outdir, "mc"); shutil.rmtree(od, ignore_errors=True); os.makedirs(od)
    shutil.copy(os.path.join(core.SPEC, "Cli.tla"), od)
    tot_d = tot_g = 0
    for (rm, force, out, pre, ok) in combos:
        if out != "file" and pre:
            continue
        cfg = "SPECIFICATION Spec\nCONSTANTS\n Rm = %s\n Force = %s\n Out = \"%s\"\n DstPre = %s\n Ok = %s\n NBlocks = 2\n RmBeforeClose = FALSE\nINVARIANTS DataSafe NoClobber CleanFail Verdict RmOnlyWhenMeaningful\n" % (
            str(rm).upper(), str(force).upper(), out, str(pre).upper(), str(ok).upper())
        open(os.path.join(od, "c.cfg"), "w").write(cfg)
        r = core.run_tlc("Cli", "c.cfg", cwd=od, workers=2, tag="cli-mc", timeout=120)
        tot_d += r.distinct; tot_g += r.generated
        if r.violated:
            ck.warn("Cli.tla violates %s for rm=%s force=%s out=%s pre=%s ok=%s (specification-level)" % (r.invariant_violated, rm, force, out, pre, ok))
    class R: pass
    rr = R(); rr.distinct, rr.generated, rr.depth, rr.wall = tot_d, tot_g, 0, 0
    ck.model("Cli (all flag combinations, Crash after every step)", rr, {"combinations": len(combos)})
    # non-vacuity: the wrong order must be caught
    cfg = "SPECIFICATION Spec\nCONSTANTS\n Rm = TRUE\n Force = FALSE\n Out = \"file\"\n DstPre = FALSE\n Ok = TRUE\n NBlocks = 2\n RmBeforeClose = TRUE\nINVARIANTS DataSafe\n"
    open(os.path.join(od, "c.cfg"), "w").write(cfg)
    r = core.run_tlc("Cli", "c.cfg", cwd=od, workers=2, tag="cli-mc", timeout=120)
    ck.cov["nonvacuity_RmBeforeClose_violates_DataSafe"] = bool(r.violated)
    if not r.violated:
        ck.warn("vacuity: Cli.tla's DataSafe does not catch 'remove the source before closing the destination'")


def run(tier):
    ck = core.Check(PID, tier, "model_checking")
    cli = build_cli()
    zfile = core.build_exe("zfile", ["zfile.c"], "opt")
    work = os.path.join(ck.outdir, "work"); shutil.rmtree(work, ignore_errors=True); os.makedirs(work)
    d = os.path.join(work, "run")
    model_check(ck, tier)
    scen = gen_scenarios(ck.rng, tier)
    sizes = [0, 1, 100, 5000, 70000, 300000] if tier == "quick" else [0, 1, 100, 5000, 70000, 300000, 3000000]
    allev = []
    index = []
    killplan = set()
    # real kills: the --rm runs (where data can be lost) on one file, compress and decompress, plus a pre-existing destination
    for i, s in enumerate(scen):
        if s.n == 1 and s.rm and s.out == "file" and s.corr[0] == "none" and not s.extra and s.op in ("c", "d"):
            killplan.add(i)
    maxkill = 60 if tier == "quick" else 0
    for i, s in enumerate(scen):
        try:
            evs = run_scenario(ck, cli, zfile, s, d, sizes if i not in killplan else [5000, 70000], kill=(i in killplan), maxkill=maxkill)
        except subprocess.TimeoutExpired:
            rp = ck.replay_path("timeout-%d.json" % i, {"scenario": s.key()})
            ck.violation("CLI run did not terminate: " + s.key(), rp, ident="timeout|" + s.key())
            continue
        index.append((len(allev), s))
        allev += evs
        for e in evs:
            ck.case(key=(s.key(), e["e"], e.get("role"), e.get("k")))
    allev += sparse_cases(ck, cli, zfile, d, 25 if tier == "quick" else 300)
    allev.append({"e": "end"})
    tf = os.path.join(ck.outdir, "cli.ndjson")
    core.write_ndjson(tf, allev)
    ok, tr = core.validate_trace("CliTrace", "CliTrace.cfg", tf, tag="c19", timeout=1800)
    ck.model("CliTrace(validation)", tr, {"lines": len(allev)})
    guard = 0
    base = 0
    evs = allev
    while not ok and guard < 12:
        guard += 1
        m = re.search(r"TRACE-REJECT matched[^\d]*(\d+)", tr.out.replace("\n", " "))
        pos = int(m.group(1)) if m else 0
        bad = evs[pos] if pos < len(evs) else {}
        # find the scenario line before it
        sidx = pos
        while sidx > 0 and evs[sidx].get("e") != "scenario":
            sidx -= 1
        scn = evs[sidx] if evs[sidx].get("e") == "scenario" else {}
        ident = "%s|%s|%s" % (bad.get("e"), bad.get("role", ""), scn.get("cmd", "sparse") if bad.get("e") != "sparse" else "sparse")
        rp = ck.replay_path("cli-%d.json" % guard, {"property": PID, "scenario": scn, "rejected_event": bad, "trace": evs[sidx:pos + 1][-40:]})
        ck.violation("CliTrace rejected %s in run [%s]" % (json.dumps(bad)[:300], scn.get("cmd", "")), rp, ident=ident)
        nxt = pos + 1
        while nxt < len(evs) and evs[nxt].get("e") not in ("scenario", "sparse"):
            nxt += 1
        if nxt >= len(evs):
            break
        evs = evs[nxt:]
        core.write_ndjson(tf + ".rest", evs)
        ok, tr = core.validate_trace("CliTrace", "CliTrace.cfg", tf + ".rest", tag="c19", timeout=1800)
    if ok:
        ck.traces(len(index))
    ck.cov["cli_runs"] = len(scen)
    ck.cov["real_kill_points"] = sum(1 for e in allev if e.get("e") == "killed")
    for pos, s in index[:2]:
        ck.sample({"scenario": s.key(), "events": allev[pos:pos + 14]})
    ks = [e for e in allev if e.get("e") == "killed"][:2]
    for k in ks:
        ck.sample(k)
    shutil.rmtree(work, ignore_errors=True)
    ck.assumptions += ["the CLI is built from /repo/programs + lib without zlib/lzma/lz4 support; stdin is /dev/null (no interactive confirmation)",
                       "kill points = entries of the system calls in KILLSET (per-thread counters of strace's fault injection); data in stdio buffers is lost at a kill, as in reality",
                       "library verdict / decoded bytes come from harness/zfile.c (streaming decode of all frames)"]
    return ck.finish(rule="one case per (invocation, system call on a user file) and per real kill point; distinct by (invocation, event kind, role, k)")


def replay(path):
    d = json.load(open(path))
    print(json.dumps(d, indent=1)[:3000])
    return 1
