"""C04 — every decoding path yields the specified output for every valid frame.

  G  harness/fasm.h assembles frames from descriptors: every literals mode (raw / RLE / Huffman 1 and 4 streams / treeless) and
     size format incl. non-minimal ones, every sequence-table mode (predefined / RLE with any symbol up to the largest / FSE
     described / repeat) per table, 0 .. > 32512 sequences, lengths beyond 64 KiB, repeat-offset edge cases, raw / RLE blocks,
     window descriptors with mantissa, single-segment, every content-size width, checksums, > 16 MiB of history with far offsets.
     Plus frames of the real compressor under unusual parameters.
  R  the independent reference decoder (refdec.c, from doc/educational_decoder; made strict on Block_Maximum_Size) adjudicates
     validity and defines the content; for small frames its own events are cross-checked by TLC against the format model
     (DecTrace.tla: positions, block limit, window rule, repeat-offset resolution of Repcodes.tla).
  P  harness/decdrv.c pushes each accepted frame through 12 paths (one-shot exact/roomy, streaming whole / byte-wise / random
     segments / tiny outputs / hint-following, stable output buffer, buffer-less, in-place, reused context) in each build variant
     (default+hooks, HUF X1, HUF X2, short / long sequence decoders, no asm, no BMI2, no inlining).
  V  DecTrace.tla (TLC): accepted => all paths equal R; decoder-variant selection events (guarded hook) obey the selection rules.
"""
import os, re, json
from vlib import core

PID = "C04"
FAMS = ["mixed", "hufeq", "concat", "dict", "rletab", "rawtail", "longlen", "repeat", "headers", "splitlit", "comp", "bigwin"]


def script(rng, tier):
    q = tier == "quick"
    n = {"mixed": 140 if q else 1500, "concat": 24 if q else 300, "hufeq": 150 if q else 1500, "dict": 60 if q else 800, "rletab": 200 if q else 2500, "rawtail": 150 if q else 2000, "longlen": 16 if q else 150, "repeat": 90 if q else 1000, "headers": 80 if q else 600,
         "splitlit": 40 if q else 400, "comp": 24 if q else 300, "bigwin": 1 if q else 6}
    return ["GEN %s %d %d" % (f, rng.randint(1, 2000000), n[f]) for f in FAMS]


def run(tier):
    ck = core.Check(PID, tier, "model_checking")
    od = ck.outdir
    r = core.run_tlc("Repcodes", "Repcodes.cfg", tag="c04-rep", timeout=1800)
    ck.model("Repcodes (repeat-offset resolution of the format, encoder/decoder lock step)", r, {})
    if r.violated:
        ck.warn("Repcodes.tla violates %s" % r.invariant_violated)
    variants = ["san", "v_x1", "v_x2", "v_long", "v_short"] + (["v_noasm", "v_nobmi", "v_noinline"] if tier != "quick" else [])
    L = script(ck.rng, tier)
    feats = {}
    for vi, var in enumerate(variants):
        exe = core.build_exe("decdrv", ["decdrv.c", "refdec.c"], var)
        sp = os.path.join(od, "dec.script"); tp = os.path.join(od, "dec.ndjson")
        open(sp, "w").write("\n".join(L) + "\n")
        if os.path.exists(tp):
            os.remove(tp)
        rc, out = core.sh([exe, sp, tp], timeout=3000, env={"ASAN_OPTIONS": "detect_leaks=0:allocator_may_return_null=1", "UBSAN_OPTIONS": "print_stacktrace=1"})
        evs = core.read_ndjson(tp) if os.path.exists(tp) else []
        frames = [e for e in evs if e["e"] == "frame"]
        acc = [e for e in frames if e.get("accepted")]
        for e in acc:
            ck.case(key=(var, e["family"], e["fcs"], e["single"], e["csum"], e["litHuf"] > 0, e["litTreeless"] > 0, e["mRle"] > 0, e["mFse"] > 0, e["mRepeat"] > 0, e["maxSym"] > 0, e["longLL"] > 0, e["longML"] > 0, e["seqLong"] > 0, e["nonMin"] > 0))
            if vi == 0:
                for k in ("litRaw", "litRle", "litHuf", "litTreeless", "mPredef", "mRle", "mFse", "mRepeat", "seq0", "seqLong", "nonMin", "maxSym", "longLL", "longML", "rawBlk", "rleBlk", "cmpBlk", "hkBlocks", "hkPrefetch", "hkSplit", "hkLitInDst", "hkLitExtra"):
                    feats[k] = feats.get(k, 0) + e.get(k, 0)
        ck.cov["frames_accepted_" + var] = len(acc); ck.cov["frames_not_valid_" + var] = len(frames) - len(acc)
        if rc != 0:
            done = len(frames)
            san = re.search(r"(ERROR: AddressSanitizer: [\w-]+[^\n]*|runtime error: [^\n]*|Assertion[^\n]*failed)", out)
            why = san.group(1)[:240] if san else "driver died rc=%d %s" % (rc, (out.strip().splitlines() or [""])[-1][:160])
            # which frame: frames are generated in order; find the GEN line and index
            k = done; culprit = None
            for ln in L:
                cnt = int(ln.split()[3])
                if k < cnt:
                    culprit = "GEN %s %d 1" % (ln.split()[1], int(ln.split()[2]) + k); break
                k -= cnt
            fr = re.findall(r"#\d+ 0x[0-9a-f]+ in (\w+) [^\n]*?((?:zstd|huf|fse)\w*\.[chS]:\d+)", out)
            rp = ck.replay_path("dec-crash-%s.script" % var, (culprit or L[0]) + "\n")
            ck.violation("variant %s: %s (in %s) on %s" % (var, why, " <- ".join(f[0] for f in fr[:4]), culprit), rp, ident="crash|%s|%s" % (var, fr[0][1] if fr else why[:50]))
            evs.append({"e": "end"}); core.write_ndjson(tp, evs)
        if not evs:
            continue
        try:
            ok, tr = core.validate_trace("DecTrace", "DecTrace.cfg", tp, tag="c04", timeout=1800)
        except core.InfraError as ex:
            ck.warn("DecTrace could not evaluate variant %s: %s" % (var, str(ex)[-300:])); continue
        ck.model("DecTrace(%s)" % var, tr, {"lines": len(evs), "frames": len(frames), "accepted": len(acc)})
        cur = evs; guard = 0
        while not ok and guard < 10:
            guard += 1
            m = re.search(r"TRACE-REJECT matched[^\d]*(\d+)", tr.out.replace("\n", " "))
            pos = int(m.group(1)) if m else 0
            bad = cur[pos] if pos < len(cur) else {}
            nxt = pos + 1
            if bad.get("e") == "frame":
                gl = "GEN %s %d 1" % (bad["family"], bad["seed"])
                rp = ck.replay_path("dec-%s-%s-%d.script" % (var, bad["family"], bad["seed"]), gl + "\n")
                ck.violation("variant %s: a frame accepted by the reference decoder is not decoded to the same content by path %s (%s; %d of %d paths differ) — %s" % (var, bad.get("badPath"), bad.get("badErr"), bad.get("bad", 0), bad.get("npaths", 0), gl), rp,
                             ident="path|%s|%s|%s" % (bad.get("badPath"), bad.get("badErr"), bad["family"]))
            elif bad.get("e") == "dblk":
                rp = ck.replay_path("dec-%s-dblk-%d.json" % (var, pos), {"event": bad})
                ck.violation("variant %s: decoder variant selection violates the selection rules: %s" % (var, json.dumps(bad)), rp, ident="dblk|%s" % json.dumps(bad, sort_keys=True))
            else:
                # R's own events disagree with the format model: the oracle is suspect, not the library
                ck.warn("reference decoder event rejected by the format model (oracle issue, not a library verdict): %s" % json.dumps(bad)[:200])
                while nxt < len(cur) and cur[nxt]["e"] in ("rBlock", "rSeq", "rFrameEnd"):
                    nxt += 1
            rest = cur[nxt:]
            if not rest:
                break
            cur = rest
            core.write_ndjson(tp + ".rest", cur)
            ok, tr = core.validate_trace("DecTrace", "DecTrace.cfg", tp + ".rest", tag="c04", timeout=1800)
        if ok:
            ck.traces(1)
    for k, v in feats.items():
        ck.cov["feature_" + k] = v
    for need in ("litTreeless", "mRepeat", "mRle", "maxSym", "longLL", "longML", "nonMin", "hkSplit"):
        if feats.get(need, 0) == 0:
            ck.warn("feature %s was not produced in this run" % need)
    ck.sample(L)
    ck.assumptions += ["validity and content are defined by refdec.c (derived from doc/educational_decoder, shares no code with lib/), made strict on Block_Maximum_Size; the assembler serialises entropy sections with the library's table writers",
                       "CPU dispatch: the host CPU's BMI2 / asm paths are compared with builds that disable them"]
    return ck.finish(rule="one case per (build variant, frame feature class); every accepted frame is decoded by 12 paths")


def replay(path):
    if path.endswith(".json"):
        print(open(path).read()[:2000]); return 1
    m = re.search(r"dec-(crash-)?(\w+?)[-.]", os.path.basename(path))
    var = "san"
    for v in ("v_x1", "v_x2", "v_long", "v_short", "v_noasm", "v_nobmi", "v_noinline", "san"):
        if v in os.path.basename(path):
            var = v; break
    exe = core.build_exe("decdrv", ["decdrv.c", "refdec.c"], var)
    od = os.path.join(core.OUT, PID); os.makedirs(od, exist_ok=True)
    tp = os.path.join(od, "replay.ndjson")
    rc, out = core.sh([exe, path, tp], timeout=1200, env={"ASAN_OPTIONS": "detect_leaks=0", "DECDRV_DUMP": os.path.join(od, "replay")})
    print("driver rc=%d (variant %s)" % (rc, var)); print(out[-2000:])
    if os.path.exists(tp):
        print("\n".join(l[:600] for l in open(tp).read().splitlines() if '"frame"' in l)[-2000:])
        ok, tr = core.validate_trace("DecTrace", "DecTrace.cfg", tp, tag="c04-replay", timeout=600)
        print("\n".join(core.trace_diag(tr)))
        return 0 if (ok and rc == 0) else 1
    return 1
