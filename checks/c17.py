"""C17 — sequence-level compression: valid parses round-trip, invalid ones are refused.

  M  SeqApi.tla states the structural rules; SeqApiGen.tla lets TLC enumerate every list of up to 2-3 sequences over boundary
     domains (history exactly reached / exceeded by one, window / window+1, match length around the minimum, literal runs
     crossing the window) with the specification's verdict (model -> code);
  V  harness/seqdrv.c builds a source of which the list is a parse, calls ZSTD_compressSequences with validation on, and logs
     the verdict; library-extracted parses (ZSTD_generateSequences / mergeBlockDelimiters), random valid parses with explicit
     delimiters, single-field corruptions of valid parses, and a registered external producer (failing / fallback) follow;
     SeqTrace.tla (TLC) recomputes the specification's verdict on every logged list and compares (code -> model).
"""
import os, re, json
from vlib import core

PID = "C17"


def tlc_lists(ck, maxlen, win, dict_, minmatch):
    od = os.path.join(ck.outdir, "gen"); os.makedirs(od, exist_ok=True)
    for f in ("SeqApi.tla", "SeqApiGen.tla"):
        open(os.path.join(od, f), "w").write(open(os.path.join(core.SPEC, f)).read())
    open(os.path.join(od, "g.cfg"), "w").write("INIT GInit\nNEXT GNext\nCONSTANTS\n MaxLen = %d\n Win = %d\n Dict = %d\n MinMatch = %d\nINVARIANT Export\nCHECK_DEADLOCK FALSE\n" % (maxlen, win, dict_, minmatch))
    r = core.run_tlc("SeqApiGen", "g.cfg", cwd=od, workers=1, tag="c17-gen", timeout=900, deadlock=False)
    ck.model("SeqApiGen(win=%d dict=%d minMatch=%d len<=%d)" % (win, dict_, minmatch, maxlen), r, {})
    out = []
    seen = set()
    for m in re.finditer(r'SEQLIST (\{.*\})"', r.out):
        try:
            d = json.loads(m.group(1).replace('\\"', '"'))
        except Exception:
            continue
        k = json.dumps(d["list"])
        if k not in seen:
            seen.add(k); out.append(d)
    return out


def seq_line(wlog, minmatch, delim, rep, dictsize, validate, srcsize, seed, level, lst):
    return "SEQ %d %d %d %d %d %d %d %d %d %s" % (wlog, minmatch, delim, rep, dictsize, validate, srcsize, seed, level,
                                                    ",".join("%d:%d:%d" % (s["ll"], s["ml"], s["off"]) for s in lst))


def random_valid_parse(rng, srcsize, win, dictsize, minlen, blocksize, delim):
    """a random valid parse with matches planted around block edges"""
    lst = []; pos = 0; bstart = 0
    while pos < srcsize - 8:
        ll = rng.choice([0, 0, 1, 3, 17, 200, blocksize // 2])
        ml = rng.choice([minlen, minlen + 1, 8, 40, 300, blocksize + 10])
        if delim and pos > bstart and rng.random() < 0.25:
            # explicit delimiters may close a block anywhere: short blocks
            tail = rng.choice([0, 1, 9])
            tail = min(tail, bstart + blocksize - pos, srcsize - pos)
            lst.append({"ll": tail, "ml": 0, "off": 0}); pos += tail; bstart = pos
            continue
        if delim:
            room = bstart + blocksize - pos
            if room < minlen + 1:
                lst.append({"ll": room if room > 0 else 0, "ml": 0, "off": 0}); pos += max(room, 0); bstart = pos; continue
            ll = min(ll, room - minlen); ml = min(ml, room - ll)
            if ml < minlen:
                lst.append({"ll": room, "ml": 0, "off": 0}); pos += room; bstart = pos; continue
        if pos + ll + ml > srcsize:
            break
        start = pos + ll
        maxoff = win if start > win else start + dictsize
        if maxoff < 1:
            lst.append({"ll": ll + ml, "ml": 0, "off": 0} if False else None); lst.pop()
            pos = start + ml if False else pos
            # no history yet: emit literals only by skipping ahead
            ll2 = ll + ml
            if delim:
                pass
            pos += 0
            # simply move on with a literal run recorded into the next sequence
            nxt = {"ll": ll2, "ml": 0, "off": 0}
            if delim and pos + ll2 - bstart >= 1 and pos + ll2 <= srcsize:
                lst.append(nxt); pos += ll2; bstart = pos
            else:
                # in delimiter-free mode leading literals are expressed by the first sequence's litLength: retry later
                ll0 = ll2
                ml = minlen
                if pos + ll0 + ml > srcsize:
                    break
                start = pos + ll0
                off = rng.randint(1, max(1, min(win, start + dictsize)))
                lst.append({"ll": ll0, "ml": ml, "off": off}); pos = start + ml
            continue
        off = rng.choice([1, maxoff, max(1, maxoff - 1), rng.randint(1, maxoff)])
        lst.append({"ll": ll, "ml": ml, "off": off}); pos = start + ml
        if delim and pos - bstart == blocksize:
            lst.append({"ll": 0, "ml": 0, "off": 0}); bstart = pos
    if delim:
        rest = srcsize - pos
        # close the remaining source in blocks of at most blocksize
        while rest > 0 or (lst and not (lst[-1]["ml"] == 0 and lst[-1]["off"] == 0)) or not lst:
            room = bstart + blocksize - pos
            take = min(rest, room)
            if take == 0 and rest == 0 and lst and lst[-1]["ml"] == 0 and lst[-1]["off"] == 0:
                break
            if take == 0 and pos == bstart:
                break
            lst.append({"ll": take, "ml": 0, "off": 0}); pos += take; rest -= take; bstart = pos
            if rest == 0:
                break
    return lst


def run(tier):
    ck = core.Check(PID, tier, "model_checking")
    exe = core.build_exe("seqdrv", ["seqdrv.c", "refdec.c"], "san")
    od = ck.outdir
    rng = ck.rng
    lines = []
    # ---- model -> code: TLC-enumerated boundary lists
    for (wlog, dictsize, minmatch) in [(10, 0, 4), (10, 300, 3)] + ([(10, 0, 5), (11, 700, 4)] if tier != "quick" else []):
        lists = tlc_lists(ck, 2, 1 << wlog, dictsize, minmatch)
        rng.shuffle(lists)
        for d in lists[: (700 if tier == "quick" else 6000)]:
            covered = sum(s["ll"] + s["ml"] for s in d["list"])
            lines.append(seq_line(wlog, minmatch, 0, rng.choice([0, 1, 2]), dictsize, 1, covered + rng.choice([0, 1, 40]), rng.randint(1, 9999), rng.choice([1, 3, 5]), d["list"]))
    ck.cov["tlc_generated_lists"] = len(lines)
    # ---- random valid parses (both delimiter modes), then single-field corruptions of them
    for i in range(150 if tier == "quick" else 2500):
        wlog = rng.choice([10, 10, 11, 17]); win = 1 << wlog; bs = min(win, 131072)
        dictsize = rng.choice([0, 0, 100, 3000]); minmatch = rng.choice([3, 4, 4, 5, 6, 7]); minlen = 3 if minmatch == 3 else 4
        delim = rng.choice([0, 1, 1])
        srcsize = rng.choice([50, 1000, bs - 1, bs, bs + 1, 3 * bs + 5, 5000]) if bs <= 2048 else rng.choice([1000, 70000, 131072, 131073, 300000])
        lst = random_valid_parse(rng, srcsize, win, dictsize if not delim else dictsize, minlen, bs, delim)
        if not lst:
            continue
        if len(lst) > 3500:
            continue
        seed = rng.randint(1, 99999)
        lines.append(seq_line(wlog, minmatch, delim, rng.choice([0, 1, 2]), dictsize, 1, srcsize, seed, rng.choice([1, 3, 6]), lst))
        # single-field corruption, classified by the specification
        if len(lst) >= 1 and rng.random() < 0.7 and len(lst) < 400:
            bad = [dict(s) for s in lst]
            k = rng.randrange(len(bad))
            field = rng.choice(["off", "ml", "ll"])
            if bad[k]["ml"] == 0 and bad[k]["off"] == 0:
                field = rng.choice(["ll", "delim-ml", "delim-ml"])     # malformed delimiter: offset 0 with a match length
            if field == "off":
                bad[k]["off"] = rng.choice([bad[k]["off"] + win, win + 1, 2 * win + 7, 1 << 30])
            elif field == "delim-ml":
                bad[k]["ml"] = rng.choice([3, 4, 5, 6, 7])
            elif field == "ml":
                bad[k]["ml"] = rng.choice([1, 2, 3])
            else:
                bad[k]["ll"] = bad[k]["ll"] + rng.choice([1, 5, bs])
            if delim == 0:
                covered = sum(s["ll"] + s["ml"] for s in bad)
                if covered > srcsize:      # overrunning the source without delimiters is outside the documented scope
                    continue
            lines.append(seq_line(wlog, minmatch, delim, rng.choice([0, 1, 2]), dictsize, 1, srcsize, seed, 3, bad))
    # ---- library-extracted parses
    for i in range(40 if tier == "quick" else 600):
        lines.append("GEN %d %d %d %d %s %d %d %d %d" % (rng.choice([10, 12, 17, 20]), rng.choice([3, 4, 5, 6, 7]), rng.choice([0, 1]), rng.choice([0, 1, 2]),
                     rng.choice(["text", "mix", "records", "blockdup", "straddle", "edge", "longmatch", "period", "rle", "zero"]), rng.choice([0, 1, 100, 5000, 131072, 131073, 300000]),
                     rng.randint(1, 99999), rng.choice([1, 3, 7]), rng.choice([1, 3, 5, 9, 13, 16])))
    # ---- life of the dictionary's offset-code table (valid -> check), with the two faulty variants that must be rejected
    rd = core.run_tlc("DictTables", "DictTables.cfg", tag="c17-dt", timeout=300)
    ck.model("DictTables (dictionary offset-code table: 'valid' only for the first block, whichever way it was emitted)", rd, {})
    re_ = core.run_tlc("DictTables", "DictTables_edge.cfg", tag="c17-dte", timeout=300)
    ck.model("DictTables (content size 2^17-2: a 5-byte first block moves the next block across a code boundary)", re_, {})
    for r in (rd, re_):
        if r.violated:
            ck.warn("DictTables.tla: %s violated (specification-level)" % r.invariant_violated)
    for cfg in ("DictTables_mutComp.cfg", "DictTables_mutTiny.cfg"):
        rm = core.run_tlc("DictTables", cfg, tag="c17-dtm", timeout=300)
        ck.model("DictTables mutation %s (expected to violate NeverAnUncoveredSymbol)" % cfg, rm, {"violated": rm.invariant_violated})
        if rm.invariant_violated != "NeverAnUncoveredSymbol":
            ck.warn("mutation config %s was not rejected: NeverAnUncoveredSymbol is vacuous" % cfg)
    # the two counterexamples of the mutation configurations, as cases: raw first block(s), and a 5-byte first block with content size 2^17-2
    for lv in (1, 3):
        for cd in (0, 1):
            lines.append("DSEQ %d 1 1 131070 300000 %d 0 %d -1" % (lv, rng.randint(1, 99999), cd))
            lines.append("DSEQ %d %d 1 8192 400000 %d 0 %d %d" % (lv, rng.choice([0, 1]), rng.randint(1, 99999), cd, rng.choice([1, 2])))
    # ---- formatted dictionary (entropy tables) + multi-block parses whose later blocks need offset codes the dictionary's table lacks
    for i in range(24 if tier == "quick" else 400):
        dcs = rng.choice([4096, 8192, 8192, 20000, 65536])
        lines.append("DSEQ %d %d %d %d %d %d %d %d %d" % (rng.choice([1, 1, 2, 3, 3, 4, 5, 7]), rng.choice([0, 1]), rng.choice([0, 1]), dcs, rng.choice([300000, 400000, 530000]),
                     rng.randint(1, 99999), rng.choice([0, 1, 2]), rng.choice([0, 1]), rng.choice([0, 0, 1, 2, -1, -2])))
    # ---- external producer: exact sequence counts per block, failure with and without fallback
    for i in range(60 if tier == "quick" else 800):
        lines.append("PROD %d %d %s %d %d %d %d %d %d" % (rng.choice([17, 18]), rng.choice([1, 3, 5, 9]), rng.choice(["text", "mix", "records", "rle", "period", "longrep"]),
                     rng.choice([1000, 131072 + 50, 300000, 400000]), rng.randint(1, 99999), rng.choice([1, 2, 3, 3, 4, 5, 1 << 20]), rng.choice([-1, -1, 0, 1, 2]), rng.choice([0, 1]), rng.choice([0, 1, 2])))
    sp = os.path.join(od, "seq.script"); tp = os.path.join(od, "seq.ndjson")
    per = 400
    nbad = 0
    for bi in range(0, len(lines), per):
        batch = lines[bi:bi + per]
        open(sp, "w").write("\n".join(batch) + "\n")
        rc, out = core.sh([exe, sp, tp], timeout=900, env={"ASAN_OPTIONS": "detect_leaks=0", "STREAMDRV_LB": "1"})
        evs = core.read_ndjson(tp) if os.path.exists(tp) else []
        cases = [e for e in evs if e["e"] in ("seqcase", "gencase", "prodcase")]
        ck.cov["fmtdict_cases"] = ck.cov.get("fmtdict_cases", 0) + sum(1 for e in cases if e.get("kind") == "fmtdict")
        ck.cov["fmtdict_skipped"] = ck.cov.get("fmtdict_skipped", 0) + sum(1 for e in evs if e["e"] == "dseqskip")
        for e in cases:
            ck.case(key=(e["e"], e.get("delim"), e.get("ok"), e.get("minMatch"), e.get("kind"), len(e.get("list", [])), json.dumps(e.get("list", []))[:200], e.get("failBlock"), e.get("fallback")))
        if rc != 0:
            nline = len(cases) + sum(1 for e in evs if e["e"] == "dseqskip")      # script lines answered so far
            culprit = batch[nline] if nline < len(batch) else batch[-1]
            san = re.search(r"(ERROR: AddressSanitizer: [\w-]+|runtime error: [^\n]*)", out)
            why = san.group(1)[:200] if san else "driver died rc=%d" % rc
            rp = ck.replay_path("seq-crash-%d.script" % bi, culprit + "\n")
            ck.violation("%s on %s" % (why, culprit[:200]), rp, ident="crash|" + why[:60])
            lines[bi + per:bi + per] = batch[nline + 1:]
            continue
        ok, tr = core.validate_trace("SeqTrace", "SeqTrace.cfg", tp, tag="c17", timeout=1800)
        ck.model("SeqTrace(batch %d)" % bi, tr, {"lines": len(evs)})
        guard = 0
        while not ok and guard < 12:
            guard += 1
            m = re.search(r"TRACE-REJECT matched[^\d]*(\d+)", tr.out.replace("\n", " "))
            pos = int(m.group(1)) if m else 0
            bad = evs[pos] if pos < len(evs) else {}
            ci = sum(1 for e in evs[:pos + 1] if e["e"] in ("seqcase", "gencase", "prodcase")) - 1
            culprit = batch[ci] if 0 <= ci < len(batch) else "?"
            cev = [e for e in evs[:pos + 1] if e["e"] in ("seqcase", "gencase", "prodcase")][-1]
            kind = "accepts-invalid" if (cev["e"] == "seqcase" and cev.get("ok") and bad.get("e") == "seqcase") else ("rejects-valid" if bad.get("e") == "seqcase" else bad.get("e"))
            # identity: which rule is involved (first offending sequence of the list, classified coarsely)
            ident = "%s|%s" % (cev["e"], kind)
            if cev["e"] == "seqcase" and kind == "accepts-invalid":
                ident += "|offset-vs-history-at-match-start" if all(s["ml"] >= 4 or s["ml"] == 0 for s in cev["list"]) else "|other"
            rp = ck.replay_path("seq-%d.script" % (bi + ci), culprit + "\n")
            small = {k: v for k, v in bad.items() if k != "list"}
            if "list" in bad:
                small["list"] = bad["list"][:6]
            ck.violation("SeqTrace rejected %s" % json.dumps(small)[:400], rp, ident=ident)
            nxt = pos + 1
            while nxt < len(evs) and evs[nxt]["e"] not in ("seqcase", "gencase", "prodcase"):
                nxt += 1
            if nxt >= len(evs):
                break
            evs = evs[nxt:]; batch = batch[ci + 1:]
            core.write_ndjson(tp + ".rest", evs)
            ok, tr = core.validate_trace("SeqTrace", "SeqTrace.cfg", tp + ".rest", tag="c17", timeout=1800)
        if ok:
            ck.traces(len(batch))
    if not ck.cov.get("fmtdict_cases"):
        ck.warn("no formatted-dictionary (DSEQ) case was run: the dictionary could not be built")
    for l in lines[:3] + lines[-2:]:
        ck.sample(l[:300])
    ck.assumptions += ["lists whose matches do not match the source, offset 0 with a match length, or lengths overrunning the source in delimiter-free mode are outside the documented validation scope and are not generated",
                       "sources are built from the lists, so every structurally valid list is a valid parse of its source"]
    return ck.finish(rule="one case per compressSequences / producer call; distinct by (mode, verdict, minMatch, list)")


def replay(path):
    exe = core.build_exe("seqdrv", ["seqdrv.c", "refdec.c"], "san")
    od = os.path.join(core.OUT, PID); os.makedirs(od, exist_ok=True)
    tp = os.path.join(od, "replay.ndjson")
    rc, out = core.sh([exe, path, tp], timeout=300, env={"ASAN_OPTIONS": "detect_leaks=0"})
    if rc != 0:
        print(out[-1500:]); return 1
    ok, tr = core.validate_trace("SeqTrace", "SeqTrace.cfg", tp, tag="c17-replay")
    print("SeqTrace %s" % ("accepted" if ok else "REJECTED")); print("\n".join(core.trace_diag(tr))[:1500])
    return 0 if ok else 1
