"""C11 — multithreaded compression is correct, race-free and live under every schedule.

  M  ZstdMT.tla (job ring, round buffer + prefixes, serial section, pool hand-off, in-order flush): TLC exhaustive, all
     interleavings of caller and workers, invariants NoOverlap / InsideBuffer / SerialInOrder / OutInOrder / Ring, deadlock
     freedom, completion under fairness; the same model with the in-use test removed must violate NoOverlap (non-vacuity).
  V  real multithreaded compressions (nbWorkers 1..4, jobSize, overlapLog 0..9, LDM, rsyncable, checksum, flushes that make
     the round buffer wrap, aborted frames and context reuse) with the guarded hooks on: every critical-section event is
     validated by TLC against ZstdMTTrace.tla (the invariants of ZstdMT.tla on real byte offsets) and every call against
     StreamTrace.tla (round trip, flush decodability, progress);
  S  the same programs under harness/vsched.c: seeded adversarial schedules (which thread runs at each pthread operation,
     which waiter a cond_signal wakes); a state with no runnable thread is a deadlock; T: ThreadSanitizer build for data races.
"""
import os, re, json
from vlib import core
from checks import streamcommon as sc, poolcommon as pc

PID = "C11"
J = 524288


def mt_params(rng):
    L = ["P %d %d" % (sc.P_WORKERS, rng.choice([1, 2, 2, 3, 4])), "P %d %d" % (sc.P_JOB, rng.choice([1, 1, J, 600000])),
         "P %d %d" % (sc.P_LEVEL, rng.choice([1, 1, 2, 3, 4]))]
    if rng.random() < 0.6:
        L.append("P %d %d" % (sc.P_WLOG, rng.choice([17, 18, 19, 20, 21, 22])))
    if rng.random() < 0.5:
        L.append("P %d 1" % sc.P_LDM)
    if rng.random() < 0.6:
        L.append("P %d %d" % (sc.P_OVL, rng.choice([0, 1, 3, 5, 6, 9])))
    if rng.random() < 0.6:
        L.append("P %d 1" % sc.P_CSUM)
    if rng.random() < 0.25:
        L.append("P 500 1")
    return L


def gen_mt_history(rng, tier, small=False):
    L = ["CNEW"] + mt_params(rng)
    nframes = rng.choice([1, 1, 2])
    for f in range(nframes):
        total = 0
        target = rng.choice([600000, 1300000, 2600000]) if small else rng.choice([1, 2, 3, 5]) << 20
        abort = rng.random() < 0.25
        seeds = []
        while total < target:
            size = rng.choice([J - 70000, J - 44288, J - 30000, J - 1, J, J + 1, J + 8000, 307200, 440000, 1000, 2 * J - 50000, 100, 1])
            seed = rng.randint(1, 9999); kind = rng.choice(["text", "mix", "longrep", "rand"])
            seeds.append((kind, size, seed))
            L.append("SRC %s %d %d" % (kind, size, seed))
            d = rng.choice([0, 0, 1])
            L.append("C %d %d %d *" % (d, rng.choice([size, 1 << 20, 100000, 65536]) or 1, rng.choice([1 << 20, 300000, 70000])))
            if d == 1 and rng.random() < 0.3:
                L.append("PREFIX flush")
            if rng.random() < 0.1:
                L.append("P %d %d" % (sc.P_LEVEL, rng.choice([1, 2, 3, 5])))      # parameter update between jobs (allowed mid-frame)
            total += size
        if abort:
            L.append("CRESET")
            # reuse after the abort: the new frame starts with data resembling the tail of the aborted one
            for (kind, size, seed) in seeds[-2:]:
                L.append("SRC %s %d %d" % (kind, size, seed))
            L.append("C 0 %d %d *" % (rng.choice([100000, 1 << 20]), 1 << 20))
        L += ["C 2 0 1048576 *", "PREFIX end"]
    L += ["LAYOUT", "DNEW", "DP 100 27", "D 1048576 2097152 *", "DONE"]
    return L


def run_modes(ck, scen, tier):
    od = ck.outdir
    exe = core.build_exe("streamdrv", ["streamdrv.c"], "san")
    exes = core.build_exe("streamdrv_sched", ["streamdrv.c", "vsched.c"], "sanq", extra_ldflags=pc.WRAP)
    hung = False
    # ---- V: real threads, hooks on, both trace specifications
    for bi in range(0, len(scen), 8):
        batch = scen[bi:bi + 8]
        lines = [l for s in batch for l in s]
        sp = os.path.join(od, "mt-b%d.script" % bi); tp = os.path.join(od, "mt-b%d.ndjson" % bi)
        open(sp, "w").write("\n".join(lines) + "\n")
        rc, out = core.sh([exe, sp, tp], timeout=150, env={"STREAMDRV_HOOKS": "1", "STREAMDRV_LB": "1", "ASAN_OPTIONS": "detect_leaks=0"})
        if rc != 0:
            why = "real-thread run died rc=%d: %s" % (rc, (out.strip().splitlines() or [""])[-1][:300]) if rc != 124 else "real-thread run blocked for more than 150 s"
            rp = ck.replay_path("mt-b%d.script" % bi, "\n".join(lines) + "\n")
            ck.violation(why, rp, ident="realrun|%d" % rc)
            continue
        evs = core.read_ndjson(tp)
        for e in evs:
            if e["e"].startswith("mt"):
                ck.case(key=(e["e"], e["a"] % 8, min(e["b"], 3), e.get("g")))
        for spec in ("ZstdMTTrace", "StreamTrace"):
            ok, tr = core.validate_trace(spec, spec + ".cfg", tp, tag="c11-" + spec, timeout=900)
            ck.model("%s(batch %d)" % (spec, bi), tr, {"lines": len(evs)})
            if ok:
                ck.traces(len(batch))
            else:
                ok2, tr2 = core.validate_trace(spec, spec + ".cfg", tp, tag="c11-" + spec, timeout=900)
                if ok2:
                    ck.warn("non-reproducible rejection by " + spec); continue
                diag = " ".join(core.trace_diag(tr)).replace("\n", " ")[:500]
                m = re.search(r"TRACE-REJECT matched[^\d]*(\d+)", tr.out.replace("\n", " "))
                pos = int(m.group(1)) if m else 0
                bad = evs[pos] if pos < len(evs) else {}
                rp = ck.replay_path("mt-b%d-%s.script" % (bi, spec), "\n".join(lines) + "\n")
                ck.violation("%s rejected event #%d %s" % (spec, pos, json.dumps(bad)[:300]), rp, ident="%s|%s" % (spec, bad.get("e")))
    # ---- S: controlled schedules
    nsched = 0
    sub = scen[:6] if tier == "quick" else scen[:40]
    seeds = [1, 2] if tier == "quick" else [1, 2, 3, 4, 5]
    for si, s in enumerate(sub):
        for seed in seeds:
            sp = os.path.join(od, "sched.script"); tp = os.path.join(od, "sched.ndjson")
            open(sp, "w").write("\n".join(s) + "\n")
            env = {"STREAMDRV_HOOKS": "1", "STREAMDRV_LB": "1", "VSCHED_SEED": str(ck.seed * 7919 + si * 31 + seed), "VSCHED_PCT": str([0, 50, 90][seed % 3]),
                   "ASAN_OPTIONS": "detect_leaks=0", "VSCHED_MAXSTEPS": "50000000"}
            rc, out = core.sh([exes, sp, tp], timeout=300, env=env)
            nsched += 1
            ck.case(key=("sched", si, seed, rc))
            if rc == 42 or rc == 124:
                # confirm by re-running the same seed (the scheduler is deterministic)
                rc2, out2 = core.sh([exes, sp, tp], timeout=300, env=env)
                if rc2 in (42, 124):
                    rp = ck.replay_path("sched-%d-%d.json" % (si, seed), {"script": s, "env": env, "rc": rc2})
                    ck.violation("deadlock under controlled schedule (no runnable thread)" if rc2 == 42 else "no termination under controlled schedule", rp, ident="deadlock")
                continue
            if rc != 0:
                rp = ck.replay_path("sched-%d-%d.json" % (si, seed), {"script": s, "env": env, "rc": rc, "out": out[-1500:]})
                ck.violation("run under controlled schedule died rc=%d: %s" % (rc, (out.strip().splitlines() or [""])[-1][:200]), rp, ident="schedrun|%d" % rc)
                continue
            for spec in ("ZstdMTTrace", "StreamTrace"):
                ok, tr = core.validate_trace(spec, spec + ".cfg", tp, tag="c11s-" + spec, timeout=900)
                if ok:
                    ck.traces(1)
                else:
                    evs = core.read_ndjson(tp)
                    m = re.search(r"TRACE-REJECT matched[^\d]*(\d+)", tr.out.replace("\n", " "))
                    pos = int(m.group(1)) if m else 0
                    bad = evs[pos] if pos < len(evs) else {}
                    rp = ck.replay_path("sched-%d-%d.json" % (si, seed), {"script": s, "env": env, "rejected": bad})
                    ck.violation("%s rejected event %s under controlled schedule" % (spec, json.dumps(bad)[:300]), rp, ident="%s|%s" % (spec, bad.get("e")))
    # ---- S2: PCT schedules (random priorities + d-1 priority change points) on small contention scenarios: many cheap runs
    cont = []
    for nw in (3, 4, 2):
        for extra in ([], ["P %d 1" % sc.P_LDM, "P %d 20" % sc.P_WLOG], ["P 500 1"]):
            cont.append(["CNEW", "P %d %d" % (sc.P_WORKERS, nw), "P %d 1" % sc.P_JOB, "P %d 1" % sc.P_LEVEL, "P %d 1" % sc.P_CSUM] + extra +
                        ["SRC text 2700000 %d" % (nw + len(extra)), "C 0 1048576 1048576 *", "C 2 0 1048576 *", "PREFIX end", "DONE"])
    # an aborted frame (session reset while a job is prepared but not yet accepted by the pool), then reuse of the context
    for nw in (1, 2):
        cont.append(["CNEW", "P %d %d" % (sc.P_WORKERS, nw), "P %d 1" % sc.P_JOB, "P %d 1" % sc.P_LEVEL, "SRC text 3000000 5", "C 0 600000 1048576", "C 0 600000 1048576",
                     "CRESET", "SRC text 1500000 6", "C 0 1048576 1048576 *", "C 2 0 1048576 *", "PREFIX end", "DONE"])
    npct = 40 if tier == "quick" else 500
    bad_pct = 0
    for ci, s in enumerate(cont):
        sp = os.path.join(od, "pct.script"); tp = os.path.join(od, "pct.ndjson")
        open(sp, "w").write("\n".join(s) + "\n")
        for seed in range(1, npct + 1):
            env = {"STREAMDRV_HOOKS": "1", "VSCHED_POLICY": "pct", "VSCHED_PCT_D": str(2 + seed % 3), "VSCHED_PCT_K": "250",
                   "VSCHED_SEED": str(ck.seed * 104729 + ci * 1009 + seed), "ASAN_OPTIONS": "detect_leaks=0"}
            rc, out = core.sh([exes, sp, tp], timeout=120, env=env)
            nsched += 1
            ck.case(key=("pct", ci, seed, rc))
            if rc == 45:
                ck.warn("PCT schedule exhausted the step budget (unfair schedule, inconclusive)")
                continue
            if rc != 0:
                rc2, out2 = core.sh([exes, sp, tp], timeout=120, env=env)      # deterministic: must repeat
                if rc2 == rc:
                    bad_pct += 1
                    rp = ck.replay_path("pct-%d-%d.json" % (ci, seed), {"script": s, "env": env, "rc": rc, "out": out[-800:]})
                    ck.violation(("deadlock under a PCT schedule (no runnable thread)" if rc == 42 else "run under a PCT schedule failed rc=%d: %s" % (rc, (out.strip().splitlines() or [""])[-1][:200])),
                                 rp, ident="deadlock" if rc == 42 else "pctrun|%d" % rc)
                    break
            elif seed % 20 == 1:
                for spec in ("ZstdMTTrace", "StreamTrace"):
                    ok, tr = core.validate_trace(spec, spec + ".cfg", tp, tag="c11p-" + spec, timeout=600)
                    if ok:
                        ck.traces(1)
                    else:
                        rp = ck.replay_path("pct-%d-%d.json" % (ci, seed), {"script": s, "env": env, "diag": core.trace_diag(tr)})
                        ck.violation("%s rejected a trace recorded under a PCT schedule: %s" % (spec, " ".join(core.trace_diag(tr))[:300]), rp, ident="%s|pct" % spec)
    ck.cov["controlled_schedules"] = nsched
    # ---- T: ThreadSanitizer
    try:
        exet = core.build_exe("streamdrv_tsan", ["streamdrv.c"], "tsan")
        nts = 0
        for s in (scen[:3] if tier == "quick" else scen[:20]):
            sp = os.path.join(od, "tsan.script"); tp = os.path.join(od, "tsan.ndjson")
            open(sp, "w").write("\n".join(s) + "\n")
            rc, out = core.sh([exet, sp, tp], timeout=150, env={"TSAN_OPTIONS": "halt_on_error=0:exitcode=66"})
            nts += 1
            if "WARNING: ThreadSanitizer: data race" in out:
                loc = re.search(r"#0 (\S+) (\S+)", out)
                rp = ck.replay_path("tsan.txt", out[:6000])
                ck.violation("ThreadSanitizer reports a data race: " + (loc.group(0) if loc else ""), rp, ident="tsan|" + (loc.group(1) if loc else ""))
            elif rc not in (0,):
                ck.warn("tsan run rc=%d: %s" % (rc, out[-200:]))
        ck.cov["tsan_runs"] = nts
    except core.InfraError as e:
        ck.warn("tsan build unavailable: " + str(e)[:200])


def run(tier):
    ck = core.Check(PID, tier, "model_checking")
    for cfg in ["ZstdMT", "ZstdMT_live"] + (["ZstdMT_big"] if tier != "quick" else []):
        r = core.run_tlc("ZstdMT", cfg + ".cfg", tag="c11-" + cfg, timeout=1800, jvm="-Xmx12g")
        ck.model("ZstdMT(" + cfg + ")", r, {"cfg": cfg})
        if r.violated:
            ck.warn("ZstdMT.tla (%s): %s violated in the design model" % (cfg, r.invariant_violated))
    r = core.run_tlc("ZstdMT", "ZstdMT_nocheck.cfg", tag="c11-nocheck", timeout=600, deadlock=False)
    ck.cov["nonvacuity_without_inuse_test_NoOverlap_violated"] = bool(r.violated)
    if not r.violated:
        ck.warn("vacuity: removing the in-use test from ZstdMT.tla does not violate NoOverlap")
    n = 16 if tier == "quick" else 160
    scen = [gen_mt_history(ck.rng, tier, small=(tier == "quick" and i % 2 == 0)) for i in range(n)]
    run_modes(ck, scen, tier)
    for s in scen[:2]:
        ck.sample(s[:25])
    ck.assumptions += ["hook events are ordered by a spin lock taken inside the critical section that produced them (real threads) or by the scheduler (vsched)",
                       "vsched explores seeded schedules, not all of them; TSan covers the data-race clause on the executed schedules only",
                       "LDM window / buffer overlap is judged through round trips, not modelled in ZstdMT.tla"]
    return ck.finish(rule="one case per MT hook event class and per controlled schedule; distinct = (event, job slot, size class) / (scenario, seed, outcome)")


def replay(path):
    if path.endswith(".script"):
        return sc.replay_script(path)
    d = json.load(open(path))
    exes = core.build_exe("streamdrv_sched", ["streamdrv.c", "vsched.c"], "sanq", extra_ldflags=pc.WRAP)
    od = os.path.join(core.OUT, PID); os.makedirs(od, exist_ok=True)
    sp = os.path.join(od, "replay.script"); open(sp, "w").write("\n".join(d["script"]) + "\n")
    rc, out = core.sh([exes, sp, os.path.join(od, "replay.ndjson")], timeout=300, env=d.get("env", {}))
    print("rc=%d (42 = deadlock)" % rc); print(out[-800:])
    return 0 if rc == 0 else 1
