"""C18 — dictionary training yields a usable dictionary or an error, never a bad one.

  M  CoverBest.tla: job accounting of the cover / fastCover optimisers (register, pool, report under the mutex, wait, destroy the
     per-d context); TLC, all interleavings of 2-3 workers over 2 contexts: no job runs on a destroyed context, the kept
     candidate is a smallest one; the mutation "a job registers itself when it begins" must be rejected.
  R  harness/traindrv.c: every training entry point (default, cover, fastCover, both optimisers, legacy, finalizeDictionary,
     addEntropyTablesFromBuffer) on degenerate and ordinary sample sets (0..1000 samples, sizes 0..9000, two-letter alphabets,
     identical samples, totals below the minimums) x capacities x parameter vectors from the edges; samples and dictionary
     buffer each end at an inaccessible page; a returned dictionary is loaded on both sides, its ID queried three ways, every
     sample round-tripped; single-threaded runs are repeated and compared.
  S  the optimisers with 2-4 threads under seeded schedules of harness/vsched.c, guarded hooks on.
  V  TrainTrace.tla (TLC): the outcome contract on every call, and the hook events must be a behaviour of CoverBest.tla.
"""
import os, re, json
from vlib import core
from checks import poolcommon as pc

PID = "C18"
ALGOS = ["default", "cover", "fastcover", "optcover", "optfast", "legacy", "finalize", "addentropy"]


def gen_script(rng, tier, mt=False):
    L = []
    nsets = (6 if tier == "quick" else 40) if not mt else (3 if tier == "quick" else 10)
    for _ in range(nsets):
        kind = rng.choice(["text", "text", "records", "rand", "same", "tiny", "alpha2", "zero", "mix"])
        nb = rng.choice([0, 1, 2, 3, 5, 10, 16, 50, 200] + ([1000] if tier != "quick" else []))
        mn, mx = rng.choice([(0, 0), (0, 5), (1, 1), (5, 8), (8, 8), (6, 40), (100, 2000), (512, 512), (300, 300), (4000, 9000)])
        if mt:
            kind = rng.choice(["text", "records", "mix"]); nb = rng.choice([16, 40, 100]); mn, mx = rng.choice([(100, 600), (512, 512), (300, 2000)])
        if nb * mx > 1500000:
            nb = 100
        L.append("SAMPLES %s %d %d %d %d" % (kind, nb, mn, mx, rng.randint(1, 9999)))
        for _ in range(8 if not mt else 4):
            algo = rng.choice(ALGOS) if not mt else rng.choice(["optcover", "optfast"])
            cap = rng.choice([0, 1, 100, 255, 256, 257, 300, 1000, 4096, 16384, 112640])
            k = rng.choice([0, 1, 5, 16, 50, 64, 200, 1024, 2048, 100000])
            d = rng.choice([0, 4, 6, 6, 8, 8, 10, 16])
            f = rng.choice([0, 1, 5, 12, 20, 31, 32])
            accel = rng.choice([0, 1, 5, 10, 11])
            steps = rng.choice([0, 1, 2, 4] + ([40] if tier != "quick" and not mt else []))
            split = rng.choice([0, 1, 50, 75, 100, 100, 101])
            shrink = rng.choice([0, 0, 1])
            nbt = rng.choice([0, 0, 1]) if not mt else rng.choice([2, 3, 4])
            level = rng.choice([0, 3, 3, 19, -5])
            if mt:
                cap = rng.choice([1000, 4096, 8192]); k = rng.choice([0, 0, 64, 200]); d = rng.choice([0, 6, 8]); f = rng.choice([0, 12, 18]); accel = rng.choice([0, 1]); steps = rng.choice([1, 2, 3, 4]); split = rng.choice([75, 100]); level = 3
            if algo in ("optcover", "optfast") and not mt and steps == 0 and nb * mx > 100000:
                steps = 4     # (the default of 40 steps x 5 values of d on a large corpus takes minutes)
            if algo in ("optcover",) and nb * mx > 400000:
                algo = "optfast"
            L.append("TRAIN %s %d %d %d %d %d %d %d %d %d %d" % (algo, cap, k, d, f, accel, steps, split, shrink, nbt, level))
    if not mt:
        # directed: a training part (after the split) too small to hold one d-mer although all samples together would
        L.append("SAMPLES %s 10 1 1 %d" % (rng.choice(["mix", "text"]), rng.randint(1, 9999)))
        L.append("TRAIN optcover 256 64 0 1 1 2 75 0 0 3")
        L.append("TRAIN optfast 256 64 0 12 1 2 75 0 0 3")
        L.append("TRAIN cover 256 64 8 0 0 0 100 0 0 3")
        L.append("SAMPLES text 8 1 2 %d" % rng.randint(1, 9999))
        L.append("TRAIN optfast 300 16 6 12 1 1 50 0 1 3")
        L.append("TRAIN optcover 300 16 6 0 0 1 50 0 1 3")
        # directed: the tail of the d-mer range (k large against a small corpus, d below 8, no test split)
        L.append("SAMPLES text 16 512 512 %d" % rng.randint(1, 9999))
        for d in (6, 8):
            for k in (1024, 64, 512):
                L.append("TRAIN fastcover 4096 %d %d %d 1 0 100 0 0 3" % (k, d, rng.choice([12, 16, 20])))
                L.append("TRAIN optfast 4096 %d %d %d 1 2 100 0 1 3" % (k, d, rng.choice([12, 16])))
                L.append("TRAIN cover 4096 %d %d 0 0 0 100 0 0 3" % (k, d))
    return L


def examine(ck, exe, L, tp, evs, rc, out, tag, env):
    od = ck.outdir
    for e in evs:
        if e["e"] == "train":
            ck.case(key=(tag, e["algo"], e["kind"], min(e["nb"], 17), e["cap"], e["isErr"], e["size"] > 0, e["k"], e["d"], e["nbThreads"]))
    if rc != 0:
        done = len([e for e in evs if e["e"] == "train"])
        trains = [i for i, l in enumerate(L) if l.startswith("TRAIN")]
        idx = trains[done] if done < len(trains) else trains[-1]
        samp = [l for l in L[:idx] if l.startswith("SAMPLES")][-1:]
        culprit = samp + [L[idx]]
        san = re.search(r"(ERROR: AddressSanitizer: [\w-]+[^\n]*|runtime error: [^\n]*|Assertion[^\n]*failed)", out)
        why = "a call did not return within the time limit" if rc == 124 else (san.group(1)[:240] if san else "driver died rc=%d %s" % (rc, (out.strip().splitlines() or [""])[-1][:160]))
        sp1 = os.path.join(od, "tr1.script"); open(sp1, "w").write("\n".join(culprit) + "\n")
        fails = 0
        for _ in range(3 if tag == "sched" else 1):
            rc1, out1 = core.sh([exe, sp1, os.path.join(od, "tr1.ndjson")], timeout=900, env=env)
            if rc1 != 0:
                fails += 1; break
        if fails:
            fr = re.findall(r"#\d+ 0x[0-9a-f]+ in (\w+) [^\n]*?((?:cover|fastcover|zdict|divsufsort|pool|zstd|huf|fse)\w*\.[ch]:\d+)", out1)
            rp = ck.replay_path("train-crash-%s-%d.script" % (tag, idx), "\n".join(culprit) + "\n# env: %s\n" % json.dumps({k: v for k, v in env.items() if k.startswith("VSCHED")}))
            ck.violation("%s: %s (in %s) on: %s" % (tag, why, " <- ".join(f[0] for f in fr[:4]), " ; ".join(culprit)[:260]), rp, ident="crash|%s" % (fr[0][1] if fr else why[:60]))
        else:
            ck.warn("driver failure not reproduced alone (%s): %s" % (tag, " ; ".join(culprit)[:160]))
        evs.append({"e": "end"}); core.write_ndjson(tp, evs)
        return L[idx + 1:] if idx + 1 < len(L) else []
    return []


def validate(ck, L, tp, evs, tag):
    if not evs:
        return
    try:
        ok, tr = core.validate_trace("TrainTrace", "TrainTrace.cfg", tp, tag="c18", timeout=1800)
    except core.InfraError as ex:
        ck.warn("TrainTrace could not evaluate: %s" % str(ex)[-300:]); return
    ck.model("TrainTrace(%s)" % tag, tr, {"lines": len(evs)})
    cur = evs; guard = 0
    while not ok and guard < 10:
        guard += 1
        m = re.search(r"TRACE-REJECT matched[^\d]*(\d+)", tr.out.replace("\n", " "))
        pos = int(m.group(1)) if m else 0
        bad = cur[pos] if pos < len(cur) else {}
        nxt = pos + 1
        if bad.get("e") == "train":
            sl = "SAMPLES %s ..." % bad.get("kind")
            k = len([e for e in evs[:evs.index(bad) + 1] if e["e"] == "train"]) - 1 if bad in evs else -1
            trains = [i for i, l in enumerate(L) if l.startswith("TRAIN")]
            scr = []
            if 0 <= k < len(trains):
                scr = [l for l in L[:trains[k]] if l.startswith("SAMPLES")][-1:] + [L[trains[k]]]
            flags = []
            if not bad.get("isErr") and bad.get("size", 0) > 0:
                if bad["size"] > bad["cap"]: flags.append("larger than capacity")
                if not bad["loadsC"]: flags.append("compressor does not load it")
                if not bad["loadsD"]: flags.append("decompressor does not load it")
                if bad["idDict"] == 0: flags.append("ID 0")
                if bad["idC"] != bad["idDict"] or bad["idD"] != bad["idDict"]: flags.append("ID queries disagree")
                if not bad["rtAll"]: flags.append("%d samples do not round-trip" % bad["rtFail"])
            if bad.get("nbThreads", 0) <= 1 and not bad.get("repeatSame"):
                flags.append("two single-threaded runs differ")
            rp = ck.replay_path("train-%s-%d.script" % (tag, pos), "\n".join(scr) + "\n")
            ck.violation("%s: training outcome breaks the contract [%s]: %s" % (tag, "; ".join(flags), json.dumps(bad)[:420]), rp, ident="train|%s|%s" % (bad.get("algo"), ";".join(re.sub(r"\d+", "N", f) for f in flags)))
        else:
            # a job accounting event that is not a step of CoverBest.tla
            tb = max([i for i, e in enumerate(cur[:pos + 1]) if e["e"] == "tbegin"] or [0])
            ctxev = [e for e in cur[tb:pos] if e["e"].startswith("cv")][-8:]
            rp = ck.replay_path("train-%s-acct-%d.json" % (tag, pos), {"rejected": bad, "before": ctxev, "call": cur[tb] if tb < len(cur) else {}})
            ck.violation("%s: job accounting event is not a step of CoverBest.tla: %s after %s" % (tag, json.dumps(bad), json.dumps(ctxev[-3:])[:300]), rp, ident="acct|%s" % bad.get("e"))
            while nxt < len(cur) and cur[nxt]["e"] not in ("tbegin", "samples", "end"):
                nxt += 1
        rest = cur[nxt:]
        if not rest:
            break
        cur = rest
        core.write_ndjson(tp + ".rest", cur)
        ok, tr = core.validate_trace("TrainTrace", "TrainTrace.cfg", tp + ".rest", tag="c18", timeout=1800)
    if ok:
        ck.traces(1)


def run(tier):
    ck = core.Check(PID, tier, "model_checking")
    od = ck.outdir
    for cfg in ["CoverBest.cfg", "CoverBest_big.cfg", "CoverBest_live.cfg"]:
        r = core.run_tlc("CoverBest", cfg, tag="c18-" + cfg, timeout=1800)
        ck.model("CoverBest(%s)" % cfg, r, {})
        if r.violated:
            ck.warn("CoverBest.tla (%s) violates %s (design model)" % (cfg, r.invariant_violated))
    rm = core.run_tlc("CoverBest", "CoverBest_mutStart.cfg", tag="c18-mut", timeout=600)
    ck.model("CoverBest mutation (job registers itself; expected to violate NoUseAfterDestroy)", rm, {"violated": rm.invariant_violated})
    if rm.invariant_violated != "NoUseAfterDestroy":
        ck.warn("mutation config was not rejected")
    rm2 = core.run_tlc("CoverBest", "CoverBest_mutDestroy.cfg", tag="c18-mut2", timeout=600)
    ck.model("CoverBest mutation (error exit destroys without waiting; expected to violate NoUseAfterDestroy)", rm2, {"violated": rm2.invariant_violated})
    if rm2.invariant_violated != "NoUseAfterDestroy":
        ck.warn("mutation config CoverBest_mutDestroy was not rejected")
    exe = core.build_exe("traindrv", ["traindrv.c"], "san")
    for bi in range(2 if tier == "quick" else 12):
        pending = gen_script(ck.rng, tier)
        part = 0
        while pending and part < 20:
            part += 1
            sp = os.path.join(od, "tr.script"); tp = os.path.join(od, "tr.ndjson")
            open(sp, "w").write("\n".join(pending) + "\n")
            if os.path.exists(tp):
                os.remove(tp)
            env = {"ASAN_OPTIONS": "detect_leaks=0:allocator_may_return_null=1", "TRAINDRV_HOOKS": "1"}
            rc, out = core.sh([exe, sp, tp], timeout=2400, env=env)
            evs = core.read_ndjson(tp) if os.path.exists(tp) else []
            L0 = pending
            pending = examine(ck, exe, L0, tp, evs, rc, out, "real", env)
            if rc != 0 and pending:
                # keep the sample set for the remaining TRAIN lines
                samp = [l for l in L0[:len(L0) - len(pending)] if l.startswith("SAMPLES")][-1:]
                pending = samp + pending
            validate(ck, L0, tp, evs, "real")
        if bi == 0:
            ck.sample(L0[:6])
    # U: MemorySanitizer: a trainer that reads uninitialised memory returns a dictionary that depends on the heap's previous content
    # ---- allocation failures while optimiser jobs are in flight: every job is accounted for before its context goes
    from checks import trainfault
    trainfault.sweep(ck, PID, tier, names=("optcover-mt", "optfast-mt", "optcover-1t"), sample=(70 if tier == "quick" else None))
    exem = core.build_exe("traindrv_msan", ["traindrv.c"], "msan")
    L = ["SAMPLES text 120 100 1500 %d" % ck.rng.randint(1, 9999), "TRAIN default 16384 0 0 0 0 0 100 0 0 3", "TRAIN optfast 8192 0 0 %d 1 2 75 0 1 3" % ck.rng.choice([12, 14, 16]),
         "TRAIN fastcover 8192 200 8 %d 1 0 100 0 0 3" % ck.rng.choice([12, 16]), "TRAIN cover 8192 200 8 0 0 0 100 0 0 3", "TRAIN optcover 4096 0 0 0 0 2 75 0 1 3", "TRAIN legacy 8192 9 0 0 0 0 100 0 0 3", "TRAIN finalize 8192 0 0 0 0 0 100 0 0 3"]
    sp = os.path.join(od, "trm.script"); tp = os.path.join(od, "trm.ndjson")
    open(sp, "w").write("\n".join(L) + "\n")
    rc, out = core.sh([exem, sp, tp], timeout=2400, env={"MSAN_OPTIONS": "halt_on_error=1"})
    ck.cov["msan_training_calls"] = len([1 for l in (open(tp).read().splitlines() if os.path.exists(tp) else []) if '"e":"train"' in l])
    if rc != 0 and "MemorySanitizer" in out:
        fr = re.findall(r"#\d+ 0x[0-9a-f]+ in (\w+) [^\n]*?((?:cover|fastcover|zdict|divsufsort|zstd|huf|fse)\w*\.[ch]:\d+)", out)
        rp = ck.replay_path("train-msan.script", "\n".join(L) + "\n")
        ck.violation("use of uninitialised memory (MemorySanitizer) in %s: the dictionary depends on what the heap held" % " <- ".join(f[0] for f in fr[:5]), rp, ident="msan|%s" % (fr[0][1] if fr else "?"))
    elif rc != 0:
        ck.warn("MSan driver run failed rc=%d: %s" % (rc, (out.strip().splitlines() or [""])[-1][:160]))
    # S: optimisers under seeded schedules
    exes = core.build_exe("traindrv_sched", ["traindrv.c", "vsched.c"], "sanq", extra_ldflags=pc.WRAP)
    nseeds = 3 if tier == "quick" else 12
    Lall = gen_script(ck.rng, tier, mt=True)
    # one driver run per sample set: the scheduler's thread table is per process and every optimiser call creates its own pool
    sets = []
    for ln in Lall:
        if ln.startswith("SAMPLES"):
            sets.append([ln])
        elif sets:
            sets[-1].append(ln)
    for seed in range(nseeds * len(sets)):
        L = sets[seed % len(sets)]
        sp = os.path.join(od, "trs.script"); tp = os.path.join(od, "trs.ndjson")
        open(sp, "w").write("\n".join(L) + "\n")
        if os.path.exists(tp):
            os.remove(tp)
        env = {"ASAN_OPTIONS": "detect_leaks=0:allocator_may_return_null=1", "TRAINDRV_HOOKS": "1", "VSCHED_SEED": str(ck.seed * 7919 + seed), "VSCHED_MAXSTEPS": "80000000"}
        if seed % 2:
            env.update({"VSCHED_POLICY": "pct", "VSCHED_PCT_D": str(2 + seed % 3), "VSCHED_PCT_K": "100"})
        rc, out = core.sh([exes, sp, tp], timeout=1800, env=env)
        evs = core.read_ndjson(tp) if os.path.exists(tp) else []
        if rc in (43, 44, 45):
            ck.warn("schedule seed %d inconclusive (scheduler rc=%d)" % (seed, rc)); continue
        if rc == 42:
            rp = ck.replay_path("train-sched-deadlock-%d.script" % seed, "\n".join(L) + "\n# env: %s\n" % json.dumps({k: v for k, v in env.items() if k.startswith("VSCHED")}))
            ck.violation("sched: all threads blocked (deadlock) in an optimiser under schedule seed %s" % env["VSCHED_SEED"], rp, ident="deadlock"); continue
        examine(ck, exes, L, tp, evs, rc, out, "sched", env)
        validate(ck, L, tp, evs, "sched-%d" % seed)
    ck.assumptions += ["samples and dictionary buffers end at an inaccessible page; ASan/UBSan inside heap objects",
                       "worker schedules: the OS's (real threads) and seeded schedules of harness/vsched.c (random and PCT); TLC covers all interleavings of the accounting model only",
                       "the optimisers' multi-threaded result may legitimately depend on which of several equally good candidates reports first; only single-threaded runs are required to repeat"]
    return ck.finish(rule="one case per training call (entry point x sample-set class x capacity x parameters x verdict)")


def replay(path):
    if os.path.basename(path).startswith("train-fault-"):
        from checks import trainfault
        return trainfault.replay(path)
    if path.endswith(".json"):
        print(open(path).read()[:3000]); return 1
    sched = "sched" in os.path.basename(path)
    exe = core.build_exe("traindrv_sched", ["traindrv.c", "vsched.c"], "sanq", extra_ldflags=pc.WRAP) if sched else core.build_exe("traindrv", ["traindrv.c"], "san")
    od = os.path.join(core.OUT, PID); os.makedirs(od, exist_ok=True)
    tp = os.path.join(od, "replay.ndjson")
    env = {"ASAN_OPTIONS": "detect_leaks=0", "TRAINDRV_HOOKS": "1"}
    m = re.search(r"# env: (\{.*\})", open(path).read())
    if m:
        env.update(json.loads(m.group(1)))
    rc, out = core.sh([exe, path, tp], timeout=1200, env=env)
    print("driver rc=%d" % rc); print(out[-2500:])
    if rc == 0 and os.path.exists(tp):
        ok, tr = core.validate_trace("TrainTrace", "TrainTrace.cfg", tp, tag="c18-replay", timeout=600)
        print("\n".join(core.trace_diag(tr)))
        return 0 if ok else 1
    return 1
