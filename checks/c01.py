"""C01 — lossless one-shot round trip for every input and parameter set."""
from vlib import core
from checks import fmtcommon as fc

PID = "C01"


def run(tier):
    ck = core.Check(PID, tier, "model_checking")
    exe = fc.build()
    r = core.run_tlc("Repcodes", "Repcodes.cfg", tag="c01-rep", timeout=900)
    ck.model("Repcodes (encoder/decoder repeat-offset histories in lock step)", r, {})
    if r.violated:
        ck.warn("Repcodes.tla: %s violated (specification-level)" % r.invariant_violated)
    n = 1500 if tier == "quick" else 20000
    cases = [fc.gen_case(ck.rng, tier, "c01") for _ in range(n)]
    cases += [fc.gen_superblock_case(ck.rng, tier) for _ in range(400 if tier == "quick" else 6000)]
    fc.run_cases(ck, exe, "c01", cases)
    for c in cases[:4]:
        ck.sample(c)
    ck.assumptions += ["bit-exact entropy coding fidelity is decided by two decoders (library + vendored educational decoder), not by TLC",
                       "parameter vectors are sampled from the lattice (random vectors over strategy/finder/minMatch/windowLog/LDM/splitter/targetCBlockSize/maxBlockSize/literal mode/checksum/contentSize/format); input shapes from harness/vgen.h"]
    return ck.finish(rule="one case per (entry point, input shape, size class, parameter vector); block classes (type, literal mode, sequence modes) counted as coverage")


def replay(path):
    return fc.replay(path)
