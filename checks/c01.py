"""C01 — lossless one-shot round trip for every input and parameter set."""
from vlib import core
from checks import fmtcommon as fc

PID = "C01"


def run(tier):
    ck = core.Check(PID, tier, "model_checking")
    exe = fc.build()
    r = core.run_tlc("Repcodes", "Repcodes.cfg", tag="c01-rep", timeout=900)
    ck.model("Repcodes (encoder/decoder repeat-offset histories in lock step)", r, {})
    if r.violated:
        ck.warn("Repcodes.tla: %s violated (specification-level)" % r.invariant_violated)
    rs = core.run_tlc("Splitter", "Splitter.cfg", tag="c01-split", timeout=900)
    ck.model("Splitter (match finder / simulated decoder / decoder histories across raw and coded partitions of a split block)", rs, {})
    if rs.violated:
        ck.warn("Splitter.tla: %s violated (specification-level)" % rs.invariant_violated)
    rm = core.run_tlc("Splitter", "Splitter_mutSim.cfg", tag="c01-split-mut", timeout=600)
    ck.model("Splitter mutation (simulation advanced with the stored code; expected to violate RoundTrip)", rm, {"violated": rm.invariant_violated})
    if rm.invariant_violated != "RoundTrip":
        ck.warn("mutation config was not rejected: RoundTrip is vacuous")
    n = 1500 if tier == "quick" else 20000
    cases = [fc.gen_case(ck.rng, tier, "c01") for _ in range(n)]
    cases += [fc.gen_superblock_case(ck.rng, tier) for _ in range(400 if tier == "quick" else 6000)]
    cases += [fc.gen_splitter_case(ck.rng, tier) for _ in range(60 if tier == "quick" else 1200)]
    fc.run_cases(ck, exe, "c01", cases)
    for c in cases[:4]:
        ck.sample(c)
    ck.assumptions += ["bit-exact entropy coding fidelity is decided by two decoders (library + vendored educational decoder), not by TLC",
                       "parameter vectors are sampled from the lattice (random vectors over strategy/finder/minMatch/windowLog/LDM/splitter/targetCBlockSize/maxBlockSize/literal mode/checksum/contentSize/format); input shapes from harness/vgen.h"]
    return ck.finish(rule="one case per (entry point, input shape, size class, parameter vector); block classes (type, literal mode, sequence modes) counted as coverage")


def replay(path):
    return fc.replay(path)
