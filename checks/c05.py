"""C05 — everything the compressor emits is a conformant, truthful Zstandard frame."""
from vlib import core
from checks import fmtcommon as fc

PID = "C05"


def run(tier):
    ck = core.Check(PID, tier, "model_checking")
    exe = fc.build()
    n = 1200 if tier == "quick" else 15000
    cases = [fc.gen_case(ck.rng, tier, "c05") for _ in range(n)]
    fc.run_cases(ck, exe, "c05", cases)
    for c in cases[:4]:
        ck.sample(c)
    ck.assumptions += ["the reference decoder is doc/educational_decoder vendored into harness/refdec (plus independent XXH64 and multi-frame loop); it shares no code with lib/",
                       "the sub-4-byte table+bitstream tail rule is not observable at this layer and is not checked"]
    return ck.finish(rule="one case per compression case and per block class; distinct by (entry point, shape, size class, parameters, dictionary use)")


def replay(path):
    return fc.replay(path)
