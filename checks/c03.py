"""C03 — decoding untrusted bytes is memory-safe, bounded and terminating.

  M  DecBounds.tla: adversarial model of the sequence executor (every claimed size / length / offset chosen by the attacker);
     TLC: output, literals and history bounds hold and the block terminates; three mutation configs (one guard dropped each)
     must be rejected.  Stream.tla (C10) carries the progress rule of the streaming decoder.
  R  harness/decdrv.c MUT: frames from the assembler (every format feature), from the compressor, legacy v0.5-v0.7 frames of the
     repository, and RLE-block frames announcing windows around a static decoder's size are damaged in structure-aware and
     random ways (plus the undamaged frame itself) and decoded by every path - one-shot, streaming under several segmentations,
     stable output, buffer-less, reused context, hint-following, static streaming decoder - with input, output and static
     workspace each ending at an inaccessible page; frame inspectors, skippable-frame reader and dictionary loaders /
     dictionary-using decoders get the same bytes as frame and as dictionary.
  V  DecTrace.tla (TLC): error or size <= capacity, pos <= size, progress or error, undamaged frame still exact.
     A fault (guard page / sanitizer) or a call that does not return stops the driver and is reported with its stack.
"""
import os, re, json
from vlib import core

PID = "C03"


def script(rng, tier):
    q = tier == "quick"
    spec = [("mixed", 40 if q else 400, 8), ("dict", 12 if q else 150, 6), ("rletab", 300 if q else 3000, 3), ("repeat", 30 if q else 300, 6), ("headers", 60 if q else 600, 10), ("longlen", 4 if q else 40, 6),
            ("rawtail", 500 if q else 5000, 1), ("comp", 6 if q else 80, 10 if q else 24), ("legacy", 8 if q else 16, 40 if q else 300), ("legacy7", 150 if q else 1500, 2), ("rlebig", 14 if q else 150, 4)]
    L = ["GEN rlebig %d %d" % (rng.randint(1, 2000000), 6 if q else 40)]
    L += ["MUT %s %d %d %d" % (f, rng.randint(1, 2000000), n, m) for f, n, m in spec]
    return L


def run(tier):
    ck = core.Check(PID, tier, "model_checking")
    od = ck.outdir
    r = core.run_tlc("DecBounds", "DecBounds.cfg", tag="c03-mc", timeout=1800)
    ck.model("DecBounds (capacity 6, input 4, history 2, attacker values 0..8, 3 sequences)", r, {})
    if r.violated:
        ck.warn("DecBounds.tla violates %s (design model)" % r.invariant_violated)
    for cfg, inv in [("DecBounds_mutLit.cfg", "LiteralsInBounds"), ("DecBounds_mutRoom.cfg", "OutputInBounds"), ("DecBounds_mutOffset.cfg", "MatchInHistory")]:
        rm = core.run_tlc("DecBounds", cfg, tag="c03-" + cfg, timeout=600)
        ck.model("DecBounds mutation %s (expected to violate %s)" % (cfg, inv), rm, {"violated": rm.invariant_violated})
        if rm.invariant_violated != inv:
            ck.warn("mutation config %s was not rejected (%s)" % (cfg, rm.invariant_violated))
    # (quick: the forced prefetching sequence decoder as well, on a reduced script: its address arithmetic sees every corrupted offset)
    variants = ["san", "v_long"] + (["v_x1", "v_x2"] if tier != "quick" else [])
    for var in variants:
        exe = core.build_exe("decdrv", ["decdrv.c", "refdec.c"], var)
        pending = script(ck.rng, tier)
        if tier == "quick" and var != "san":
            pending = ["MUT mixed %d 40 8" % ck.rng.randint(1, 2000000), "MUT repeat %d 20 6" % ck.rng.randint(1, 2000000), "MUT comp %d 6 12" % ck.rng.randint(1, 2000000)]
        if var == "san":
            ck.sample(pending)
        part = 0
        while pending and part < 30:
            part += 1
            sp = os.path.join(od, "mut.script"); tp = os.path.join(od, "mut.ndjson")
            open(sp, "w").write("\n".join(pending) + "\n")
            if os.path.exists(tp):
                os.remove(tp)
            rc, out = core.sh([exe, sp, tp], timeout=2400, env={"ASAN_OPTIONS": "detect_leaks=0:allocator_may_return_null=1", "DECDRV_OPLOG": "1"})
            evs = core.read_ndjson(tp) if os.path.exists(tp) else []
            for e in evs:
                if e["e"] == "mut":
                    ck.case(key=(var, e["family"], e["seed"] % 50, e["nErr"] > 0, e["nOk"] > 0))
                    ck.cov["decodes_of_damaged_input"] = ck.cov.get("decodes_of_damaged_input", 0) + e["nErr"] + e["nOk"]
                elif e["e"] == "frame":
                    ck.case(key=(var, "static", e["family"], e.get("accepted"), e.get("wexp"), e.get("wmant")))
            if rc != 0:
                lastop = ""
                for e in reversed(evs):
                    if e["e"] == "mop":
                        lastop = e["op"]; break
                m = re.match(r"MUT (\w+) (\d+) idx=(\d+) m=(\d+)", lastop)
                nm = 0
                for ln in pending:
                    if ln.startswith("MUT") and m and ln.split()[1] == m.group(1):
                        nm = int(ln.split()[4])
                culprit = "MUT %s %s 1 %d" % (m.group(1), m.group(2), nm) if m else pending[0]
                hang = rc == 124
                san = re.search(r"(ERROR: AddressSanitizer: [\w-]+[^\n]*|runtime error: [^\n]*|Assertion[^\n]*failed)", out)
                why = "a call did not return within the time limit" if hang else (san.group(1)[:240] if san else "driver died rc=%d %s" % (rc, (out.strip().splitlines() or [""])[-1][:160]))
                sp1 = os.path.join(od, "mut1.script"); open(sp1, "w").write(culprit + "\n")
                rc1, out1 = core.sh([exe, sp1, os.path.join(od, "mut1.ndjson")], timeout=900, env={"ASAN_OPTIONS": "detect_leaks=0:allocator_may_return_null=1", "DECDRV_OPLOG": "1"})
                if rc1 != 0:
                    fr = re.findall(r"#\d+ 0x[0-9a-f]+ in (\w+) [^\n]*?((?:zstd|huf|fse|entropy|bitstream|mem|xxhash)\w*\.[chS]:\d+)", out1)
                    acc = "READ" if "READ" in out1 else ("WRITE" if "WRITE" in out1 else "")
                    rp = ck.replay_path("mut-crash-%s-%d.script" % (var, part), culprit + "\n")
                    ck.violation("variant %s: %s %s (in %s) while: %s" % (var, why, acc, " <- ".join(f[0] for f in fr[:5]), lastop[:200]), rp, ident="crash|%s" % (fr[0][1] if fr else why[:60]))
                else:
                    ck.warn("driver failure not reproduced alone: " + lastop[:160])
                # continue after the family that failed
                if m:
                    k = 0
                    for i, ln in enumerate(pending):
                        if ln.startswith("MUT") and ln.split()[1] == m.group(1):
                            k = i; break
                    pending = pending[k + 1:]
                else:
                    pending = pending[1:]
                evs.append({"e": "end"})
            else:
                pending = []
            evs = [e for e in evs if e["e"] != "mop"]
            if not evs:
                continue
            core.write_ndjson(tp, evs)
            try:
                ok, tr = core.validate_trace("DecTrace", "DecTrace.cfg", tp, tag="c03", timeout=1800)
            except core.InfraError as ex:
                ck.warn("DecTrace could not evaluate: %s" % str(ex)[-300:]); continue
            ck.model("DecTrace(%s part %d)" % (var, part), tr, {"lines": len(evs)})
            cur = evs; guard = 0
            while not ok and guard < 10:
                guard += 1
                mm = re.search(r"TRACE-REJECT matched[^\d]*(\d+)", tr.out.replace("\n", " "))
                pos = int(mm.group(1)) if mm else 0
                bad = cur[pos] if pos < len(cur) else {}
                if bad.get("e") == "mut":
                    flags = [k for k in ("over", "stall", "wrongOk") if bad.get(k)]
                    gl = "MUT %s %d 1 %d" % (bad["family"], bad["seed"], bad["nmut"])
                    rp = ck.replay_path("mut-%s-%s-%d.script" % (var, bad["family"], bad["seed"]), gl + "\n")
                    ck.violation("variant %s: decoding damaged input broke the contract [%s]: %s — %s" % (var, ",".join(flags), json.dumps(bad)[:300], gl), rp, ident="mut|%s|%s" % (",".join(flags), bad["family"]))
                elif bad.get("e") == "frame":
                    gl = "GEN %s %d 1" % (bad["family"], bad["seed"])
                    rp = ck.replay_path("mut-%s-%s-%d.script" % (var, bad["family"], bad["seed"]), gl + "\n")
                    ck.violation("variant %s: a valid frame is not decoded by path %s (%s) — %s" % (var, bad.get("badPath"), bad.get("badErr"), gl), rp, ident="frame|%s|%s" % (bad.get("badPath"), bad.get("badErr")))
                else:
                    ck.warn("event rejected: %s" % json.dumps(bad)[:200])
                rest = cur[pos + 1:]
                if not rest:
                    break
                cur = rest
                core.write_ndjson(tp + ".rest", cur)
                ok, tr = core.validate_trace("DecTrace", "DecTrace.cfg", tp + ".rest", tag="c03", timeout=1800)
            if ok:
                ck.traces(1)
    # U: MemorySanitizer build: decisions of the decoder that depend on uninitialised memory
    exem = core.build_exe("decdrv_msan", ["decdrv.c", "refdec.c"], "msan")
    L = ["MUT mixed %d %d 4" % (ck.rng.randint(1, 2000000), 12 if tier == "quick" else 120), "MUT dict %d %d 4" % (ck.rng.randint(1, 2000000), 8 if tier == "quick" else 80),
         "MUT repeat %d %d 4" % (ck.rng.randint(1, 2000000), 8 if tier == "quick" else 80), "MUT legacy %d 8 %d" % (ck.rng.randint(1, 2000000), 10 if tier == "quick" else 100)]
    sp = os.path.join(od, "mutm.script"); tp = os.path.join(od, "mutm.ndjson")
    open(sp, "w").write("\n".join(L) + "\n")
    rc, out = core.sh([exem, sp, tp], timeout=2400, env={"MSAN_OPTIONS": "halt_on_error=1", "DECDRV_OPLOG": "1"})
    evs = core.read_ndjson(tp) if os.path.exists(tp) else []
    ck.cov["msan_decodes"] = sum(e.get("nErr", 0) + e.get("nOk", 0) for e in evs if e["e"] == "mut")
    if rc != 0 and "MemorySanitizer" in out:
        lastop = ([e["op"] for e in evs if e["e"] == "mop"] or [""])[-1]
        fr = re.findall(r"#\d+ 0x[0-9a-f]+ in (\w+) [^\n]*?((?:zstd|huf|fse|entropy|bitstream)\w*\.[ch]:\d+)", out)
        m = re.match(r"MUT (\w+) (\d+) idx=(\d+) m=(\d+)", lastop)
        culprit = "MUT %s %s 1 4" % (m.group(1), m.group(2)) if m else L[0]
        rp = ck.replay_path("mut-msan.script", culprit + "\n")
        ck.violation("use of uninitialised memory (MemorySanitizer) in %s while: %s" % (" <- ".join(f[0] for f in fr[:5]), lastop[:200]), rp, ident="msan|%s" % (fr[0][1] if fr else "?"))
    elif rc != 0:
        ck.warn("MSan driver run failed rc=%d: %s" % (rc, (out.strip().splitlines() or [""])[-1][:160]))
    ck.assumptions += ["an access outside a buffer is observed through the inaccessible page that ends every input, output and static workspace, and by ASan/UBSan inside heap objects",
                       "termination: every driver run is bounded by a time limit; a streaming call with input and room that neither progresses nor fails 20 times in a row is a stall",
                       "legacy formats v0.5-v0.7 (the ones this build decodes) are seeded from the frames embedded in tests/legacy.c"]
    return ck.finish(rule="one case per damaged frame (family x seed class x verdict mix); decodes_of_damaged_input counts the individual decode calls")


def replay(path):
    var = "san"
    for v in ("v_x1", "v_x2", "v_long"):
        if v in os.path.basename(path):
            var = v
    exe = core.build_exe("decdrv", ["decdrv.c", "refdec.c"], var)
    od = os.path.join(core.OUT, PID); os.makedirs(od, exist_ok=True)
    tp = os.path.join(od, "replay.ndjson")
    rc, out = core.sh([exe, path, tp], timeout=1200, env={"ASAN_OPTIONS": "detect_leaks=0", "DECDRV_OPLOG": "1"})
    print("driver rc=%d (variant %s)" % (rc, var)); print(out[-3000:])
    if rc == 0 and os.path.exists(tp):
        evs = [e for e in core.read_ndjson(tp) if e["e"] != "mop"]; core.write_ndjson(tp, evs)
        ok, tr = core.validate_trace("DecTrace", "DecTrace.cfg", tp, tag="c03-replay", timeout=600)
        print("\n".join(core.trace_diag(tr)))
        return 0 if ok else 1
    return 1
