"""Shared pieces for the thread-pool checks (C12) — config grammar, trace recording, TLA+ value printing."""
import json, os, re, itertools
from vlib import core

WRAP = ("-Wl,--wrap=pthread_create,--wrap=pthread_join,--wrap=pthread_mutex_lock,--wrap=pthread_mutex_unlock,"
        "--wrap=pthread_cond_wait,--wrap=pthread_cond_signal,--wrap=pthread_cond_broadcast,"
        "--wrap=pthread_mutex_destroy,--wrap=pthread_cond_destroy")

OPNAME = {"a": "add", "t": "tryAdd", "j": "joinJobs", "r": "resize", "f": "free"}


def parse_ops(s, sep=" "):
    ops = []
    for tok in s.split(sep):
        tok = tok.strip()
        if not tok:
            continue
        k = tok[0]
        j = int(tok[1:]) if len(tok) > 1 else -1
        ops.append({"op": OPNAME[k], "j": j})
    return ops


class PoolCfg:
    def __init__(self, nt, qs, prog, bodies=""):
        self.nt, self.qs, self.prog, self.bodies = nt, qs, prog, bodies
        self.progops = parse_ops(prog)
        self.body = [[] for _ in range(8)]
        for part in bodies.split(","):
            if ":" in part:
                j, b = part.split(":")
                self.body[int(j)] = parse_ops(b, "+")
        self.maxT = max([nt] + [o["j"] for o in self.progops if o["op"] == "resize"])

    def legal(self):
        """mirror of Pool.tla LegalConfig: blocking posts from inside a job need a second usable thread"""
        blockers = [j for j, b in enumerate(self.body) if any(o["op"] == "add" for o in b)]
        if not blockers:
            return True
        return self.nt >= 2 and len(blockers) == 1 and all(o["j"] >= 2 for o in self.progops if o["op"] == "resize")

    def key(self):
        return "%d|%d|%s|%s" % (self.nt, self.qs, self.prog, self.bodies)

    def header(self):
        return {"e": "config", "nt": self.nt, "qs": self.qs, "maxT": self.maxT, "prog": self.progops, "body": self.body}

    def tla(self):
        def ops(l):
            return "<<" + ", ".join('[op |-> "%s", j |-> %d]' % (o["op"], o["j"]) for o in l) + ">>"
        return "[nt |-> %d, qs |-> %d, maxT |-> %d, prog |-> %s, body |-> <<%s>>]" % (
            self.nt, self.qs, self.maxT, ops(self.progops), ", ".join(ops(b) for b in self.body))


def record(exe, cfg, tracefile, seed=None, schedule=None, decisions=None, pct=None, timeout=20):
    env = {"VSCHED_TRACE": tracefile, "ASAN_OPTIONS": "detect_leaks=1:abort_on_error=0"}
    if seed is not None:
        env["VSCHED_SEED"] = str(seed)
    if schedule:
        env["VSCHED_SCHEDULE"] = schedule
    if decisions:
        env["VSCHED_DECISIONS"] = decisions
    if pct is not None:
        env["VSCHED_PCT"] = str(pct)
    rc, out = core.sh([exe, str(cfg.nt), str(cfg.qs), cfg.prog, cfg.bodies], timeout=timeout, env=env)
    return rc, out


def load_trace(cfg, tracefile):
    """Reads a raw vsched trace; renames the pool's sync objects through the driver's own 'names' event."""
    evs = core.read_ndjson(tracefile)
    names = {}
    for e in evs:
        if e.get("e") == "names":
            names = {e["qm"]: "qm", e["push"]: "push", e["pop"]: "pop"}
    # objects first used before the names event carry auto names: map them
    for e in evs:
        for f in ("o", "m"):
            if f in e and e[f] in names:
                e[f] = names[e[f]]
    return [cfg.header()] + evs


def skel_tla(s):
    return "[" + ", ".join('%s |-> "%s"' % (k, v) for k, v in sorted(s.items())) + "]"


def parse_skels(out):
    sk = []
    for m in re.finditer(r'"?SKEL ([^"\n]*)', out):
        d = dict(re.findall(r'(\w+)=(\w+)', m.group(1)))
        if d not in sk:
            sk.append(d)
    return sk
