"""C12 — thread pool: exactly-once, tryAdd honesty, joinJobs/free postconditions, no deadlock.

Pipeline (DESIGN.md section 5, C12):
  1. record executions of the real lib/common/pool.c under the deterministic scheduler (harness/vsched.c):
     client programs from the grammar {add, tryAdd, joinJobs, resize, free} with jobs that post work,
     non-preemptive + seeded random schedules + bounded systematic exploration of the decision tree;
  2. validate every recorded execution against (a) PoolContract.tla — the caller-visible contract, the
     alarm-raising layer — and (b) PoolTrace.tla/Pool.tla — the tight model, which also *infers* the
     synchronisation skeleton (signal / broadcast / nothing at each wake-up site) from the traces;
  3. model-check Pool.tla exhaustively with the inferred skeleton over the configuration grammar
     (all schedules, including which waiter a cond_signal wakes);
  4. a TLC counterexample is converted into a schedule and forced on the real code; it is reported only
     if the real code then deadlocks / breaks the contract.
"""
import os, re, json, shutil, itertools, time
from vlib import core
from checks import poolcommon as pc

PID = "C12"


def build():
    return core.build_exe("pooldrv", ["pooldrv.c", "vsched.c"], "sanq", extra_ldflags=pc.WRAP)


def gen_configs(tier, rng):
    """Client programs from the grammar; job ids are assigned in program order; jobs 0/1 may post jobs 4/5."""
    cfgs = []
    maxlen = 3 if tier == "quick" else 4
    for nt in (1, 2):
        for qs in (0, 1, 2):
            alpha = ["a", "t", "j", "rU", "rD"]
            progs = []
            for n in range(1, maxlen + 1):
                for seq in itertools.product(alpha, repeat=n):
                    progs.append(seq)
            if tier == "quick":
                short = [p for p in progs if len(p) <= 2]
                longer = [p for p in progs if len(p) > 2]
                rng.shuffle(longer)
                progs = short + longer[:12]
            else:
                long4 = [p for p in progs if len(p) == 4]
                rng.shuffle(long4)
                progs = [p for p in progs if len(p) <= 3] + long4[:60]
            for seq in progs:
                jid = 0
                toks = []
                for o in seq:
                    if o in ("a", "t"):
                        toks.append("%s%d" % (o, jid)); jid += 1
                    elif o == "j":
                        toks.append("j")
                    elif o == "rU":
                        toks.append("r%d" % (nt + 1))
                    elif o == "rD":
                        toks.append("r1")
                toks.append("f")
                prog = " ".join(toks)
                bodies = [""]
                if jid >= 1:
                    bodies += ["0:a4", "0:t4"]
                if jid >= 2 and tier != "quick":
                    bodies += ["0:a4,1:a5"]
                if tier == "quick" and len(seq) > 2:
                    bodies = [rng.choice(bodies)]
                for b in bodies:
                    cfgs.append(pc.PoolCfg(nt, qs, prog, b))
    # the corner that needs three workers / shrink-then-grow beyond the original capacity
    extra = [pc.PoolCfg(3, 0, "a0 a1 a2 j f", "0:a4"), pc.PoolCfg(2, 1, "r1 r3 a0 a1 a2 f", ""),
             pc.PoolCfg(3, 2, "a0 a1 a2 a3 f", ""), pc.PoolCfg(2, 2, "a0 a1 a2 a3 f", "0:t4"),
             pc.PoolCfg(2, 0, "a0 a1 j f", "0:a4"), pc.PoolCfg(3, 1, "r1 a0 a1 r4 a2 j f", "")]
    return [c for c in cfgs + extra if c.legal()]


def run_real(exe, cfg, tag, outdir, **kw):
    tf = os.path.join(outdir, "raw-%s.ndjson" % tag)
    rc, out = pc.record(exe, cfg, tf, **kw)
    evs = pc.load_trace(cfg, tf) if os.path.exists(tf) else [cfg.header()]
    try:
        os.remove(tf)
    except OSError:
        pass
    return rc, out, evs


def explore_dfs(exe, cfg, outdir, max_runs, preempt_bound):
    """Stateless systematic exploration of the real code's decision tree (bounded preemptions)."""
    results = []
    stack = [[]]
    runs = 0
    while stack and runs < max_runs:
        prefix = stack.pop()
        sf = os.path.join(outdir, "dfs.sched")
        df = os.path.join(outdir, "dfs.dec")
        with open(sf, "w") as f:
            for i in prefix:
                f.write("i %d\n" % i)
        rc, out, evs = run_real(exe, cfg, "dfs", outdir, seed=0, schedule=sf, decisions=df)
        runs += 1
        dec = []
        if os.path.exists(df):
            for line in open(df):
                p = line.split()
                dec.append((int(p[0]), int(p[1]), p[2], int(p[3])))
        results.append((rc, out, evs, [d[1] for d in dec]))
        # children: alternatives at positions beyond the prefix
        pre = 0
        for k, (n, idx, kind, keep) in enumerate(dec):
            if k >= len(prefix):
                for alt in range(n):
                    if alt == idx:
                        continue
                    cost = pre + (1 if (kind == "run" and keep >= 0 and alt != keep) else 0)
                    if cost <= preempt_bound:
                        stack.append([d[1] for d in dec[:k]] + [alt])
            if kind == "run" and keep >= 0 and idx != keep:
                pre += 1
    return results, runs, (len(stack) == 0)


def is_bad_exit(rc, out):
    if rc == 42:
        return "deadlock"
    if rc in (43, 45):
        return None   # harness limits: infrastructure
    if rc != 0:
        return "abnormal exit rc=%d: %s" % (rc, out.strip().splitlines()[-1][:200] if out.strip() else "")
    if "ERROR: AddressSanitizer" in out or "runtime error:" in out or "LeakSanitizer" in out:
        return "sanitizer report"
    return None


def mc(ck, cfgs, skels, tag, timeout=900):
    d = os.path.join(ck.outdir, "mc-" + tag)
    shutil.rmtree(d, ignore_errors=True)
    os.makedirs(d)
    with open(os.path.join(d, "MCPool.tla"), "w") as f:
        f.write("---- MODULE MCPool ----\nEXTENDS Pool\nMCConfigs == {%s}\nMCSkels == {%s}\n====\n" % (
            ",\n ".join(c.tla() for c in cfgs), ", ".join(pc.skel_tla(s) for s in skels)))
    shutil.copy(os.path.join(core.SPEC, "MCPool.cfg"), d)
    shutil.copy(os.path.join(core.SPEC, "Pool.tla"), d)
    return core.run_tlc("MCPool", "MCPool.cfg", cwd=d, tag="mcpool-" + tag, timeout=timeout, jvm="-Xmx16g")


def parse_cex(out):
    """TLC error trace -> (config key fields, [(lastT,lastE,lastW)])"""
    steps = []
    for blk in re.split(r"\nState \d+: ", out)[1:]:
        mt = re.search(r"/\\ lastT = (-?\d+)", blk)
        me = re.search(r'/\\ lastE = "(\w+)"', blk)
        mw = re.search(r"/\\ lastW = (-?\d+)", blk)
        if mt and me and mw:
            steps.append((int(mt.group(1)), me.group(1), int(mw.group(1))))
    cfgm = re.search(r"/\\ cfg = \[(.*?)\]\n/\\", out, re.S)
    return steps, (cfgm.group(1) if cfgm else "")


SYNC = {"lock", "relock", "unlock", "wait", "signal", "broadcast", "create", "start", "exit", "join"}


def cex_to_schedule(steps):
    lines = []
    for t, e, w in steps:
        if e in SYNC:
            lines.append("t %d" % t)
            if e == "signal" and w >= 0:
                lines.append("t %d" % w)
    return lines


def find_cfg_for_cex(cfgs, cfgtext):
    m_nt = re.search(r"nt \|-> (\d+)", cfgtext)
    m_qs = re.search(r"qs \|-> (\d+)", cfgtext)
    prog = re.findall(r'\[op \|-> "(\w+)", j \|-> (-?\d+)\]', cfgtext.split("body")[0])
    for c in cfgs:
        if m_nt and m_qs and c.nt == int(m_nt.group(1)) and c.qs == int(m_qs.group(1)) and \
                [(o["op"], str(o["j"])) for o in c.progops] == prog:
            btxt = cfgtext.split("body")[1] if "body" in cfgtext else ""
            want = re.findall(r'\[op \|-> "(\w+)", j \|-> (-?\d+)\]', btxt)
            have = [(o["op"], str(o["j"])) for b in c.body for o in b]
            if want == have:
                return c
    return None


def run(tier):
    ck = core.Check(PID, tier, "model_checking")
    exe = build()
    od = ck.outdir
    cfgs = gen_configs(tier, ck.rng)
    core.log("[C12] %d client configurations" % len(cfgs))

    # ---- 1. record real executions
    nseeds = 2 if tier == "quick" else 6
    executions = []   # (cfg, label, rc, out, evs)
    for ci, c in enumerate(cfgs):
        rc, out, evs = run_real(exe, c, "np", od, seed=0)
        executions.append((c, "nonpreemptive", rc, out, evs))
        for s in range(nseeds):
            seed = ck.seed * 1000 + ci * 17 + s + 1
            rc, out, evs = run_real(exe, c, "rnd", od, seed=seed, pct=(0 if s % 2 == 0 else 60))
            executions.append((c, "seed=%d" % seed, rc, out, evs))
    # bounded systematic exploration of a few configurations with nested posting / hand-off
    dfs_cfgs = [pc.PoolCfg(2, 0, "a0 a1 j f", "0:a4"), pc.PoolCfg(2, 1, "a0 t1 j f", "0:t4"),
                pc.PoolCfg(1, 0, "a0 j f", "0:t4"), pc.PoolCfg(2, 0, "t0 r1 a1 f", ""),
                pc.PoolCfg(2, 1, "a0 a1 a2 f", ""), pc.PoolCfg(2, 1, "r1 r3 a0 a1 f", "")]
    if tier != "quick":
        dfs_cfgs += [pc.PoolCfg(3, 0, "a0 a1 a2 j f", "0:a4"), pc.PoolCfg(2, 1, "r1 r3 a0 a1 a2 f", ""),
                     pc.PoolCfg(2, 2, "a0 a1 a2 j r1 f", "0:a4,1:t5")]
    dfs_budget = 250 if tier == "quick" else 3000
    dfs_info = []
    for c in dfs_cfgs:
        res, runs, complete = explore_dfs(exe, c, od, dfs_budget, 2 if tier == "quick" else 3)
        dfs_info.append({"config": c.key(), "runs": runs, "tree_exhausted_within_bound": complete})
        for k, (rc, out, evs, dec) in enumerate(res):
            executions.append((c, "dfs:" + ",".join(map(str, dec)), rc, out, evs))
    ck.cov["systematic_exploration"] = dfs_info
    core.log("[C12] %d real executions recorded" % len(executions))

    # ---- 2a. property-level verdict on real executions: exit status + contract trace spec
    bad_runs = []
    for (c, label, rc, out, evs) in executions:
        why = is_bad_exit(rc, out)
        if rc in (43, 45):
            ck.warn("harness limit hit for %s %s" % (c.key(), label))
        if why:
            bad_runs.append((c, label, why, evs))
        ck.case(key=(c.key(), tuple((e.get("t"), e.get("e")) for e in evs[1:] if e.get("e") in SYNC)))
    good = [x for x in executions if not is_bad_exit(x[2], x[3]) and x[2] == 0]
    allev = []
    for (c, label, rc, out, evs) in good:
        allev += evs
    tf = os.path.join(od, "all.ndjson")
    core.write_ndjson(tf, allev)
    okc, rcn = core.validate_trace("PoolContract", "PoolContract.cfg", tf, tag="c12-contract")
    if not okc:
        # find the offending execution by validating one at a time from the reported position
        m = re.search(r"TRACE-REJECT matched[^\d]*(\d+)", rcn.out.replace("\n", " "))
        pos = int(m.group(1)) if m else 0
        acc = 0
        for (c, label, rc, out, evs) in good:
            if acc + len(evs) > pos:
                one = os.path.join(od, "one.ndjson")
                core.write_ndjson(one, evs)
                ok1, r1 = core.validate_trace("PoolContract", "PoolContract.cfg", one, tag="c12-contract1")
                if not ok1:   # confirmed by re-validation
                    bad_runs.append((c, label, "contract violated: " + " ".join(core.trace_diag(r1))[:300], evs))
                break
            acc += len(evs)
    else:
        ck.traces(len(good))
    reported = set()
    for (c, label, why, evs) in bad_runs:
        kind = why.split(":")[0].split(" ")[0]
        ident = "%s|%s" % (kind, c.key())
        if ident in reported:
            continue
        reported.add(ident)
        rp = ck.replay_path("real-%d.json" % len(reported), {"property": PID, "kind": "real-execution", "config": c.key(),
                            "schedule": label, "why": why, "trace": evs[-60:]})
        ck.violation("%s in real execution of config [%s] under schedule %s" % (why, c.key(), label), rp, ident=ident)

    # ---- 2b. tight validation + skeleton inference
    skels = []
    tight_ok = False
    try:
        okt, rt = core.validate_trace("PoolTrace", "PoolTrace.cfg", tf, tag="c12-tight", timeout=1200)
        tight_ok = okt
        skels = pc.parse_skels(rt.out)
        ck.model("PoolTrace(validation)", rt, {"lines": len(allev)})
        if not okt:
            ck.warn("MODEL-DRIFT: Pool.tla does not explain the recorded synchronisation structure: " + " ".join(core.trace_diag(rt))[:400])
    except core.InfraError as e:
        ck.warn("tight validation failed to run: %s" % str(e)[:300])
    ck.cov["inferred_skeletons"] = skels
    ck.cov["tight_traces_accepted"] = bool(tight_ok)

    # ---- 3. exhaustive model checking with the inferred skeleton
    if skels:
        if len(skels) > 1:
            ck.warn("skeleton not unique (%d candidates survive): some wake-up site was not exercised" % len(skels))
        # split configurations into batches to keep each TLC run bounded
        mccfgs = cfgs if tier != "quick" else [c for c in cfgs if len(c.progops) <= 3] + cfgs[-6:]
        batches = [mccfgs[i::4] for i in range(4)]
        found = None
        for bi, b in enumerate(batches):
            r = mc(ck, b, skels[:2], "b%d" % bi)
            ck.model("Pool(exhaustive batch %d: %d configs)" % (bi, len(b)), r, {"configs": len(b), "skeleton": skels[0]})
            if r.violated and not found:
                found = (r, b)
        if found:
            r, b = found
            steps, cfgtext = parse_cex(r.out)
            c = find_cfg_for_cex(b, cfgtext)
            what = "Pool.tla with the skeleton inferred from the code violates %s" % r.invariant_violated
            confirmed = False
            if c is not None:
                sf = os.path.join(od, "cex.sched")
                with open(sf, "w") as f:
                    f.write("\n".join(cex_to_schedule(steps)) + "\n")
                for attempt in range(2):
                    tfc = os.path.join(od, "cex.ndjson")
                    env = {"VSCHED_STRICT": "1"}
                    os.environ.update(env)
                    rc2, out2 = pc.record(exe, c, tfc, seed=0, schedule=sf)
                    os.environ.pop("VSCHED_STRICT", None)
                    evs2 = pc.load_trace(c, tfc)
                    why = is_bad_exit(rc2, out2)
                    if rc2 == 44:
                        ck.warn("TLC counterexample is not a feasible schedule of the real code (model drift)")
                        break
                    if not why:
                        one = os.path.join(od, "cex1.ndjson")
                        core.write_ndjson(one, evs2)
                        ok1, r1 = core.validate_trace("PoolContract", "PoolContract.cfg", one, tag="c12-cex")
                        if not ok1:
                            why = "contract violated: " + " ".join(core.trace_diag(r1))[:300]
                    if why:
                        confirmed = True
                    else:
                        confirmed = False
                        break
                if confirmed:
                    ident = "model-cex|%s|%s" % (r.invariant_violated, c.key())
                    rp = ck.replay_path("cex.json", {"property": PID, "kind": "tlc-counterexample-replayed", "config": c.key(),
                                        "violates": r.invariant_violated, "schedule": cex_to_schedule(steps), "real_outcome": why,
                                        "trace": evs2[-40:]})
                    ck.violation(what + "; forcing TLC's schedule on the real pool.c reproduces it: " + why, rp, ident=ident)
                else:
                    ck.warn(what + " but the schedule did not reproduce on the real code")
            else:
                ck.warn(what + " (could not map counterexample to a configuration)")
    else:
        # no skeleton: the tight model does not bind; still model-check the documented skeleton for the record
        ck.warn("no skeleton inferred; exhaustive model check of Pool.tla skipped")

    for (c, label, rc, out, evs) in executions[:3]:
        ck.sample({"config": c.key(), "schedule": label, "events": [e for e in evs[1:25]]})
    ck.assumptions += ["vsched serialises threads at pthread operations: data races between synchronisation points are not explored here (TSan is used in C11)",
                       "cond_signal wakes exactly one waiter chosen adversarially; spurious wake-ups are not injected",
                       "client programs: <=%d operations + free, threads 1..3, queue 0..2, jobs that post one job" % (3 if tier == "quick" else 4)]
    return ck.finish(rule="one case per real execution; distinct = distinct (configuration, sequence of (thread, sync op)) pairs; "
                     "model states = TLC distinct states summed over batches", exhaustive=False)


def replay(path):
    exe = build()
    d = json.load(open(path))
    key = d["config"].split("|")
    c = pc.PoolCfg(int(key[0]), int(key[1]), key[2], key[3])
    od = os.path.join(core.OUT, PID)
    os.makedirs(od, exist_ok=True)
    tf = os.path.join(od, "replay.ndjson")
    if d.get("kind") == "tlc-counterexample-replayed":
        sf = os.path.join(od, "replay.sched")
        open(sf, "w").write("\n".join(d["schedule"]) + "\n")
        os.environ["VSCHED_STRICT"] = "1"
        rc, out = pc.record(exe, c, tf, seed=0, schedule=sf)
    else:
        lab = d["schedule"]
        if lab.startswith("seed="):
            rc, out = pc.record(exe, c, tf, seed=int(lab[5:]))
        elif lab.startswith("dfs:"):
            sf = os.path.join(od, "replay.sched")
            open(sf, "w").write("".join("i %s\n" % x for x in lab[4:].split(",") if x))
            rc, out = pc.record(exe, c, tf, seed=0, schedule=sf)
        else:
            rc, out = pc.record(exe, c, tf, seed=0)
    why = is_bad_exit(rc, out)
    print("replay exit=%d %s" % (rc, why or "clean exit"))
    print(open(tf).read()[-1500:])
    return 1 if why else 0
