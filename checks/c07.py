"""C07 — compressed output is a pure function of input, parameters, dictionary and calls.

  M  Determ.tla: design model of a reused compression context (index space, table entries that survive frames, geometry
     changes, sticky modes); TLC checks that no history lets a search see another frame's entries / tags / price mode.
     Two mutation configs (frame start keeps lowLimit; price mode never re-chosen) must be rejected: the invariants bite.
  G  TLC exports every history of the model's alphabet up to length 3 (DetermGen.cfg, 1110 histories).
  R  harness/detdrv.c replays histories on the real library (concrete frames, aborted and failing operations, resets, dictionary
     and multi-threaded frames), then runs a probe - a fixed call sequence - and digests the bytes produced; also fresh static
     contexts, shifted source / destination addresses, output-capacity sequences and worker counts.
  V  DetTrace.tla (TLC): every run of a probe must produce the digest of the fresh-context run.
"""
import os, re, json
from vlib import core

PID = "C07"
P_LEVEL, P_WLOG, P_HLOG, P_CLOG, P_SLOG, P_MML, P_TLEN, P_STRAT, P_LDM, P_CSUM, P_WORKERS, P_JOB, P_OVL = 100, 101, 102, 103, 104, 105, 106, 107, 160, 201, 400, 401, 402
P_ROW = 1011
KINDS = ["text", "mix", "records", "longrep", "blockdup", "repheavy", "period", "sparse"]


def export_histories(ck):
    r = core.run_tlc("Determ", "DetermGen.cfg", workers=1, tag="c07-gen", timeout=900)
    H = []
    for m in re.finditer(r'<<"HIST", <<(.*?)>>>>', r.out):
        H.append(re.findall(r'"(\w+)"', m.group(1)))
    ck.model("Determ(DetermGen: histories exported)", r, {"MaxHist": 3, "histories": len(H)})
    if len(H) < 1000:
        raise core.InfraError("history export produced %d histories" % len(H))
    return H


def make_probes(rng, tier):
    """-> list of (class, text-after-id, meta)"""
    probes = []

    def cuts(size, rng):
        c = []; left = size
        while left > 0 and len(c) < 12:
            n = min(left, rng.choice([1, 100, 5000, 70000, 131072, 300000, size]))
            c.append((rng.choice([0, 0, 0, 1]), n)); left -= n
        c.append((2, left))
        return c

    def add(cls, kind, size, dict_, mode, params, cutlist=None, mt=False):
        cl = cutlist if cutlist is not None else ([(2, size)] if mode == 0 else cuts(size, rng))
        txt = "%s %d %d %d %d %d %s %d %s" % (kind, size, rng.randint(1, 9999), dict_, mode, len(params),
                                                " ".join("%d %d" % kv for kv in params), len(cl), " ".join("%d %d" % c for c in cl))
        probes.append((cls, txt, {"mt": mt, "dict": dict_, "level": dict(params).get(P_LEVEL), "size": size, "bare": not params and not dict_}))

    lv = rng.choice([1, 2, 3, 4])
    add("fast", rng.choice(KINDS), rng.choice([20000, 140000, 400000]), rng.choice([0, 0, 1, 2, 3, 4]), rng.choice([0, 1]), [(P_LEVEL, lv)] + ([(P_CSUM, 1)] if rng.random() < 0.5 else []))
    lv = rng.choice([5, 6, 7, 8, 9, 10, 12])
    add("row", rng.choice(KINDS), rng.choice([30000, 140000, 300000]), rng.choice([0, 0, 1, 3]), rng.choice([0, 1]), [(P_LEVEL, lv)] + ([(P_ROW, rng.choice([1, 2]))] if rng.random() < 0.5 else []))
    add("lazyw", rng.choice(KINDS), rng.choice([140000, 300000]), 0, 1, [(P_LEVEL, rng.choice([5, 7, 9])), (P_WLOG, rng.choice([10, 14, 17]))])
    add("btopt", rng.choice(["text", "mix", "records"]), rng.choice([9000, 40000, 70000]), rng.choice([0, 0, 2]), rng.choice([0, 1]),
        rng.choice([[(P_LEVEL, 16)], [(P_LEVEL, 19)], [(P_LEVEL, 3), (P_STRAT, 7), (P_WLOG, 17)], [(P_LEVEL, 3), (P_STRAT, 9), (P_WLOG, 16)], [(P_LEVEL, 13)]]))
    # a digested dictionary used in copy mode by the optimal parser (3-byte hash table), on a context with a history
    add("cdictcopy", rng.choice(["text", "mix", "records"]), rng.choice([40000, 70000]), 4, rng.choice([0, 1]),
        rng.choice([[(P_LEVEL, 16), (1001, 2)], [(P_LEVEL, 19), (1001, 2)], [(P_LEVEL, 3), (P_STRAT, 7), (P_WLOG, 17), (1001, 2)], [(P_LEVEL, 17)]]))
    add("ldm", rng.choice(["blockdup", "longrep", "records", "copies"]), rng.choice([300000, 700000]), 0, rng.choice([0, 1]), [(P_LEVEL, rng.choice([1, 3, 6])), (P_LDM, 1), (P_WLOG, rng.choice([18, 20, 21]))])
    add("bare", rng.choice(KINDS), rng.choice([1000, 140000]), 0, 0, [])
    add("bare", rng.choice(KINDS), rng.choice([1000, 140000]), 0, 1, [])
    # multi-threaded probes: LDM with repeated regions; a btopt one whose last job is 8 bytes
    J = 524288
    add("mtldm", rng.choice(["copies", "copies", "blockdup", "longrep"]), rng.choice([J + 200000, 2 * J + 100000, 3 * J]), 0, rng.choice([0, 1]),
        [(P_LEVEL, rng.choice([1, 2, 3])), (P_WORKERS, 2), (P_JOB, 1), (P_LDM, 1), (P_WLOG, rng.choice([19, 21, 22]))], mt=True)
    add("mtldm", "copies1m", rng.choice([8 * J, 8 * J + 5000, 10 * J]), 0, 0, [(P_LEVEL, 3), (P_WORKERS, 2), (P_LDM, 1), (P_WLOG, rng.choice([22, 23]))] + ([(P_JOB, 1)] if rng.random() < 0.5 else []), mt=True)
    add("mtopt", rng.choice(["text", "mix"]), rng.choice([J + 8, J + 7, 2 * J + 8]), 0, 0,
        [(P_LEVEL, 3), (P_STRAT, 7), (P_WLOG, 17), (P_HLOG, 14), (P_CLOG, 14), (P_SLOG, 2), (P_TLEN, 16), (P_WORKERS, 2), (P_JOB, 1), (P_OVL, rng.choice([0, 3, 6]))], mt=True)
    add("mt", rng.choice(KINDS), rng.choice([J + 3000, 2 * J + 70000]), rng.choice([0, 1]), 1, [(P_LEVEL, rng.choice([1, 3, 5])), (P_WORKERS, 2), (P_JOB, 1)] + ([(P_CSUM, 1)] if rng.random() < 0.5 else []), mt=True)
    return probes


def concretise(rng, hist, meta):
    lvl = meta["level"] or 3
    out = []
    for op in hist:
        if op == "Fsame":
            out.append(rng.choice(["SAME", "SAME", "PART:1:2", "PART:3:4", "PART:2:3", "PART:1:4"]))
        elif op == "Fother":
            l2 = rng.choice([x for x in [1, 3, 5, 7, 9, 12, 16] if x != lvl])
            out.append("F:%d:%d:%s:%d:%d" % (l2, rng.choice([3000, 60000, 200000]) if l2 < 13 else 20000, rng.choice(KINDS), rng.randint(1, 999), rng.choice([0, 1, 2, 4, 8, 32])))
        elif op == "Fbig":
            out.append("F:%d:%d:%s:%d:%d" % (lvl, (rng.choice([1000000, 2500000]) if lvl < 13 else 150000), rng.choice(KINDS), rng.randint(1, 999), rng.choice([0, 0, 1])))
        elif op == "Ftiny":
            out.append("TINY:%d:%d" % (rng.choice([lvl, lvl, 16, 19]), rng.choice([1, 7, 8, 8, 9])))
        elif op == "Abort":
            sz = rng.choice([50000, 300000]) if lvl < 13 else 30000
            if meta.get("mt") and rng.random() < 0.7:
                out.append("MTA:%d:%d:%d" % (rng.choice([1, 2, 3]), 2500000, rng.choice([700001, 1300000, 2000001])))      # abandoned with jobs posted
            else:
                out.append("A:%d:%d:%d" % (rng.choice([lvl, 3, 7]), sz, rng.choice([1, 1000, sz // 2, sz - 1, sz])))
        elif op == "Fail":
            out.append("E:%d:%d" % (rng.choice([lvl, 1, 6]), rng.choice([20, 5000, 200000]) if lvl < 13 else 5000))
        elif op == "ResetS":
            out.append("RS")
        elif op == "ResetSP":
            out.append("RP")
        elif op == "Fdict":
            out.append("D:%d:%d" % (rng.choice([lvl, 3]), rng.choice([5000, 100000]) if lvl < 13 else 8000))
        elif op == "Fmt":
            out.append("MT:%d:%d:%d" % (rng.choice([1, 2, 3]), rng.choice([600000, 1200000]), rng.choice([0, 1])))
    return out


def run(tier):
    ck = core.Check(PID, tier, "model_checking")
    od = ck.outdir
    rng = ck.rng
    r = core.run_tlc("Determ", "Determ.cfg", tag="c07-mc", timeout=1800)
    ck.model("Determ (2 geometries, index space 12, histories of 5 ops)", r, {})
    if r.violated:
        ck.warn("Determ.tla violates %s (design model)" % r.invariant_violated)
    for cfg, inv in [("Determ_mutLow.cfg", "NoStaleReach"), ("Determ_mutPrice.cfg", "PriceChosenPerBlock")]:
        rm = core.run_tlc("Determ", cfg, tag="c07-" + cfg, timeout=600)
        ck.model("Determ mutation %s (expected to violate %s)" % (cfg, inv), rm, {"violated": rm.invariant_violated})
        if rm.invariant_violated != inv:
            ck.warn("mutation config %s was not rejected: invariant %s is vacuous" % (cfg, inv))
    H = export_histories(ck)
    exe = core.build_exe("detdrv", ["detdrv.c"], "san")
    nb = 4 if tier == "quick" else 40
    nh_per_probe = 7 if tier == "quick" else 30
    hi = 0
    rng.shuffle(H)
    for bi in range(nb):
        probes = make_probes(rng, tier)
        L = []; runmeta = []
        for pid, (cls, txt, meta) in enumerate(probes):
            L.append("PROBE %d %s" % (pid, txt))
            runs = [(0, 0, 0, 0, -1, [])]                                   # the fresh reference
            runs.append((0, rng.randint(1, 63), rng.randint(1, 63), 0, -1, []))           # other addresses
            runs.append((0, rng.choice([1, 3, 8, 32]), rng.choice([1, 5, 16]), rng.choice([1, 7, 1000, 4096, 100000]), -1, []))   # other output capacities
            if not meta["mt"] and meta["dict"] not in (1, 4):
                runs.append((1, 0, 0, 0, -1, []))                            # fresh static context
            if meta["mt"]:
                for w in (1, 3, 4):
                    runs.append((0, 0, 0, rng.choice([0, 1000]), w, []))
                runs.append((0, 0, 0, 0, 2, []))
            # directed histories every probe gets: the same data (or a part of it) compressed before with the same parameters
            dlist = [["SAME"], ["PART:3:4"], ["PART:1:2", "SAME"], ["TINY:%d:8" % (meta["level"] or 3)], ["TINY:19:7"]]
            if meta["mt"]:
                dlist += [["MTA:2:2500000:1300001", "RS"], ["MTA:3:2500000:2000000", "RS"]]
            for dh in dlist:
                runs.append((0, 0, 0, 0, (rng.choice([1, 2, 4]) if meta["mt"] else -1), dh, tuple("Fsame" if x[0] in "SP" else ("Abort" if x[0] in "MR" else "Ftiny") for x in dh)))
            for _ in range(nh_per_probe):
                h = H[hi % len(H)]; hi += 1
                ch = concretise(rng, h, meta)
                ctxm = 1 if (not meta["mt"] and meta["dict"] not in (1, 4) and rng.random() < 0.2) else 0
                if meta["bare"]:
                    pass
                runs.append((ctxm, rng.choice([0, 0, 5]), rng.choice([0, 0, 9]), rng.choice([0, 0, 0, 1000, 50000]), (rng.choice([1, 2, 4]) if meta["mt"] else -1), ch, h))
            for ru in runs:
                L.append("RUN %d %d %d %d %d %d H %s" % (pid, ru[0], ru[1], ru[2], ru[3], ru[4], " ".join(ru[5])))
                runmeta.append((cls, ru))
        sp = os.path.join(od, "det.script"); tp = os.path.join(od, "det.ndjson")
        open(sp, "w").write("\n".join(L) + "\n")
        rc, out = core.sh([exe, sp, tp], timeout=3000, env={"ASAN_OPTIONS": "detect_leaks=0", "STREAMDRV_LB": "1"})
        evs = core.read_ndjson(tp) if os.path.exists(tp) else []
        runs_seen = [e for e in evs if e["e"] == "run"]
        for e, (cls, ru) in zip(runs_seen, runmeta):
            habs = tuple(ru[6]) if len(ru) > 6 else ()
            ck.case(key=(cls, e.get("ctx"), habs, e.get("outcap", 0) > 0, e.get("srcoff", 0) > 0, e.get("workers")))
        if rc != 0:
            idx = len(runs_seen)
            runlines = [l for l in L if l.startswith("RUN")]
            culprit = runlines[idx] if idx < len(runlines) else "?"
            san = re.search(r"(ERROR: AddressSanitizer: [\w-]+[^\n]*|runtime error: [^\n]*)", out)
            why = san.group(1)[:220] if san else "driver died rc=%d %s" % (rc, (out.strip().splitlines() or [""])[-1][:160])
            pl = [l for l in L if l.startswith("PROBE %s " % culprit.split()[1])] if culprit != "?" else []
            rp = ck.replay_path("det-crash-%d.script" % bi, "\n".join(pl + [culprit]) + "\n")
            loc = re.search(r"((?:zstd|huf|fse)\w*\.[ch]:\d+)", out)
            ck.violation("%s on: %s" % (why, culprit[:200]), rp, ident="crash|%s" % (loc.group(1) if loc else why[:60]))
            evs.append({"e": "end"}); core.write_ndjson(tp, evs)
        if not evs:
            continue
        cur = evs; guard = 0
        try:
            ok, tr = core.validate_trace("DetTrace", "DetTrace.cfg", tp, tag="c07", timeout=900)
        except core.InfraError as ex:
            ck.warn("DetTrace could not evaluate batch %d: %s" % (bi, str(ex)[-200:])); continue
        ck.model("DetTrace(batch %d)" % bi, tr, {"lines": len(evs)})
        while not ok and guard < 10:
            guard += 1
            m = re.search(r"TRACE-REJECT matched[^\d]*(\d+)", tr.out.replace("\n", " "))
            pos = int(m.group(1)) if m else 0
            bad = cur[pos] if pos < len(cur) else {}
            pl = [l for l in L if l.startswith("PROBE %s " % bad.get("probe"))]
            cls = probes[bad["probe"]][0] if isinstance(bad.get("probe"), int) and bad["probe"] < len(probes) else "?"
            rl = "RUN %s %s %s %s %s %s H %s" % (bad.get("probe"), bad.get("ctx"), bad.get("srcoff"), bad.get("dstoff"), bad.get("outcap"), bad.get("workers"), bad.get("hist", ""))
            # re-run the pair (reference + this run) before reporting: a digest mismatch must repeat
            sp2 = os.path.join(od, "det2.script"); tp2 = os.path.join(od, "det2.ndjson")
            open(sp2, "w").write("\n".join(pl + ["RUN %s 0 0 0 0 -1 H" % bad.get("probe"), rl]) + "\n")
            core.sh([exe, sp2, tp2], timeout=900, env={"ASAN_OPTIONS": "detect_leaks=0"})
            ok2, tr2 = core.validate_trace("DetTrace", "DetTrace.cfg", tp2, tag="c07r", timeout=600)
            habs = [o.split(":")[0] for o in bad.get("hist", "").split()]
            if not ok2:
                rp = ck.replay_path("det-%d-%d.script" % (bi, pos), "\n".join(pl + ["RUN %s 0 0 0 0 -1 H" % bad.get("probe"), rl]) + "\n")
                what = "output differs from the fresh context's" if bad.get("ok") else "compression failed: %s" % bad.get("err")
                ck.violation("probe class %s: %s (ctx=%s workers=%s outcap=%s history: %s)" % (cls, what, bad.get("ctx"), bad.get("workers"), bad.get("outcap"), bad.get("hist", "")[:160]), rp,
                             ident="%s|ctx%s|%s|%s" % (cls, bad.get("ctx"), "ok" if bad.get("ok") else "err", ",".join(sorted(set(habs)))[:60]))
            else:
                ck.warn("digest mismatch not repeated on re-run (schedule-dependent?): class %s %s" % (cls, rl[:160]))
                if cls.startswith("mt"):
                    rp = ck.replay_path("det-%d-%d.script" % (bi, pos), "\n".join(pl + ["RUN %s 0 0 0 0 -1 H" % bad.get("probe"), rl]) + "\n")
                    ck.violation("probe class %s: output differed from the fresh context's in one execution and not in its repetition: depends on the schedule (workers=%s history: %s)" % (cls, bad.get("workers"), bad.get("hist", "")[:160]), rp,
                                 ident="%s|sched|%s" % (cls, ",".join(sorted(set(habs)))[:60]))
            rest = [e for e in cur[:pos] if e["e"] == "run" and e.get("nh") == 0 and e.get("ctx") == 0 and e.get("srcoff") == 0 and e.get("outcap") == 0 and e.get("workers") in (-1,)] + cur[pos + 1:]
            if not cur[pos + 1:]:
                break
            cur = rest
            core.write_ndjson(tp + ".rest", cur)
            ok, tr = core.validate_trace("DetTrace", "DetTrace.cfg", tp + ".rest", tag="c07", timeout=900)
        if ok:
            ck.traces(1)
        if bi < 1:
            ck.sample(L[:3] + [l for l in L if l.startswith("RUN")][8:14])
    # U: one batch under MemorySanitizer: output that depends on uninitialised memory is not a function of the calls
    exem = core.build_exe("detdrv_msan", ["detdrv.c"], "msan")
    probes = [p for p in make_probes(rng, tier) if not p[2]["mt"]]
    L = []
    for pid, (cls, txt, meta) in enumerate(probes):
        L.append("PROBE %d %s" % (pid, txt)); L.append("RUN %d 0 0 0 0 -1 H" % pid)
        for dh in (["SAME"], ["TINY:%d:8" % (meta["level"] or 3)], concretise(rng, H[hi % len(H)], meta)):
            hi += 1
            L.append("RUN %d 0 0 0 %d -1 H %s" % (pid, rng.choice([0, 1000]), " ".join(dh)))
    sp = os.path.join(od, "detm.script"); tp = os.path.join(od, "detm.ndjson")
    open(sp, "w").write("\n".join(L) + "\n")
    rc, out = core.sh([exem, sp, tp], timeout=2400, env={"MSAN_OPTIONS": "halt_on_error=1"})
    ck.cov["msan_runs"] = len([1 for l in (open(tp).read().splitlines() if os.path.exists(tp) else []) if '"e":"run"' in l])
    if rc != 0 and "MemorySanitizer" in out:
        fr = re.findall(r"#\d+ 0x[0-9a-f]+ in (\w+) [^\n]*?((?:zstd|huf|fse|hist)\w*\.[ch]:\d+)", out)
        rp = ck.replay_path("det-msan.script", "\n".join(L) + "\n")
        ck.violation("use of uninitialised memory (MemorySanitizer) in %s: the output depends on what the heap held" % " <- ".join(f[0] for f in fr[:5]), rp, ident="msan|%s" % (fr[0][1] if fr else "?"))
    elif rc != 0:
        ck.warn("MSan driver run failed rc=%d: %s" % (rc, (out.strip().splitlines() or [""])[-1][:160]))
    # S: multi-threaded probes under the deterministic scheduler (harness/vsched.c): same script, different seeded schedules
    from checks import poolcommon as pc
    exes = core.build_exe("detdrv_sched", ["detdrv.c", "vsched.c"], "sanq", extra_ldflags=pc.WRAP)
    nseeds = 4 if tier == "quick" else 40
    probes = [p for p in make_probes(rng, tier) if p[2]["mt"]]
    L = []
    for pid, (cls, txt, meta) in enumerate(probes):
        L.append("PROBE %d %s" % (pid, txt))
        L.append("RUN %d 0 0 0 0 -1 H" % pid)
        for w, dh in ((1, []), (3, ["TINY:3:8"]), (2, ["SAME"]), (4, ["MT:2:600000:1"])):
            L.append("RUN %d 0 0 0 %d %d H %s" % (pid, rng.choice([0, 5000]), w, " ".join(dh)))
    sp = os.path.join(od, "dets.script"); open(sp, "w").write("\n".join(L) + "\n")
    allev = []; bad_sched = 0
    for seed in range(nseeds):
        tp = os.path.join(od, "dets.ndjson")
        env = {"VSCHED_SEED": str(ck.seed * 7919 + seed), "ASAN_OPTIONS": "detect_leaks=0", "VSCHED_MAXSTEPS": "80000000"}
        if seed % 2:
            env.update({"VSCHED_POLICY": "pct", "VSCHED_PCT_D": str(2 + seed % 3), "VSCHED_PCT_K": "250"})
        rc, out = core.sh([exes, sp, tp], timeout=1800, env=env)
        evs = [e for e in (core.read_ndjson(tp) if os.path.exists(tp) else []) if e["e"] == "run"]
        if rc in (44, 45):
            ck.warn("schedule seed %d inconclusive (scheduler rc=%d)" % (seed, rc)); continue
        if rc != 0:
            rp = ck.replay_path("det-sched-%d.script" % seed, "\n".join(L) + "\n# VSCHED_SEED=%s %s\n" % (env["VSCHED_SEED"], env.get("VSCHED_POLICY", "")))
            ck.violation("multi-threaded probe under scheduler seed %s: driver rc=%d %s" % (env["VSCHED_SEED"], rc, (out.strip().splitlines() or [""])[-1][:200]), rp, ident="sched-crash|rc%d" % rc)
            continue
        for e in evs:
            e["seed"] = seed
            ck.case(key=("sched", e["probe"], e["workers"], e["hist"].split(":")[0], seed))
        allev += evs
    if allev:
        tp = os.path.join(od, "dets_all.ndjson"); core.write_ndjson(tp, allev + [{"e": "end"}])
        ok, tr = core.validate_trace("DetTrace", "DetTrace.cfg", tp, tag="c07s", timeout=900)
        ck.model("DetTrace(schedules)", tr, {"lines": len(allev), "seeds": nseeds})
        if not ok:
            m = re.search(r"TRACE-REJECT matched[^\d]*(\d+)", tr.out.replace("\n", " "))
            pos = int(m.group(1)) if m else 0
            bad = allev[pos] if pos < len(allev) else {}
            rp = ck.replay_path("det-sched-%d.script" % pos, "\n".join(L) + "\n# VSCHED_SEED=%d\n" % (ck.seed * 7919 + bad.get("seed", 0)))
            ck.violation("multi-threaded probe %s (%s): output differs between schedules / worker counts (workers=%s seed=%s history: %s)" % (bad.get("probe"), probes[bad["probe"]][0] if "probe" in bad else "?", bad.get("workers"), bad.get("seed"), bad.get("hist")), rp,
                         ident="sched|%s|%s" % (probes[bad["probe"]][0] if "probe" in bad else "?", bad.get("hist", "").split(":")[0]))
        else:
            ck.traces(1)
    ck.assumptions += ["a probe fixes the input bytes, the calls (directive, input size), the parameters and the dictionary; what varies is history, context kind, buffer addresses, output capacities, workers",
                       "multi-threaded schedules: those the OS produced (each MT probe is executed >= 8 times with 1-4 workers) plus seeded schedules of harness/vsched.c (random and PCT policies)",
                       "digest = XXH64 of the produced bytes plus their length"]
    return ck.finish(rule="one case per run of a probe; distinct by (probe class, context kind, abstract history, placement / capacity / worker variation)")


def replay(path):
    exe = core.build_exe("detdrv", ["detdrv.c"], "san")
    od = os.path.join(core.OUT, PID); os.makedirs(od, exist_ok=True)
    tp = os.path.join(od, "replay.ndjson")
    rc, out = core.sh([exe, path, tp], timeout=900, env={"ASAN_OPTIONS": "detect_leaks=0"})
    print(open(tp).read()[-1500:] if os.path.exists(tp) else out[-1500:])
    ok, tr = core.validate_trace("DetTrace", "DetTrace.cfg", tp, tag="c07-replay", timeout=600)
    print("\n".join(core.trace_diag(tr)))
    return 0 if (ok and rc == 0) else 1
