"""C20 — seekable format: any byte range reads back exactly.

  M  Seekable.tla: TLC checks for every cut of a small content into frames (maxFrameSize, explicit endFrame, empty frames) and
     every history of reads that the transcribed read loop returns exactly content[offset, offset+len) and keeps its cursor
     consistent with the table.
  V  harness/seekdrv.c (unity build of contrib/seekable_format): archives from the real compressor under generated call
     histories; independent walk of frames + seek table vs accessors; regular decoder; read histories (boundary offsets around
     frame edges, backwards / forwards / overlapping) through memory, FILE and callback access; field-level corruptions.
     SeekTrace.tla (TLC): contract on every event (alarm) and, tight, the reader's cursor equals Seekable.tla's loop run on the
     real frame sizes (drift warning).
"""
import os, re, json
from vlib import core

PID = "C20"
KINDS = ["text", "rand", "mix", "records", "zero", "longrep"]


def build():
    inc = "-I%s/contrib/seekable_format -DXXH_NAMESPACE=ZSTD_" % core.REPO
    d = core.REPO + "/contrib/seekable_format/"
    return core.build_exe("seekdrv", ["seekdrv.c"], "san", extra_cflags=inc, extra_deps=[d + "zstdseek_compress.c", d + "zstdseek_decompress.c", d + "zstd_seekable.h"])


def gen_scenario(rng, tier):
    size = rng.choice([1, 10, 999, 1000, 1001, 5500, 70000, 300000] + ([2000000] if tier != "quick" else []))
    maxf = rng.choice([1, 7, 1000, 4096, 65536, 1 << 20, 0])
    if maxf and size // maxf > 3000:
        maxf = max(maxf, size // 3000 + 1)
    ends = sorted(set(rng.randint(0, size) for _ in range(rng.choice([0, 0, 1, 3, 6]))))
    if rng.random() < 0.3 and ends:
        ends.append(ends[-1])       # two endFrame calls at the same position
        ends.sort()
    chk = rng.choice([0, 1])
    L = ["ARCH %d %d %d %s %d %d %d %d %s" % (rng.choice([1, 3, 9]), chk, maxf, rng.choice(KINDS), size, rng.randint(1, 9999),
                                                rng.choice([1, 7, 700, 100000]) if size < 20000 else rng.choice([700, 100000]), rng.choice([1, 9, 64, 100000]) if size < 20000 else rng.choice([64, 100000]),
                                                " ".join(map(str, ends)))]
    L += ["WALK", "REG", "FRAMES"]
    # boundaries of interest: frame edges are multiples of maxf and the explicit ends
    edges = sorted(set([0, size] + ends + ([k * maxf for k in range(1, min(size // maxf + 1, 40))] if maxf else [])))
    def rd():
        e = rng.choice(edges)
        off = max(0, min(size - 1, e + rng.choice([-2, -1, 0, 1, 2, rng.randint(-500, 500)])))
        ln = rng.choice([1, 2, 10, maxf or 100, (maxf or 100) + 1, 3 * (maxf or 100), size])
        ln = max(1, min(ln, size - off))
        return "%d:%d" % (off, ln)
    if size > 0:
        for mode in ("buff", "file", "cb"):
            L.append("READ %s %s" % (mode, " ".join(rd() for _ in range(rng.choice([3, 8, 15])))))
        for _ in range(6):
            what = rng.choice(["flip", "flip", "trunc", "nframes", "word"])
            a = {"flip": rng.randint(0, 1 << 30), "trunc": rng.choice([1, 4, 9, 13, 100]), "nframes": rng.choice([0, 1, 2 ** 27, 2 ** 27 + 1, 4000000000, 4294967295]), "word": rng.randint(0, 12)}[what]
            b = {"flip": rng.randint(1, 255), "trunc": 0, "nframes": 0, "word": rng.choice([0, 1, 4294967295, 2 ** 31, 1 << 30])}[what]
            L.append("CORRUPT %s %s %d %d %s" % (what, rng.choice(["buff", "file", "cb"]), a, b, " ".join(rd() for _ in range(3))))
    return L


def gen_big_table(rng):
    """a seek table larger than the reader's 128 KB refill buffer (12-byte entries: checksums on), read in pieces"""
    nfr = rng.choice([33000, 45000]); maxf = rng.choice([2, 3]); size = nfr * maxf
    L = ["ARCH 1 1 %d text %d %d 100000 100000" % (maxf, size, rng.randint(1, 9999)), "WALK", "REG"]
    for mode in ("buff", "file"):
        L.append("READ %s %s" % (mode, " ".join("%d:%d" % (rng.randint(size * 3 // 4, size - 50), rng.choice([1, 7, 40])) for _ in range(6))))
    return L


def run(tier):
    ck = core.Check(PID, tier, "model_checking")
    od = ck.outdir
    for cfg in ["Seekable"] + (["Seekable_big"] if tier != "quick" else []):
        r = core.run_tlc("Seekable", cfg + ".cfg", tag="c20-" + cfg, timeout=1800, deadlock=False, jvm="-Xmx12g")
        ck.model("Seekable(" + cfg + ")", r, {})
        if r.violated:
            ck.warn("Seekable.tla: %s violated (design model)" % r.invariant_violated)
    exe = build()
    scen = [gen_scenario(ck.rng, tier) for _ in range(60 if tier == "quick" else 800)]
    scen += [gen_big_table(ck.rng) for _ in range(1 if tier == "quick" else 6)]
    per = 10
    for bi in range(0, len(scen), per):
        batch = scen[bi:bi + per]
        lines = [l for s in batch for l in s]
        sp = os.path.join(od, "s.script"); tp = os.path.join(od, "s.ndjson")
        open(sp, "w").write("\n".join(lines) + "\n")
        rc, out = core.sh([exe, sp, tp], timeout=300, env={"ASAN_OPTIONS": "detect_leaks=0:allocator_may_return_null=1:max_allocation_size_mb=4096", "STREAMDRV_LB": "1"})
        evs = core.read_ndjson(tp) if os.path.exists(tp) else []
        for e in evs:
            ck.case(key=(e["e"], e.get("mode"), e.get("what"), e.get("ok"), min(e.get("off", 0), 5), min(e.get("len", 0), 5), e.get("frames")))
        if rc != 0:
            # the scenario in which the driver died
            narch = sum(1 for e in evs if e["e"] == "arch")
            culprit = batch[max(narch - 1, 0)]
            san = re.search(r"(ERROR: AddressSanitizer: [\w-]+[^\n]*|runtime error: [^\n]*)", out)
            why = san.group(1)[:220] if san else "driver died rc=%d %s" % (rc, (out.strip().splitlines() or [""])[-1][:160])
            last = [e for e in evs if e["e"] in ("corrupt", "read", "init", "cinit")][-1:] 
            sp1 = os.path.join(od, "s1.script"); open(sp1, "w").write("\n".join(culprit) + "\n")
            rc1, out1 = core.sh([exe, sp1, os.path.join(od, "s1.ndjson")], timeout=120, env={"ASAN_OPTIONS": "detect_leaks=0:allocator_may_return_null=1:max_allocation_size_mb=4096"})
            if rc1 != 0:
                loc = re.search(r"(zstdseek_\w+\.c:\d+)", out1)
                rp = ck.replay_path("seek-crash-%d.script" % (bi + narch), "\n".join(culprit) + "\n")
                ck.violation("%s (last event %s)" % (why, json.dumps(last)[:200]), rp, ident="crash|%s" % (loc.group(1) if loc else why[:50]))
            else:
                ck.warn("driver failure not reproduced")
            continue
        ok, tr = core.validate_trace("SeekTrace", "SeekTrace0.cfg", tp, tag="c20", timeout=900)
        ck.model("SeekTrace(batch %d)" % bi, tr, {"lines": len(evs)})
        cur = evs; guard = 0
        while not ok and guard < 10:
            guard += 1
            m = re.search(r"TRACE-REJECT matched[^\d]*(\d+)", tr.out.replace("\n", " "))
            pos = int(m.group(1)) if m else 0
            bad = cur[pos] if pos < len(cur) else {}
            ai = sum(1 for e in cur[:pos + 1] if e["e"] == "arch")
            small = {k: v for k, v in bad.items() if k != "sizes"}
            rp = ck.replay_path("seek-%d-%d.json" % (bi, pos), {"property": PID, "event": small, "scenario": batch[min(max(ai - 1, 0), len(batch) - 1)]})
            ck.violation("SeekTrace rejected %s" % json.dumps(small)[:300], rp, ident="%s|%s|%s" % (bad.get("e"), bad.get("mode", ""), bad.get("err", "")))
            nxt = pos + 1
            while nxt < len(cur) and cur[nxt]["e"] != "arch":
                nxt += 1
            if nxt >= len(cur):
                break
            cur = cur[nxt:]
            core.write_ndjson(tp + ".rest", cur)
            ok, tr = core.validate_trace("SeekTrace", "SeekTrace0.cfg", tp + ".rest", tag="c20", timeout=900)
        if ok:
            ck.traces(len(batch))
            okt, trt = core.validate_trace("SeekTrace", "SeekTrace1.cfg", tp, tag="c20t", timeout=900)
            if not okt:
                ck.warn("MODEL-DRIFT: reader cursor differs from Seekable.tla's read loop: " + " ".join(core.trace_diag(trt))[:300])
    for s in scen[:2]:
        ck.sample(s[:8])
    ck.assumptions += ["read histories stay inside the content (offset+length <= size), as the property states",
                       "corruptions: byte flips anywhere, truncation, footer frame count, seek-table words; with checksums off a damaged frame may legitimately decode to other bytes, so only memory safety is required there"]
    return ck.finish(rule="one case per event (archive, table, read, corrupted read); distinct by (event, access mode, corruption kind, verdict, size classes)")


def replay(path):
    exe = build()
    od = os.path.join(core.OUT, PID); os.makedirs(od, exist_ok=True)
    if path.endswith(".json"):
        d = json.load(open(path)); sp = os.path.join(od, "replay.script"); open(sp, "w").write("\n".join(d["scenario"]) + "\n")
    else:
        sp = path
    tp = os.path.join(od, "replay.ndjson")
    rc, out = core.sh([exe, sp, tp], timeout=600, env={"ASAN_OPTIONS": "detect_leaks=0:allocator_may_return_null=1"})
    if rc != 0:
        print(out[-1500:]); return 1
    ok, tr = core.validate_trace("SeekTrace", "SeekTrace0.cfg", tp, tag="c20-replay")
    print("SeekTrace %s" % ("accepted" if ok else "REJECTED")); print("\n".join(core.trace_diag(tr))[:1500])
    return 0 if ok else 1
